
type __ = Obj.t

(** val negb : bool -> bool **)

let negb = function
| true -> false
| false -> true

type nat =
| O
| S of nat

(** val option_map : ('a1 -> 'a2) -> 'a1 option -> 'a2 option **)

let option_map f = function
| Some a -> Some (f a)
| None -> None

(** val fst : ('a1 * 'a2) -> 'a1 **)

let fst = function
| (x, _) -> x

(** val snd : ('a1 * 'a2) -> 'a2 **)

let snd = function
| (_, y) -> y

(** val length : 'a1 list -> nat **)

let rec length = function
| [] -> O
| _ :: l' -> S (length l')

(** val app : 'a1 list -> 'a1 list -> 'a1 list **)

let rec app l m =
  match l with
  | [] -> m
  | a :: l1 -> a :: (app l1 m)

type comparison =
| Eq
| Lt
| Gt

(** val compOpp : comparison -> comparison **)

let compOpp = function
| Eq -> Eq
| Lt -> Gt
| Gt -> Lt

module Coq__1 = struct
 (** val add : nat -> nat -> nat **)
 let rec add n0 m =
   match n0 with
   | O -> m
   | S p -> S (add p m)
end
include Coq__1

type byte =
| X00
| X01
| X02
| X03
| X04
| X05
| X06
| X07
| X08
| X09
| X0a
| X0b
| X0c
| X0d
| X0e
| X0f
| X10
| X11
| X12
| X13
| X14
| X15
| X16
| X17
| X18
| X19
| X1a
| X1b
| X1c
| X1d
| X1e
| X1f
| X20
| X21
| X22
| X23
| X24
| X25
| X26
| X27
| X28
| X29
| X2a
| X2b
| X2c
| X2d
| X2e
| X2f
| X30
| X31
| X32
| X33
| X34
| X35
| X36
| X37
| X38
| X39
| X3a
| X3b
| X3c
| X3d
| X3e
| X3f
| X40
| X41
| X42
| X43
| X44
| X45
| X46
| X47
| X48
| X49
| X4a
| X4b
| X4c
| X4d
| X4e
| X4f
| X50
| X51
| X52
| X53
| X54
| X55
| X56
| X57
| X58
| X59
| X5a
| X5b
| X5c
| X5d
| X5e
| X5f
| X60
| X61
| X62
| X63
| X64
| X65
| X66
| X67
| X68
| X69
| X6a
| X6b
| X6c
| X6d
| X6e
| X6f
| X70
| X71
| X72
| X73
| X74
| X75
| X76
| X77
| X78
| X79
| X7a
| X7b
| X7c
| X7d
| X7e
| X7f
| X80
| X81
| X82
| X83
| X84
| X85
| X86
| X87
| X88
| X89
| X8a
| X8b
| X8c
| X8d
| X8e
| X8f
| X90
| X91
| X92
| X93
| X94
| X95
| X96
| X97
| X98
| X99
| X9a
| X9b
| X9c
| X9d
| X9e
| X9f
| Xa0
| Xa1
| Xa2
| Xa3
| Xa4
| Xa5
| Xa6
| Xa7
| Xa8
| Xa9
| Xaa
| Xab
| Xac
| Xad
| Xae
| Xaf
| Xb0
| Xb1
| Xb2
| Xb3
| Xb4
| Xb5
| Xb6
| Xb7
| Xb8
| Xb9
| Xba
| Xbb
| Xbc
| Xbd
| Xbe
| Xbf
| Xc0
| Xc1
| Xc2
| Xc3
| Xc4
| Xc5
| Xc6
| Xc7
| Xc8
| Xc9
| Xca
| Xcb
| Xcc
| Xcd
| Xce
| Xcf
| Xd0
| Xd1
| Xd2
| Xd3
| Xd4
| Xd5
| Xd6
| Xd7
| Xd8
| Xd9
| Xda
| Xdb
| Xdc
| Xdd
| Xde
| Xdf
| Xe0
| Xe1
| Xe2
| Xe3
| Xe4
| Xe5
| Xe6
| Xe7
| Xe8
| Xe9
| Xea
| Xeb
| Xec
| Xed
| Xee
| Xef
| Xf0
| Xf1
| Xf2
| Xf3
| Xf4
| Xf5
| Xf6
| Xf7
| Xf8
| Xf9
| Xfa
| Xfb
| Xfc
| Xfd
| Xfe
| Xff

(** val to_bits :
    byte -> bool * (bool * (bool * (bool * (bool * (bool * (bool * bool)))))) **)

let to_bits = function
| X00 -> (false, (false, (false, (false, (false, (false, (false, false)))))))
| X01 -> (true, (false, (false, (false, (false, (false, (false, false)))))))
| X02 -> (false, (true, (false, (false, (false, (false, (false, false)))))))
| X03 -> (true, (true, (false, (false, (false, (false, (false, false)))))))
| X04 -> (false, (false, (true, (false, (false, (false, (false, false)))))))
| X05 -> (true, (false, (true, (false, (false, (false, (false, false)))))))
| X06 -> (false, (true, (true, (false, (false, (false, (false, false)))))))
| X07 -> (true, (true, (true, (false, (false, (false, (false, false)))))))
| X08 -> (false, (false, (false, (true, (false, (false, (false, false)))))))
| X09 -> (true, (false, (false, (true, (false, (false, (false, false)))))))
| X0a -> (false, (true, (false, (true, (false, (false, (false, false)))))))
| X0b -> (true, (true, (false, (true, (false, (false, (false, false)))))))
| X0c -> (false, (false, (true, (true, (false, (false, (false, false)))))))
| X0d -> (true, (false, (true, (true, (false, (false, (false, false)))))))
| X0e -> (false, (true, (true, (true, (false, (false, (false, false)))))))
| X0f -> (true, (true, (true, (true, (false, (false, (false, false)))))))
| X10 -> (false, (false, (false, (false, (true, (false, (false, false)))))))
| X11 -> (true, (false, (false, (false, (true, (false, (false, false)))))))
| X12 -> (false, (true, (false, (false, (true, (false, (false, false)))))))
| X13 -> (true, (true, (false, (false, (true, (false, (false, false)))))))
| X14 -> (false, (false, (true, (false, (true, (false, (false, false)))))))
| X15 -> (true, (false, (true, (false, (true, (false, (false, false)))))))
| X16 -> (false, (true, (true, (false, (true, (false, (false, false)))))))
| X17 -> (true, (true, (true, (false, (true, (false, (false, false)))))))
| X18 -> (false, (false, (false, (true, (true, (false, (false, false)))))))
| X19 -> (true, (false, (false, (true, (true, (false, (false, false)))))))
| X1a -> (false, (true, (false, (true, (true, (false, (false, false)))))))
| X1b -> (true, (true, (false, (true, (true, (false, (false, false)))))))
| X1c -> (false, (false, (true, (true, (true, (false, (false, false)))))))
| X1d -> (true, (false, (true, (true, (true, (false, (false, false)))))))
| X1e -> (false, (true, (true, (true, (true, (false, (false, false)))))))
| X1f -> (true, (true, (true, (true, (true, (false, (false, false)))))))
| X20 -> (false, (false, (false, (false, (false, (true, (false, false)))))))
| X21 -> (true, (false, (false, (false, (false, (true, (false, false)))))))
| X22 -> (false, (true, (false, (false, (false, (true, (false, false)))))))
| X23 -> (true, (true, (false, (false, (false, (true, (false, false)))))))
| X24 -> (false, (false, (true, (false, (false, (true, (false, false)))))))
| X25 -> (true, (false, (true, (false, (false, (true, (false, false)))))))
| X26 -> (false, (true, (true, (false, (false, (true, (false, false)))))))
| X27 -> (true, (true, (true, (false, (false, (true, (false, false)))))))
| X28 -> (false, (false, (false, (true, (false, (true, (false, false)))))))
| X29 -> (true, (false, (false, (true, (false, (true, (false, false)))))))
| X2a -> (false, (true, (false, (true, (false, (true, (false, false)))))))
| X2b -> (true, (true, (false, (true, (false, (true, (false, false)))))))
| X2c -> (false, (false, (true, (true, (false, (true, (false, false)))))))
| X2d -> (true, (false, (true, (true, (false, (true, (false, false)))))))
| X2e -> (false, (true, (true, (true, (false, (true, (false, false)))))))
| X2f -> (true, (true, (true, (true, (false, (true, (false, false)))))))
| X30 -> (false, (false, (false, (false, (true, (true, (false, false)))))))
| X31 -> (true, (false, (false, (false, (true, (true, (false, false)))))))
| X32 -> (false, (true, (false, (false, (true, (true, (false, false)))))))
| X33 -> (true, (true, (false, (false, (true, (true, (false, false)))))))
| X34 -> (false, (false, (true, (false, (true, (true, (false, false)))))))
| X35 -> (true, (false, (true, (false, (true, (true, (false, false)))))))
| X36 -> (false, (true, (true, (false, (true, (true, (false, false)))))))
| X37 -> (true, (true, (true, (false, (true, (true, (false, false)))))))
| X38 -> (false, (false, (false, (true, (true, (true, (false, false)))))))
| X39 -> (true, (false, (false, (true, (true, (true, (false, false)))))))
| X3a -> (false, (true, (false, (true, (true, (true, (false, false)))))))
| X3b -> (true, (true, (false, (true, (true, (true, (false, false)))))))
| X3c -> (false, (false, (true, (true, (true, (true, (false, false)))))))
| X3d -> (true, (false, (true, (true, (true, (true, (false, false)))))))
| X3e -> (false, (true, (true, (true, (true, (true, (false, false)))))))
| X3f -> (true, (true, (true, (true, (true, (true, (false, false)))))))
| X40 -> (false, (false, (false, (false, (false, (false, (true, false)))))))
| X41 -> (true, (false, (false, (false, (false, (false, (true, false)))))))
| X42 -> (false, (true, (false, (false, (false, (false, (true, false)))))))
| X43 -> (true, (true, (false, (false, (false, (false, (true, false)))))))
| X44 -> (false, (false, (true, (false, (false, (false, (true, false)))))))
| X45 -> (true, (false, (true, (false, (false, (false, (true, false)))))))
| X46 -> (false, (true, (true, (false, (false, (false, (true, false)))))))
| X47 -> (true, (true, (true, (false, (false, (false, (true, false)))))))
| X48 -> (false, (false, (false, (true, (false, (false, (true, false)))))))
| X49 -> (true, (false, (false, (true, (false, (false, (true, false)))))))
| X4a -> (false, (true, (false, (true, (false, (false, (true, false)))))))
| X4b -> (true, (true, (false, (true, (false, (false, (true, false)))))))
| X4c -> (false, (false, (true, (true, (false, (false, (true, false)))))))
| X4d -> (true, (false, (true, (true, (false, (false, (true, false)))))))
| X4e -> (false, (true, (true, (true, (false, (false, (true, false)))))))
| X4f -> (true, (true, (true, (true, (false, (false, (true, false)))))))
| X50 -> (false, (false, (false, (false, (true, (false, (true, false)))))))
| X51 -> (true, (false, (false, (false, (true, (false, (true, false)))))))
| X52 -> (false, (true, (false, (false, (true, (false, (true, false)))))))
| X53 -> (true, (true, (false, (false, (true, (false, (true, false)))))))
| X54 -> (false, (false, (true, (false, (true, (false, (true, false)))))))
| X55 -> (true, (false, (true, (false, (true, (false, (true, false)))))))
| X56 -> (false, (true, (true, (false, (true, (false, (true, false)))))))
| X57 -> (true, (true, (true, (false, (true, (false, (true, false)))))))
| X58 -> (false, (false, (false, (true, (true, (false, (true, false)))))))
| X59 -> (true, (false, (false, (true, (true, (false, (true, false)))))))
| X5a -> (false, (true, (false, (true, (true, (false, (true, false)))))))
| X5b -> (true, (true, (false, (true, (true, (false, (true, false)))))))
| X5c -> (false, (false, (true, (true, (true, (false, (true, false)))))))
| X5d -> (true, (false, (true, (true, (true, (false, (true, false)))))))
| X5e -> (false, (true, (true, (true, (true, (false, (true, false)))))))
| X5f -> (true, (true, (true, (true, (true, (false, (true, false)))))))
| X60 -> (false, (false, (false, (false, (false, (true, (true, false)))))))
| X61 -> (true, (false, (false, (false, (false, (true, (true, false)))))))
| X62 -> (false, (true, (false, (false, (false, (true, (true, false)))))))
| X63 -> (true, (true, (false, (false, (false, (true, (true, false)))))))
| X64 -> (false, (false, (true, (false, (false, (true, (true, false)))))))
| X65 -> (true, (false, (true, (false, (false, (true, (true, false)))))))
| X66 -> (false, (true, (true, (false, (false, (true, (true, false)))))))
| X67 -> (true, (true, (true, (false, (false, (true, (true, false)))))))
| X68 -> (false, (false, (false, (true, (false, (true, (true, false)))))))
| X69 -> (true, (false, (false, (true, (false, (true, (true, false)))))))
| X6a -> (false, (true, (false, (true, (false, (true, (true, false)))))))
| X6b -> (true, (true, (false, (true, (false, (true, (true, false)))))))
| X6c -> (false, (false, (true, (true, (false, (true, (true, false)))))))
| X6d -> (true, (false, (true, (true, (false, (true, (true, false)))))))
| X6e -> (false, (true, (true, (true, (false, (true, (true, false)))))))
| X6f -> (true, (true, (true, (true, (false, (true, (true, false)))))))
| X70 -> (false, (false, (false, (false, (true, (true, (true, false)))))))
| X71 -> (true, (false, (false, (false, (true, (true, (true, false)))))))
| X72 -> (false, (true, (false, (false, (true, (true, (true, false)))))))
| X73 -> (true, (true, (false, (false, (true, (true, (true, false)))))))
| X74 -> (false, (false, (true, (false, (true, (true, (true, false)))))))
| X75 -> (true, (false, (true, (false, (true, (true, (true, false)))))))
| X76 -> (false, (true, (true, (false, (true, (true, (true, false)))))))
| X77 -> (true, (true, (true, (false, (true, (true, (true, false)))))))
| X78 -> (false, (false, (false, (true, (true, (true, (true, false)))))))
| X79 -> (true, (false, (false, (true, (true, (true, (true, false)))))))
| X7a -> (false, (true, (false, (true, (true, (true, (true, false)))))))
| X7b -> (true, (true, (false, (true, (true, (true, (true, false)))))))
| X7c -> (false, (false, (true, (true, (true, (true, (true, false)))))))
| X7d -> (true, (false, (true, (true, (true, (true, (true, false)))))))
| X7e -> (false, (true, (true, (true, (true, (true, (true, false)))))))
| X7f -> (true, (true, (true, (true, (true, (true, (true, false)))))))
| X80 -> (false, (false, (false, (false, (false, (false, (false, true)))))))
| X81 -> (true, (false, (false, (false, (false, (false, (false, true)))))))
| X82 -> (false, (true, (false, (false, (false, (false, (false, true)))))))
| X83 -> (true, (true, (false, (false, (false, (false, (false, true)))))))
| X84 -> (false, (false, (true, (false, (false, (false, (false, true)))))))
| X85 -> (true, (false, (true, (false, (false, (false, (false, true)))))))
| X86 -> (false, (true, (true, (false, (false, (false, (false, true)))))))
| X87 -> (true, (true, (true, (false, (false, (false, (false, true)))))))
| X88 -> (false, (false, (false, (true, (false, (false, (false, true)))))))
| X89 -> (true, (false, (false, (true, (false, (false, (false, true)))))))
| X8a -> (false, (true, (false, (true, (false, (false, (false, true)))))))
| X8b -> (true, (true, (false, (true, (false, (false, (false, true)))))))
| X8c -> (false, (false, (true, (true, (false, (false, (false, true)))))))
| X8d -> (true, (false, (true, (true, (false, (false, (false, true)))))))
| X8e -> (false, (true, (true, (true, (false, (false, (false, true)))))))
| X8f -> (true, (true, (true, (true, (false, (false, (false, true)))))))
| X90 -> (false, (false, (false, (false, (true, (false, (false, true)))))))
| X91 -> (true, (false, (false, (false, (true, (false, (false, true)))))))
| X92 -> (false, (true, (false, (false, (true, (false, (false, true)))))))
| X93 -> (true, (true, (false, (false, (true, (false, (false, true)))))))
| X94 -> (false, (false, (true, (false, (true, (false, (false, true)))))))
| X95 -> (true, (false, (true, (false, (true, (false, (false, true)))))))
| X96 -> (false, (true, (true, (false, (true, (false, (false, true)))))))
| X97 -> (true, (true, (true, (false, (true, (false, (false, true)))))))
| X98 -> (false, (false, (false, (true, (true, (false, (false, true)))))))
| X99 -> (true, (false, (false, (true, (true, (false, (false, true)))))))
| X9a -> (false, (true, (false, (true, (true, (false, (false, true)))))))
| X9b -> (true, (true, (false, (true, (true, (false, (false, true)))))))
| X9c -> (false, (false, (true, (true, (true, (false, (false, true)))))))
| X9d -> (true, (false, (true, (true, (true, (false, (false, true)))))))
| X9e -> (false, (true, (true, (true, (true, (false, (false, true)))))))
| X9f -> (true, (true, (true, (true, (true, (false, (false, true)))))))
| Xa0 -> (false, (false, (false, (false, (false, (true, (false, true)))))))
| Xa1 -> (true, (false, (false, (false, (false, (true, (false, true)))))))
| Xa2 -> (false, (true, (false, (false, (false, (true, (false, true)))))))
| Xa3 -> (true, (true, (false, (false, (false, (true, (false, true)))))))
| Xa4 -> (false, (false, (true, (false, (false, (true, (false, true)))))))
| Xa5 -> (true, (false, (true, (false, (false, (true, (false, true)))))))
| Xa6 -> (false, (true, (true, (false, (false, (true, (false, true)))))))
| Xa7 -> (true, (true, (true, (false, (false, (true, (false, true)))))))
| Xa8 -> (false, (false, (false, (true, (false, (true, (false, true)))))))
| Xa9 -> (true, (false, (false, (true, (false, (true, (false, true)))))))
| Xaa -> (false, (true, (false, (true, (false, (true, (false, true)))))))
| Xab -> (true, (true, (false, (true, (false, (true, (false, true)))))))
| Xac -> (false, (false, (true, (true, (false, (true, (false, true)))))))
| Xad -> (true, (false, (true, (true, (false, (true, (false, true)))))))
| Xae -> (false, (true, (true, (true, (false, (true, (false, true)))))))
| Xaf -> (true, (true, (true, (true, (false, (true, (false, true)))))))
| Xb0 -> (false, (false, (false, (false, (true, (true, (false, true)))))))
| Xb1 -> (true, (false, (false, (false, (true, (true, (false, true)))))))
| Xb2 -> (false, (true, (false, (false, (true, (true, (false, true)))))))
| Xb3 -> (true, (true, (false, (false, (true, (true, (false, true)))))))
| Xb4 -> (false, (false, (true, (false, (true, (true, (false, true)))))))
| Xb5 -> (true, (false, (true, (false, (true, (true, (false, true)))))))
| Xb6 -> (false, (true, (true, (false, (true, (true, (false, true)))))))
| Xb7 -> (true, (true, (true, (false, (true, (true, (false, true)))))))
| Xb8 -> (false, (false, (false, (true, (true, (true, (false, true)))))))
| Xb9 -> (true, (false, (false, (true, (true, (true, (false, true)))))))
| Xba -> (false, (true, (false, (true, (true, (true, (false, true)))))))
| Xbb -> (true, (true, (false, (true, (true, (true, (false, true)))))))
| Xbc -> (false, (false, (true, (true, (true, (true, (false, true)))))))
| Xbd -> (true, (false, (true, (true, (true, (true, (false, true)))))))
| Xbe -> (false, (true, (true, (true, (true, (true, (false, true)))))))
| Xbf -> (true, (true, (true, (true, (true, (true, (false, true)))))))
| Xc0 -> (false, (false, (false, (false, (false, (false, (true, true)))))))
| Xc1 -> (true, (false, (false, (false, (false, (false, (true, true)))))))
| Xc2 -> (false, (true, (false, (false, (false, (false, (true, true)))))))
| Xc3 -> (true, (true, (false, (false, (false, (false, (true, true)))))))
| Xc4 -> (false, (false, (true, (false, (false, (false, (true, true)))))))
| Xc5 -> (true, (false, (true, (false, (false, (false, (true, true)))))))
| Xc6 -> (false, (true, (true, (false, (false, (false, (true, true)))))))
| Xc7 -> (true, (true, (true, (false, (false, (false, (true, true)))))))
| Xc8 -> (false, (false, (false, (true, (false, (false, (true, true)))))))
| Xc9 -> (true, (false, (false, (true, (false, (false, (true, true)))))))
| Xca -> (false, (true, (false, (true, (false, (false, (true, true)))))))
| Xcb -> (true, (true, (false, (true, (false, (false, (true, true)))))))
| Xcc -> (false, (false, (true, (true, (false, (false, (true, true)))))))
| Xcd -> (true, (false, (true, (true, (false, (false, (true, true)))))))
| Xce -> (false, (true, (true, (true, (false, (false, (true, true)))))))
| Xcf -> (true, (true, (true, (true, (false, (false, (true, true)))))))
| Xd0 -> (false, (false, (false, (false, (true, (false, (true, true)))))))
| Xd1 -> (true, (false, (false, (false, (true, (false, (true, true)))))))
| Xd2 -> (false, (true, (false, (false, (true, (false, (true, true)))))))
| Xd3 -> (true, (true, (false, (false, (true, (false, (true, true)))))))
| Xd4 -> (false, (false, (true, (false, (true, (false, (true, true)))))))
| Xd5 -> (true, (false, (true, (false, (true, (false, (true, true)))))))
| Xd6 -> (false, (true, (true, (false, (true, (false, (true, true)))))))
| Xd7 -> (true, (true, (true, (false, (true, (false, (true, true)))))))
| Xd8 -> (false, (false, (false, (true, (true, (false, (true, true)))))))
| Xd9 -> (true, (false, (false, (true, (true, (false, (true, true)))))))
| Xda -> (false, (true, (false, (true, (true, (false, (true, true)))))))
| Xdb -> (true, (true, (false, (true, (true, (false, (true, true)))))))
| Xdc -> (false, (false, (true, (true, (true, (false, (true, true)))))))
| Xdd -> (true, (false, (true, (true, (true, (false, (true, true)))))))
| Xde -> (false, (true, (true, (true, (true, (false, (true, true)))))))
| Xdf -> (true, (true, (true, (true, (true, (false, (true, true)))))))
| Xe0 -> (false, (false, (false, (false, (false, (true, (true, true)))))))
| Xe1 -> (true, (false, (false, (false, (false, (true, (true, true)))))))
| Xe2 -> (false, (true, (false, (false, (false, (true, (true, true)))))))
| Xe3 -> (true, (true, (false, (false, (false, (true, (true, true)))))))
| Xe4 -> (false, (false, (true, (false, (false, (true, (true, true)))))))
| Xe5 -> (true, (false, (true, (false, (false, (true, (true, true)))))))
| Xe6 -> (false, (true, (true, (false, (false, (true, (true, true)))))))
| Xe7 -> (true, (true, (true, (false, (false, (true, (true, true)))))))
| Xe8 -> (false, (false, (false, (true, (false, (true, (true, true)))))))
| Xe9 -> (true, (false, (false, (true, (false, (true, (true, true)))))))
| Xea -> (false, (true, (false, (true, (false, (true, (true, true)))))))
| Xeb -> (true, (true, (false, (true, (false, (true, (true, true)))))))
| Xec -> (false, (false, (true, (true, (false, (true, (true, true)))))))
| Xed -> (true, (false, (true, (true, (false, (true, (true, true)))))))
| Xee -> (false, (true, (true, (true, (false, (true, (true, true)))))))
| Xef -> (true, (true, (true, (true, (false, (true, (true, true)))))))
| Xf0 -> (false, (false, (false, (false, (true, (true, (true, true)))))))
| Xf1 -> (true, (false, (false, (false, (true, (true, (true, true)))))))
| Xf2 -> (false, (true, (false, (false, (true, (true, (true, true)))))))
| Xf3 -> (true, (true, (false, (false, (true, (true, (true, true)))))))
| Xf4 -> (false, (false, (true, (false, (true, (true, (true, true)))))))
| Xf5 -> (true, (false, (true, (false, (true, (true, (true, true)))))))
| Xf6 -> (false, (true, (true, (false, (true, (true, (true, true)))))))
| Xf7 -> (true, (true, (true, (false, (true, (true, (true, true)))))))
| Xf8 -> (false, (false, (false, (true, (true, (true, (true, true)))))))
| Xf9 -> (true, (false, (false, (true, (true, (true, (true, true)))))))
| Xfa -> (false, (true, (false, (true, (true, (true, (true, true)))))))
| Xfb -> (true, (true, (false, (true, (true, (true, (true, true)))))))
| Xfc -> (false, (false, (true, (true, (true, (true, (true, true)))))))
| Xfd -> (true, (false, (true, (true, (true, (true, (true, true)))))))
| Xfe -> (false, (true, (true, (true, (true, (true, (true, true)))))))
| Xff -> (true, (true, (true, (true, (true, (true, (true, true)))))))

(** val eqb : bool -> bool -> bool **)

let eqb b1 b2 =
  if b1 then b2 else if b2 then false else true

(** val nth : nat -> 'a1 list -> 'a1 -> 'a1 **)

let rec nth n0 l default =
  match n0 with
  | O -> (match l with
          | [] -> default
          | x :: _ -> x)
  | S m -> (match l with
            | [] -> default
            | _ :: t -> nth m t default)

(** val concat : 'a1 list list -> 'a1 list **)

let rec concat = function
| [] -> []
| x :: l0 -> app x (concat l0)

(** val map : ('a1 -> 'a2) -> 'a1 list -> 'a2 list **)

let rec map f = function
| [] -> []
| a :: t -> (f a) :: (map f t)

(** val flat_map : ('a1 -> 'a2 list) -> 'a1 list -> 'a2 list **)

let rec flat_map f = function
| [] -> []
| x :: t -> app (f x) (flat_map f t)

(** val fold_left : ('a1 -> 'a2 -> 'a1) -> 'a2 list -> 'a1 -> 'a1 **)

let rec fold_left f l a0 =
  match l with
  | [] -> a0
  | b :: t -> fold_left f t (f a0 b)

(** val existsb : ('a1 -> bool) -> 'a1 list -> bool **)

let rec existsb f = function
| [] -> false
| a :: l0 -> (||) (f a) (existsb f l0)

(** val filter : ('a1 -> bool) -> 'a1 list -> 'a1 list **)

let rec filter f = function
| [] -> []
| x :: l0 -> if f x then x :: (filter f l0) else filter f l0

(** val firstn : nat -> 'a1 list -> 'a1 list **)

let rec firstn n0 l =
  match n0 with
  | O -> []
  | S n1 -> (match l with
             | [] -> []
             | a :: l0 -> a :: (firstn n1 l0))

type positive =
| XI of positive
| XO of positive
| XH

type n =
| N0
| Npos of positive

type z =
| Z0
| Zpos of positive
| Zneg of positive

module Pos =
 struct
  type mask =
  | IsNul
  | IsPos of positive
  | IsNeg
 end

module Coq_Pos =
 struct
  (** val succ : positive -> positive **)

  let rec succ = function
  | XI p -> XO (succ p)
  | XO p -> XI p
  | XH -> XO XH

  (** val add : positive -> positive -> positive **)

  let rec add x y =
    match x with
    | XI p ->
      (match y with
       | XI q -> XO (add_carry p q)
       | XO q -> XI (add p q)
       | XH -> XO (succ p))
    | XO p ->
      (match y with
       | XI q -> XI (add p q)
       | XO q -> XO (add p q)
       | XH -> XI p)
    | XH -> (match y with
             | XI q -> XO (succ q)
             | XO q -> XI q
             | XH -> XO XH)

  (** val add_carry : positive -> positive -> positive **)

  and add_carry x y =
    match x with
    | XI p ->
      (match y with
       | XI q -> XI (add_carry p q)
       | XO q -> XO (add_carry p q)
       | XH -> XI (succ p))
    | XO p ->
      (match y with
       | XI q -> XO (add_carry p q)
       | XO q -> XI (add p q)
       | XH -> XO (succ p))
    | XH ->
      (match y with
       | XI q -> XI (succ q)
       | XO q -> XO (succ q)
       | XH -> XI XH)

  (** val pred_double : positive -> positive **)

  let rec pred_double = function
  | XI p -> XI (XO p)
  | XO p -> XI (pred_double p)
  | XH -> XH

  type mask = Pos.mask =
  | IsNul
  | IsPos of positive
  | IsNeg

  (** val succ_double_mask : mask -> mask **)

  let succ_double_mask = function
  | IsNul -> IsPos XH
  | IsPos p -> IsPos (XI p)
  | IsNeg -> IsNeg

  (** val double_mask : mask -> mask **)

  let double_mask = function
  | IsPos p -> IsPos (XO p)
  | x0 -> x0

  (** val double_pred_mask : positive -> mask **)

  let double_pred_mask = function
  | XI p -> IsPos (XO (XO p))
  | XO p -> IsPos (XO (pred_double p))
  | XH -> IsNul

  (** val sub_mask : positive -> positive -> mask **)

  let rec sub_mask x y =
    match x with
    | XI p ->
      (match y with
       | XI q -> double_mask (sub_mask p q)
       | XO q -> succ_double_mask (sub_mask p q)
       | XH -> IsPos (XO p))
    | XO p ->
      (match y with
       | XI q -> succ_double_mask (sub_mask_carry p q)
       | XO q -> double_mask (sub_mask p q)
       | XH -> IsPos (pred_double p))
    | XH -> (match y with
             | XH -> IsNul
             | _ -> IsNeg)

  (** val sub_mask_carry : positive -> positive -> mask **)

  and sub_mask_carry x y =
    match x with
    | XI p ->
      (match y with
       | XI q -> succ_double_mask (sub_mask_carry p q)
       | XO q -> double_mask (sub_mask p q)
       | XH -> IsPos (pred_double p))
    | XO p ->
      (match y with
       | XI q -> double_mask (sub_mask_carry p q)
       | XO q -> succ_double_mask (sub_mask_carry p q)
       | XH -> double_pred_mask p)
    | XH -> IsNeg

  (** val mul : positive -> positive -> positive **)

  let rec mul x y =
    match x with
    | XI p -> add y (XO (mul p y))
    | XO p -> XO (mul p y)
    | XH -> y

  (** val size : positive -> positive **)

  let rec size = function
  | XI p0 -> succ (size p0)
  | XO p0 -> succ (size p0)
  | XH -> XH

  (** val compare_cont : comparison -> positive -> positive -> comparison **)

  let rec compare_cont r x y =
    match x with
    | XI p ->
      (match y with
       | XI q -> compare_cont r p q
       | XO q -> compare_cont Gt p q
       | XH -> Gt)
    | XO p ->
      (match y with
       | XI q -> compare_cont Lt p q
       | XO q -> compare_cont r p q
       | XH -> Gt)
    | XH -> (match y with
             | XH -> r
             | _ -> Lt)

  (** val compare : positive -> positive -> comparison **)

  let compare =
    compare_cont Eq

  (** val eqb : positive -> positive -> bool **)

  let rec eqb p q =
    match p with
    | XI p0 -> (match q with
                | XI q0 -> eqb p0 q0
                | _ -> false)
    | XO p0 -> (match q with
                | XO q0 -> eqb p0 q0
                | _ -> false)
    | XH -> (match q with
             | XH -> true
             | _ -> false)

  (** val iter_op : ('a1 -> 'a1 -> 'a1) -> positive -> 'a1 -> 'a1 **)

  let rec iter_op op0 p a =
    match p with
    | XI p0 -> op0 a (iter_op op0 p0 (op0 a a))
    | XO p0 -> iter_op op0 p0 (op0 a a)
    | XH -> a

  (** val to_nat : positive -> nat **)

  let to_nat x =
    iter_op Coq__1.add x (S O)

  (** val of_succ_nat : nat -> positive **)

  let rec of_succ_nat = function
  | O -> XH
  | S x -> succ (of_succ_nat x)
 end

module N =
 struct
  (** val succ_double : n -> n **)

  let succ_double = function
  | N0 -> Npos XH
  | Npos p -> Npos (XI p)

  (** val double : n -> n **)

  let double = function
  | N0 -> N0
  | Npos p -> Npos (XO p)

  (** val add : n -> n -> n **)

  let add n0 m =
    match n0 with
    | N0 -> m
    | Npos p -> (match m with
                 | N0 -> n0
                 | Npos q -> Npos (Coq_Pos.add p q))

  (** val sub : n -> n -> n **)

  let sub n0 m =
    match n0 with
    | N0 -> N0
    | Npos n' ->
      (match m with
       | N0 -> n0
       | Npos m' ->
         (match Coq_Pos.sub_mask n' m' with
          | Coq_Pos.IsPos p -> Npos p
          | _ -> N0))

  (** val mul : n -> n -> n **)

  let mul n0 m =
    match n0 with
    | N0 -> N0
    | Npos p -> (match m with
                 | N0 -> N0
                 | Npos q -> Npos (Coq_Pos.mul p q))

  (** val compare : n -> n -> comparison **)

  let compare n0 m =
    match n0 with
    | N0 -> (match m with
             | N0 -> Eq
             | Npos _ -> Lt)
    | Npos n' -> (match m with
                  | N0 -> Gt
                  | Npos m' -> Coq_Pos.compare n' m')

  (** val leb : n -> n -> bool **)

  let leb x y =
    match compare x y with
    | Gt -> false
    | _ -> true

  (** val ltb : n -> n -> bool **)

  let ltb x y =
    match compare x y with
    | Lt -> true
    | _ -> false

  (** val max : n -> n -> n **)

  let max n0 n' =
    match compare n0 n' with
    | Gt -> n0
    | _ -> n'

  (** val log2 : n -> n **)

  let log2 = function
  | N0 -> N0
  | Npos p0 ->
    (match p0 with
     | XI p -> Npos (Coq_Pos.size p)
     | XO p -> Npos (Coq_Pos.size p)
     | XH -> N0)

  (** val pos_div_eucl : positive -> n -> n * n **)

  let rec pos_div_eucl a b =
    match a with
    | XI a' ->
      let (q, r) = pos_div_eucl a' b in
      let r' = succ_double r in
      if leb b r' then ((succ_double q), (sub r' b)) else ((double q), r')
    | XO a' ->
      let (q, r) = pos_div_eucl a' b in
      let r' = double r in
      if leb b r' then ((succ_double q), (sub r' b)) else ((double q), r')
    | XH ->
      (match b with
       | N0 -> (N0, (Npos XH))
       | Npos p -> (match p with
                    | XH -> ((Npos XH), N0)
                    | _ -> (N0, (Npos XH))))

  (** val div_eucl : n -> n -> n * n **)

  let div_eucl a b =
    match a with
    | N0 -> (N0, N0)
    | Npos na -> (match b with
                  | N0 -> (N0, a)
                  | Npos _ -> pos_div_eucl na b)

  (** val div : n -> n -> n **)

  let div a b =
    fst (div_eucl a b)

  (** val modulo : n -> n -> n **)

  let modulo a b =
    snd (div_eucl a b)

  (** val to_nat : n -> nat **)

  let to_nat = function
  | N0 -> O
  | Npos p -> Coq_Pos.to_nat p

  (** val of_nat : nat -> n **)

  let of_nat = function
  | O -> N0
  | S n' -> Npos (Coq_Pos.of_succ_nat n')
 end

(** val eqb0 : byte -> byte -> bool **)

let eqb0 a b =
  let (a0, p) = to_bits a in
  let (a1, p0) = p in
  let (a2, p1) = p0 in
  let (a3, p2) = p1 in
  let (a4, p3) = p2 in
  let (a5, p4) = p3 in
  let (a6, a7) = p4 in
  let (b0, p5) = to_bits b in
  let (b1, p6) = p5 in
  let (b2, p7) = p6 in
  let (b3, p8) = p7 in
  let (b4, p9) = p8 in
  let (b5, p10) = p9 in
  let (b6, b7) = p10 in
  (&&)
    ((&&)
      ((&&)
        ((&&)
          ((&&) ((&&) ((&&) (eqb a0 b0) (eqb a1 b1)) (eqb a2 b2)) (eqb a3 b3))
          (eqb a4 b4)) (eqb a5 b5)) (eqb a6 b6)) (eqb a7 b7)

(** val to_N : byte -> n **)

let to_N = function
| X00 -> N0
| X01 -> Npos XH
| X02 -> Npos (XO XH)
| X03 -> Npos (XI XH)
| X04 -> Npos (XO (XO XH))
| X05 -> Npos (XI (XO XH))
| X06 -> Npos (XO (XI XH))
| X07 -> Npos (XI (XI XH))
| X08 -> Npos (XO (XO (XO XH)))
| X09 -> Npos (XI (XO (XO XH)))
| X0a -> Npos (XO (XI (XO XH)))
| X0b -> Npos (XI (XI (XO XH)))
| X0c -> Npos (XO (XO (XI XH)))
| X0d -> Npos (XI (XO (XI XH)))
| X0e -> Npos (XO (XI (XI XH)))
| X0f -> Npos (XI (XI (XI XH)))
| X10 -> Npos (XO (XO (XO (XO XH))))
| X11 -> Npos (XI (XO (XO (XO XH))))
| X12 -> Npos (XO (XI (XO (XO XH))))
| X13 -> Npos (XI (XI (XO (XO XH))))
| X14 -> Npos (XO (XO (XI (XO XH))))
| X15 -> Npos (XI (XO (XI (XO XH))))
| X16 -> Npos (XO (XI (XI (XO XH))))
| X17 -> Npos (XI (XI (XI (XO XH))))
| X18 -> Npos (XO (XO (XO (XI XH))))
| X19 -> Npos (XI (XO (XO (XI XH))))
| X1a -> Npos (XO (XI (XO (XI XH))))
| X1b -> Npos (XI (XI (XO (XI XH))))
| X1c -> Npos (XO (XO (XI (XI XH))))
| X1d -> Npos (XI (XO (XI (XI XH))))
| X1e -> Npos (XO (XI (XI (XI XH))))
| X1f -> Npos (XI (XI (XI (XI XH))))
| X20 -> Npos (XO (XO (XO (XO (XO XH)))))
| X21 -> Npos (XI (XO (XO (XO (XO XH)))))
| X22 -> Npos (XO (XI (XO (XO (XO XH)))))
| X23 -> Npos (XI (XI (XO (XO (XO XH)))))
| X24 -> Npos (XO (XO (XI (XO (XO XH)))))
| X25 -> Npos (XI (XO (XI (XO (XO XH)))))
| X26 -> Npos (XO (XI (XI (XO (XO XH)))))
| X27 -> Npos (XI (XI (XI (XO (XO XH)))))
| X28 -> Npos (XO (XO (XO (XI (XO XH)))))
| X29 -> Npos (XI (XO (XO (XI (XO XH)))))
| X2a -> Npos (XO (XI (XO (XI (XO XH)))))
| X2b -> Npos (XI (XI (XO (XI (XO XH)))))
| X2c -> Npos (XO (XO (XI (XI (XO XH)))))
| X2d -> Npos (XI (XO (XI (XI (XO XH)))))
| X2e -> Npos (XO (XI (XI (XI (XO XH)))))
| X2f -> Npos (XI (XI (XI (XI (XO XH)))))
| X30 -> Npos (XO (XO (XO (XO (XI XH)))))
| X31 -> Npos (XI (XO (XO (XO (XI XH)))))
| X32 -> Npos (XO (XI (XO (XO (XI XH)))))
| X33 -> Npos (XI (XI (XO (XO (XI XH)))))
| X34 -> Npos (XO (XO (XI (XO (XI XH)))))
| X35 -> Npos (XI (XO (XI (XO (XI XH)))))
| X36 -> Npos (XO (XI (XI (XO (XI XH)))))
| X37 -> Npos (XI (XI (XI (XO (XI XH)))))
| X38 -> Npos (XO (XO (XO (XI (XI XH)))))
| X39 -> Npos (XI (XO (XO (XI (XI XH)))))
| X3a -> Npos (XO (XI (XO (XI (XI XH)))))
| X3b -> Npos (XI (XI (XO (XI (XI XH)))))
| X3c -> Npos (XO (XO (XI (XI (XI XH)))))
| X3d -> Npos (XI (XO (XI (XI (XI XH)))))
| X3e -> Npos (XO (XI (XI (XI (XI XH)))))
| X3f -> Npos (XI (XI (XI (XI (XI XH)))))
| X40 -> Npos (XO (XO (XO (XO (XO (XO XH))))))
| X41 -> Npos (XI (XO (XO (XO (XO (XO XH))))))
| X42 -> Npos (XO (XI (XO (XO (XO (XO XH))))))
| X43 -> Npos (XI (XI (XO (XO (XO (XO XH))))))
| X44 -> Npos (XO (XO (XI (XO (XO (XO XH))))))
| X45 -> Npos (XI (XO (XI (XO (XO (XO XH))))))
| X46 -> Npos (XO (XI (XI (XO (XO (XO XH))))))
| X47 -> Npos (XI (XI (XI (XO (XO (XO XH))))))
| X48 -> Npos (XO (XO (XO (XI (XO (XO XH))))))
| X49 -> Npos (XI (XO (XO (XI (XO (XO XH))))))
| X4a -> Npos (XO (XI (XO (XI (XO (XO XH))))))
| X4b -> Npos (XI (XI (XO (XI (XO (XO XH))))))
| X4c -> Npos (XO (XO (XI (XI (XO (XO XH))))))
| X4d -> Npos (XI (XO (XI (XI (XO (XO XH))))))
| X4e -> Npos (XO (XI (XI (XI (XO (XO XH))))))
| X4f -> Npos (XI (XI (XI (XI (XO (XO XH))))))
| X50 -> Npos (XO (XO (XO (XO (XI (XO XH))))))
| X51 -> Npos (XI (XO (XO (XO (XI (XO XH))))))
| X52 -> Npos (XO (XI (XO (XO (XI (XO XH))))))
| X53 -> Npos (XI (XI (XO (XO (XI (XO XH))))))
| X54 -> Npos (XO (XO (XI (XO (XI (XO XH))))))
| X55 -> Npos (XI (XO (XI (XO (XI (XO XH))))))
| X56 -> Npos (XO (XI (XI (XO (XI (XO XH))))))
| X57 -> Npos (XI (XI (XI (XO (XI (XO XH))))))
| X58 -> Npos (XO (XO (XO (XI (XI (XO XH))))))
| X59 -> Npos (XI (XO (XO (XI (XI (XO XH))))))
| X5a -> Npos (XO (XI (XO (XI (XI (XO XH))))))
| X5b -> Npos (XI (XI (XO (XI (XI (XO XH))))))
| X5c -> Npos (XO (XO (XI (XI (XI (XO XH))))))
| X5d -> Npos (XI (XO (XI (XI (XI (XO XH))))))
| X5e -> Npos (XO (XI (XI (XI (XI (XO XH))))))
| X5f -> Npos (XI (XI (XI (XI (XI (XO XH))))))
| X60 -> Npos (XO (XO (XO (XO (XO (XI XH))))))
| X61 -> Npos (XI (XO (XO (XO (XO (XI XH))))))
| X62 -> Npos (XO (XI (XO (XO (XO (XI XH))))))
| X63 -> Npos (XI (XI (XO (XO (XO (XI XH))))))
| X64 -> Npos (XO (XO (XI (XO (XO (XI XH))))))
| X65 -> Npos (XI (XO (XI (XO (XO (XI XH))))))
| X66 -> Npos (XO (XI (XI (XO (XO (XI XH))))))
| X67 -> Npos (XI (XI (XI (XO (XO (XI XH))))))
| X68 -> Npos (XO (XO (XO (XI (XO (XI XH))))))
| X69 -> Npos (XI (XO (XO (XI (XO (XI XH))))))
| X6a -> Npos (XO (XI (XO (XI (XO (XI XH))))))
| X6b -> Npos (XI (XI (XO (XI (XO (XI XH))))))
| X6c -> Npos (XO (XO (XI (XI (XO (XI XH))))))
| X6d -> Npos (XI (XO (XI (XI (XO (XI XH))))))
| X6e -> Npos (XO (XI (XI (XI (XO (XI XH))))))
| X6f -> Npos (XI (XI (XI (XI (XO (XI XH))))))
| X70 -> Npos (XO (XO (XO (XO (XI (XI XH))))))
| X71 -> Npos (XI (XO (XO (XO (XI (XI XH))))))
| X72 -> Npos (XO (XI (XO (XO (XI (XI XH))))))
| X73 -> Npos (XI (XI (XO (XO (XI (XI XH))))))
| X74 -> Npos (XO (XO (XI (XO (XI (XI XH))))))
| X75 -> Npos (XI (XO (XI (XO (XI (XI XH))))))
| X76 -> Npos (XO (XI (XI (XO (XI (XI XH))))))
| X77 -> Npos (XI (XI (XI (XO (XI (XI XH))))))
| X78 -> Npos (XO (XO (XO (XI (XI (XI XH))))))
| X79 -> Npos (XI (XO (XO (XI (XI (XI XH))))))
| X7a -> Npos (XO (XI (XO (XI (XI (XI XH))))))
| X7b -> Npos (XI (XI (XO (XI (XI (XI XH))))))
| X7c -> Npos (XO (XO (XI (XI (XI (XI XH))))))
| X7d -> Npos (XI (XO (XI (XI (XI (XI XH))))))
| X7e -> Npos (XO (XI (XI (XI (XI (XI XH))))))
| X7f -> Npos (XI (XI (XI (XI (XI (XI XH))))))
| X80 -> Npos (XO (XO (XO (XO (XO (XO (XO XH)))))))
| X81 -> Npos (XI (XO (XO (XO (XO (XO (XO XH)))))))
| X82 -> Npos (XO (XI (XO (XO (XO (XO (XO XH)))))))
| X83 -> Npos (XI (XI (XO (XO (XO (XO (XO XH)))))))
| X84 -> Npos (XO (XO (XI (XO (XO (XO (XO XH)))))))
| X85 -> Npos (XI (XO (XI (XO (XO (XO (XO XH)))))))
| X86 -> Npos (XO (XI (XI (XO (XO (XO (XO XH)))))))
| X87 -> Npos (XI (XI (XI (XO (XO (XO (XO XH)))))))
| X88 -> Npos (XO (XO (XO (XI (XO (XO (XO XH)))))))
| X89 -> Npos (XI (XO (XO (XI (XO (XO (XO XH)))))))
| X8a -> Npos (XO (XI (XO (XI (XO (XO (XO XH)))))))
| X8b -> Npos (XI (XI (XO (XI (XO (XO (XO XH)))))))
| X8c -> Npos (XO (XO (XI (XI (XO (XO (XO XH)))))))
| X8d -> Npos (XI (XO (XI (XI (XO (XO (XO XH)))))))
| X8e -> Npos (XO (XI (XI (XI (XO (XO (XO XH)))))))
| X8f -> Npos (XI (XI (XI (XI (XO (XO (XO XH)))))))
| X90 -> Npos (XO (XO (XO (XO (XI (XO (XO XH)))))))
| X91 -> Npos (XI (XO (XO (XO (XI (XO (XO XH)))))))
| X92 -> Npos (XO (XI (XO (XO (XI (XO (XO XH)))))))
| X93 -> Npos (XI (XI (XO (XO (XI (XO (XO XH)))))))
| X94 -> Npos (XO (XO (XI (XO (XI (XO (XO XH)))))))
| X95 -> Npos (XI (XO (XI (XO (XI (XO (XO XH)))))))
| X96 -> Npos (XO (XI (XI (XO (XI (XO (XO XH)))))))
| X97 -> Npos (XI (XI (XI (XO (XI (XO (XO XH)))))))
| X98 -> Npos (XO (XO (XO (XI (XI (XO (XO XH)))))))
| X99 -> Npos (XI (XO (XO (XI (XI (XO (XO XH)))))))
| X9a -> Npos (XO (XI (XO (XI (XI (XO (XO XH)))))))
| X9b -> Npos (XI (XI (XO (XI (XI (XO (XO XH)))))))
| X9c -> Npos (XO (XO (XI (XI (XI (XO (XO XH)))))))
| X9d -> Npos (XI (XO (XI (XI (XI (XO (XO XH)))))))
| X9e -> Npos (XO (XI (XI (XI (XI (XO (XO XH)))))))
| X9f -> Npos (XI (XI (XI (XI (XI (XO (XO XH)))))))
| Xa0 -> Npos (XO (XO (XO (XO (XO (XI (XO XH)))))))
| Xa1 -> Npos (XI (XO (XO (XO (XO (XI (XO XH)))))))
| Xa2 -> Npos (XO (XI (XO (XO (XO (XI (XO XH)))))))
| Xa3 -> Npos (XI (XI (XO (XO (XO (XI (XO XH)))))))
| Xa4 -> Npos (XO (XO (XI (XO (XO (XI (XO XH)))))))
| Xa5 -> Npos (XI (XO (XI (XO (XO (XI (XO XH)))))))
| Xa6 -> Npos (XO (XI (XI (XO (XO (XI (XO XH)))))))
| Xa7 -> Npos (XI (XI (XI (XO (XO (XI (XO XH)))))))
| Xa8 -> Npos (XO (XO (XO (XI (XO (XI (XO XH)))))))
| Xa9 -> Npos (XI (XO (XO (XI (XO (XI (XO XH)))))))
| Xaa -> Npos (XO (XI (XO (XI (XO (XI (XO XH)))))))
| Xab -> Npos (XI (XI (XO (XI (XO (XI (XO XH)))))))
| Xac -> Npos (XO (XO (XI (XI (XO (XI (XO XH)))))))
| Xad -> Npos (XI (XO (XI (XI (XO (XI (XO XH)))))))
| Xae -> Npos (XO (XI (XI (XI (XO (XI (XO XH)))))))
| Xaf -> Npos (XI (XI (XI (XI (XO (XI (XO XH)))))))
| Xb0 -> Npos (XO (XO (XO (XO (XI (XI (XO XH)))))))
| Xb1 -> Npos (XI (XO (XO (XO (XI (XI (XO XH)))))))
| Xb2 -> Npos (XO (XI (XO (XO (XI (XI (XO XH)))))))
| Xb3 -> Npos (XI (XI (XO (XO (XI (XI (XO XH)))))))
| Xb4 -> Npos (XO (XO (XI (XO (XI (XI (XO XH)))))))
| Xb5 -> Npos (XI (XO (XI (XO (XI (XI (XO XH)))))))
| Xb6 -> Npos (XO (XI (XI (XO (XI (XI (XO XH)))))))
| Xb7 -> Npos (XI (XI (XI (XO (XI (XI (XO XH)))))))
| Xb8 -> Npos (XO (XO (XO (XI (XI (XI (XO XH)))))))
| Xb9 -> Npos (XI (XO (XO (XI (XI (XI (XO XH)))))))
| Xba -> Npos (XO (XI (XO (XI (XI (XI (XO XH)))))))
| Xbb -> Npos (XI (XI (XO (XI (XI (XI (XO XH)))))))
| Xbc -> Npos (XO (XO (XI (XI (XI (XI (XO XH)))))))
| Xbd -> Npos (XI (XO (XI (XI (XI (XI (XO XH)))))))
| Xbe -> Npos (XO (XI (XI (XI (XI (XI (XO XH)))))))
| Xbf -> Npos (XI (XI (XI (XI (XI (XI (XO XH)))))))
| Xc0 -> Npos (XO (XO (XO (XO (XO (XO (XI XH)))))))
| Xc1 -> Npos (XI (XO (XO (XO (XO (XO (XI XH)))))))
| Xc2 -> Npos (XO (XI (XO (XO (XO (XO (XI XH)))))))
| Xc3 -> Npos (XI (XI (XO (XO (XO (XO (XI XH)))))))
| Xc4 -> Npos (XO (XO (XI (XO (XO (XO (XI XH)))))))
| Xc5 -> Npos (XI (XO (XI (XO (XO (XO (XI XH)))))))
| Xc6 -> Npos (XO (XI (XI (XO (XO (XO (XI XH)))))))
| Xc7 -> Npos (XI (XI (XI (XO (XO (XO (XI XH)))))))
| Xc8 -> Npos (XO (XO (XO (XI (XO (XO (XI XH)))))))
| Xc9 -> Npos (XI (XO (XO (XI (XO (XO (XI XH)))))))
| Xca -> Npos (XO (XI (XO (XI (XO (XO (XI XH)))))))
| Xcb -> Npos (XI (XI (XO (XI (XO (XO (XI XH)))))))
| Xcc -> Npos (XO (XO (XI (XI (XO (XO (XI XH)))))))
| Xcd -> Npos (XI (XO (XI (XI (XO (XO (XI XH)))))))
| Xce -> Npos (XO (XI (XI (XI (XO (XO (XI XH)))))))
| Xcf -> Npos (XI (XI (XI (XI (XO (XO (XI XH)))))))
| Xd0 -> Npos (XO (XO (XO (XO (XI (XO (XI XH)))))))
| Xd1 -> Npos (XI (XO (XO (XO (XI (XO (XI XH)))))))
| Xd2 -> Npos (XO (XI (XO (XO (XI (XO (XI XH)))))))
| Xd3 -> Npos (XI (XI (XO (XO (XI (XO (XI XH)))))))
| Xd4 -> Npos (XO (XO (XI (XO (XI (XO (XI XH)))))))
| Xd5 -> Npos (XI (XO (XI (XO (XI (XO (XI XH)))))))
| Xd6 -> Npos (XO (XI (XI (XO (XI (XO (XI XH)))))))
| Xd7 -> Npos (XI (XI (XI (XO (XI (XO (XI XH)))))))
| Xd8 -> Npos (XO (XO (XO (XI (XI (XO (XI XH)))))))
| Xd9 -> Npos (XI (XO (XO (XI (XI (XO (XI XH)))))))
| Xda -> Npos (XO (XI (XO (XI (XI (XO (XI XH)))))))
| Xdb -> Npos (XI (XI (XO (XI (XI (XO (XI XH)))))))
| Xdc -> Npos (XO (XO (XI (XI (XI (XO (XI XH)))))))
| Xdd -> Npos (XI (XO (XI (XI (XI (XO (XI XH)))))))
| Xde -> Npos (XO (XI (XI (XI (XI (XO (XI XH)))))))
| Xdf -> Npos (XI (XI (XI (XI (XI (XO (XI XH)))))))
| Xe0 -> Npos (XO (XO (XO (XO (XO (XI (XI XH)))))))
| Xe1 -> Npos (XI (XO (XO (XO (XO (XI (XI XH)))))))
| Xe2 -> Npos (XO (XI (XO (XO (XO (XI (XI XH)))))))
| Xe3 -> Npos (XI (XI (XO (XO (XO (XI (XI XH)))))))
| Xe4 -> Npos (XO (XO (XI (XO (XO (XI (XI XH)))))))
| Xe5 -> Npos (XI (XO (XI (XO (XO (XI (XI XH)))))))
| Xe6 -> Npos (XO (XI (XI (XO (XO (XI (XI XH)))))))
| Xe7 -> Npos (XI (XI (XI (XO (XO (XI (XI XH)))))))
| Xe8 -> Npos (XO (XO (XO (XI (XO (XI (XI XH)))))))
| Xe9 -> Npos (XI (XO (XO (XI (XO (XI (XI XH)))))))
| Xea -> Npos (XO (XI (XO (XI (XO (XI (XI XH)))))))
| Xeb -> Npos (XI (XI (XO (XI (XO (XI (XI XH)))))))
| Xec -> Npos (XO (XO (XI (XI (XO (XI (XI XH)))))))
| Xed -> Npos (XI (XO (XI (XI (XO (XI (XI XH)))))))
| Xee -> Npos (XO (XI (XI (XI (XO (XI (XI XH)))))))
| Xef -> Npos (XI (XI (XI (XI (XO (XI (XI XH)))))))
| Xf0 -> Npos (XO (XO (XO (XO (XI (XI (XI XH)))))))
| Xf1 -> Npos (XI (XO (XO (XO (XI (XI (XI XH)))))))
| Xf2 -> Npos (XO (XI (XO (XO (XI (XI (XI XH)))))))
| Xf3 -> Npos (XI (XI (XO (XO (XI (XI (XI XH)))))))
| Xf4 -> Npos (XO (XO (XI (XO (XI (XI (XI XH)))))))
| Xf5 -> Npos (XI (XO (XI (XO (XI (XI (XI XH)))))))
| Xf6 -> Npos (XO (XI (XI (XO (XI (XI (XI XH)))))))
| Xf7 -> Npos (XI (XI (XI (XO (XI (XI (XI XH)))))))
| Xf8 -> Npos (XO (XO (XO (XI (XI (XI (XI XH)))))))
| Xf9 -> Npos (XI (XO (XO (XI (XI (XI (XI XH)))))))
| Xfa -> Npos (XO (XI (XO (XI (XI (XI (XI XH)))))))
| Xfb -> Npos (XI (XI (XO (XI (XI (XI (XI XH)))))))
| Xfc -> Npos (XO (XO (XI (XI (XI (XI (XI XH)))))))
| Xfd -> Npos (XI (XO (XI (XI (XI (XI (XI XH)))))))
| Xfe -> Npos (XO (XI (XI (XI (XI (XI (XI XH)))))))
| Xff -> Npos (XI (XI (XI (XI (XI (XI (XI XH)))))))

(** val of_N : n -> byte option **)

let of_N = function
| N0 -> Some X00
| Npos p ->
  (match p with
   | XI p0 ->
     (match p0 with
      | XI p1 ->
        (match p1 with
         | XI p2 ->
           (match p2 with
            | XI p3 ->
              (match p3 with
               | XI p4 ->
                 (match p4 with
                  | XI p5 ->
                    (match p5 with
                     | XI p6 -> (match p6 with
                                 | XH -> Some Xff
                                 | _ -> None)
                     | XO p6 -> (match p6 with
                                 | XH -> Some Xbf
                                 | _ -> None)
                     | XH -> Some X7f)
                  | XO p5 ->
                    (match p5 with
                     | XI p6 -> (match p6 with
                                 | XH -> Some Xdf
                                 | _ -> None)
                     | XO p6 -> (match p6 with
                                 | XH -> Some X9f
                                 | _ -> None)
                     | XH -> Some X5f)
                  | XH -> Some X3f)
               | XO p4 ->
                 (match p4 with
                  | XI p5 ->
                    (match p5 with
                     | XI p6 -> (match p6 with
                                 | XH -> Some Xef
                                 | _ -> None)
                     | XO p6 -> (match p6 with
                                 | XH -> Some Xaf
                                 | _ -> None)
                     | XH -> Some X6f)
                  | XO p5 ->
                    (match p5 with
                     | XI p6 -> (match p6 with
                                 | XH -> Some Xcf
                                 | _ -> None)
                     | XO p6 -> (match p6 with
                                 | XH -> Some X8f
                                 | _ -> None)
                     | XH -> Some X4f)
                  | XH -> Some X2f)
               | XH -> Some X1f)
            | XO p3 ->
              (match p3 with
               | XI p4 ->
                 (match p4 with
                  | XI p5 ->
                    (match p5 with
                     | XI p6 -> (match p6 with
                                 | XH -> Some Xf7
                                 | _ -> None)
                     | XO p6 -> (match p6 with
                                 | XH -> Some Xb7
                                 | _ -> None)
                     | XH -> Some X77)
                  | XO p5 ->
                    (match p5 with
                     | XI p6 -> (match p6 with
                                 | XH -> Some Xd7
                                 | _ -> None)
                     | XO p6 -> (match p6 with
                                 | XH -> Some X97
                                 | _ -> None)
                     | XH -> Some X57)
                  | XH -> Some X37)
               | XO p4 ->
                 (match p4 with
                  | XI p5 ->
                    (match p5 with
                     | XI p6 -> (match p6 with
                                 | XH -> Some Xe7
                                 | _ -> None)
                     | XO p6 -> (match p6 with
                                 | XH -> Some Xa7
                                 | _ -> None)
                     | XH -> Some X67)
                  | XO p5 ->
                    (match p5 with
                     | XI p6 -> (match p6 with
                                 | XH -> Some Xc7
                                 | _ -> None)
                     | XO p6 -> (match p6 with
                                 | XH -> Some X87
                                 | _ -> None)
                     | XH -> Some X47)
                  | XH -> Some X27)
               | XH -> Some X17)
            | XH -> Some X0f)
         | XO p2 ->
           (match p2 with
            | XI p3 ->
              (match p3 with
               | XI p4 ->
                 (match p4 with
                  | XI p5 ->
                    (match p5 with
                     | XI p6 -> (match p6 with
                                 | XH -> Some Xfb
                                 | _ -> None)
                     | XO p6 -> (match p6 with
                                 | XH -> Some Xbb
                                 | _ -> None)
                     | XH -> Some X7b)
                  | XO p5 ->
                    (match p5 with
                     | XI p6 -> (match p6 with
                                 | XH -> Some Xdb
                                 | _ -> None)
                     | XO p6 -> (match p6 with
                                 | XH -> Some X9b
                                 | _ -> None)
                     | XH -> Some X5b)
                  | XH -> Some X3b)
               | XO p4 ->
                 (match p4 with
                  | XI p5 ->
                    (match p5 with
                     | XI p6 -> (match p6 with
                                 | XH -> Some Xeb
                                 | _ -> None)
                     | XO p6 -> (match p6 with
                                 | XH -> Some Xab
                                 | _ -> None)
                     | XH -> Some X6b)
                  | XO p5 ->
                    (match p5 with
                     | XI p6 -> (match p6 with
                                 | XH -> Some Xcb
                                 | _ -> None)
                     | XO p6 -> (match p6 with
                                 | XH -> Some X8b
                                 | _ -> None)
                     | XH -> Some X4b)
                  | XH -> Some X2b)
               | XH -> Some X1b)
            | XO p3 ->
              (match p3 with
               | XI p4 ->
                 (match p4 with
                  | XI p5 ->
                    (match p5 with
                     | XI p6 -> (match p6 with
                                 | XH -> Some Xf3
                                 | _ -> None)
                     | XO p6 -> (match p6 with
                                 | XH -> Some Xb3
                                 | _ -> None)
                     | XH -> Some X73)
                  | XO p5 ->
                    (match p5 with
                     | XI p6 -> (match p6 with
                                 | XH -> Some Xd3
                                 | _ -> None)
                     | XO p6 -> (match p6 with
                                 | XH -> Some X93
                                 | _ -> None)
                     | XH -> Some X53)
                  | XH -> Some X33)
               | XO p4 ->
                 (match p4 with
                  | XI p5 ->
                    (match p5 with
                     | XI p6 -> (match p6 with
                                 | XH -> Some Xe3
                                 | _ -> None)
                     | XO p6 -> (match p6 with
                                 | XH -> Some Xa3
                                 | _ -> None)
                     | XH -> Some X63)
                  | XO p5 ->
                    (match p5 with
                     | XI p6 -> (match p6 with
                                 | XH -> Some Xc3
                                 | _ -> None)
                     | XO p6 -> (match p6 with
                                 | XH -> Some X83
                                 | _ -> None)
                     | XH -> Some X43)
                  | XH -> Some X23)
               | XH -> Some X13)
            | XH -> Some X0b)
         | XH -> Some X07)
      | XO p1 ->
        (match p1 with
         | XI p2 ->
           (match p2 with
            | XI p3 ->
              (match p3 with
               | XI p4 ->
                 (match p4 with
                  | XI p5 ->
                    (match p5 with
                     | XI p6 -> (match p6 with
                                 | XH -> Some Xfd
                                 | _ -> None)
                     | XO p6 -> (match p6 with
                                 | XH -> Some Xbd
                                 | _ -> None)
                     | XH -> Some X7d)
                  | XO p5 ->
                    (match p5 with
                     | XI p6 -> (match p6 with
                                 | XH -> Some Xdd
                                 | _ -> None)
                     | XO p6 -> (match p6 with
                                 | XH -> Some X9d
                                 | _ -> None)
                     | XH -> Some X5d)
                  | XH -> Some X3d)
               | XO p4 ->
                 (match p4 with
                  | XI p5 ->
                    (match p5 with
                     | XI p6 -> (match p6 with
                                 | XH -> Some Xed
                                 | _ -> None)
                     | XO p6 -> (match p6 with
                                 | XH -> Some Xad
                                 | _ -> None)
                     | XH -> Some X6d)
                  | XO p5 ->
                    (match p5 with
                     | XI p6 -> (match p6 with
                                 | XH -> Some Xcd
                                 | _ -> None)
                     | XO p6 -> (match p6 with
                                 | XH -> Some X8d
                                 | _ -> None)
                     | XH -> Some X4d)
                  | XH -> Some X2d)
               | XH -> Some X1d)
            | XO p3 ->
              (match p3 with
               | XI p4 ->
                 (match p4 with
                  | XI p5 ->
                    (match p5 with
                     | XI p6 -> (match p6 with
                                 | XH -> Some Xf5
                                 | _ -> None)
                     | XO p6 -> (match p6 with
                                 | XH -> Some Xb5
                                 | _ -> None)
                     | XH -> Some X75)
                  | XO p5 ->
                    (match p5 with
                     | XI p6 -> (match p6 with
                                 | XH -> Some Xd5
                                 | _ -> None)
                     | XO p6 -> (match p6 with
                                 | XH -> Some X95
                                 | _ -> None)
                     | XH -> Some X55)
                  | XH -> Some X35)
               | XO p4 ->
                 (match p4 with
                  | XI p5 ->
                    (match p5 with
                     | XI p6 -> (match p6 with
                                 | XH -> Some Xe5
                                 | _ -> None)
                     | XO p6 -> (match p6 with
                                 | XH -> Some Xa5
                                 | _ -> None)
                     | XH -> Some X65)
                  | XO p5 ->
                    (match p5 with
                     | XI p6 -> (match p6 with
                                 | XH -> Some Xc5
                                 | _ -> None)
                     | XO p6 -> (match p6 with
                                 | XH -> Some X85
                                 | _ -> None)
                     | XH -> Some X45)
                  | XH -> Some X25)
               | XH -> Some X15)
            | XH -> Some X0d)
         | XO p2 ->
           (match p2 with
            | XI p3 ->
              (match p3 with
               | XI p4 ->
                 (match p4 with
                  | XI p5 ->
                    (match p5 with
                     | XI p6 -> (match p6 with
                                 | XH -> Some Xf9
                                 | _ -> None)
                     | XO p6 -> (match p6 with
                                 | XH -> Some Xb9
                                 | _ -> None)
                     | XH -> Some X79)
                  | XO p5 ->
                    (match p5 with
                     | XI p6 -> (match p6 with
                                 | XH -> Some Xd9
                                 | _ -> None)
                     | XO p6 -> (match p6 with
                                 | XH -> Some X99
                                 | _ -> None)
                     | XH -> Some X59)
                  | XH -> Some X39)
               | XO p4 ->
                 (match p4 with
                  | XI p5 ->
                    (match p5 with
                     | XI p6 -> (match p6 with
                                 | XH -> Some Xe9
                                 | _ -> None)
                     | XO p6 -> (match p6 with
                                 | XH -> Some Xa9
                                 | _ -> None)
                     | XH -> Some X69)
                  | XO p5 ->
                    (match p5 with
                     | XI p6 -> (match p6 with
                                 | XH -> Some Xc9
                                 | _ -> None)
                     | XO p6 -> (match p6 with
                                 | XH -> Some X89
                                 | _ -> None)
                     | XH -> Some X49)
                  | XH -> Some X29)
               | XH -> Some X19)
            | XO p3 ->
              (match p3 with
               | XI p4 ->
                 (match p4 with
                  | XI p5 ->
                    (match p5 with
                     | XI p6 -> (match p6 with
                                 | XH -> Some Xf1
                                 | _ -> None)
                     | XO p6 -> (match p6 with
                                 | XH -> Some Xb1
                                 | _ -> None)
                     | XH -> Some X71)
                  | XO p5 ->
                    (match p5 with
                     | XI p6 -> (match p6 with
                                 | XH -> Some Xd1
                                 | _ -> None)
                     | XO p6 -> (match p6 with
                                 | XH -> Some X91
                                 | _ -> None)
                     | XH -> Some X51)
                  | XH -> Some X31)
               | XO p4 ->
                 (match p4 with
                  | XI p5 ->
                    (match p5 with
                     | XI p6 -> (match p6 with
                                 | XH -> Some Xe1
                                 | _ -> None)
                     | XO p6 -> (match p6 with
                                 | XH -> Some Xa1
                                 | _ -> None)
                     | XH -> Some X61)
                  | XO p5 ->
                    (match p5 with
                     | XI p6 -> (match p6 with
                                 | XH -> Some Xc1
                                 | _ -> None)
                     | XO p6 -> (match p6 with
                                 | XH -> Some X81
                                 | _ -> None)
                     | XH -> Some X41)
                  | XH -> Some X21)
               | XH -> Some X11)
            | XH -> Some X09)
         | XH -> Some X05)
      | XH -> Some X03)
   | XO p0 ->
     (match p0 with
      | XI p1 ->
        (match p1 with
         | XI p2 ->
           (match p2 with
            | XI p3 ->
              (match p3 with
               | XI p4 ->
                 (match p4 with
                  | XI p5 ->
                    (match p5 with
                     | XI p6 -> (match p6 with
                                 | XH -> Some Xfe
                                 | _ -> None)
                     | XO p6 -> (match p6 with
                                 | XH -> Some Xbe
                                 | _ -> None)
                     | XH -> Some X7e)
                  | XO p5 ->
                    (match p5 with
                     | XI p6 -> (match p6 with
                                 | XH -> Some Xde
                                 | _ -> None)
                     | XO p6 -> (match p6 with
                                 | XH -> Some X9e
                                 | _ -> None)
                     | XH -> Some X5e)
                  | XH -> Some X3e)
               | XO p4 ->
                 (match p4 with
                  | XI p5 ->
                    (match p5 with
                     | XI p6 -> (match p6 with
                                 | XH -> Some Xee
                                 | _ -> None)
                     | XO p6 -> (match p6 with
                                 | XH -> Some Xae
                                 | _ -> None)
                     | XH -> Some X6e)
                  | XO p5 ->
                    (match p5 with
                     | XI p6 -> (match p6 with
                                 | XH -> Some Xce
                                 | _ -> None)
                     | XO p6 -> (match p6 with
                                 | XH -> Some X8e
                                 | _ -> None)
                     | XH -> Some X4e)
                  | XH -> Some X2e)
               | XH -> Some X1e)
            | XO p3 ->
              (match p3 with
               | XI p4 ->
                 (match p4 with
                  | XI p5 ->
                    (match p5 with
                     | XI p6 -> (match p6 with
                                 | XH -> Some Xf6
                                 | _ -> None)
                     | XO p6 -> (match p6 with
                                 | XH -> Some Xb6
                                 | _ -> None)
                     | XH -> Some X76)
                  | XO p5 ->
                    (match p5 with
                     | XI p6 -> (match p6 with
                                 | XH -> Some Xd6
                                 | _ -> None)
                     | XO p6 -> (match p6 with
                                 | XH -> Some X96
                                 | _ -> None)
                     | XH -> Some X56)
                  | XH -> Some X36)
               | XO p4 ->
                 (match p4 with
                  | XI p5 ->
                    (match p5 with
                     | XI p6 -> (match p6 with
                                 | XH -> Some Xe6
                                 | _ -> None)
                     | XO p6 -> (match p6 with
                                 | XH -> Some Xa6
                                 | _ -> None)
                     | XH -> Some X66)
                  | XO p5 ->
                    (match p5 with
                     | XI p6 -> (match p6 with
                                 | XH -> Some Xc6
                                 | _ -> None)
                     | XO p6 -> (match p6 with
                                 | XH -> Some X86
                                 | _ -> None)
                     | XH -> Some X46)
                  | XH -> Some X26)
               | XH -> Some X16)
            | XH -> Some X0e)
         | XO p2 ->
           (match p2 with
            | XI p3 ->
              (match p3 with
               | XI p4 ->
                 (match p4 with
                  | XI p5 ->
                    (match p5 with
                     | XI p6 -> (match p6 with
                                 | XH -> Some Xfa
                                 | _ -> None)
                     | XO p6 -> (match p6 with
                                 | XH -> Some Xba
                                 | _ -> None)
                     | XH -> Some X7a)
                  | XO p5 ->
                    (match p5 with
                     | XI p6 -> (match p6 with
                                 | XH -> Some Xda
                                 | _ -> None)
                     | XO p6 -> (match p6 with
                                 | XH -> Some X9a
                                 | _ -> None)
                     | XH -> Some X5a)
                  | XH -> Some X3a)
               | XO p4 ->
                 (match p4 with
                  | XI p5 ->
                    (match p5 with
                     | XI p6 -> (match p6 with
                                 | XH -> Some Xea
                                 | _ -> None)
                     | XO p6 -> (match p6 with
                                 | XH -> Some Xaa
                                 | _ -> None)
                     | XH -> Some X6a)
                  | XO p5 ->
                    (match p5 with
                     | XI p6 -> (match p6 with
                                 | XH -> Some Xca
                                 | _ -> None)
                     | XO p6 -> (match p6 with
                                 | XH -> Some X8a
                                 | _ -> None)
                     | XH -> Some X4a)
                  | XH -> Some X2a)
               | XH -> Some X1a)
            | XO p3 ->
              (match p3 with
               | XI p4 ->
                 (match p4 with
                  | XI p5 ->
                    (match p5 with
                     | XI p6 -> (match p6 with
                                 | XH -> Some Xf2
                                 | _ -> None)
                     | XO p6 -> (match p6 with
                                 | XH -> Some Xb2
                                 | _ -> None)
                     | XH -> Some X72)
                  | XO p5 ->
                    (match p5 with
                     | XI p6 -> (match p6 with
                                 | XH -> Some Xd2
                                 | _ -> None)
                     | XO p6 -> (match p6 with
                                 | XH -> Some X92
                                 | _ -> None)
                     | XH -> Some X52)
                  | XH -> Some X32)
               | XO p4 ->
                 (match p4 with
                  | XI p5 ->
                    (match p5 with
                     | XI p6 -> (match p6 with
                                 | XH -> Some Xe2
                                 | _ -> None)
                     | XO p6 -> (match p6 with
                                 | XH -> Some Xa2
                                 | _ -> None)
                     | XH -> Some X62)
                  | XO p5 ->
                    (match p5 with
                     | XI p6 -> (match p6 with
                                 | XH -> Some Xc2
                                 | _ -> None)
                     | XO p6 -> (match p6 with
                                 | XH -> Some X82
                                 | _ -> None)
                     | XH -> Some X42)
                  | XH -> Some X22)
               | XH -> Some X12)
            | XH -> Some X0a)
         | XH -> Some X06)
      | XO p1 ->
        (match p1 with
         | XI p2 ->
           (match p2 with
            | XI p3 ->
              (match p3 with
               | XI p4 ->
                 (match p4 with
                  | XI p5 ->
                    (match p5 with
                     | XI p6 -> (match p6 with
                                 | XH -> Some Xfc
                                 | _ -> None)
                     | XO p6 -> (match p6 with
                                 | XH -> Some Xbc
                                 | _ -> None)
                     | XH -> Some X7c)
                  | XO p5 ->
                    (match p5 with
                     | XI p6 -> (match p6 with
                                 | XH -> Some Xdc
                                 | _ -> None)
                     | XO p6 -> (match p6 with
                                 | XH -> Some X9c
                                 | _ -> None)
                     | XH -> Some X5c)
                  | XH -> Some X3c)
               | XO p4 ->
                 (match p4 with
                  | XI p5 ->
                    (match p5 with
                     | XI p6 -> (match p6 with
                                 | XH -> Some Xec
                                 | _ -> None)
                     | XO p6 -> (match p6 with
                                 | XH -> Some Xac
                                 | _ -> None)
                     | XH -> Some X6c)
                  | XO p5 ->
                    (match p5 with
                     | XI p6 -> (match p6 with
                                 | XH -> Some Xcc
                                 | _ -> None)
                     | XO p6 -> (match p6 with
                                 | XH -> Some X8c
                                 | _ -> None)
                     | XH -> Some X4c)
                  | XH -> Some X2c)
               | XH -> Some X1c)
            | XO p3 ->
              (match p3 with
               | XI p4 ->
                 (match p4 with
                  | XI p5 ->
                    (match p5 with
                     | XI p6 -> (match p6 with
                                 | XH -> Some Xf4
                                 | _ -> None)
                     | XO p6 -> (match p6 with
                                 | XH -> Some Xb4
                                 | _ -> None)
                     | XH -> Some X74)
                  | XO p5 ->
                    (match p5 with
                     | XI p6 -> (match p6 with
                                 | XH -> Some Xd4
                                 | _ -> None)
                     | XO p6 -> (match p6 with
                                 | XH -> Some X94
                                 | _ -> None)
                     | XH -> Some X54)
                  | XH -> Some X34)
               | XO p4 ->
                 (match p4 with
                  | XI p5 ->
                    (match p5 with
                     | XI p6 -> (match p6 with
                                 | XH -> Some Xe4
                                 | _ -> None)
                     | XO p6 -> (match p6 with
                                 | XH -> Some Xa4
                                 | _ -> None)
                     | XH -> Some X64)
                  | XO p5 ->
                    (match p5 with
                     | XI p6 -> (match p6 with
                                 | XH -> Some Xc4
                                 | _ -> None)
                     | XO p6 -> (match p6 with
                                 | XH -> Some X84
                                 | _ -> None)
                     | XH -> Some X44)
                  | XH -> Some X24)
               | XH -> Some X14)
            | XH -> Some X0c)
         | XO p2 ->
           (match p2 with
            | XI p3 ->
              (match p3 with
               | XI p4 ->
                 (match p4 with
                  | XI p5 ->
                    (match p5 with
                     | XI p6 -> (match p6 with
                                 | XH -> Some Xf8
                                 | _ -> None)
                     | XO p6 -> (match p6 with
                                 | XH -> Some Xb8
                                 | _ -> None)
                     | XH -> Some X78)
                  | XO p5 ->
                    (match p5 with
                     | XI p6 -> (match p6 with
                                 | XH -> Some Xd8
                                 | _ -> None)
                     | XO p6 -> (match p6 with
                                 | XH -> Some X98
                                 | _ -> None)
                     | XH -> Some X58)
                  | XH -> Some X38)
               | XO p4 ->
                 (match p4 with
                  | XI p5 ->
                    (match p5 with
                     | XI p6 -> (match p6 with
                                 | XH -> Some Xe8
                                 | _ -> None)
                     | XO p6 -> (match p6 with
                                 | XH -> Some Xa8
                                 | _ -> None)
                     | XH -> Some X68)
                  | XO p5 ->
                    (match p5 with
                     | XI p6 -> (match p6 with
                                 | XH -> Some Xc8
                                 | _ -> None)
                     | XO p6 -> (match p6 with
                                 | XH -> Some X88
                                 | _ -> None)
                     | XH -> Some X48)
                  | XH -> Some X28)
               | XH -> Some X18)
            | XO p3 ->
              (match p3 with
               | XI p4 ->
                 (match p4 with
                  | XI p5 ->
                    (match p5 with
                     | XI p6 -> (match p6 with
                                 | XH -> Some Xf0
                                 | _ -> None)
                     | XO p6 -> (match p6 with
                                 | XH -> Some Xb0
                                 | _ -> None)
                     | XH -> Some X70)
                  | XO p5 ->
                    (match p5 with
                     | XI p6 -> (match p6 with
                                 | XH -> Some Xd0
                                 | _ -> None)
                     | XO p6 -> (match p6 with
                                 | XH -> Some X90
                                 | _ -> None)
                     | XH -> Some X50)
                  | XH -> Some X30)
               | XO p4 ->
                 (match p4 with
                  | XI p5 ->
                    (match p5 with
                     | XI p6 -> (match p6 with
                                 | XH -> Some Xe0
                                 | _ -> None)
                     | XO p6 -> (match p6 with
                                 | XH -> Some Xa0
                                 | _ -> None)
                     | XH -> Some X60)
                  | XO p5 ->
                    (match p5 with
                     | XI p6 -> (match p6 with
                                 | XH -> Some Xc0
                                 | _ -> None)
                     | XO p6 -> (match p6 with
                                 | XH -> Some X80
                                 | _ -> None)
                     | XH -> Some X40)
                  | XH -> Some X20)
               | XH -> Some X10)
            | XH -> Some X08)
         | XH -> Some X04)
      | XH -> Some X02)
   | XH -> Some X01)

type ascii =
| Ascii of bool * bool * bool * bool * bool * bool * bool * bool

(** val eqb1 : ascii -> ascii -> bool **)

let eqb1 a b =
  let Ascii (a0, a1, a2, a3, a4, a5, a6, a7) = a in
  let Ascii (b0, b1, b2, b3, b4, b5, b6, b7) = b in
  if if if if if if if eqb a0 b0 then eqb a1 b1 else false
                 then eqb a2 b2
                 else false
              then eqb a3 b3
              else false
           then eqb a4 b4
           else false
        then eqb a5 b5
        else false
     then eqb a6 b6
     else false
  then eqb a7 b7
  else false

module Z =
 struct
  (** val double : z -> z **)

  let double = function
  | Z0 -> Z0
  | Zpos p -> Zpos (XO p)
  | Zneg p -> Zneg (XO p)

  (** val succ_double : z -> z **)

  let succ_double = function
  | Z0 -> Zpos XH
  | Zpos p -> Zpos (XI p)
  | Zneg p -> Zneg (Coq_Pos.pred_double p)

  (** val pred_double : z -> z **)

  let pred_double = function
  | Z0 -> Zneg XH
  | Zpos p -> Zpos (Coq_Pos.pred_double p)
  | Zneg p -> Zneg (XI p)

  (** val pos_sub : positive -> positive -> z **)

  let rec pos_sub x y =
    match x with
    | XI p ->
      (match y with
       | XI q -> double (pos_sub p q)
       | XO q -> succ_double (pos_sub p q)
       | XH -> Zpos (XO p))
    | XO p ->
      (match y with
       | XI q -> pred_double (pos_sub p q)
       | XO q -> double (pos_sub p q)
       | XH -> Zpos (Coq_Pos.pred_double p))
    | XH ->
      (match y with
       | XI q -> Zneg (XO q)
       | XO q -> Zneg (Coq_Pos.pred_double q)
       | XH -> Z0)

  (** val add : z -> z -> z **)

  let add x y =
    match x with
    | Z0 -> y
    | Zpos x' ->
      (match y with
       | Z0 -> x
       | Zpos y' -> Zpos (Coq_Pos.add x' y')
       | Zneg y' -> pos_sub x' y')
    | Zneg x' ->
      (match y with
       | Z0 -> x
       | Zpos y' -> pos_sub y' x'
       | Zneg y' -> Zneg (Coq_Pos.add x' y'))

  (** val opp : z -> z **)

  let opp = function
  | Z0 -> Z0
  | Zpos x0 -> Zneg x0
  | Zneg x0 -> Zpos x0

  (** val compare : z -> z -> comparison **)

  let compare x y =
    match x with
    | Z0 -> (match y with
             | Z0 -> Eq
             | Zpos _ -> Lt
             | Zneg _ -> Gt)
    | Zpos x' -> (match y with
                  | Zpos y' -> Coq_Pos.compare x' y'
                  | _ -> Gt)
    | Zneg x' ->
      (match y with
       | Zneg y' -> compOpp (Coq_Pos.compare x' y')
       | _ -> Lt)

  (** val leb : z -> z -> bool **)

  let leb x y =
    match compare x y with
    | Gt -> false
    | _ -> true

  (** val ltb : z -> z -> bool **)

  let ltb x y =
    match compare x y with
    | Lt -> true
    | _ -> false

  (** val eqb : z -> z -> bool **)

  let eqb x y =
    match x with
    | Z0 -> (match y with
             | Z0 -> true
             | _ -> false)
    | Zpos p -> (match y with
                 | Zpos q -> Coq_Pos.eqb p q
                 | _ -> false)
    | Zneg p -> (match y with
                 | Zneg q -> Coq_Pos.eqb p q
                 | _ -> false)

  (** val max : z -> z -> z **)

  let max n0 m =
    match compare n0 m with
    | Lt -> m
    | _ -> n0

  (** val min : z -> z -> z **)

  let min n0 m =
    match compare n0 m with
    | Gt -> m
    | _ -> n0

  (** val abs : z -> z **)

  let abs = function
  | Zneg p -> Zpos p
  | x -> x

  (** val abs_N : z -> n **)

  let abs_N = function
  | Z0 -> N0
  | Zpos p -> Npos p
  | Zneg p -> Npos p

  (** val of_nat : nat -> z **)

  let of_nat = function
  | O -> Z0
  | S n1 -> Zpos (Coq_Pos.of_succ_nat n1)

  (** val of_N : n -> z **)

  let of_N = function
  | N0 -> Z0
  | Npos p -> Zpos p
 end

type string =
| EmptyString
| String of ascii * string

(** val eqb2 : string -> string -> bool **)

let rec eqb2 s1 s2 =
  match s1 with
  | EmptyString ->
    (match s2 with
     | EmptyString -> true
     | String (_, _) -> false)
  | String (c1, s1') ->
    (match s2 with
     | EmptyString -> false
     | String (c2, s2') -> if eqb1 c1 c2 then eqb2 s1' s2' else false)

type bytes = byte list

(** val byte_of_N : n -> byte **)

let byte_of_N n0 =
  match of_N n0 with
  | Some b -> b
  | None -> X00

(** val n_of_byte : byte -> n **)

let n_of_byte =
  to_N

(** val bytes_eqb : bytes -> bytes -> bool **)

let rec bytes_eqb a b =
  match a with
  | [] -> (match b with
           | [] -> true
           | _ :: _ -> false)
  | x :: a' ->
    (match b with
     | [] -> false
     | y :: b' -> (&&) (eqb0 x y) (bytes_eqb a' b'))

(** val bytes_ltb : bytes -> bytes -> bool **)

let rec bytes_ltb a b =
  match a with
  | [] -> (match b with
           | [] -> false
           | _ :: _ -> true)
  | x :: a' ->
    (match b with
     | [] -> false
     | y :: b' ->
       if N.ltb (to_N x) (to_N y)
       then true
       else if N.ltb (to_N y) (to_N x) then false else bytes_ltb a' b')

(** val is_space : byte -> bool **)

let is_space = function
| X09 -> true
| X0a -> true
| X0b -> true
| X0c -> true
| X0d -> true
| X20 -> true
| _ -> false

(** val is_digit : byte -> bool **)

let is_digit = function
| X30 -> true
| X31 -> true
| X32 -> true
| X33 -> true
| X34 -> true
| X35 -> true
| X36 -> true
| X37 -> true
| X38 -> true
| X39 -> true
| _ -> false

(** val digit_val : byte -> n **)

let digit_val b =
  N.sub (to_N b) (Npos (XO (XO (XO (XO (XI XH))))))

(** val digit_byte : n -> byte **)

let digit_byte d0 =
  byte_of_N (N.add (Npos (XO (XO (XO (XO (XI XH)))))) d0)

(** val dec_digits : nat -> n -> bytes **)

let rec dec_digits fuel n0 =
  match fuel with
  | O -> []
  | S f ->
    if N.ltb n0 (Npos (XO (XI (XO XH))))
    then (digit_byte n0) :: []
    else app (dec_digits f (N.div n0 (Npos (XO (XI (XO XH))))))
           ((digit_byte (N.modulo n0 (Npos (XO (XI (XO XH)))))) :: [])

(** val print_N : n -> bytes **)

let print_N n0 =
  dec_digits (S (N.to_nat (N.log2 n0))) n0

(** val print_Z : z -> bytes **)

let print_Z z0 =
  if Z.ltb z0 Z0 then X2d :: (print_N (Z.abs_N z0)) else print_N (Z.abs_N z0)

(** val drop_ws : bytes -> bytes **)

let rec drop_ws s = match s with
| [] -> []
| b :: r -> if is_space b then drop_ws r else s

(** val take_sign : bytes -> bool * bytes **)

let take_sign s = match s with
| [] -> (false, s)
| b :: r ->
  (match b with
   | X2b -> (false, r)
   | X2d -> (true, r)
   | _ -> (false, s))

(** val digits_acc : n -> bool -> bytes -> n * bool **)

let rec digits_acc acc seen = function
| [] -> (acc, seen)
| b :: r ->
  if is_digit b
  then digits_acc (N.add (N.mul acc (Npos (XO (XI (XO XH))))) (digit_val b))
         true r
  else (acc, seen)

(** val parse_int : bytes -> (bool * n) option **)

let parse_int s =
  let (neg, r) = take_sign (drop_ws s) in
  let (v, seen) = digits_acc N0 false r in
  if seen then Some (neg, v) else None

(** val iNT_MIN : z **)

let iNT_MIN =
  Zneg (XO (XO (XO (XO (XO (XO (XO (XO (XO (XO (XO (XO (XO (XO (XO (XO (XO
    (XO (XO (XO (XO (XO (XO (XO (XO (XO (XO (XO (XO (XO (XO
    XH)))))))))))))))))))))))))))))))

(** val iNT_MAX : z **)

let iNT_MAX =
  Zpos (XI (XI (XI (XI (XI (XI (XI (XI (XI (XI (XI (XI (XI (XI (XI (XI (XI
    (XI (XI (XI (XI (XI (XI (XI (XI (XI (XI (XI (XI (XI
    XH))))))))))))))))))))))))))))))

(** val uLONG_MAX : n **)

let uLONG_MAX =
  Npos (XI (XI (XI (XI (XI (XI (XI (XI (XI (XI (XI (XI (XI (XI (XI (XI (XI
    (XI (XI (XI (XI (XI (XI (XI (XI (XI (XI (XI (XI (XI (XI (XI (XI (XI (XI
    (XI (XI (XI (XI (XI (XI (XI (XI (XI (XI (XI (XI (XI (XI (XI (XI (XI (XI
    (XI (XI (XI (XI (XI (XI (XI (XI (XI (XI
    XH)))))))))))))))))))))))))))))))))))))))))))))))))))))))))))))))

(** val stoi : bytes -> z option **)

let stoi s =
  match parse_int s with
  | Some p ->
    let (neg, v) = p in
    let z0 = if neg then Z.opp (Z.of_N v) else Z.of_N v in
    if (&&) (Z.leb iNT_MIN z0) (Z.leb z0 iNT_MAX) then Some z0 else None
  | None -> None

(** val stoul : bytes -> n option **)

let stoul s =
  match parse_int s with
  | Some p ->
    let (neg, v) = p in
    if N.leb v uLONG_MAX
    then Some
           (if neg
            then N.modulo (N.sub (N.add uLONG_MAX (Npos XH)) v)
                   (N.add uLONG_MAX (Npos XH))
            else v)
    else None
  | None -> None

(** val split_on : (byte -> bool) -> bytes -> bytes list **)

let rec split_on sep = function
| [] -> [] :: []
| b :: r ->
  if sep b
  then [] :: (split_on sep r)
  else (match split_on sep r with
        | [] -> (b :: []) :: []
        | h :: t -> (b :: h) :: t)

(** val cut_at : byte -> bytes -> (bytes * bytes) option **)

let rec cut_at c = function
| [] -> None
| b :: r ->
  if eqb0 b c
  then Some ([], r)
  else (match cut_at c r with
        | Some p -> let (k, v) = p in Some ((b :: k), v)
        | None -> None)

type dee_ops = { d_zero : __; d_parse : (bytes -> __ option);
                 d_print : (__ -> bytes); d_decay : (__ -> n -> n -> __);
                 d_max : (__ -> __ -> __); d_of_commits : (z -> __) }

type d = __

type value = { commits : z; dee : d; tick : n }

(** val value0 : dee_ops -> value **)

let value0 o =
  { commits = Z0; dee = o.d_zero; tick = N0 }

(** val set_commits : dee_ops -> value -> z -> value **)

let set_commits _ v c =
  { commits = c; dee = v.dee; tick = v.tick }

(** val set_dee : dee_ops -> value -> d -> value **)

let set_dee _ v d0 =
  { commits = v.commits; dee = d0; tick = v.tick }

(** val set_tick : dee_ops -> value -> n -> value **)

let set_tick _ v t =
  { commits = v.commits; dee = v.dee; tick = t }

(** val k_c : bytes **)

let k_c =
  X63 :: []

(** val k_d : bytes **)

let k_d =
  X64 :: []

(** val k_t : bytes **)

let k_t =
  X74 :: []

(** val is_sp : byte -> bool **)

let is_sp b =
  eqb0 b X20

(** val pack : dee_ops -> value -> bytes **)

let pack o v =
  app (X63 :: (X3d :: []))
    (app (print_Z v.commits)
      (app (X20 :: (X64 :: (X3d :: [])))
        (app (o.d_print v.dee)
          (app (X20 :: (X74 :: (X3d :: []))) (print_N v.tick)))))

(** val unpack_item : dee_ops -> value -> bytes -> value option **)

let unpack_item o v item =
  match cut_at X3d item with
  | Some p ->
    let (k, x) = p in
    if bytes_eqb k k_c
    then option_map (set_commits o v) (stoi x)
    else if bytes_eqb k k_d
         then option_map (set_dee o v) (o.d_parse x)
         else if bytes_eqb k k_t
              then option_map (set_tick o v) (stoul x)
              else Some v
  | None -> Some v

(** val unpack_items : dee_ops -> value -> bytes list -> value * bool **)

let rec unpack_items o v = function
| [] -> (v, true)
| it :: r ->
  (match unpack_item o v it with
   | Some v' -> unpack_items o v' r
   | None -> (v, false))

(** val unpack_into : dee_ops -> value -> bytes -> value * bool **)

let unpack_into o v s =
  unpack_items o v (split_on is_sp s)

(** val unpack : dee_ops -> bytes -> value **)

let unpack o s =
  fst (unpack_into o (value0 o) s)

(** val lower : byte -> byte **)

let lower b =
  let n0 = to_N b in
  if (&&) (N.leb (Npos (XI (XO (XO (XO (XO (XO XH))))))) n0)
       (N.leb n0 (Npos (XO (XI (XO (XI (XI (XO XH))))))))
  then byte_of_N (N.add n0 (Npos (XO (XO (XO (XO (XO XH)))))))
  else b

(** val starts_with_ci : bytes -> bytes -> bool **)

let starts_with_ci p s =
  bytes_eqb p (map lower (firstn (length p) s))

(** val stod_ok : bytes -> bool **)

let stod_ok s =
  let (_, r) = take_sign (drop_ws s) in
  (match r with
   | [] -> false
   | b :: r' ->
     if is_digit b
     then true
     else if eqb0 b X2e
          then (match r' with
                | [] -> false
                | c :: _ -> is_digit c)
          else (||) (starts_with_ci (X69 :: (X6e :: (X66 :: []))) r)
                 (starts_with_ci (X6e :: (X61 :: (X6e :: []))) r))

(** val erased_ops : dee_ops **)

let erased_ops =
  { d_zero = (Obj.magic ()); d_parse = (fun s ->
    if stod_ok s then Some (Obj.magic ()) else None); d_print = (fun _ ->
    X30 :: []); d_decay = (fun d0 _ _ -> d0); d_max = (fun d0 _ -> d0);
    d_of_commits = (fun _ -> Obj.magic ()) }

type amap = (bytes * bytes) list

(** val find : bytes -> amap -> bytes option **)

let rec find k = function
| [] -> None
| p :: r -> let (k', v) = p in if bytes_eqb k k' then Some v else find k r

(** val mem : bytes -> amap -> bool **)

let mem k m =
  match find k m with
  | Some _ -> true
  | None -> false

(** val replace : bytes -> bytes -> amap -> amap **)

let rec replace k v = function
| [] -> []
| p :: r ->
  let (k', v') = p in
  if bytes_eqb k k' then (k', v) :: r else (k', v') :: (replace k v r)

(** val insert : bytes -> bytes -> amap -> amap **)

let rec insert k v m = match m with
| [] -> (k, v) :: []
| p :: r ->
  let (k', v') = p in
  if bytes_ltb k k' then (k, v) :: m else (k', v') :: (insert k v r)

(** val upd : bytes -> bytes -> amap -> amap **)

let upd k v m =
  if mem k m then replace k v m else insert k v m

type db = { meta : amap; data : amap }

(** val empty_db : db **)

let empty_db =
  { meta = []; data = [] }

(** val meta_update : bytes -> bytes -> db -> db **)

let meta_update k v d0 =
  { meta = (upd k v d0.meta); data = d0.data }

(** val data_update : bytes -> bytes -> db -> db **)

let data_update k v d0 =
  { meta = d0.meta; data = (upd k v d0.data) }

(** val sp : bytes **)

let sp =
  X20 :: []

(** val query_all : amap -> amap **)

let query_all m =
  filter (fun kv -> negb (bytes_ltb (fst kv) sp)) m

(** val mk_tick : bytes **)

let mk_tick =
  X2f :: (X74 :: (X69 :: (X63 :: (X6b :: []))))

(** val mk_user_id : bytes **)

let mk_user_id =
  X2f :: (X75 :: (X73 :: (X65 :: (X72 :: (X5f :: (X69 :: (X64 :: [])))))))

(** val mk_db_name : bytes **)

let mk_db_name =
  X2f :: (X64 :: (X62 :: (X5f :: (X6e :: (X61 :: (X6d :: (X65 :: [])))))))

(** val mk_db_type : bytes **)

let mk_db_type =
  X2f :: (X64 :: (X62 :: (X5f :: (X74 :: (X79 :: (X70 :: (X65 :: [])))))))

(** val mk_rime_version : bytes **)

let mk_rime_version =
  X2f :: (X72 :: (X69 :: (X6d :: (X65 :: (X5f :: (X76 :: (X65 :: (X72 :: (X73 :: (X69 :: (X6f :: (X6e :: []))))))))))))

(** val s_userdb : bytes **)

let s_userdb =
  X75 :: (X73 :: (X65 :: (X72 :: (X64 :: (X62 :: [])))))

(** val get_tick_count : db -> n **)

let get_tick_count d0 =
  match find mk_tick d0.meta with
  | Some t -> (match stoul t with
               | Some n0 -> n0
               | None -> Npos XH)
  | None -> Npos XH

type merger = { m_db : db; our_tick : n; their_tick : n; max_tick : n;
                merged_entries : z option; m_uninit : bool }

(** val mk_merger : bool -> db -> merger **)

let mk_merger inits d0 =
  let t = get_tick_count d0 in
  { m_db = d0; our_tick = t; their_tick = N0; max_tick = t; merged_entries =
  (if inits then Some Z0 else None); m_uninit = false }

(** val rd : z -> z option -> z **)

let rd g = function
| Some z0 -> z0
| None -> g

(** val is_none : z option -> bool **)

let is_none = function
| Some _ -> false
| None -> true

(** val m_meta_put : merger -> bytes -> bytes -> merger **)

let m_meta_put m k v =
  if bytes_eqb k mk_tick
  then (match stoul v with
        | Some t ->
          { m_db = m.m_db; our_tick = m.our_tick; their_tick = t; max_tick =
            (N.max m.our_tick t); merged_entries = m.merged_entries;
            m_uninit = m.m_uninit }
        | None -> m)
  else m

(** val merge_value :
    dee_ops -> n -> n -> n -> bytes option -> bytes -> value **)

let merge_value o our their mx ours theirs =
  let v = unpack o theirs in
  let v0 =
    if N.ltb v.tick their
    then set_dee o v (o.d_decay v.dee their v.tick)
    else v
  in
  let o0 = match ours with
           | Some s -> unpack o s
           | None -> value0 o in
  let o1 =
    if N.ltb o0.tick our
    then set_dee o o0 (o.d_decay o0.dee our o0.tick)
    else o0
  in
  let o2 =
    if Z.ltb (Z.abs o1.commits) (Z.abs v0.commits)
    then set_commits o o1 v0.commits
    else o1
  in
  { commits = o2.commits; dee = (o.d_max o2.dee v0.dee); tick = mx }

(** val m_put : dee_ops -> z -> merger -> bytes -> bytes -> merger * bool **)

let m_put o g m k v =
  let o0 =
    merge_value o m.our_tick m.their_tick m.max_tick (find k m.m_db.data) v
  in
  let n0 = Z.add (rd g m.merged_entries) (Zpos XH) in
  ({ m_db = (data_update k (pack o o0) m.m_db); our_tick = m.our_tick;
  their_tick = m.their_tick; max_tick = m.max_tick; merged_entries = (Some
  n0); m_uninit = ((||) m.m_uninit (is_none m.merged_entries)) },
  (negb (Z.eqb n0 Z0)))

(** val m_close : z -> bytes -> merger -> merger **)

let m_close g uid m =
  let u = (||) m.m_uninit (is_none m.merged_entries) in
  if Z.eqb (rd g m.merged_entries) Z0
  then { m_db = m.m_db; our_tick = m.our_tick; their_tick = m.their_tick;
         max_tick = m.max_tick; merged_entries = m.merged_entries; m_uninit =
         u }
  else { m_db =
         (meta_update mk_user_id uid
           (meta_update mk_tick (print_N m.max_tick) m.m_db)); our_tick =
         m.our_tick; their_tick = m.their_tick; max_tick = m.max_tick;
         merged_entries = (Some Z0); m_uninit = u }

(** val merge_run : dee_ops -> bool -> z -> bytes -> db -> db -> merger **)

let merge_run o inits g uid src dst =
  let m = mk_merger inits dst in
  let m0 = fold_left (fun m0 kv -> m_meta_put m0 (fst kv) (snd kv)) src.meta m
  in
  let m1 =
    fold_left (fun m1 kv -> fst (m_put o g m1 (fst kv) (snd kv)))
      (query_all src.data) m0
  in
  m_close g uid m1

(** val merge_count : dee_ops -> bool -> z -> db -> db -> nat **)

let merge_count o inits g src dst =
  let m = mk_merger inits dst in
  let m0 = fold_left (fun m0 kv -> m_meta_put m0 (fst kv) (snd kv)) src.meta m
  in
  snd
    (fold_left (fun mn kv ->
      let (m', ok) = m_put o g (fst mn) (fst kv) (snd kv) in
      (m', (if ok then S (snd mn) else snd mn))) (query_all src.data) (m0,
      (length src.meta)))

(** val merge_db : dee_ops -> bool -> z -> bytes -> db -> db -> db **)

let merge_db o inits g uid src dst =
  (merge_run o inits g uid src dst).m_db

(** val import_value : dee_ops -> bytes option -> bytes -> value **)

let import_value o ours theirs =
  let v = unpack o theirs in
  let o0 = match ours with
           | Some s -> unpack o s
           | None -> value0 o in
  if Z.ltb Z0 v.commits
  then { commits = (Z.max o0.commits v.commits); dee =
         (o.d_max o0.dee v.dee); tick = o0.tick }
  else if Z.ltb v.commits Z0
       then set_commits o o0 (Z.min v.commits (Z.opp (Z.abs o0.commits)))
       else o0

(** val imp_put : dee_ops -> db -> bytes -> bytes -> db **)

let imp_put o d0 k v =
  data_update k (pack o (import_value o (find k d0.data) v)) d0

(** val sink_meta_put : db -> bytes -> bytes -> db **)

let sink_meta_put d0 k v =
  meta_update k v d0

(** val sink_put : db -> bytes -> bytes -> db **)

let sink_put d0 k v =
  data_update k v d0

(** val entry_obs : dee_ops -> (bytes * bytes) -> (bytes * z) * n **)

let entry_obs o kv =
  let v = unpack o (snd kv) in (((fst kv), v.commits), v.tick)

(** val dump : dee_ops -> db -> ((bytes * z) * n) list **)

let dump o d0 =
  map (entry_obs o) d0.data

(** val tAB : byte **)

let tAB =
  X09

(** val lF : byte **)

let lF =
  X0a

(** val hASH : byte **)

let hASH =
  X23

(** val is_tab : byte -> bool **)

let is_tab b =
  eqb0 b tAB

(** val is_lf : byte -> bool **)

let is_lf b =
  eqb0 b lF

(** val trim_right : bytes -> bytes **)

let rec trim_right = function
| [] -> []
| b :: r ->
  (match trim_right r with
   | [] -> if is_space b then [] else b :: []
   | b0 :: l -> b :: (b0 :: l))

(** val trim : bytes -> bytes **)

let trim s =
  trim_right (drop_ws s)

(** val join_tab : bytes list -> bytes **)

let rec join_tab = function
| [] -> []
| x :: r -> (match r with
             | [] -> x
             | _ :: _ -> app x (tAB :: (join_tab r)))

(** val last_byte : bytes -> byte option **)

let rec last_byte = function
| [] -> None
| b :: r -> (match r with
             | [] -> Some b
             | _ :: _ -> last_byte r)

(** val lines_of : bytes -> bytes list **)

let rec lines_of = function
| [] -> []
| b :: r ->
  if is_lf b
  then [] :: (lines_of r)
  else (match lines_of r with
        | [] -> (b :: []) :: []
        | h :: t -> (b :: h) :: t)

(** val is_empty : bytes -> bool **)

let is_empty = function
| [] -> true
| _ :: _ -> false

(** val userdb_formatter : bytes -> bytes -> bytes list option **)

let userdb_formatter k v =
  match split_on is_tab k with
  | [] -> None
  | code :: l ->
    (match l with
     | [] -> None
     | text :: l0 ->
       (match l0 with
        | [] ->
          if (||) (is_empty code) (is_empty text)
          then None
          else Some (code :: (text :: (v :: [])))
        | _ :: _ -> None))

(** val userdb_parser : bytes list -> (bytes * bytes) option **)

let userdb_parser = function
| [] -> None
| code :: l ->
  (match l with
   | [] -> None
   | text :: rest ->
     if (||) (is_empty code) (is_empty text)
     then None
     else let code' =
            match last_byte code with
            | Some b ->
              (match b with
               | X00 -> app code (X20 :: [])
               | X20 -> code
               | _ -> app code (X20 :: []))
            | None -> app code (X20 :: [])
          in
          Some ((app code' (tAB :: text)),
          (match rest with
           | [] -> []
           | v :: _ -> v)))

(** val table_formatter : dee_ops -> bytes -> bytes -> bytes list option **)

let table_formatter o k v =
  match split_on is_tab k with
  | [] -> None
  | code :: l ->
    (match l with
     | [] -> None
     | text :: l0 ->
       (match l0 with
        | [] ->
          if (||) (is_empty code) (is_empty text)
          then None
          else let c = (unpack o v).commits in
               if Z.ltb c Z0
               then None
               else Some (text :: ((trim code) :: ((print_Z c) :: [])))
        | _ :: _ -> None))

(** val table_parser : dee_ops -> bytes list -> (bytes * bytes) option **)

let table_parser o = function
| [] -> None
| text :: l ->
  (match l with
   | [] -> None
   | code :: rest ->
     if (||) (is_empty text) (is_empty code)
     then None
     else let v =
            match rest with
            | [] -> value0 o
            | w :: _ ->
              if is_empty w
              then value0 o
              else (match stoi w with
                    | Some c ->
                      { commits = c; dee = (o.d_of_commits c); tick = N0 }
                    | None -> value0 o)
          in
          Some ((app (trim code) (X20 :: (tAB :: text))), (pack o v)))

(** val description_line : bytes -> bytes **)

let description_line descr =
  if is_empty descr then [] else hASH :: (X20 :: (app descr (lF :: [])))

(** val meta_line : (bytes * bytes) -> bytes **)

let meta_line kv =
  hASH :: (X40 :: (app (fst kv) (tAB :: (app (snd kv) (lF :: [])))))

(** val data_line :
    (bytes -> bytes -> bytes list option) -> (bytes * bytes) -> bytes **)

let data_line fmt kv =
  match fmt (fst kv) (snd kv) with
  | Some l ->
    (match l with
     | [] -> []
     | x :: r -> app (join_tab (x :: r)) (lF :: []))
  | None -> []

(** val data_counts :
    (bytes -> bytes -> bytes list option) -> (bytes * bytes) -> bool **)

let data_counts fmt kv =
  match fmt (fst kv) (snd kv) with
  | Some l -> (match l with
               | [] -> false
               | _ :: _ -> true)
  | None -> false

(** val tsv_write :
    bytes -> (bytes -> bytes -> bytes list option) -> amap -> amap -> bytes **)

let tsv_write descr fmt metas datas =
  app (description_line descr)
    (app (concat (map meta_line metas)) (concat (map (data_line fmt) datas)))

(** val tsv_write_count :
    (bytes -> bytes -> bytes list option) -> amap -> nat **)

let tsv_write_count fmt datas =
  length (filter (data_counts fmt) datas)

(** val s_no_comment : bytes **)

let s_no_comment =
  X23 :: (X20 :: (X6e :: (X6f :: (X20 :: (X63 :: (X6f :: (X6d :: (X6d :: (X65 :: (X6e :: (X74 :: [])))))))))))

type 's rstate = { r_sink : 's; r_comment : bool; r_count : nat }

(** val read_line :
    (bytes list -> (bytes * bytes) option) -> ('a1 -> bytes -> bytes ->
    'a1 * bool) -> ('a1 -> bytes -> bytes -> 'a1 * bool) -> 'a1 rstate ->
    bytes -> 'a1 rstate **)

let read_line parser0 s_meta_put s_put st raw =
  let line = trim_right raw in
  (match line with
   | [] -> st
   | c :: rest ->
     if (&&) st.r_comment (eqb0 c hASH)
     then (match rest with
           | [] ->
             if bytes_eqb line s_no_comment
             then { r_sink = st.r_sink; r_comment = false; r_count =
                    st.r_count }
             else st
           | b :: body ->
             (match b with
              | X40 ->
                (match split_on is_tab body with
                 | [] -> st
                 | k :: l ->
                   (match l with
                    | [] -> st
                    | v :: l0 ->
                      (match l0 with
                       | [] ->
                         { r_sink = (fst (s_meta_put st.r_sink k v));
                           r_comment = st.r_comment; r_count = st.r_count }
                       | _ :: _ -> st)))
              | _ ->
                if bytes_eqb line s_no_comment
                then { r_sink = st.r_sink; r_comment = false; r_count =
                       st.r_count }
                else st))
     else (match parser0 (split_on is_tab line) with
           | Some p ->
             let (k, v) = p in
             let (s', ok) = s_put st.r_sink k v in
             { r_sink = s'; r_comment = st.r_comment; r_count =
             (if ok then S st.r_count else st.r_count) }
           | None -> st))

(** val tsv_read :
    (bytes list -> (bytes * bytes) option) -> ('a1 -> bytes -> bytes ->
    'a1 * bool) -> ('a1 -> bytes -> bytes -> 'a1 * bool) -> bytes -> 'a1 ->
    'a1 rstate **)

let tsv_read parser0 s_meta_put s_put file s0 =
  fold_left (read_line parser0 s_meta_put s_put) (lines_of file) { r_sink =
    s0; r_comment = true; r_count = O }

(** val s_descr_userdb : bytes **)

let s_descr_userdb =
  X52 :: (X69 :: (X6d :: (X65 :: (X20 :: (X75 :: (X73 :: (X65 :: (X72 :: (X20 :: (X64 :: (X69 :: (X63 :: (X74 :: (X69 :: (X6f :: (X6e :: (X61 :: (X72 :: (X79 :: [])))))))))))))))))))

(** val s_descr_export : bytes **)

let s_descr_export =
  app s_descr_userdb
    (X20 :: (X65 :: (X78 :: (X70 :: (X6f :: (X72 :: (X74 :: [])))))))

(** val s_unknown : bytes **)

let s_unknown =
  X75 :: (X6e :: (X6b :: (X6e :: (X6f :: (X77 :: (X6e :: []))))))

(** val s_dot_userdb : bytes **)

let s_dot_userdb =
  X2e :: (X75 :: (X73 :: (X65 :: (X72 :: (X64 :: (X62 :: []))))))

(** val s_dot_temp : bytes **)

let s_dot_temp =
  X2e :: (X74 :: (X65 :: (X6d :: (X70 :: []))))

(** val starts_with : bytes -> bytes -> bool **)

let starts_with p s =
  bytes_eqb p (firstn (length p) s)

(** val find_last_pos : bytes -> bytes -> nat -> nat option -> nat option **)

let rec find_last_pos pat s i best =
  match s with
  | [] -> best
  | _ :: r ->
    find_last_pos pat r (S i) (if starts_with pat s then Some i else best)

(** val strip_userdb : bytes -> bytes **)

let strip_userdb name =
  match find_last_pos s_dot_userdb name O None with
  | Some i -> firstn i name
  | None -> name

(** val get_user_id : db -> bytes **)

let get_user_id d0 =
  match find mk_user_id d0.meta with
  | Some u -> u
  | None -> s_unknown

(** val is_user_db : db -> bool **)

let is_user_db d0 =
  match find mk_db_type d0.meta with
  | Some t -> bytes_eqb t s_userdb
  | None -> false

(** val get_db_name : db -> bytes **)

let get_db_name d0 =
  match find mk_db_name d0.meta with
  | Some n0 -> strip_userdb n0
  | None -> []

(** val create_metadata : bytes -> bytes -> bytes -> db -> db **)

let create_metadata ver uid name d0 =
  meta_update mk_user_id uid
    (meta_update mk_db_type s_userdb
      (meta_update mk_rime_version ver (meta_update mk_db_name name d0)))

(** val open_rw : bytes -> bytes -> bytes -> db -> db **)

let open_rw ver uid name d0 =
  match find mk_db_name d0.meta with
  | Some _ -> d0
  | None -> create_metadata ver uid name d0

(** val uniform_backup : db -> bytes **)

let uniform_backup d0 =
  tsv_write s_descr_userdb userdb_formatter d0.meta (query_all d0.data)

(** val uniform_restore : bytes -> db -> db **)

let uniform_restore file d0 =
  (tsv_read userdb_parser (fun d1 k v -> ((sink_meta_put d1 k v), true))
    (fun d1 k v -> ((sink_put d1 k v), true)) file d0).r_sink

(** val um_backup : bytes -> bytes -> bytes -> db -> db * bytes **)

let um_backup ver uid name d0 =
  let d1 =
    if bytes_eqb (get_user_id d0) uid
    then d0
    else create_metadata ver uid name (open_rw ver uid name d0)
  in
  (d1, (uniform_backup d1))

type restore_result =
| RestoreOk
| RestoreFailed
| RestoreOtherDb

(** val um_restore :
    dee_ops -> bool -> z -> bytes -> bytes -> bytes -> bytes -> db ->
    db * restore_result **)

let um_restore o inits g ver uid name file dest =
  let temp =
    uniform_restore file (create_metadata ver uid s_dot_temp empty_db)
  in
  if negb (is_user_db temp)
  then (dest, RestoreFailed)
  else let n0 = get_db_name temp in
       if is_empty n0
       then (dest, RestoreFailed)
       else if negb (bytes_eqb n0 name)
            then (dest, RestoreOtherDb)
            else ((merge_db o inits g uid temp (open_rw ver uid name dest)),
                   RestoreOk)

(** val um_export : dee_ops -> db -> (bytes * nat) option **)

let um_export o d0 =
  if is_user_db d0
  then Some
         ((tsv_write s_descr_export (table_formatter o) d0.meta
            (query_all d0.data)),
         (tsv_write_count (table_formatter o) (query_all d0.data)))
  else None

(** val um_import :
    dee_ops -> bytes -> bytes -> bytes -> bytes -> db -> db * nat option **)

let um_import o ver uid name file d0 =
  let d1 = open_rw ver uid name d0 in
  if is_user_db d1
  then let st =
         tsv_read (table_parser o) (fun d2 _ _ -> (d2, true)) (fun d2 k v ->
           ((imp_put o d2 k v), true)) file d1
       in
       (st.r_sink, (Some st.r_count))
  else (d1, None)

(** val um_sync :
    dee_ops -> bool -> z -> bytes -> bytes -> bytes -> bytes list -> db ->
    db * bytes **)

let um_sync o inits g ver uid name snaps d0 =
  um_backup ver uid name
    (fold_left (fun d1 f -> fst (um_restore o inits g ver uid name f d1))
      snaps d0)

(** val um_sync_ok :
    dee_ops -> bool -> z -> bytes -> bytes -> bytes -> bytes list -> db ->
    bool **)

let um_sync_ok o inits g ver uid name snaps d0 =
  snd
    (fold_left (fun db_ok f ->
      let (d', r) = um_restore o inits g ver uid name f (fst db_ok) in
      (d', ((&&) (snd db_ok) (match r with
                              | RestoreOk -> true
                              | _ -> false)))) snaps (d0, true))

type world = { w_dbs : db list; w_snaps : bytes option list;
               w_files : bytes option list }

type op =
| OBackup of nat
| ORestore of nat * nat
| ORestoreFile of nat * nat
| OSync of nat * nat list
| OExport of nat * nat
| OImport of nat * nat
| OMerge of nat * nat
| OUBackup of nat * nat
| OURestore of nat * nat

(** val uid_of : nat -> bytes **)

let uid_of i =
  X75 :: (print_N (N.of_nat i))

(** val dict_name : bytes **)

let dict_name =
  X64 :: (X69 :: (X63 :: (X74 :: [])))

(** val set_nth : nat -> 'a1 -> 'a1 list -> 'a1 list **)

let rec set_nth i x = function
| [] -> []
| a :: r -> (match i with
             | O -> x :: r
             | S i' -> a :: (set_nth i' x r))

(** val get_db : world -> nat -> db **)

let get_db w i =
  nth i w.w_dbs empty_db

(** val set_db : world -> nat -> db -> world **)

let set_db w i d0 =
  { w_dbs = (set_nth i d0 w.w_dbs); w_snaps = w.w_snaps; w_files = w.w_files }

(** val set_snap : world -> nat -> bytes -> world **)

let set_snap w i f =
  { w_dbs = w.w_dbs; w_snaps = (set_nth i (Some f) w.w_snaps); w_files =
    w.w_files }

(** val set_file : world -> nat -> bytes -> world **)

let set_file w s f =
  { w_dbs = w.w_dbs; w_snaps = w.w_snaps; w_files =
    (set_nth s (Some f) w.w_files) }

(** val snaps_in_order : world -> nat list -> bytes list **)

let snaps_in_order w order =
  flat_map (fun j ->
    match nth j w.w_snaps None with
    | Some f -> f :: []
    | None -> []) order

(** val restore_code : restore_result -> z **)

let restore_code = function
| RestoreOk -> Zpos XH
| RestoreFailed -> Z0
| RestoreOtherDb -> Zneg (XI XH)

(** val nOFILE : z **)

let nOFILE =
  Zneg (XO XH)

(** val step_ret :
    dee_ops -> bool -> z -> bytes -> world -> op -> world * z **)

let step_ret o inits g ver w = function
| OBackup i ->
  let (d0, f) = um_backup ver (uid_of i) dict_name (get_db w i) in
  ((set_snap (set_db w i d0) i f), (Zpos XH))
| ORestore (i, j) ->
  (match nth j w.w_snaps None with
   | Some f ->
     let (d0, r) =
       um_restore o inits g ver (uid_of i) dict_name f (get_db w i)
     in
     ((set_db w i d0), (restore_code r))
   | None -> (w, nOFILE))
| ORestoreFile (i, s) ->
  (match nth s w.w_files None with
   | Some f ->
     let (d0, r) =
       um_restore o inits g ver (uid_of i) dict_name f (get_db w i)
     in
     ((set_db w i d0), (restore_code r))
   | None -> (w, nOFILE))
| OSync (i, order) ->
  let snaps = snaps_in_order w order in
  let (d0, f) = um_sync o inits g ver (uid_of i) dict_name snaps (get_db w i)
  in
  ((set_snap (set_db w i d0) i f),
  (if um_sync_ok o inits g ver (uid_of i) dict_name snaps (get_db w i)
   then Zpos XH
   else Z0))
| OExport (i, s) ->
  (match um_export o (get_db w i) with
   | Some p -> let (f, n0) = p in ((set_file w s f), (Z.of_nat n0))
   | None -> (w, (Zneg XH)))
| OImport (i, s) ->
  (match nth s w.w_files None with
   | Some f ->
     let (d0, n0) = um_import o ver (uid_of i) dict_name f (get_db w i) in
     ((set_db w i d0), (match n0 with
                        | Some k -> Z.of_nat k
                        | None -> Zneg XH))
   | None -> (w, nOFILE))
| OMerge (i, j) ->
  ((set_db w i (merge_db o inits g (uid_of i) (get_db w j) (get_db w i))),
    (Z.of_nat (merge_count o inits g (get_db w j) (get_db w i))))
| OUBackup (i, s) -> ((set_file w s (uniform_backup (get_db w i))), (Zpos XH))
| OURestore (i, s) ->
  (match nth s w.w_files None with
   | Some f -> ((set_db w i (uniform_restore f (get_db w i))), (Zpos XH))
   | None -> (w, nOFILE))

type init_kind =
| InClass
| CtorInitList
| CtorBody
| NotInitialised
| Unrecognised

(** val is_init : init_kind -> bool **)

let is_init = function
| NotInitialised -> false
| Unrecognised -> false
| _ -> true

(** val field_initialised : (string * init_kind) list -> string -> bool **)

let field_initialised fs n0 =
  existsb (fun p -> (&&) (eqb2 (fst p) n0) (is_init (snd p))) fs

(** val translator_ok : bool **)

let translator_ok =
  true

(** val merger_fields : (string * init_kind) list **)

let merger_fields =
  ((String ((Ascii (false, false, true, false, false, true, true, false)),
    (String ((Ascii (false, true, false, false, false, true, true, false)),
    (String ((Ascii (true, true, true, true, true, false, true, false)),
    EmptyString)))))), CtorInitList) :: (((String ((Ascii (true, true, true,
    true, false, true, true, false)), (String ((Ascii (true, false, true,
    false, true, true, true, false)), (String ((Ascii (false, true, false,
    false, true, true, true, false)), (String ((Ascii (true, true, true,
    true, true, false, true, false)), (String ((Ascii (false, false, true,
    false, true, true, true, false)), (String ((Ascii (true, false, false,
    true, false, true, true, false)), (String ((Ascii (true, true, false,
    false, false, true, true, false)), (String ((Ascii (true, true, false,
    true, false, true, true, false)), (String ((Ascii (true, true, true,
    true, true, false, true, false)), EmptyString)))))))))))))))))),
    CtorBody) :: (((String ((Ascii (false, false, true, false, true, true,
    true, false)), (String ((Ascii (false, false, false, true, false, true,
    true, false)), (String ((Ascii (true, false, true, false, false, true,
    true, false)), (String ((Ascii (true, false, false, true, false, true,
    true, false)), (String ((Ascii (false, true, false, false, true, true,
    true, false)), (String ((Ascii (true, true, true, true, true, false,
    true, false)), (String ((Ascii (false, false, true, false, true, true,
    true, false)), (String ((Ascii (true, false, false, true, false, true,
    true, false)), (String ((Ascii (true, true, false, false, false, true,
    true, false)), (String ((Ascii (true, true, false, true, false, true,
    true, false)), (String ((Ascii (true, true, true, true, true, false,
    true, false)), EmptyString)))))))))))))))))))))), CtorBody) :: (((String
    ((Ascii (true, false, true, true, false, true, true, false)), (String
    ((Ascii (true, false, false, false, false, true, true, false)), (String
    ((Ascii (false, false, false, true, true, true, true, false)), (String
    ((Ascii (true, true, true, true, true, false, true, false)), (String
    ((Ascii (false, false, true, false, true, true, true, false)), (String
    ((Ascii (true, false, false, true, false, true, true, false)), (String
    ((Ascii (true, true, false, false, false, true, true, false)), (String
    ((Ascii (true, true, false, true, false, true, true, false)), (String
    ((Ascii (true, true, true, true, true, false, true, false)),
    EmptyString)))))))))))))))))), CtorBody) :: (((String ((Ascii (true,
    false, true, true, false, true, true, false)), (String ((Ascii (true,
    false, true, false, false, true, true, false)), (String ((Ascii (false,
    true, false, false, true, true, true, false)), (String ((Ascii (true,
    true, true, false, false, true, true, false)), (String ((Ascii (true,
    false, true, false, false, true, true, false)), (String ((Ascii (false,
    false, true, false, false, true, true, false)), (String ((Ascii (true,
    true, true, true, true, false, true, false)), (String ((Ascii (true,
    false, true, false, false, true, true, false)), (String ((Ascii (false,
    true, true, true, false, true, true, false)), (String ((Ascii (false,
    false, true, false, true, true, true, false)), (String ((Ascii (false,
    true, false, false, true, true, true, false)), (String ((Ascii (true,
    false, false, true, false, true, true, false)), (String ((Ascii (true,
    false, true, false, false, true, true, false)), (String ((Ascii (true,
    true, false, false, true, true, true, false)), (String ((Ascii (true,
    true, true, true, true, false, true, false)),
    EmptyString)))))))))))))))))))))))))))))), InClass) :: []))))

(** val ctor_inits_merged_entries : bool **)

let ctor_inits_merged_entries =
  (&&) translator_ok
    (field_initialised merger_fields (String ((Ascii (true, false, true,
      true, false, true, true, false)), (String ((Ascii (true, false, true,
      false, false, true, true, false)), (String ((Ascii (false, true, false,
      false, true, true, true, false)), (String ((Ascii (true, true, true,
      false, false, true, true, false)), (String ((Ascii (true, false, true,
      false, false, true, true, false)), (String ((Ascii (false, false, true,
      false, false, true, true, false)), (String ((Ascii (true, true, true,
      true, true, false, true, false)), (String ((Ascii (true, false, true,
      false, false, true, true, false)), (String ((Ascii (false, true, true,
      true, false, true, true, false)), (String ((Ascii (false, false, true,
      false, true, true, true, false)), (String ((Ascii (false, true, false,
      false, true, true, true, false)), (String ((Ascii (true, false, false,
      true, false, true, true, false)), (String ((Ascii (true, false, true,
      false, false, true, true, false)), (String ((Ascii (true, true, false,
      false, true, true, true, false)), (String ((Ascii (true, true, true,
      true, true, false, true, false)),
      EmptyString)))))))))))))))))))))))))))))))
