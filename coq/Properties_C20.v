(** C20 – strings copied into caller buffers are bounded and terminated.
    Property theorems only; each closed by [exact] of a lemma proved elsewhere. *)
From Coq Require Import List Arith.
From RimeV Require Import Buf.CopyModel Buf.CopyProofs Gen.CopySites.
Import ListNotations.

(** Every copy site the translator found in src/rime_api.cc today is one of the
    proved idioms (finite domain: the generated list itself). *)
Theorem C20_sites_recognised :
  forallb (fun s => idiom_ok (site_prog s)) copy_sites = true.
Proof. vm_compute. reflexivity. Qed.
Print Assumptions C20_sites_recognised.

(** For every site, every source string, every size >= 1 and every caller
    memory of at least that size: the call is defined, writes nothing at or
    beyond [n], and leaves the source truncated to [n-1] bytes followed by NUL. *)
Theorem C20_sites_bounded_terminated :
  forall s, In s copy_sites ->
  forall src n buf, 1 <= n -> n <= length buf -> no_nul src ->
  exists b, run (site_prog s) src n buf = Some b /\ copy_post src n buf b.
Proof.
  intros s Hs. apply idiom_ok_sound.
  exact (proj1 (forallb_forall _ _) C20_sites_recognised s Hs).
Qed.
Print Assumptions C20_sites_bounded_terminated.

(** The statement is not vacuous: there are sites, and the bare
    [strncpy(dest, src, n)] idiom is refuted by a concrete witness. *)
Theorem C20_sites_nonempty : copy_sites <> [].
Proof. discriminate. Qed.
Print Assumptions C20_sites_nonempty.

Theorem C20_bare_strncpy_refuted :
  1 <= 2 /\ 2 <= length refute_buf /\ no_nul refute_src /\
  exists b, run [Strncpy SzN] refute_src 2 refute_buf = Some b /\ ~ copy_post refute_src 2 refute_buf b.
Proof. exact strncpy_only_refuted. Qed.
Print Assumptions C20_bare_strncpy_refuted.

(** The boolean oracle run on implementation buffers decides the post-condition. *)
Theorem C20_oracle_reflects :
  forall src n buf b, copy_postb src n buf b = true <-> copy_post src n buf b.
Proof. exact copy_postb_spec. Qed.
Print Assumptions C20_oracle_reflects.
