
(** val negb : bool -> bool **)

let negb = function
| true -> false
| false -> true

(** val snd : ('a1 * 'a2) -> 'a2 **)

let snd = function
| (_, y) -> y

type comparison =
| Eq
| Lt
| Gt

(** val filter : ('a1 -> bool) -> 'a1 list -> 'a1 list **)

let rec filter f = function
| [] -> []
| x :: l0 -> if f x then x :: (filter f l0) else filter f l0

type positive =
| XI of positive
| XO of positive
| XH

type n =
| N0
| Npos of positive

module Pos =
 struct
  type mask =
  | IsNul
  | IsPos of positive
  | IsNeg
 end

module Coq_Pos =
 struct
  (** val succ : positive -> positive **)

  let rec succ = function
  | XI p -> XO (succ p)
  | XO p -> XI p
  | XH -> XO XH

  (** val add : positive -> positive -> positive **)

  let rec add x y =
    match x with
    | XI p ->
      (match y with
       | XI q -> XO (add_carry p q)
       | XO q -> XI (add p q)
       | XH -> XO (succ p))
    | XO p ->
      (match y with
       | XI q -> XI (add p q)
       | XO q -> XO (add p q)
       | XH -> XI p)
    | XH -> (match y with
             | XI q -> XO (succ q)
             | XO q -> XI q
             | XH -> XO XH)

  (** val add_carry : positive -> positive -> positive **)

  and add_carry x y =
    match x with
    | XI p ->
      (match y with
       | XI q -> XI (add_carry p q)
       | XO q -> XO (add_carry p q)
       | XH -> XI (succ p))
    | XO p ->
      (match y with
       | XI q -> XO (add_carry p q)
       | XO q -> XI (add p q)
       | XH -> XO (succ p))
    | XH ->
      (match y with
       | XI q -> XI (succ q)
       | XO q -> XO (succ q)
       | XH -> XI XH)

  (** val pred_double : positive -> positive **)

  let rec pred_double = function
  | XI p -> XI (XO p)
  | XO p -> XI (pred_double p)
  | XH -> XH

  type mask = Pos.mask =
  | IsNul
  | IsPos of positive
  | IsNeg

  (** val succ_double_mask : mask -> mask **)

  let succ_double_mask = function
  | IsNul -> IsPos XH
  | IsPos p -> IsPos (XI p)
  | IsNeg -> IsNeg

  (** val double_mask : mask -> mask **)

  let double_mask = function
  | IsPos p -> IsPos (XO p)
  | x0 -> x0

  (** val double_pred_mask : positive -> mask **)

  let double_pred_mask = function
  | XI p -> IsPos (XO (XO p))
  | XO p -> IsPos (XO (pred_double p))
  | XH -> IsNul

  (** val sub_mask : positive -> positive -> mask **)

  let rec sub_mask x y =
    match x with
    | XI p ->
      (match y with
       | XI q -> double_mask (sub_mask p q)
       | XO q -> succ_double_mask (sub_mask p q)
       | XH -> IsPos (XO p))
    | XO p ->
      (match y with
       | XI q -> succ_double_mask (sub_mask_carry p q)
       | XO q -> double_mask (sub_mask p q)
       | XH -> IsPos (pred_double p))
    | XH -> (match y with
             | XH -> IsNul
             | _ -> IsNeg)

  (** val sub_mask_carry : positive -> positive -> mask **)

  and sub_mask_carry x y =
    match x with
    | XI p ->
      (match y with
       | XI q -> succ_double_mask (sub_mask_carry p q)
       | XO q -> double_mask (sub_mask p q)
       | XH -> IsPos (pred_double p))
    | XO p ->
      (match y with
       | XI q -> double_mask (sub_mask_carry p q)
       | XO q -> succ_double_mask (sub_mask_carry p q)
       | XH -> double_pred_mask p)
    | XH -> IsNeg

  (** val compare_cont : comparison -> positive -> positive -> comparison **)

  let rec compare_cont r x y =
    match x with
    | XI p ->
      (match y with
       | XI q -> compare_cont r p q
       | XO q -> compare_cont Gt p q
       | XH -> Gt)
    | XO p ->
      (match y with
       | XI q -> compare_cont Lt p q
       | XO q -> compare_cont r p q
       | XH -> Gt)
    | XH -> (match y with
             | XH -> r
             | _ -> Lt)

  (** val compare : positive -> positive -> comparison **)

  let compare =
    compare_cont Eq

  (** val eqb : positive -> positive -> bool **)

  let rec eqb p q =
    match p with
    | XI p0 -> (match q with
                | XI q0 -> eqb p0 q0
                | _ -> false)
    | XO p0 -> (match q with
                | XO q0 -> eqb p0 q0
                | _ -> false)
    | XH -> (match q with
             | XH -> true
             | _ -> false)
 end

module N =
 struct
  (** val add : n -> n -> n **)

  let add n0 m =
    match n0 with
    | N0 -> m
    | Npos p -> (match m with
                 | N0 -> n0
                 | Npos q -> Npos (Coq_Pos.add p q))

  (** val sub : n -> n -> n **)

  let sub n0 m =
    match n0 with
    | N0 -> N0
    | Npos n' ->
      (match m with
       | N0 -> n0
       | Npos m' ->
         (match Coq_Pos.sub_mask n' m' with
          | Coq_Pos.IsPos p -> Npos p
          | _ -> N0))

  (** val compare : n -> n -> comparison **)

  let compare n0 m =
    match n0 with
    | N0 -> (match m with
             | N0 -> Eq
             | Npos _ -> Lt)
    | Npos n' -> (match m with
                  | N0 -> Gt
                  | Npos m' -> Coq_Pos.compare n' m')

  (** val eqb : n -> n -> bool **)

  let eqb n0 m =
    match n0 with
    | N0 -> (match m with
             | N0 -> true
             | Npos _ -> false)
    | Npos p -> (match m with
                 | N0 -> false
                 | Npos q -> Coq_Pos.eqb p q)

  (** val ltb : n -> n -> bool **)

  let ltb x y =
    match compare x y with
    | Lt -> true
    | _ -> false
 end

type sid = n

type 'op call =
| Create of sid
| Destroy of sid
| Find of sid
| Call of sid * 'op
| CleanupAll
| Advance of n
| CleanupStale

type 'obs out =
| OCreated of sid
| OBool of bool
| OObs of 'obs
| OUnit

type 'sess entry = 'sess * n

type 'sess smap = (sid * 'sess entry) list

(** val life_span : n **)

let life_span =
  Npos (XO (XO (XI (XI (XO (XI (XO (XO XH))))))))

(** val lookup : sid -> 'a1 smap -> 'a1 entry option **)

let rec lookup i = function
| [] -> None
| p :: m' -> let (j, x) = p in if N.eqb j i then Some x else lookup i m'

(** val remove : sid -> 'a1 smap -> 'a1 smap **)

let rec remove i = function
| [] -> []
| p :: m' ->
  let (j, x) = p in if N.eqb j i then remove i m' else (j, x) :: (remove i m')

(** val insert : sid -> 'a1 entry -> 'a1 smap -> 'a1 smap **)

let insert i x m =
  (i, x) :: (remove i m)

type ('sess, 'pers) svc = { live : 'sess smap; settings : 'pers; now : n }

(** val stale : n -> 'a1 entry -> bool **)

let stale t e =
  N.ltb (snd e) (N.sub t life_span)

(** val step :
    ('a4 -> 'a1) -> ('a1 -> 'a2 -> 'a1 * 'a3) -> ('a1 -> 'a2 -> 'a4 -> 'a4)
    -> ('a2 -> 'a3) -> ('a1, 'a4) svc -> 'a2 call -> ('a1, 'a4) svc * 'a3 out **)

let step snew sstep pstep rejected s = function
| Create i ->
  ({ live = (insert i ((snew s.settings), s.now) s.live); settings =
    s.settings; now = s.now }, (OCreated i))
| Destroy i ->
  (match lookup i s.live with
   | Some _ ->
     ({ live = (remove i s.live); settings = s.settings; now = s.now },
       (OBool true))
   | None -> (s, (OBool false)))
| Find i ->
  if N.eqb i N0
  then (s, (OBool false))
  else (match lookup i s.live with
        | Some e ->
          let (x, _) = e in
          ({ live = (insert i (x, s.now) s.live); settings = s.settings;
          now = s.now }, (OBool true))
        | None -> (s, (OBool false)))
| Call (i, o) ->
  (match lookup i s.live with
   | Some e ->
     let (x, _) = e in
     let (x', b) = sstep x o in
     ({ live = (insert i (x', s.now) s.live); settings =
     (pstep x o s.settings); now = s.now }, (OObs b))
   | None -> (s, (OObs (rejected o))))
| CleanupAll -> ({ live = []; settings = s.settings; now = s.now }, OUnit)
| Advance d ->
  ({ live = s.live; settings = s.settings; now = (N.add s.now d) }, OUnit)
| CleanupStale ->
  ({ live = (filter (fun e -> negb (stale s.now (snd e))) s.live); settings =
    s.settings; now = s.now }, OUnit)

(** val run :
    ('a4 -> 'a1) -> ('a1 -> 'a2 -> 'a1 * 'a3) -> ('a1 -> 'a2 -> 'a4 -> 'a4)
    -> ('a2 -> 'a3) -> ('a1, 'a4) svc -> 'a2 call list -> ('a1, 'a4)
    svc * ('a2 call * 'a3 out) list **)

let rec run snew sstep pstep rejected s = function
| [] -> (s, [])
| c :: h' ->
  let (s1, o) = step snew sstep pstep rejected s c in
  let (s2, t) = run snew sstep pstep rejected s1 h' in (s2, ((c, o) :: t))

type toy_sess = n

type toy_op = n

type toy_obs = bool * n

(** val toy_new : n -> toy_sess **)

let toy_new p =
  p

(** val toy_step : toy_sess -> toy_op -> toy_sess * toy_obs **)

let toy_step x o =
  ((N.add x o), (true, (N.add x o)))

(** val toy_pstep : toy_sess -> toy_op -> n -> n **)

let toy_pstep _ _ p =
  p

(** val toy_rejected : toy_op -> toy_obs **)

let toy_rejected _ =
  (false, N0)

(** val toy_run : toy_op call list -> (toy_op call * toy_obs out) list **)

let toy_run h =
  snd
    (run toy_new toy_step toy_pstep toy_rejected { live = []; settings = N0;
      now = (Npos (XO (XO (XO (XI (XO (XI (XI (XI (XI XH)))))))))) } h)
