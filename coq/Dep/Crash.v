(** Dep/Crash.v - what a killed deployment leaves on disk (C13).  Model only.

    Memory-mapped builders (dict/table.cc Table::Build, dict/prism.cc
    Prism::Build, dict/reverse_lookup_dictionary.cc ReverseDb::Build on top of
    dict/mapped_file.{h,cc}): a builder is the ordered list of its effects on
    the file; a kill leaves the file as after a prefix of that list (stores into
    a shared mapping and completed system calls survive the process).  The
    statement order of each Build, whether Remove() precedes Build at the call
    sites, what MappedFile::Create does to an existing file, whether Allocate
    zeroes, whether OpenReadOnly survives an unmappable file and how
    ConfigData::SaveToFile writes are NOT assumed here: they are regenerated
    from the current source into Gen/BuildOrder.v by gen/build_order.py.

    Load ports what Table::Load / Prism::Load / ReverseDb::Load check. *)
From Coq Require Import List NArith Bool String.
Import ListNotations.
Local Open Scope N_scope.

(** ** facts translated from the source *)

Inductive bstmt :=
| SCreate                       (* MappedFile::Create(estimated size) *)
| SAllocMeta                    (* metadata = Allocate<Metadata>() *)
| SField (f : string)           (* metadata->f = ... / CopyString(.., &metadata->f) *)
| STag                          (* strncpy(metadata->format, kFormat, ..) *)
| SRetTrue                      (* the final `return true;` *)
| SUnknown (what : string).     (* anything else that touches `format` / unrecognised shape *)

Inductive kind := KTable | KPrismF | KReverse.

Inductive save_mode := InPlace | TempRename | SaveUnknown.

Record build_facts := {
  bf_prog : kind -> list bstmt;
  bf_remove_before : kind -> bool;        (* Remove() precedes Build() at every call site *)
  bf_create_resizes_existing : bool;      (* Create() on an existing file only resizes it *)
  bf_alloc_zeroes : bool;                 (* Allocate memsets what it hands out *)
  bf_open_guarded : bool;                 (* OpenReadOnly returns false when the file cannot be mapped *)
  bf_save_mode : save_mode;               (* how a compiled config reaches its final name *)
  bf_stamp_last : bool                    (* WorkspaceUpdate writes var/last_build_time after all schema updates *)
}.

(** ** the file behind a MappedFile *)

Record mfile := {
  m_size : N;                  (* file size *)
  m_tag : bool;                (* metadata->format holds the current format tag *)
  m_fields : list string;      (* metadata fields stored since the metadata was last zeroed *)
  m_extent : N                 (* the furthest byte the stored offsets/sizes refer to *)
}.

Inductive eff :=
| ETrunc                       (* filebuf open with trunc: the file exists with size 0 *)
| ESize (n : N)                (* seek to n-1, put one byte: size n, all zero *)
| EResize (n : N)              (* resize_file of the existing file: bytes below n kept *)
| EZeroMeta                    (* memset of the freshly allocated metadata *)
| EStore (f : string) (ext : N)
| ETag
| EShrink (n : N).             (* Save(): ShrinkToFit *)

Definition blank (n : N) : mfile := {| m_size := n; m_tag := false; m_fields := []; m_extent := 0 |}.

Definition apply_eff (e : eff) (f : option mfile) : option mfile :=
  match e, f with
  | ETrunc, _ => Some (blank 0)
  | ESize n, _ => Some (blank n)
  | EResize n, Some m => Some {| m_size := n; m_tag := m_tag m; m_fields := m_fields m; m_extent := m_extent m |}
  | EResize _, None => None
  | EZeroMeta, Some m => Some {| m_size := m_size m; m_tag := false; m_fields := []; m_extent := 0 |}
  | EStore g x, Some m => Some {| m_size := m_size m; m_tag := m_tag m; m_fields := g :: m_fields m;
                                  m_extent := N.max (m_extent m) x |}
  | ETag, Some m => Some {| m_size := m_size m; m_tag := true; m_fields := m_fields m; m_extent := m_extent m |}
  | EShrink n, Some m => Some {| m_size := n; m_tag := m_tag m; m_fields := m_fields m; m_extent := m_extent m |}
  | _, None => None
  end.

Definition run_effs (es : list eff) (f : option mfile) : option mfile :=
  fold_left (fun st e => apply_eff e st) es f.

(** effects of one statement; [ex] = the file exists when Create is reached *)
Definition stmt_effs (bf : build_facts) (ex : bool) (est : N) (ext : string -> N) (st : bstmt) : list eff :=
  match st with
  | SCreate => if ex && bf_create_resizes_existing bf then [EResize est] else [ETrunc; ESize est]
  | SAllocMeta => if bf_alloc_zeroes bf then [EZeroMeta] else []
  | SField g => [EStore g (ext g)]
  | STag => [ETag]
  | SRetTrue => []
  | SUnknown _ => []
  end.

(** Build followed by Save *)
Definition builder_effs (bf : build_facts) (k : kind) (ex : bool) (est fin : N) (ext : string -> N) : list eff :=
  flat_map (stmt_effs bf ex est ext) (bf_prog bf k) ++ [EShrink fin].

(** the file the builder starts from: Remove() first => none *)
Definition start_file (bf : build_facts) (k : kind) (old : option mfile) : option mfile :=
  if bf_remove_before bf k then None else old.

Definition is_some {A} (o : option A) : bool := match o with Some _ => true | None => false end.

Definition kill_effs (bf : build_facts) (k : kind) (old : option mfile) (est fin : N) (ext : string -> N)
  : list eff :=
  builder_effs bf k (is_some (start_file bf k old)) est fin ext.

(** ** Load *)

Inductive lres := LReject | LAccept | LCrash.

Definition has (g : string) (m : mfile) : bool := existsb (String.eqb g) (m_fields m).

(** offset pointers Load() tests for null *)
Definition checked_ptrs (k : kind) : list string :=
  match k with
  | KTable => ["syllabary"; "index"]%string
  | KPrismF => ["double_array"]%string
  | KReverse => []
  end.

Definition load (bf : build_facts) (k : kind) (f : option mfile) : lres :=
  match f with
  | None => LReject                                  (* !Exists() *)
  | Some m =>
    if m_size m =? 0 then (if bf_open_guarded bf then LReject else LCrash)   (* mapping an empty file throws *)
    else if negb (m_tag m) then LReject              (* strncmp(format, prefix) *)
    else if negb (forallb (fun g => has g m) (checked_ptrs k)) then LReject
    else if m_extent m <=? m_size m then LAccept
    else LCrash                                      (* offsets reach beyond the mapping *)
  end.

(** ** what the translator must have found for the ordering argument *)

Definition is_field (s : bstmt) : bool := match s with SField _ => true | _ => false end.

(** Create, Allocate<Metadata>, field stores only, then the tag, then return true *)
Fixpoint fields_then_tag (p : list bstmt) : bool :=
  match p with
  | [STag; SRetTrue] => true
  | SField _ :: r => fields_then_tag r
  | _ => false
  end.

Definition prog_ok (p : list bstmt) : bool :=
  match p with
  | SCreate :: SAllocMeta :: r => fields_then_tag r
  | _ => false
  end.

Definition prog_fields (p : list bstmt) : list string :=
  flat_map (fun s => match s with SField g => [g] | _ => [] end) p.

Definition builder_ok (bf : build_facts) (k : kind) : bool :=
  prog_ok (bf_prog bf k) && bf_remove_before bf k && bf_open_guarded bf && bf_alloc_zeroes bf
  && forallb (fun g => existsb (String.eqb g) (prog_fields (bf_prog bf k))) (checked_ptrs k).

(** length of the longest prefix without the tag write *)
Fixpoint tag_index (es : list eff) : nat :=
  match es with
  | [] => 0
  | ETag :: _ => 0
  | _ :: r => S (tag_index r)
  end.

(** ** WorkspaceUpdate::Run and the start-up test DetectModifications::Run *)

Inductive weff := WUpdate (x : N) | WStamp (now : N).

(** the schema updates and the write of var/last_build_time, in program order *)
Definition ws_effs (stamp_last : bool) (now : N) (xs : list N) : list weff :=
  if stamp_last then map WUpdate xs ++ [WStamp now] else WStamp now :: map WUpdate xs.

Definition stamp_after (es : list weff) (old : N) : N :=
  fold_left (fun st e => match e with WStamp n => n | WUpdate _ => st end) es old.

(** a start-up deployment runs iff some source is newer than the stamp *)
Definition detect_modifications (latest_source_mtime last_build_time : N) : bool :=
  last_build_time <? latest_source_mtime.

(** ** compiled YAML: ConfigData::SaveToFile *)

Section Yaml.
Variable A : Type.                       (* bytes *)

(** the final name and the temporary name of one target *)
Record yfs := { y_final : option (list A); y_tmp : option (list A) }.

Inductive yeff :=
| YOpenTrunc (tmp : bool)                (* ofstream constructor *)
| YWrite (tmp : bool) (chunk : list A)   (* one filebuf flush *)
| YRename.                               (* rename(tmp, final) *)

Definition yapp (o : option (list A)) (c : list A) : option (list A) :=
  match o with Some b => Some (b ++ c) | None => None end.

Definition apply_yeff (e : yeff) (st : yfs) : yfs :=
  match e with
  | YOpenTrunc false => {| y_final := Some []; y_tmp := y_tmp st |}
  | YOpenTrunc true => {| y_final := y_final st; y_tmp := Some [] |}
  | YWrite false c => {| y_final := yapp (y_final st) c; y_tmp := y_tmp st |}
  | YWrite true c => {| y_final := y_final st; y_tmp := yapp (y_tmp st) c |}
  | YRename => match y_tmp st with
               | Some b => {| y_final := Some b; y_tmp := None |}
               | None => st
               end
  end.

Definition run_yeffs (es : list yeff) (st : yfs) : yfs := fold_left (fun s e => apply_yeff e s) es st.

(** the emitter's bytes reach the file in flush-sized chunks *)
Definition save_effs (mode : save_mode) (chunks : list (list A)) : list yeff :=
  match mode with
  | InPlace => YOpenTrunc false :: map (YWrite false) chunks
  | TempRename => YOpenTrunc true :: map (YWrite true) chunks ++ [YRename]
  | SaveUnknown => []
  end.

End Yaml.

Arguments y_final {A}. Arguments y_tmp {A}.
Arguments YOpenTrunc {A}. Arguments YWrite {A}. Arguments YRename {A}.
Arguments apply_yeff {A}. Arguments run_yeffs {A}. Arguments save_effs {A}.
