(** Dep/Sched.v - executable interleaving semantics of rime::Deployer + rime::Service
    (property C15).  Model only: no proofs in this file.

    Ported line by line from /repo/src/rime/deployer.cc, service.cc, service.h and
    the maintenance/session/notification functions of rime_api_impl.h.

    Two threads: the client (runs a script of API calls) and the worker (the
    std::async thread running Deployer::Run).  [step cfg s t] performs ONE micro
    step of thread [t]: at most one access to shared state, preceded by the
    acquisition of the mutex guarding it (the step is refused - [None] - when that
    mutex is held by the other thread) and followed by its release when the
    critical section contains no cut point.  Critical sections of Deployer::mutex_
    contain no cut point and are single steps; Service::mutex_ is held across the
    RIME_VERIF_NOTIFY_LOCKED cut point and has an explicit owner in the state.

    A [pc] that corresponds to a RIME_VERIF_YIELD hook (or a call boundary of the
    client) is a cut point ([w_yield]/[c_yield]); [macro] runs one thread from cut
    point to cut point: it is what the schedule controller of harness/c15 can do
    on the real library.  Theorems (SchedProofs.v) are about ALL lists of micro
    steps; the correspondence explores macro schedules.

    Which accesses are guarded by which mutex is not written here: it is read
    from the table generated from the clang AST (Gen/LockScopes.v : list acc_row)
    by [cfg_of_table]; the access annotations of the race-freedom theorem
    ([w_acc]/[c_acc]) are rows of that table. *)
From Coq Require Import List Bool Arith String.
Import ListNotations.
Local Open Scope string_scope.

(** * Lock-scope table (instantiated by Gen/LockScopes.v) *)
Inductive akind := ARead | AWrite | ACall | AUnknown.
Record acc_row := { a_fn : string; a_var : string; a_kind : akind; a_locks : list string }.

Definition akind_eqb (a b : akind) : bool :=
  match a, b with ARead, ARead | AWrite, AWrite | ACall, ACall | AUnknown, AUnknown => true | _, _ => false end.
Definition has_lock (m : string) (r : acc_row) : bool := existsb (String.eqb m) (a_locks r).
Definition rows (tbl : list acc_row) (fn : string) : list acc_row :=
  filter (fun r => String.eqb (a_fn r) fn) tbl.
Definition rows_var (tbl : list acc_row) (fn var : string) : list acc_row :=
  filter (fun r => String.eqb (a_var r) var) (rows tbl fn).
Definition all_locked (m : string) (rs : list acc_row) : bool :=
  negb (match rs with [] => true | _ => false end) && forallb (has_lock m) rs.

Definition DMUTEX := "Deployer::mutex_".
Definition SMUTEX := "Service::mutex_".
Definition VQUEUE := "Deployer::pending_tasks_".
Definition VHANDLER := "Service::notification_handler_".
Definition VSINK := "Deployer::message_sink_".
Definition VRUNNING := "Deployer::running_".
Definition VMM := "Deployer::maintenance_mode_".
Definition VWORK := "Deployer::work_".

(** How the client's StartWork and the worker's exit hand the worker role over.
    [HFuture]: the code before the repair of the exit window - StartWork tests IsWorking()
    (the future), the worker's last HasPendingTasks() test and its return are separate.
    [HFlag]: the repaired code - a flag running_ guarded by Deployer::mutex_; the worker's
    exit test (FinishWork) clears it in the critical section that finds the queue empty,
    StartWork tests it, the queue, and sets it in one critical section.
    [HUnrecognised]: anything else (no theorem is claimed; the semantics then behaves as HFuture). *)
Inductive handover := HFuture | HFlag | HUnrecognised.
Definition handover_eqb (a b : handover) : bool :=
  match a, b with HFuture, HFuture | HFlag, HFlag | HUnrecognised, HUnrecognised => true | _, _ => false end.

(** The part of the table the semantics depends on. *)
Record cfg := mkCfg {
  lk_sched : bool;  (* ScheduleTask pushes under Deployer::mutex_ *)
  lk_next : bool;   (* NextTask tests/pops under Deployer::mutex_ *)
  lk_hasp : bool;   (* HasPendingTasks tests under Deployer::mutex_ *)
  lk_set : bool;    (* SetNotificationHandler writes under Service::mutex_ *)
  lk_clear : bool;  (* ClearNotificationHandler writes under Service::mutex_ *)
  lk_ntest : bool;  (* Notify tests the handler under Service::mutex_ *)
  lk_ncall : bool;  (* Notify calls the handler under Service::mutex_ *)
  ho : handover     (* the StartWork/Run hand-over protocol the table shows *)
}.
Definition nw (c : cfg) : bool := match ho c with HFlag => true | _ => false end.
Definition with_handover (h : handover) (c : cfg) : cfg :=
  {| lk_sched := lk_sched c; lk_next := lk_next c; lk_hasp := lk_hasp c; lk_set := lk_set c; lk_clear := lk_clear c;
     lk_ntest := lk_ntest c; lk_ncall := lk_ncall c; ho := h |}.

Definition nth_locked (rs : list acc_row) (n : nat) (m : string) : bool :=
  match nth_error rs n with Some r => has_lock m r | None => false end.

(** Shapes of the functions whose statement order the model's programs rely on:
    the (variable/callee, kind) sequence of each, as the translator must find it.
    [table_shape_ok] is a hypothesis of every theorem of Properties_C15.v: when
    the source no longer has this shape the theorems are not claimed. *)
Definition shape (tbl : list acc_row) (fn : string) : list (string * akind) :=
  map (fun r => (a_var r, a_kind r)) (rows tbl fn).
Definition pair_eqb (a b : string * akind) : bool := String.eqb (fst a) (fst b) && akind_eqb (snd a) (snd b).
Fixpoint list_eqb {A} (eqb : A -> A -> bool) (a b : list A) : bool :=
  match a, b with
  | [], [] => true
  | x :: a', y :: b' => eqb x y && list_eqb eqb a' b'
  | _, _ => false
  end.

(** functions whose shape is the same before and after the repair of the hand-over *)
Definition expected_shapes : list (string * list (string * akind)) := [
  ("Deployer::ScheduleTask", [("Deployer::ScheduleTask", ACall); (VQUEUE, AWrite)]);
  ("Deployer::NextTask", [(VQUEUE, ARead); (VQUEUE, ARead); (VQUEUE, AWrite)]);
  ("Deployer::HasPendingTasks", [(VQUEUE, ARead)]);
  ("Deployer::StartMaintenance", [("Deployer::StartWork", ACall)]);
  ("Deployer::IsWorking", [(VWORK, ARead); (VWORK, ARead)]);
  ("Deployer::IsMaintenanceMode", [(VMM, ARead); ("Deployer::IsWorking", ACall)]);
  ("Deployer::JoinWorkThread", [(VWORK, ARead); (VWORK, AWrite)]);
  ("Deployer::JoinMaintenanceThread", [("Deployer::JoinWorkThread", ACall)]);
  ("Service::disabled", [("Service::started_", ARead); ("Deployer::IsMaintenanceMode", ACall)]);
  ("Service::CreateSession", [("Service::disabled", ACall); ("Service::sessions_", AWrite)]);
  ("Service::GetSession", [("Service::disabled", ACall); ("Service::sessions_", ARead); ("Service::sessions_", ARead)]);
  ("Service::DestroySession", [("Service::sessions_", ARead); ("Service::sessions_", ARead); ("Service::sessions_", AWrite)]);
  ("Service::CleanupAllSessions", [("Service::sessions_", AWrite)]);
  ("Service::SetNotificationHandler", [(VHANDLER, AWrite)]);
  ("Service::ClearNotificationHandler", [(VHANDLER, AWrite)]);
  ("Service::Notify", [(VHANDLER, ARead); (VHANDLER, ARead)])
].

(** the hand-over before the repair: Run ends with `while (HasPendingTasks())`; StartWork tests
    IsWorking(), writes maintenance_mode_, looks at the queue without the lock (no worker exists
    then), spawns; there is no FinishWork and no running_ *)
Definition expected_shapes_future : list (string * list (string * akind)) := [
  ("Deployer::Run", [(VSINK, ARead); ("Deployer::NextTask", ACall); (VSINK, ARead); ("Deployer::HasPendingTasks", ACall)]);
  ("Deployer::FinishWork", []);
  ("Deployer::StartWork", [("Deployer::IsWorking", ACall); (VMM, AWrite);
                           (VQUEUE, ARead); (VQUEUE, ARead); (VWORK, AWrite);
                           ("Deployer::Run", ACall); (VWORK, ARead)])
].

(** the repaired hand-over: Run ends with `while (!FinishWork())`; FinishWork tests the queue and
    clears running_; StartWork tests running_, writes maintenance_mode_, tests the queue (empty(),
    size()), sets running_ - then waits for the previous worker's future (valid(), wait()), assigns
    the new one (the lambda calls Run and clears running_ when Run throws), valid() *)
Definition expected_shapes_flag : list (string * list (string * akind)) := [
  ("Deployer::Run", [(VSINK, ARead); ("Deployer::NextTask", ACall); (VSINK, ARead); ("Deployer::FinishWork", ACall)]);
  ("Deployer::FinishWork", [(VQUEUE, ARead); (VRUNNING, AWrite)]);
  ("Deployer::StartWork", [(VRUNNING, ARead); (VMM, AWrite); (VQUEUE, ARead); (VQUEUE, ARead); (VRUNNING, AWrite);
                           (VWORK, ARead); (VWORK, ARead); (VWORK, AWrite);
                           ("Deployer::Run", ACall); (VRUNNING, AWrite); (VWORK, ARead)])
].

Definition shapes_match (tbl : list acc_row) (es : list (string * list (string * akind))) : bool :=
  forallb (fun e => list_eqb pair_eqb (shape tbl (fst e)) (snd e)) es.

(** every access to running_ anywhere, and every access of FinishWork and StartWork to the queue,
    is made under Deployer::mutex_ (this is what makes the worker's exit
    test and the client's decision single steps of the model) *)
Definition flag_locked (tbl : list acc_row) : bool :=
  forallb (fun r => negb (String.eqb (a_var r) VRUNNING) || has_lock DMUTEX r) tbl &&
  all_locked DMUTEX (rows_var tbl "Deployer::FinishWork" VQUEUE) &&
  all_locked DMUTEX (rows_var tbl "Deployer::FinishWork" VRUNNING) &&
  all_locked DMUTEX (rows_var tbl "Deployer::StartWork" VQUEUE) &&
  all_locked DMUTEX (rows_var tbl "Deployer::StartWork" VRUNNING) &&
  all_locked DMUTEX (rows_var tbl "Deployer::ScheduleTask" VQUEUE) &&
  all_locked DMUTEX (rows_var tbl "Deployer::NextTask" VQUEUE).

(** the table uses running_ nowhere *)
Definition no_flag (tbl : list acc_row) : bool :=
  forallb (fun r => negb (String.eqb (a_var r) VRUNNING)) tbl.

Definition handover_of_table (tbl : list acc_row) : handover :=
  if shapes_match tbl expected_shapes_future && no_flag tbl then HFuture
  else if shapes_match tbl expected_shapes_flag && flag_locked tbl then HFlag
  else HUnrecognised.

Definition table_shape_ok (tbl : list acc_row) : bool :=
  shapes_match tbl expected_shapes &&
  negb (handover_eqb (handover_of_table tbl) HUnrecognised).

Definition cfg_of_table (tbl : list acc_row) : cfg :=
  let nrows := rows_var tbl "Service::Notify" VHANDLER in
  {| lk_sched := all_locked DMUTEX (rows_var tbl "Deployer::ScheduleTask" VQUEUE);
     lk_next := all_locked DMUTEX (rows_var tbl "Deployer::NextTask" VQUEUE);
     lk_hasp := all_locked DMUTEX (rows_var tbl "Deployer::HasPendingTasks" VQUEUE);
     lk_set := all_locked SMUTEX (rows_var tbl "Service::SetNotificationHandler" VHANDLER);
     lk_clear := all_locked SMUTEX (rows_var tbl "Service::ClearNotificationHandler" VHANDLER);
     lk_ntest := nth_locked nrows 0 SMUTEX;
     lk_ncall := nth_locked nrows 1 SMUTEX;
     ho := handover_of_table tbl |}.

(** * Threads, program counters, calls, events *)
Inductive tid := Client | Worker.
Definition tid_eqb (a b : tid) : bool := match a, b with Client, Client | Worker, Worker => true | _, _ => false end.

(** std::future<void> work_ as IsWorking() sees it. *)
Inductive fut := FNone | FRunning | FReturned (* lambda returned, future not yet ready *) | FReady.

(** what task->Run does: returns true, returns false, throws a std::exception *)
Inductive outcome := OOk | OFail | OThrow.
Definition outcome_ok (o : outcome) : bool := match o with OOk => true | _ => false end.
Definition task := (nat * outcome)%type.  (* id (order of scheduling), behaviour of task->Run *)

Inductive msg := MStart | MResult.
(** Service::Notify: N1 = at RIME_VERIF_NOTIFY_ENTER (about to test the handler),
    N2 = tested non-null outside the lock, about to lock (only when the test is unlocked),
    N3 = at RIME_VERIF_NOTIFY_LOCKED (about to call the handler),
    N4 = inside the handler invocation (cut point provided by the harness's handler). *)
Inductive npc := N1 | N2 | N3 | N4.
Inductive wpc :=
| WEnter                      (* RIME_VERIF_RUN_ENTER *)
| WN (m : msg) (n : npc)      (* inside message_sink_("deploy", ...) -> Service::Notify *)
| WNext                       (* RIME_VERIF_NEXTTASK_ENTER *)
| WBody (t : nat) (r : outcome)  (* RIME_VERIF_RUN_TASK_BODY, task popped *)
| WHasP                       (* RIME_VERIF_HASPENDING_ENTER (HFlag: RIME_VERIF_FINISHWORK_ENTER) *)
| WRet                        (* RIME_VERIF_RUN_RETURN *)
| WThrow                      (* std::bad_function_call escaping Run *)
| WFin.                       (* lambda over, shared state about to be made ready *)

Inductive call :=
| CStartMaint (rs : list outcome)  (* RimeStartMaintenance(True): ScheduleTask x |rs| (3 in the API), StartMaintenance, returns True *)
| CSyncUser (rs : list outcome)    (* RimeSyncUserData: CleanupAllSessions, ScheduleTask x |rs|, returns StartMaintenance() *)
| CIsMaint | CJoin | CCreate
| CProcessKey (n : nat) | CGetContext (n : nat) | CFind (n : nat) | CDestroy (n : nat)
                                (* n = index of the create_session call whose result is used *)
| CSetHandler (b : bool)        (* set_notification_handler(handler) / (NULL) *)
| CPlan (r : outcome).          (* harness only: the handler will schedule one task with behaviour r from inside its
                                   next "deploy" result notification (Deployer::ScheduleTask on the worker thread) *)

Inductive kont := KMaint | KSync.
Inductive sop := OpKey | OpCtx | OpFind.
Inductive cpc :=
| CIdle                               (* between two API calls *)
| CSched (rs : list outcome) (k : kont)  (* RIME_VERIF_SCHEDULE_ENTER of the next ScheduleTask *)
| CSW0 (k : kont)                     (* StartWork: about to test IsWorking() (HFlag: about to enter its critical section) *)
| CSW1 (k : kont)                     (* RIME_VERIF_STARTWORK_TESTED: about to write maintenance_mode_ (HFlag: decided to
                                         start a worker, running_ set; about to wait for the previous worker's future) *)
| CSW2 (k : kont)                     (* about to test pending_tasks_.empty() *)
| CSW3 (k : kont)                     (* about to spawn *)
| CSW4 (k : kont)                     (* RIME_VERIF_STARTWORK_SPAWNED *)
| CCreate1                            (* RIME_VERIF_CREATESESSION_ACCEPTED *)
| CGet1 (o : sop) (sid : nat).        (* RIME_VERIF_GETSESSION_ACCEPTED *)

Inductive rname := RStartMaint | RSyncUser | RIsMaint | RJoin | RCreate | RKey | RCtx | RFind | RDestroy | RSetHandler | RPlan.
Inductive nmsg := NStart | NSuccess | NFailure.
Inductive event :=
| ERet (c : rname) (v : nat)   (* an API call returned v (Bool as 0/1, session ids by order of creation) *)
| ENotify (m : nmsg)           (* the handler was called with ("deploy", m) *)
| EHEnter (g : nat)            (* an invocation of the handler installed by the g-th set_notification_handler call began *)
| EHLeave                      (* that invocation returned *)
| ESched (t : nat)             (* task t pushed (task log hook) *)
| EExec (t : nat)              (* task t about to run (task log hook) *)
| EAccept                      (* a session operation passed the disabled() test *)
| ESpawn                       (* a worker thread was started *)
| EDone                        (* the worker's future became ready *)
| ECleanup                     (* Service::CleanupAllSessions entered (yield hook RIME_VERIF_CLEANUPALL_ENTER) *)
| EBadCall                     (* Notify called an empty std::function *)
| EJoinThrow.                  (* work_.get() rethrew *)

Record state := mkState {
  queue : list task;
  mm : bool;
  running : bool;   (* Deployer::running_ (always false before the repair: the member does not exist) *)
  work : fut;
  wexc : bool;
  started : bool;
  sessions : list nat;
  next_sid : nat;
  created : list nat;
  handler : bool;
  hgen : nat;
  hplan : list outcome;
  smutex : option tid;
  next_task : nat;
  wfail : bool;
  wpcs : option wpc;
  cpcs : cpc;
  script : list call;
  log : list event
}.

Definition set_queue (v : list task) (s : state) : state :=
  {| queue := v; mm := mm s; running := running s; work := work s; wexc := wexc s; started := started s; sessions := sessions s; next_sid := next_sid s; created := created s; handler := handler s; hgen := hgen s; hplan := hplan s; smutex := smutex s; next_task := next_task s; wfail := wfail s; wpcs := wpcs s; cpcs := cpcs s; script := script s; log := log s |}.
Definition set_mm (v : bool) (s : state) : state :=
  {| queue := queue s; mm := v; running := running s; work := work s; wexc := wexc s; started := started s; sessions := sessions s; next_sid := next_sid s; created := created s; handler := handler s; hgen := hgen s; hplan := hplan s; smutex := smutex s; next_task := next_task s; wfail := wfail s; wpcs := wpcs s; cpcs := cpcs s; script := script s; log := log s |}.
Definition set_running (v : bool) (s : state) : state :=
  {| queue := queue s; mm := mm s; running := v; work := work s; wexc := wexc s; started := started s; sessions := sessions s; next_sid := next_sid s; created := created s; handler := handler s; hgen := hgen s; hplan := hplan s; smutex := smutex s; next_task := next_task s; wfail := wfail s; wpcs := wpcs s; cpcs := cpcs s; script := script s; log := log s |}.
Definition set_work (v : fut) (s : state) : state :=
  {| queue := queue s; mm := mm s; running := running s; work := v; wexc := wexc s; started := started s; sessions := sessions s; next_sid := next_sid s; created := created s; handler := handler s; hgen := hgen s; hplan := hplan s; smutex := smutex s; next_task := next_task s; wfail := wfail s; wpcs := wpcs s; cpcs := cpcs s; script := script s; log := log s |}.
Definition set_wexc (v : bool) (s : state) : state :=
  {| queue := queue s; mm := mm s; running := running s; work := work s; wexc := v; started := started s; sessions := sessions s; next_sid := next_sid s; created := created s; handler := handler s; hgen := hgen s; hplan := hplan s; smutex := smutex s; next_task := next_task s; wfail := wfail s; wpcs := wpcs s; cpcs := cpcs s; script := script s; log := log s |}.
Definition set_started (v : bool) (s : state) : state :=
  {| queue := queue s; mm := mm s; running := running s; work := work s; wexc := wexc s; started := v; sessions := sessions s; next_sid := next_sid s; created := created s; handler := handler s; hgen := hgen s; hplan := hplan s; smutex := smutex s; next_task := next_task s; wfail := wfail s; wpcs := wpcs s; cpcs := cpcs s; script := script s; log := log s |}.
Definition set_sessions (v : list nat) (s : state) : state :=
  {| queue := queue s; mm := mm s; running := running s; work := work s; wexc := wexc s; started := started s; sessions := v; next_sid := next_sid s; created := created s; handler := handler s; hgen := hgen s; hplan := hplan s; smutex := smutex s; next_task := next_task s; wfail := wfail s; wpcs := wpcs s; cpcs := cpcs s; script := script s; log := log s |}.
Definition set_next_sid (v : nat) (s : state) : state :=
  {| queue := queue s; mm := mm s; running := running s; work := work s; wexc := wexc s; started := started s; sessions := sessions s; next_sid := v; created := created s; handler := handler s; hgen := hgen s; hplan := hplan s; smutex := smutex s; next_task := next_task s; wfail := wfail s; wpcs := wpcs s; cpcs := cpcs s; script := script s; log := log s |}.
Definition set_created (v : list nat) (s : state) : state :=
  {| queue := queue s; mm := mm s; running := running s; work := work s; wexc := wexc s; started := started s; sessions := sessions s; next_sid := next_sid s; created := v; handler := handler s; hgen := hgen s; hplan := hplan s; smutex := smutex s; next_task := next_task s; wfail := wfail s; wpcs := wpcs s; cpcs := cpcs s; script := script s; log := log s |}.
Definition set_handler (v : bool) (s : state) : state :=
  {| queue := queue s; mm := mm s; running := running s; work := work s; wexc := wexc s; started := started s; sessions := sessions s; next_sid := next_sid s; created := created s; handler := v; hgen := hgen s; hplan := hplan s; smutex := smutex s; next_task := next_task s; wfail := wfail s; wpcs := wpcs s; cpcs := cpcs s; script := script s; log := log s |}.
Definition set_hgen (v : nat) (s : state) : state :=
  {| queue := queue s; mm := mm s; running := running s; work := work s; wexc := wexc s; started := started s; sessions := sessions s; next_sid := next_sid s; created := created s; handler := handler s; hgen := v; hplan := hplan s; smutex := smutex s; next_task := next_task s; wfail := wfail s; wpcs := wpcs s; cpcs := cpcs s; script := script s; log := log s |}.
Definition set_hplan (v : list outcome) (s : state) : state :=
  {| queue := queue s; mm := mm s; running := running s; work := work s; wexc := wexc s; started := started s; sessions := sessions s; next_sid := next_sid s; created := created s; handler := handler s; hgen := hgen s; hplan := v; smutex := smutex s; next_task := next_task s; wfail := wfail s; wpcs := wpcs s; cpcs := cpcs s; script := script s; log := log s |}.
Definition set_smutex (v : option tid) (s : state) : state :=
  {| queue := queue s; mm := mm s; running := running s; work := work s; wexc := wexc s; started := started s; sessions := sessions s; next_sid := next_sid s; created := created s; handler := handler s; hgen := hgen s; hplan := hplan s; smutex := v; next_task := next_task s; wfail := wfail s; wpcs := wpcs s; cpcs := cpcs s; script := script s; log := log s |}.
Definition set_next_task (v : nat) (s : state) : state :=
  {| queue := queue s; mm := mm s; running := running s; work := work s; wexc := wexc s; started := started s; sessions := sessions s; next_sid := next_sid s; created := created s; handler := handler s; hgen := hgen s; hplan := hplan s; smutex := smutex s; next_task := v; wfail := wfail s; wpcs := wpcs s; cpcs := cpcs s; script := script s; log := log s |}.
Definition set_wfail (v : bool) (s : state) : state :=
  {| queue := queue s; mm := mm s; running := running s; work := work s; wexc := wexc s; started := started s; sessions := sessions s; next_sid := next_sid s; created := created s; handler := handler s; hgen := hgen s; hplan := hplan s; smutex := smutex s; next_task := next_task s; wfail := v; wpcs := wpcs s; cpcs := cpcs s; script := script s; log := log s |}.
Definition set_wpcs (v : option wpc) (s : state) : state :=
  {| queue := queue s; mm := mm s; running := running s; work := work s; wexc := wexc s; started := started s; sessions := sessions s; next_sid := next_sid s; created := created s; handler := handler s; hgen := hgen s; hplan := hplan s; smutex := smutex s; next_task := next_task s; wfail := wfail s; wpcs := v; cpcs := cpcs s; script := script s; log := log s |}.
Definition set_cpcs (v : cpc) (s : state) : state :=
  {| queue := queue s; mm := mm s; running := running s; work := work s; wexc := wexc s; started := started s; sessions := sessions s; next_sid := next_sid s; created := created s; handler := handler s; hgen := hgen s; hplan := hplan s; smutex := smutex s; next_task := next_task s; wfail := wfail s; wpcs := wpcs s; cpcs := v; script := script s; log := log s |}.
Definition set_script (v : list call) (s : state) : state :=
  {| queue := queue s; mm := mm s; running := running s; work := work s; wexc := wexc s; started := started s; sessions := sessions s; next_sid := next_sid s; created := created s; handler := handler s; hgen := hgen s; hplan := hplan s; smutex := smutex s; next_task := next_task s; wfail := wfail s; wpcs := wpcs s; cpcs := cpcs s; script := v; log := log s |}.
Definition set_log (v : list event) (s : state) : state :=
  {| queue := queue s; mm := mm s; running := running s; work := work s; wexc := wexc s; started := started s; sessions := sessions s; next_sid := next_sid s; created := created s; handler := handler s; hgen := hgen s; hplan := hplan s; smutex := smutex s; next_task := next_task s; wfail := wfail s; wpcs := wpcs s; cpcs := cpcs s; script := script s; log := v |}.

Definition emit (e : event) (s : state) : state := set_log (e :: log s) s.

Definition init (h0 : bool) (sc : list call) : state :=
  {| queue := []; mm := false; running := false; work := FNone; wexc := false; started := true;
     sessions := []; next_sid := 0; created := []; handler := h0; hgen := 0; hplan := []; smutex := None;
     next_task := 0; wfail := false; wpcs := None; cpcs := CIdle; script := sc; log := [] |}.

Definition working (s : state) : bool :=
  match work s with FRunning | FReturned => true | _ => false end.
Definition is_maint (s : state) : bool := mm s && working s.
Definition disabled (s : state) : bool := negb (started s) || is_maint s.
Definition b2n (b : bool) : nat := if b then 1 else 0.
Definition free_for (s : state) (want : bool) : bool :=
  negb want || match smutex s with None => true | Some _ => false end.
Definition mem (x : nat) (l : list nat) : bool := existsb (Nat.eqb x) l.
Definition remove_nat (x : nat) (l : list nat) : list nat := filter (fun y => negb (Nat.eqb x y)) l.

(** * The worker: Deployer::Run cut at the hook points *)
Definition after_notify (m : msg) : wpc := match m with MStart => WNext | MResult => WHasP end.
Definition release_w (s : state) : state :=
  match smutex s with Some Worker => set_smutex None s | _ => s end.

Definition step_worker (c : cfg) (s : state) : option state :=
  match wpcs s with
  | None => None
  | Some p =>
    match p with
    | WEnter => Some (set_wpcs (Some (WN MStart N1)) s)
    | WN m N1 =>
        if free_for s (lk_ntest c) then
          if handler s then
            if lk_ntest c then Some (set_wpcs (Some (WN m N3)) (set_smutex (Some Worker) s))
            else if lk_ncall c then Some (set_wpcs (Some (WN m N2)) s)
            else Some (set_wpcs (Some (WN m N3)) s)
          else Some (set_wpcs (Some (after_notify m)) s)
        else None
    | WN m N2 =>
        if free_for s true then Some (set_wpcs (Some (WN m N3)) (set_smutex (Some Worker) s)) else None
    | WN m N3 =>
        if handler s then
          let v := match m with MStart => NStart | MResult => if wfail s then NFailure else NSuccess end in
          let s1 := emit (ENotify v) (emit (EHEnter (hgen s)) s) in
          (* the harness's handler may schedule one planned task from inside a result notification *)
          match m, hplan s with
          | MResult, r :: rest =>
              Some (set_wpcs (Some (WN m N4))
                     (set_hplan rest (set_next_task (S (next_task s))
                       (set_queue (queue s ++ [(next_task s, r)]) (emit (ESched (next_task s)) s1)))))
          | _, _ => Some (set_wpcs (Some (WN m N4)) s1)
          end
        else Some (set_wpcs (Some WThrow) (release_w (emit EBadCall s)))
    | WN m N4 => Some (set_wpcs (Some (after_notify m)) (release_w (emit EHLeave s)))
    | WNext =>
        match queue s with
        | [] => Some (set_wpcs (Some (WN MResult N1)) s)
        | (t, r) :: q => Some (set_wpcs (Some (WBody t r)) (set_queue q s))
        end
    | WBody t r => Some (set_wpcs (Some WNext) (set_wfail (wfail s || negb (outcome_ok r)) (emit (EExec t) s)))
    | WHasP =>
        (* HFuture: HasPendingTasks(); HFlag: FinishWork() - the same locked test of the queue, which
           also clears running_ when it finds the queue empty *)
        match queue s with
        | [] => Some (set_wpcs (Some WRet) (if nw c then set_running false s else s))
        | _ :: _ => Some (set_wpcs (Some WNext) s)
        end
    | WRet => Some (set_wpcs (Some WFin) (set_work FReturned s))
    | WThrow =>
        (* HFlag: the catch (...) of StartWork's lambda clears running_ (under the lock) and rethrows *)
        Some (set_wpcs (Some WFin) (set_wexc true (set_work FReturned (if nw c then set_running false s else s))))
    | WFin => Some (set_wpcs None (emit EDone (set_work FReady s)))
    end
  end.

(** * The client: one API call after the other *)
Definition after_sched (rs : list outcome) (k : kont) : cpc :=
  match rs with [] => CSW0 k | _ => CSched rs k end.
Definition finish (k : kont) (b : bool) (s : state) : state :=
  set_cpcs CIdle (match k with
                  | KMaint => emit (ERet RStartMaint 1) s   (* RimeStartMaintenance ignores StartMaintenance()'s result *)
                  | KSync => emit (ERet RSyncUser (b2n b)) s
                  end).
Definition sid_of (s : state) (n : nat) : nat := nth n (created s) 0.
Definition ret_of (o : sop) : rname := match o with OpKey => RKey | OpCtx => RCtx | OpFind => RFind end.
Definition get_session (o : sop) (sid : nat) (s : state) : state :=
  if disabled s then emit (ERet (ret_of o) 0) s
  else set_cpcs (CGet1 o sid) (emit EAccept s).

Definition step_call (c : cfg) (cl : call) (s : state) : option state :=
  match cl with
  | CStartMaint rs => Some (set_cpcs (after_sched rs KMaint) s)
  | CSyncUser rs => Some (set_cpcs (after_sched rs KSync) (set_sessions [] (emit ECleanup s)))
  | CIsMaint => Some (emit (ERet RIsMaint (b2n (is_maint s))) s)
  | CJoin =>
      match work s with
      | FNone => Some (emit (ERet RJoin 0) s)
      | FReady => Some (set_wexc false (set_work FNone (emit (if wexc s then EJoinThrow else ERet RJoin 0) s)))
      | _ => None
      end
  | CCreate =>
      if disabled s then Some (set_created (created s ++ [0]) (emit (ERet RCreate 0) s))
      else Some (set_cpcs CCreate1 (emit EAccept s))
  | CProcessKey n => Some (get_session OpKey (sid_of s n) s)
  | CGetContext n => Some (get_session OpCtx (sid_of s n) s)
  | CFind n =>
      match sid_of s n with
      | 0 => Some (emit (ERet RFind 0) s)
      | sid => Some (get_session OpFind sid s)
      end
  | CDestroy n =>
      let sid := sid_of s n in
      Some (set_sessions (remove_nat sid (sessions s)) (emit (ERet RDestroy (b2n (mem sid (sessions s)))) s))
  | CSetHandler b =>
      if free_for s (if b then lk_set c else lk_clear c)
      then Some (set_hgen (S (hgen s)) (set_handler b (emit (ERet RSetHandler 0) s)))
      else None
  | CPlan r => Some (set_hplan (hplan s ++ [r]) (emit (ERet RPlan 0) s))
  end.

Definition step_client (c : cfg) (s : state) : option state :=
  match cpcs s with
  | CIdle =>
      match script s with
      | [] => None
      | cl :: rest => step_call c cl (set_script rest s)
      end
  | CSched [] k => Some (set_cpcs (CSW0 k) s)
  | CSched (r :: rs) k =>
      Some (set_cpcs (after_sched rs k)
             (set_next_task (S (next_task s))
               (set_queue (queue s ++ [(next_task s, r)]) (emit (ESched (next_task s)) s))))
  | CSW0 k =>
      if nw c then
        (* HFlag: one critical section of Deployer::mutex_: test running_, write maintenance_mode_,
           test the queue, set running_ *)
        if running s then Some (finish k false s)
        else match queue s with
             | [] => Some (finish k false (set_mm true s))
             | _ :: _ => Some (set_cpcs (CSW1 k) (set_running true (set_mm true s)))
             end
      else if working s then Some (finish k false s) else Some (set_cpcs (CSW1 k) s)
  | CSW1 k =>
      if nw c then
        (* HFlag: if (work_.valid()) work_.wait(): blocks while the previous worker's future is not ready *)
        if working s then None else Some (set_cpcs (CSW3 k) s)
      else Some (set_cpcs (CSW2 k) (set_mm true s))
  | CSW2 k => match queue s with [] => Some (finish k false s) | _ :: _ => Some (set_cpcs (CSW3 k) s) end
  | CSW3 k =>
      Some (set_cpcs (CSW4 k) (set_wpcs (Some WEnter) (set_wfail false (set_wexc false (set_work FRunning (emit ESpawn s))))))
  | CSW4 k => Some (finish k true s)
  | CCreate1 =>
      let sid := S (next_sid s) in
      Some (set_cpcs CIdle (set_created (created s ++ [sid]) (set_next_sid sid (set_sessions (sid :: sessions s)
             (emit (ERet RCreate sid) s)))))
  | CGet1 o sid =>
      let found := mem sid (sessions s) in
      Some (set_cpcs CIdle (emit (ERet (ret_of o) (match o with OpKey => 0 | _ => b2n found end)) s))
  end.

Definition step (c : cfg) (s : state) (t : tid) : option state :=
  match t with Client => step_client c s | Worker => step_worker c s end.

Fixpoint run (c : cfg) (s : state) (sched : list tid) : option state :=
  match sched with
  | [] => Some s
  | t :: rest => match step c s t with Some s' => run c s' rest | None => None end
  end.

(** * Cut points and macro steps (what the schedule controller can do) *)
Definition w_yield (p : wpc) : bool :=
  match p with
  | WEnter | WNext | WBody _ _ | WHasP | WRet => true
  | WN _ N1 | WN _ N3 | WN _ N4 => true
  | WN _ N2 | WThrow | WFin => false
  end.
Definition c_yield (p : cpc) : bool :=
  match p with
  | CIdle | CSched _ _ | CSW1 _ | CSW4 _ | CCreate1 | CGet1 _ _ => true
  | CSW0 _ | CSW2 _ | CSW3 _ => false
  end.
Definition at_yield (s : state) (t : tid) : bool :=
  match t with
  | Client => c_yield (cpcs s)
  | Worker => match wpcs s with None => true | Some p => w_yield p end
  end.

(** run thread [t] until it is at a cut point again (or gone); [None] if its first
    step is refused or it blocks on the way (fuel bounds the run: 8 suffices). *)
Fixpoint run_to_yield (c : cfg) (fuel : nat) (s : state) (t : tid) : option state :=
  if at_yield s t then Some s
  else match fuel with
       | 0 => None
       | S f => match step c s t with Some s' => run_to_yield c f s' t | None => None end
       end.
Definition macro (c : cfg) (s : state) (t : tid) : option state :=
  match step c s t with
  | Some s' => run_to_yield c 8 s' t
  | None => None
  end.

Fixpoint run_macro (c : cfg) (s : state) (sched : list tid) : option state :=
  match sched with
  | [] => Some s
  | t :: rest => match macro c s t with Some s' => run_macro c s' rest | None => None end
  end.

(** All maximal macro schedules from [s] with at most [k] preemptions (a switch
    away from a thread that could have continued).  [cur] is the thread that ran
    last.  Out of fuel yields the schedule so far (the driver reports it). *)
Definition enabled (c : cfg) (s : state) (t : tid) : bool :=
  match macro c s t with Some _ => true | None => false end.

Fixpoint enum (c : cfg) (fuel k : nat) (cur : tid) (s : state) : list (list tid) :=
  match fuel with
  | 0 => [[]]
  | S f =>
    let go (t : tid) : list (list tid) :=
      match macro c s t with
      | None => []
      | Some s' =>
          let cost := if tid_eqb t cur then 0 else if enabled c s cur then 1 else 0 in
          if Nat.leb cost k then map (cons t) (enum c f (k - cost) t s') else []
      end in
    if enabled c s Client || enabled c s Worker then go Client ++ go Worker else [[]]
  end.

(** * Access annotations: rows of the generated table *)
Definition w_acc (tbl : list acc_row) (s : state) : list acc_row :=
  match wpcs s with
  | None => []
  | Some p =>
    match p with
    | WNext => rows tbl "Deployer::NextTask"
    | WHasP => rows tbl "Deployer::HasPendingTasks" ++ rows tbl "Deployer::FinishWork"
    | WN _ _ => rows tbl "Service::Notify" ++ rows tbl "Deployer::ScheduleTask"
    | WThrow => rows tbl "Deployer::Run" ++ rows_var tbl "Deployer::StartWork" VRUNNING  (* the lambda's catch clause *)
    | WEnter | WBody _ _ | WRet | WFin => rows tbl "Deployer::Run"
    end
  end.

Definition disabled_rows (tbl : list acc_row) : list acc_row :=
  rows tbl "Service::disabled" ++ rows tbl "Deployer::IsMaintenanceMode" ++ rows tbl "Deployer::IsWorking".

Definition call_acc (tbl : list acc_row) (cl : call) : list acc_row :=
  match cl with
  | CStartMaint _ => []
  | CSyncUser _ => rows tbl "Service::CleanupAllSessions"
  | CIsMaint => rows tbl "Deployer::IsMaintenanceMode" ++ rows tbl "Deployer::IsWorking"
  | CJoin => rows tbl "Deployer::JoinWorkThread"
  | CCreate | CProcessKey _ | CGetContext _ | CFind _ => disabled_rows tbl
  | CDestroy _ => rows tbl "Service::DestroySession"
  | CSetHandler true => rows tbl "Service::SetNotificationHandler"
  | CSetHandler false => rows tbl "Service::ClearNotificationHandler"
  | CPlan _ => []
  end.

(** does the table show the repaired hand-over (what [nw (cfg_of_table tbl)] says) *)
Definition tbl_flag (tbl : list acc_row) : bool :=
  match handover_of_table tbl with HFlag => true | _ => false end.

Definition c_acc (tbl : list acc_row) (s : state) : list acc_row :=
  match cpcs s with
  | CIdle => match script s with [] => [] | cl :: _ => call_acc tbl cl end
  | CSched _ _ => rows tbl "Deployer::ScheduleTask"
  | CSW0 _ => if tbl_flag tbl then rows tbl "Deployer::StartWork" else rows tbl "Deployer::IsWorking"
  | CSW1 _ | CSW2 _ | CSW3 _ => rows tbl "Deployer::StartWork"
  | CSW4 _ => []
  | CCreate1 => rows tbl "Service::CreateSession"
  | CGet1 _ _ => rows tbl "Service::GetSession"
  end.

Definition is_data (r : acc_row) : bool := match a_kind r with ACall => false | _ => true end.
Definition is_write (r : acc_row) : bool := match a_kind r with AWrite | AUnknown => true | _ => false end.
Definition share_lock (a b : acc_row) : bool := existsb (fun m => has_lock m b) (a_locks a).
Definition conflict (a b : acc_row) : bool :=
  is_data a && is_data b && String.eqb (a_var a) (a_var b) && (is_write a || is_write b) && negb (share_lock a b).
Definition race_state (tbl : list acc_row) (s : state) : bool :=
  existsb (fun a => existsb (conflict a) (c_acc tbl s)) (w_acc tbl s).

(** * Projections of the log (newest first) used by theorems, oracles and the driver *)
Definition execs (l : list event) : list nat :=
  flat_map (fun e => match e with EExec t => [t] | _ => [] end) l.
Definition scheds (l : list event) : list nat :=
  flat_map (fun e => match e with ESched t => [t] | _ => [] end) l.
Definition notifs (l : list event) : list nmsg :=
  flat_map (fun e => match e with ENotify m => [m] | _ => [] end) l.

(** the part of the log older than the most recent ESpawn ([] when there is none) *)
Fixpoint before_last_spawn (l : list event) : list event :=
  match l with
  | [] => []
  | ESpawn :: older => older
  | _ :: older => before_last_spawn older
  end.

(** deploy notifications, oldest first, are a prefix of (start (success|failure)+)*;
    [bracket_run] returns the automaton state: 0 idle/after a result, 1 after start, 2 error *)
Inductive bst := BIdle | BStarted | BResult | BErr.
Definition bracket_step (b : bst) (m : nmsg) : bst :=
  match b, m with
  | BErr, _ => BErr
  | (BIdle | BResult), NStart => BStarted
  | BIdle, _ => BErr
  | (BStarted | BResult), (NSuccess | NFailure) => BResult
  | BStarted, NStart => BErr
  end.
Definition bracket_run (oldest_first : list nmsg) : bst := fold_left bracket_step oldest_first BIdle.
Definition bracket_of_log (l : list event) : bst := bracket_run (rev (notifs l)).

(** * Witness schedules (macro level) replayed on the real library by checks/c15.py.
    They are data; what they witness is proved in SchedProofs.v. *)
Fixpoint rep {A} (n : nat) (x : A) : list A := match n with 0 => [] | S m => x :: rep m x end.

(** the worker's exit window: the worker passes its last HasPendingTasks test and
    parks at RIME_VERIF_RUN_RETURN; sync_user_data schedules three tasks, sees
    IsWorking() and returns False; the worker ends; join; is_maintenance_mode = False
    with three tasks never run. *)
Definition witness_window_script : list call :=
  [CSyncUser [OOk; OOk; OOk]; CSyncUser [OOk; OOk; OOk]; CJoin; CIsMaint].
Definition witness_window_sched : list tid :=
  rep 6 Client ++ rep 15 Worker ++ rep 4 Client ++ [Worker] ++ [Client; Client].
(** same window through start_maintenance, which reports True although nothing was started *)
Definition witness_window_sm_script : list call :=
  [CStartMaint [OOk; OOk; OOk]; CStartMaint [OOk; OOk; OOk]; CJoin; CIsMaint].

(** the repaired hand-over (HFlag) along the same schedule: the second sync_user_data finds running_
    cleared, takes the worker role, waits for the first worker's future (the worker step), starts a
    second worker and returns True; that worker runs tasks 3,4,5; join; is_maintenance_mode = False
    with all six tasks run. *)
Definition witness_closed_sched : list tid := witness_window_sched ++ rep 16 Worker ++ [Client; Client].
(** HFlag, tasks scheduled just BEFORE the worker's exit test (the worker is parked at
    RIME_VERIF_FINISHWORK_ENTER): sync_user_data finds running_ set and returns False, the worker's
    exit test finds the three tasks and the same worker runs them. *)
Definition witness_seen_sched : list tid :=
  rep 6 Client ++ rep 14 Worker ++ rep 4 Client ++ rep 13 Worker ++ [Client; Client].

(** unlocked handler: Notify has tested the handler and holds Service::mutex_;
    the client clears the handler without the mutex; Notify calls an empty function *)
Definition witness_badcall_script : list call :=
  [CSyncUser [OOk; OOk; OOk]; CSetHandler false; CJoin].
Definition witness_badcall_sched : list tid :=
  rep 6 Client ++ [Worker; Worker] ++ [Client] ++ [Worker] ++ [Client].
(** the data race itself: worker at the unlocked test, client about to write *)
Definition witness_race_sched : list tid := rep 6 Client ++ [Worker].

(** * Handler invocations versus set_notification_handler (oldest event first):
    every invocation is of the handler installed by the latest set_notification_handler
    call that has returned (its generation = the number of returns so far), no
    set_notification_handler call returns while an invocation is in progress, and at
    most one invocation is in progress at a time.  State: (returns so far, inside, ok). *)
Definition hstate := (nat * bool * bool)%type.
Definition hstep (st : hstate) (e : event) : hstate :=
  let '(n, inside, ok) := st in
  match e with
  | EHEnter g => (n, true, ok && negb inside && Nat.eqb g n)
  | EHLeave => (n, false, ok && inside)
  | ERet RSetHandler _ => (S n, inside, ok && negb inside)
  | _ => st
  end.
Definition hrun (oldest_first : list event) : hstate := fold_left hstep oldest_first (0, false, true).
Definition hcheck_log (l : list event) : hstate := hrun (rev l).
