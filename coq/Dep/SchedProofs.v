(** Dep/SchedProofs.v - invariants of the interleaving semantics Dep/Sched.v over ALL
    schedules (lists of micro steps of any length) and all client scripts. *)
From Coq Require Import List Bool Arith String Lia Permutation.
From RimeV Require Import Dep.Sched.
Import ListNotations.

(** * Reachability and the invariant rule *)
Definition reach (c : cfg) (h0 : bool) (sc : list call) (s : state) : Prop :=
  exists sched, run c (init h0 sc) sched = Some s.

Lemma run_app : forall c l1 l2 s,
  run c s (l1 ++ l2) = match run c s l1 with Some s' => run c s' l2 | None => None end.
Proof.
  induction l1 as [|t l1 IH]; intros l2 s; cbn; [reflexivity|].
  destruct (step c s t); [apply IH|reflexivity].
Qed.

Lemma run_invariant : forall c (P : state -> Prop),
  (forall s t s', P s -> step c s t = Some s' -> P s') ->
  forall sched s s', P s -> run c s sched = Some s' -> P s'.
Proof.
  intros c P Hstep. induction sched as [|t rest IH]; intros s s' HP Hrun; cbn in Hrun.
  - inversion Hrun; subst; exact HP.
  - destruct (step c s t) eqn:E; [|discriminate]. eapply IH; [|exact Hrun]. eapply Hstep; eauto.
Qed.

Lemma reach_invariant : forall c h0 sc (P : state -> Prop),
  P (init h0 sc) ->
  (forall s t s', P s -> step c s t = Some s' -> P s') ->
  forall s, reach c h0 sc s -> P s.
Proof. intros c h0 sc P H0 Hs s [sched Hr]. eapply run_invariant; eauto. Qed.

Lemma reach_step : forall c h0 sc s t s', reach c h0 sc s -> step c s t = Some s' -> reach c h0 sc s'.
Proof.
  intros c h0 sc s t s' [sched Hr] Hs. exists (sched ++ [t]).
  rewrite run_app, Hr. cbn. rewrite Hs. reflexivity.
Qed.

(** macro steps are sequences of micro steps *)
Lemma run_to_yield_reach : forall c h0 sc fuel s t s',
  reach c h0 sc s -> run_to_yield c fuel s t = Some s' -> reach c h0 sc s'.
Proof.
  induction fuel as [|f IH]; intros s t s' Hr H; cbn in H.
  - destruct (at_yield s t); [inversion H; subst; exact Hr|discriminate].
  - destruct (at_yield s t); [inversion H; subst; exact Hr|].
    destruct (step c s t) eqn:E; [|discriminate]. eapply IH; [|exact H]. eapply reach_step; eauto.
Qed.

Lemma macro_reach : forall c h0 sc s t s', reach c h0 sc s -> macro c s t = Some s' -> reach c h0 sc s'.
Proof.
  intros c h0 sc s t s' Hr H. unfold macro in H. destruct (step c s t) eqn:E; [|discriminate].
  eapply run_to_yield_reach; [|exact H]. eapply reach_step; eauto.
Qed.

Lemma run_macro_reach : forall c h0 sc sched s s',
  reach c h0 sc s -> run_macro c s sched = Some s' -> reach c h0 sc s'.
Proof.
  induction sched as [|t rest IH]; intros s s' Hr H; cbn in H.
  - inversion H; subst; exact Hr.
  - destruct (macro c s t) eqn:E; [|discriminate]. eapply IH; [|exact H]. eapply macro_reach; eauto.
Qed.

Lemma reach_init : forall c h0 sc, reach c h0 sc (init h0 sc).
Proof. intros. exists []. reflexivity. Qed.

(** * Step inversion *)
Ltac step_unfold H :=
  unfold step, step_client, step_worker, step_call, get_session, finish, after_notify in H.

Ltac split_step H :=
  repeat (match type of H with
          | context [match ?x with _ => _ end] =>
              match x with
              | context [match _ with _ => _ end] => fail 1
              | _ => (is_var x; destruct x) || (let E := fresh "E" in destruct x eqn:E)
              end
          | context [if ?b then _ else _] =>
              match b with
              | context [if _ then _ else _] => fail 1
              | context [match _ with _ => _ end] => fail 1
              | _ => let E := fresh "E" in destruct b eqn:E
              end
          end; try discriminate H).

Ltac finish_step H := inversion H; subst; clear H.

(** * Control invariant: worker existence vs future state, who may spawn, the
    maintenance flag, the owner of Service::mutex_, session operations *)
Definition wk_ok (w : option wpc) (f : fut) : Prop :=
  match w with
  | None => f = FNone \/ f = FReady
  | Some WFin => f = FReturned
  | Some _ => f = FRunning
  end.
Definition holds_s (c : cfg) (w : option wpc) : bool :=
  match w with Some (WN _ N3) | Some (WN _ N4) => lk_ntest c || lk_ncall c | _ => false end.
Definition in_startwork (p : cpc) : bool := match p with CSW1 _ | CSW2 _ | CSW3 _ => true | _ => false end.
Definition mm_needed (c : cfg) (p : cpc) : bool :=
  match p with CSW1 _ => nw c | CSW2 _ | CSW3 _ | CSW4 _ => true | _ => false end.
Definition accepted_pc (p : cpc) : bool := match p with CCreate1 | CGet1 _ _ => true | _ => false end.
(** the worker still holds the worker role: it has not passed its exit test *)
Definition w_active (w : option wpc) : bool :=
  match w with None | Some WRet | Some WFin => false | Some _ => true end.
(** HFlag: the client has taken the worker role for the worker it is about to start *)
Definition c_decided (p : cpc) : bool := match p with CSW1 _ | CSW3 _ => true | _ => false end.
(** which worker may exist while the client is inside StartWork past its test *)
Definition sw_ok (c : cfg) (p : cpc) (w : option wpc) : Prop :=
  match p with
  | CSW1 _ => if nw c then w_active w = false else w = None
  | CSW2 _ => nw c = false /\ w = None
  | CSW3 _ => w = None
  | _ => True
  end.

Record ctl (c : cfg) (s : state) : Prop := {
  ctl_wk : wk_ok (wpcs s) (work s);
  ctl_swk : sw_ok c (cpcs s) (wpcs s);
  ctl_run : running s = nw c && (w_active (wpcs s) || c_decided (cpcs s));
  ctl_mm : (working s = true \/ mm_needed c (cpcs s) = true) -> mm s = true;
  ctl_mx : smutex s = if holds_s c (wpcs s) then Some Worker else None;
  ctl_started : started s = true;
  ctl_acc : accepted_pc (cpcs s) = true -> wpcs s = None;
  ctl_n2 : forall m, wpcs s = Some (WN m N2) -> lk_ntest c = false /\ lk_ncall c = true
}.

(** before the repair no worker exists while the client is between StartWork's test and the spawn;
    after it none exists at the spawn *)
Lemma ctl_sw : forall c s, ctl c s -> nw c = false -> in_startwork (cpcs s) = true -> wpcs s = None.
Proof.
  intros c s HC Hn Hp. pose proof (ctl_swk c s HC) as H. destruct (cpcs s); try discriminate Hp; cbn in H.
  - rewrite Hn in H. exact H.
  - exact (proj2 H).
  - exact H.
Qed.
Lemma ctl_sw3 : forall c s k, ctl c s -> cpcs s = CSW3 k -> wpcs s = None.
Proof. intros c s k HC E. pose proof (ctl_swk c s HC) as H. rewrite E in H. exact H. Qed.

Lemma wk_ok_working : forall w f, wk_ok w f -> (match f with FRunning | FReturned => true | _ => false end) = true -> w <> None.
Proof. intros w f H Hf E. subst w. cbn in H. destruct H; subst f; discriminate. Qed.

Lemma wk_ok_not_working : forall w f, wk_ok w f -> (match f with FRunning | FReturned => true | _ => false end) = false -> w = None.
Proof.
  intros w f H Hf. destruct w as [p|]; [|reflexivity]. exfalso.
  destruct p; cbn in H; subst f; discriminate.
Qed.

Lemma ctl_init : forall c h0 sc, ctl c (init h0 sc).
Proof. intros. constructor; cbn; auto; try discriminate. rewrite andb_false_r; reflexivity. intros [H|H]; discriminate. Qed.

Lemma not_disabled_no_worker : forall c s, ctl c s -> disabled s = false -> wpcs s = None.
Proof.
  intros c s [Hwk _ _ Hmm _ Hst _ _] Hd. unfold disabled, is_maint in Hd. rewrite Hst in Hd. cbn in Hd.
  destruct (working s) eqn:Ew.
  - rewrite Hmm in Hd by (left; reflexivity). discriminate.
  - eapply wk_ok_not_working; eauto.
Qed.

Lemma working_wk : forall s, wk_ok (wpcs s) (work s) -> working s = false -> wpcs s = None.
Proof. intros s H E. eapply wk_ok_not_working; eauto. Qed.

Lemma ctl_step : forall c s t s', ctl c s -> step c s t = Some s' -> ctl c s'.
Proof.
  intros c s t s' HC H. pose proof HC as [Hwk Hsw Hrun Hmm Hmx Hst Hacc Hn2].
  destruct t; step_unfold H.
  - (* client *)
    split_step H; finish_step H; try (destruct rs).
    all: try match goal with Hd : disabled _ = false |- _ =>
        pose proof (not_disabled_no_worker _ _ HC Hd) as Hnw end.
    all: constructor; unfold working in *; cbn in *.
    all: repeat match goal with E : cpcs _ = _ |- _ => rewrite E in *; clear E end; cbn in *.
    all: try solve [ assumption | reflexivity | discriminate | intros; discriminate
            | intros [?|?]; try discriminate; auto
            | intros; auto ].
    all: try solve [
      repeat match goal with
             | E : nw _ = _ |- _ => rewrite E in *; clear E
             | E : running _ = _ |- _ => rewrite E in *; clear E
             end;
      destruct (nw c); destruct (wpcs s) as [[| ? [] | | | | | |]|]; cbn in *;
      destruct (work s); cbn in *; intuition (try congruence; try discriminate) ].
  - (* worker *)
    destruct (wpcs s) as [p|] eqn:Ew; [|discriminate].
    assert (Hacc' : accepted_pc (cpcs s) = false)
      by (destruct (accepted_pc (cpcs s)); [discriminate (Hacc eq_refl)|reflexivity]).
    clear Hacc.
    destruct p as [|m [| | |]| | | | | |]; unfold free_for, release_w in H; cbn in H, Hwk, Hmx;
      split_step H; finish_step H; constructor; unfold working, release_w in *; cbn in *;
      rewrite ?Hacc', ?Hwk in *; cbn in *;
      try solve [ assumption | reflexivity | discriminate | intros; discriminate
                | intros [?|?]; try discriminate; auto | intros; auto
                | repeat match goal with
                         | E : lk_ntest _ = _ |- _ => rewrite E in *; clear E
                         | E : lk_ncall _ = _ |- _ => rewrite E in *; clear E
                         end; cbn in *; congruence
                | destruct (Hn2 _ eq_refl) as [A B]; rewrite A, B; reflexivity
                | destruct (lk_ntest c || lk_ncall c); congruence ].
    all: try solve [
      repeat match goal with
             | E : nw _ = _ |- _ => rewrite E in *; clear E
             end;
      unfold sw_ok in *; destruct (nw c); destruct (cpcs s); cbn in *; intuition (try congruence; try discriminate) ].
Qed.

Lemma reach_ctl : forall c h0 sc s, reach c h0 sc s -> ctl c s.
Proof. intros c h0 sc s H. eapply reach_invariant; eauto using ctl_init, ctl_step. Qed.

(** * Exclusion and re-opening *)
Definition session_call (cl : call) : bool :=
  match cl with CCreate | CProcessKey _ | CGetContext _ | CFind _ => true | _ => false end.

(** while a worker exists the maintenance flag is set *)
Lemma maint_flag_holds : forall c h0 sc s, reach c h0 sc s -> working s = true -> mm s = true.
Proof. intros c h0 sc s H Hw. apply (ctl_mm c s (reach_ctl _ _ _ _ H)). left; exact Hw. Qed.

(** [excl]: while the worker is running (future not ready) every session operation
    is refused: the call returns 0/False in one step, without touching the sessions *)
Lemma excl_holds : forall c h0 sc s cl rest,
  reach c h0 sc s -> working s = true ->
  cpcs s = CIdle -> script s = cl :: rest -> session_call cl = true ->
  exists s' r, step c s Client = Some s' /\ log s' = ERet r 0 :: log s /\
               sessions s' = sessions s /\ cpcs s' = CIdle /\ accepted_pc (cpcs s') = false.
Proof.
  intros c h0 sc s cl rest Hr Hw Hc Hs Hcl.
  pose proof (maint_flag_holds _ _ _ _ Hr Hw) as Hm.
  assert (Hd : forall l, disabled (set_script l s) = true).
  { intros l. change (disabled (set_script l s)) with (disabled s).
    unfold disabled, is_maint. rewrite Hm, Hw. apply orb_true_r. }
  unfold step, step_client. rewrite Hc, Hs.
  destruct cl; try discriminate Hcl; unfold step_call, get_session.
  - rewrite Hd. eexists _, _. split; [reflexivity|]. cbn. rewrite ?Hc. repeat split; reflexivity.
  - rewrite Hd. eexists _, _. split; [reflexivity|]. cbn. rewrite ?Hc. repeat split; reflexivity.
  - rewrite Hd. eexists _, _. split; [reflexivity|]. cbn. rewrite ?Hc. repeat split; reflexivity.
  - destruct (sid_of (set_script rest s) n); [|rewrite Hd];
      eexists _, _; (split; [reflexivity|]); cbn; rewrite ?Hc; repeat split; reflexivity.
Qed.

(** a session operation is never in progress while a worker thread exists *)
Lemma session_op_excl_holds : forall c h0 sc s,
  reach c h0 sc s -> accepted_pc (cpcs s) = true -> wpcs s = None /\ working s = false.
Proof.
  intros c h0 sc s Hr Ha. pose proof (reach_ctl _ _ _ _ Hr) as HC.
  pose proof (ctl_acc c s HC Ha) as Hn. split; [exact Hn|].
  pose proof (ctl_wk c s HC) as Hwk. rewrite Hn in Hwk. unfold working. destruct Hwk as [E|E]; rewrite E; reflexivity.
Qed.

(** [reopens]: once the future is ready (or joined) session operations are accepted again *)
Lemma reopens_accept : forall c h0 sc s cl rest,
  reach c h0 sc s -> working s = false ->
  cpcs s = CIdle -> script s = cl :: rest -> session_call cl = true ->
  (forall n, cl = CFind n -> sid_of s n <> 0) ->
  exists s', step c s Client = Some s' /\ log s' = EAccept :: log s /\ accepted_pc (cpcs s') = true.
Proof.
  intros c h0 sc s cl rest Hr Hw Hc Hs Hcl Hf.
  pose proof (ctl_started c s (reach_ctl _ _ _ _ Hr)) as Hst.
  assert (Hd : forall l, disabled (set_script l s) = false).
  { intros l. change (disabled (set_script l s)) with (disabled s).
    unfold disabled, is_maint. rewrite Hst, Hw. cbn. apply andb_false_r. }
  unfold step, step_client. rewrite Hc, Hs.
  destruct cl; try discriminate Hcl; unfold step_call, get_session.
  - rewrite Hd. eexists. split; [reflexivity|]. cbn. repeat split; reflexivity.
  - rewrite Hd. eexists. split; [reflexivity|]. cbn. repeat split; reflexivity.
  - rewrite Hd. eexists. split; [reflexivity|]. cbn. repeat split; reflexivity.
  - specialize (Hf n eq_refl). change (sid_of (set_script rest s) n) with (sid_of s n).
    destruct (sid_of s n); [congruence|]. rewrite Hd. eexists. split; [reflexivity|]. cbn. repeat split; reflexivity.
Qed.

Lemma reopens_create : forall c s,
  cpcs s = CCreate1 ->
  exists s', step c s Client = Some s' /\ cpcs s' = CIdle /\
             log s' = ERet RCreate (S (next_sid s)) :: log s /\ In (S (next_sid s)) (sessions s').
Proof.
  intros c s Hc. unfold step, step_client. rewrite Hc. eexists. split; [reflexivity|]. cbn. repeat split; try reflexivity. left; reflexivity.
Qed.

(** * Tasks: conservation and at-most-once *)
Definition body_task (w : option wpc) : list nat := match w with Some (WBody t _) => [t] | _ => [] end.
Definition all_tasks (s : state) : list nat :=
  execs (log s) ++ body_task (wpcs s) ++ map fst (queue s).

Record tasks_inv (s : state) : Prop := {
  ti_nodup : NoDup (all_tasks s);
  ti_lt : forall t, In t (all_tasks s) -> t < next_task s;
  ti_sched : forall t, In t (scheds (log s)) <-> In t (all_tasks s)
}.

Lemma tasks_init : forall h0 sc, tasks_inv (init h0 sc).
Proof. intros. constructor; cbn; [constructor|intros t []|intros t; tauto]. Qed.

Lemma execs_app : forall a b, execs (a ++ b) = execs a ++ execs b.
Proof. intros; unfold execs; apply flat_map_app. Qed.

Lemma tasks_push : forall (E B : list nat) (Q : list task) n (b : outcome),
  NoDup (E ++ B ++ map fst Q) -> (forall t, In t (E ++ B ++ map fst Q) -> t < n) ->
  NoDup (E ++ B ++ map fst (Q ++ [(n, b)])) /\
  (forall t, In t (E ++ B ++ map fst (Q ++ [(n, b)])) <-> n = t \/ In t (E ++ B ++ map fst Q)).
Proof.
  intros E B Q n b Hnd Hlt.
  assert (Eq : E ++ B ++ map fst (Q ++ [(n, b)]) = (E ++ B ++ map fst Q) ++ [n]).
  { rewrite map_app. cbn. rewrite !app_assoc. reflexivity. }
  rewrite Eq. split.
  - eapply Permutation_NoDup; [apply Permutation_cons_append|].
    constructor; [|exact Hnd]. intros Hin. specialize (Hlt _ Hin). lia.
  - intros t. rewrite in_app_iff. cbn. tauto.
Qed.

Lemma tasks_step : forall c s t s', ctl c s -> tasks_inv s -> step c s t = Some s' -> tasks_inv s'.
Proof.
  intros c s t s' HC [Hnd Hlt Hsc] H. unfold all_tasks in *.
  destruct t; step_unfold H.
  - split_step H; finish_step H; try (destruct rs); constructor; unfold all_tasks;
      cbn -[execs scheds]; try (match goal with E : queue _ = _ |- _ => rewrite E end);
      try exact Hnd; try exact Hlt; try exact Hsc;
      try (match goal with |- context [(next_task s, ?x)] => destruct (tasks_push _ _ _ _ x Hnd Hlt) as [P1 P2] end;
           first [ exact P1
                 | intros t Ht; apply P2 in Ht; destruct Ht as [<-|Ht]; [lia|specialize (Hlt _ Ht); lia]
                 | intros t; rewrite P2;
                   match goal with |- In t (scheds ?L) <-> _ =>
                     change (In t (scheds L)) with (next_task s = t \/ In t (scheds (log s))) end;
                   rewrite Hsc; tauto ]);
      try (rewrite (ctl_sw3 c s _ HC E) in Hnd, Hlt, Hsc;
           first [exact Hnd | exact Hlt | exact Hsc]).
  - destruct (wpcs s) as [p|] eqn:Ew; [|discriminate].
    destruct p as [|m [| | |]| | | | | |]; unfold free_for, release_w in H;
      split_step H; finish_step H; constructor; unfold all_tasks; cbn -[execs scheds] in *;
      try (match goal with E : queue _ = _ |- _ => rewrite E in * end);
      try exact Hnd; try exact Hlt; try exact Hsc;
      try (match goal with |- context [(next_task s, ?x)] => destruct (tasks_push _ [] _ _ x Hnd Hlt) as [P1 P2] end;
           first [ exact P1
                 | intros t Ht; apply P2 in Ht; destruct Ht as [<-|Ht]; [lia|specialize (Hlt _ Ht); lia]
                 | intros t; rewrite P2;
                   match goal with |- In t (scheds ?L) <-> _ =>
                     change (In t (scheds L)) with (next_task s = t \/ In t (scheds (log s))) end;
                   rewrite Hsc; tauto ]).
    all: change (execs (EExec t :: log s)) with (t :: execs (log s));
      change (scheds (EExec t :: log s)) with (scheds (log s)).
    + eapply Permutation_NoDup; [|exact Hnd]. apply Permutation_sym, Permutation_middle.
    + intros t0 Ht0. apply Hlt. eapply Permutation_in; [|exact Ht0]. apply Permutation_middle.
    + intros t0. rewrite Hsc. split; intros Ht0; (eapply Permutation_in; [|exact Ht0]);
        [apply Permutation_sym|]; apply Permutation_middle.
Qed.

Lemma reach_tasks : forall c h0 sc s, reach c h0 sc s -> tasks_inv s.
Proof.
  intros c h0 sc s H.
  assert (ctl c s /\ tasks_inv s) as [_ HT]; [|exact HT].
  eapply reach_invariant with (P := fun s => ctl c s /\ tasks_inv s); eauto.
  - split; [apply ctl_init|apply tasks_init].
  - intros s0 t s1 [A B] Hs. split; [eapply ctl_step|eapply tasks_step]; eauto.
Qed.

Lemma NoDup_app_l : forall (A : Type) (l l' : list A), NoDup (l ++ l') -> NoDup l.
Proof.
  intros A l l'. induction l' as [|a l' IH]; intros H.
  - rewrite app_nil_r in H. exact H.
  - apply IH. eapply NoDup_remove_1; exact H.
Qed.

(** [task_at_most_once]: no task id is executed twice, and only scheduled tasks are executed *)
Lemma task_at_most_once_holds : forall c h0 sc s, reach c h0 sc s ->
  NoDup (execs (log s)) /\ (forall t, In t (execs (log s)) -> In t (scheds (log s))).
Proof.
  intros c h0 sc s H. destruct (reach_tasks _ _ _ _ H) as [Hnd _ Hsc]. unfold all_tasks in *. split.
  - eapply NoDup_app_l; exact Hnd.
  - intros t Ht. apply Hsc. apply in_or_app; left; exact Ht.
Qed.

(** conservation: a scheduled task is executed, being executed, or still queued *)
Lemma task_conserved_holds : forall c h0 sc s t, reach c h0 sc s -> In t (scheds (log s)) ->
  In t (execs (log s)) \/ body_task (wpcs s) = [t] \/ In t (map fst (queue s)).
Proof.
  intros c h0 sc s t H Ht. destruct (reach_tasks _ _ _ _ H) as [_ _ Hsc]. apply Hsc in Ht.
  unfold all_tasks in Ht. rewrite !in_app_iff in Ht. destruct Ht as [A|[A|A]]; auto.
  right; left. destruct (wpcs s) as [[]|]; cbn in *; try contradiction. destruct A as [<-|[]]. reflexivity.
Qed.

(** * The handler is never called empty when Notify tests it inside the lock and
    ClearNotificationHandler takes the lock *)
Record nb_inv (s : state) : Prop := {
  nb_n3 : forall m, wpcs s = Some (WN m N3) -> handler s = true;
  nb_log : ~ In EBadCall (log s);
  nb_thr : wpcs s <> Some WThrow
}.

Lemma nb_init : forall h0 sc, nb_inv (init h0 sc).
Proof. intros. constructor; cbn; try discriminate; auto. Qed.

Lemma nb_step : forall c s t s', lk_ntest c = true -> lk_clear c = true ->
  ctl c s -> nb_inv s -> step c s t = Some s' -> nb_inv s'.
Proof.
  intros c s t s' Hnt Hcl HC [Hn3 Hlog Hthr] H.
  destruct t; step_unfold H.
  - split_step H; finish_step H; try (destruct rs); constructor; cbn in *;
      try assumption; try discriminate; try (intros m; discriminate);
      try (intros X; repeat (destruct X as [X|X]; [discriminate X|]); exact (Hlog X));
      try (intros; reflexivity).
    (* CSetHandler false *)
    intros m Hm. exfalso. unfold free_for in *. rewrite Hcl in *. cbn in *.
    pose proof (ctl_mx c s HC) as Hmx. rewrite Hm in Hmx. cbn in Hmx. rewrite Hnt in Hmx. cbn in Hmx.
    rewrite Hmx in *. discriminate.
  - destruct (wpcs s) as [p|] eqn:Ew; [|discriminate].
    destruct p as [|m [| | |]| | | | | |]; unfold free_for, release_w in H; rewrite ?Hnt in H;
      split_step H; finish_step H; constructor; cbn in *;
      try assumption; try discriminate; try (intros m0; discriminate);
      try (intros X; repeat (destruct X as [X|X]; [discriminate X|]); exact (Hlog X));
      try (intros; assumption);
      try (exfalso; destruct (ctl_n2 c s HC m Ew) as [A _]; congruence);
      try (exfalso; rewrite (Hn3 m eq_refl) in *; discriminate);
      try (exfalso; apply Hthr; reflexivity);
      try (exfalso; specialize (Hn3 m eq_refl); discriminate).
Qed.

(** * Draining: when the worker has passed its last HasPendingTasks test, every task
    scheduled before the start of that worker has been executed *)
Definition past_check (w : option wpc) : bool :=
  match w with None | Some WRet | Some WFin => true | _ => false end.

Record drain_inv (s : state) : Prop := {
  dr_thr : wpcs s = Some WThrow -> In EBadCall (log s);
  dr_main : In EBadCall (log s) \/
            (past_check (wpcs s) = true ->
             forall t, In t (scheds (before_last_spawn (log s))) -> In t (execs (log s)))
}.

Lemma drain_init : forall h0 sc, drain_inv (init h0 sc).
Proof. intros. constructor; cbn; [discriminate|]. right. intros _ t []. Qed.

Lemma drain_step : forall c s t s', ctl c s -> tasks_inv s -> drain_inv s -> step c s t = Some s' -> drain_inv s'.
Proof.
  intros c s t s' HC HT [Hthr Hmain] H.
  destruct t; step_unfold H.
  - split_step H; finish_step H; try (destruct rs); constructor; cbn -[execs scheds] in *;
      try assumption; try discriminate;
      try (intros X; repeat right; exact (Hthr X));
      try (destruct Hmain as [L|R]; [left; repeat right; exact L|right; exact R]);
      try (destruct Hmain as [L|R]; [left; repeat right; exact L|right; intros; discriminate]).
  - destruct (wpcs s) as [p|] eqn:Ew; [|discriminate].
    destruct p as [|m [| | |]| | | | | |]; unfold free_for, release_w in H;
      split_step H; finish_step H; constructor; cbn -[execs scheds] in *;
      try assumption; try discriminate; try (intros; discriminate);
      try (intros X; repeat right; exact (Hthr X));
      try (destruct Hmain as [L|R]; [left; repeat right; exact L|right; exact R]);
      try (destruct Hmain as [L|R]; [left; repeat right; exact L|right; intros; discriminate]);
      try (destruct Hmain as [L|R]; [left; repeat right; exact L|right; intros; discriminate]);
      try (intros _; left; reflexivity);
      try (left; apply Hthr; reflexivity).
    (* WHasP with an empty queue: everything scheduled so far has been executed *)
    all: right; intros _ t Ht;
      destruct HT as [_ _ Hsc]; unfold all_tasks in Hsc; rewrite Ew, E in Hsc; cbn -[execs scheds] in Hsc;
      rewrite app_nil_r in Hsc; apply Hsc;
      clear - Ht; induction (log s) as [|e l IH]; cbn -[scheds] in *; [contradiction|];
      destruct e; cbn in *; auto.
Qed.

Lemma reach_all : forall c h0 sc s, reach c h0 sc s -> ctl c s /\ tasks_inv s /\ drain_inv s.
Proof.
  intros c h0 sc s H.
  eapply reach_invariant with (P := fun s => ctl c s /\ tasks_inv s /\ drain_inv s); eauto.
  - split; [apply ctl_init|split; [apply tasks_init|apply drain_init]].
  - intros s0 t s1 (A & B & C) Hs. split; [eapply ctl_step; eauto|split; [eapply tasks_step; eauto|eapply drain_step; eauto]].
Qed.

(** [task_not_lost]: when the service reports that maintenance is over (IsWorking() is
    false, so is_maintenance_mode() returns False and join returns), every task that was
    scheduled before the last worker was started has been executed - provided no
    notification call threw (see [no_bad_call_holds]). *)
Lemma task_not_lost_holds : forall c h0 sc s t,
  reach c h0 sc s -> ~ In EBadCall (log s) -> working s = false ->
  In t (scheds (before_last_spawn (log s))) -> In t (execs (log s)).
Proof.
  intros c h0 sc s t Hr Hnb Hw Ht. destruct (reach_all _ _ _ _ Hr) as (HC & _ & [_ Hm]).
  destruct Hm as [L|R]; [contradiction|]. apply R; [|exact Ht].
  rewrite (working_wk s (ctl_wk c s HC) Hw). reflexivity.
Qed.

Lemma reach_nb : forall c h0 sc s, lk_ntest c = true -> lk_clear c = true -> reach c h0 sc s -> nb_inv s.
Proof.
  intros c h0 sc s A B H.
  assert (ctl c s /\ nb_inv s) as [_ X]; [|exact X].
  eapply reach_invariant with (P := fun s => ctl c s /\ nb_inv s); eauto.
  - split; [apply ctl_init|apply nb_init].
  - intros s0 t s1 [C D] Hs. split; [eapply ctl_step|eapply nb_step]; eauto.
Qed.

Lemma no_bad_call_holds : forall c h0 sc s, lk_ntest c = true -> lk_clear c = true ->
  reach c h0 sc s -> ~ In EBadCall (log s) /\ ~ In EJoinThrow (log s).
Proof.
  intros c h0 sc s A B H. split; [exact (nb_log s (reach_nb _ _ _ _ A B H))|].
  (* the future never holds an exception *)
  assert (X : reach c h0 sc s /\ wexc s = false /\ ~ In EJoinThrow (log s)); [|tauto].
  eapply reach_invariant with (P := fun s => reach c h0 sc s /\ wexc s = false /\ ~ In EJoinThrow (log s)); eauto.
  - split; [apply reach_init|cbn; auto].
  - intros s0 t s1 (R0 & W0 & J0) Hs. split; [eapply reach_step; eauto|].
    pose proof (nb_thr s0 (reach_nb _ _ _ _ A B R0)) as Hthr.
    destruct t; step_unfold Hs.
    + split_step Hs; finish_step Hs; try (destruct rs); cbn in *; split; try assumption; try reflexivity;
        try (intros X; repeat (destruct X as [X|X]; [discriminate X|]); exact (J0 X)); congruence.
    + destruct (wpcs s0) as [p|] eqn:Ew; [|discriminate].
      destruct p as [|m [| | |]| | | | | |]; unfold free_for, release_w in Hs;
        split_step Hs; finish_step Hs; cbn in *; split; try assumption; try reflexivity;
        try (intros X; repeat (destruct X as [X|X]; [discriminate X|]); exact (J0 X)); congruence.
Qed.

(** * Notification bracketing (handler installed throughout) *)
Definition no_seth (cl : call) : bool := match cl with CSetHandler _ => false | _ => true end.

Definition br_rel (w : option wpc) (b : bst) : Prop :=
  match w with
  | Some (WN MStart N4) => b = BStarted
  | Some (WN MResult N4) => b = BResult
  | None | Some WEnter | Some (WN MStart _) => b = BIdle \/ b = BResult
  | Some WNext | Some (WBody _ _) | Some (WN MResult _) => b = BStarted \/ b = BResult
  | Some WHasP | Some WRet | Some WFin => b = BResult
  | Some WThrow => False
  end.

Record br_inv (s : state) : Prop := {
  br_h : handler s = true;
  br_sc : forallb no_seth (script s) = true;
  br_r : br_rel (wpcs s) (bracket_of_log (log s))
}.

Lemma bracket_notify : forall m l, bracket_of_log (ENotify m :: l) = bracket_step (bracket_of_log l) m.
Proof.
  intros m l. unfold bracket_of_log, bracket_run. cbn. rewrite fold_left_app. reflexivity.
Qed.

Lemma br_init : forall sc, forallb no_seth sc = true -> br_inv (init true sc).
Proof. intros sc H. constructor; cbn; auto. Qed.

Lemma br_step : forall c s t s', ctl c s -> br_inv s -> step c s t = Some s' -> br_inv s'.
Proof.
  intros c s t s' HC [Hh Hsc Hr] H.
  destruct t; step_unfold H.
  - split_step H; finish_step H; try (destruct rs); try (rewrite E0 in Hsc; cbn in Hsc);
      try discriminate Hsc; constructor; cbn in *; try assumption.
    all: try (rewrite (ctl_sw3 c s _ HC E) in Hr; exact Hr).
  - destruct (wpcs s) as [p|] eqn:Ew; [|discriminate].
    destruct p as [|m [| | |]| | | | | |]; unfold free_for, release_w in H; rewrite ?Hh in H;
      split_step H; finish_step H; constructor; cbn -[bracket_of_log] in *;
      try assumption; try contradiction;
      repeat match goal with
             | |- context [bracket_of_log (EHEnter ?g :: ?l)] => change (bracket_of_log (EHEnter g :: l)) with (bracket_of_log l)
             | |- context [bracket_of_log (EHLeave :: ?l)] => change (bracket_of_log (EHLeave :: l)) with (bracket_of_log l)
             | |- context [bracket_of_log (EDone :: ?l)] => change (bracket_of_log (EDone :: l)) with (bracket_of_log l)
             | |- context [bracket_of_log (ESched ?t :: ?l)] => change (bracket_of_log (ESched t :: l)) with (bracket_of_log l)
             | |- context [bracket_of_log (ENotify ?m :: ?l)] => rewrite (bracket_notify m l)
             end;
      try solve [destruct Hr as [-> | ->]; cbn; auto];
      try solve [rewrite Hr; cbn; auto].
Qed.

(** [notif_bracketed]: with a handler installed throughout, the "deploy" notifications it
    receives always form a prefix of (start (success|failure)+)*, and whenever no worker
    exists the sequence is complete: every start has been followed by a result and
    nothing comes after the last result. *)
Lemma notif_bracketed_holds : forall c sc s, forallb no_seth sc = true -> reach c true sc s ->
  bracket_of_log (log s) <> BErr /\
  (wpcs s = None -> bracket_of_log (log s) = BIdle \/ bracket_of_log (log s) = BResult).
Proof.
  intros c sc s Hsc H.
  assert (X : ctl c s /\ br_inv s).
  { eapply reach_invariant with (P := fun s => ctl c s /\ br_inv s); eauto.
    - split; [apply ctl_init|apply br_init; exact Hsc].
    - intros s0 t s1 [A B] Hs. split; [eapply ctl_step|eapply br_step]; eauto. }
  destruct X as [_ [_ _ Hr]]. split.
  - intros E. rewrite E in Hr. destruct (wpcs s) as [[|[] []| | | | | |]|]; cbn in Hr;
      try contradiction; try discriminate; destruct Hr; discriminate.
  - intros E. rewrite E in Hr. exact Hr.
Qed.

(** * Handler invocations are mutually exclusive with set_notification_handler *)
Definition inside_b (w : option wpc) : bool := match w with Some (WN _ N4) => true | _ => false end.

Lemma hcheck_cons : forall e l, hcheck_log (e :: l) = hstep (hcheck_log l) e.
Proof. intros e l. unfold hcheck_log, hrun. cbn. rewrite fold_left_app. reflexivity. Qed.

Definition hx_inv (s : state) : Prop := hcheck_log (log s) = (hgen s, inside_b (wpcs s), true).

Lemma hx_step : forall c s t s',
  lk_set c = true -> lk_clear c = true -> lk_ntest c || lk_ncall c = true ->
  ctl c s -> hx_inv s -> step c s t = Some s' -> hx_inv s'.
Proof.
  intros c s t s' Hls Hlc Hln HC HI H. unfold hx_inv in *.
  destruct t; step_unfold H.
  - split_step H; finish_step H; try (destruct rs); cbn -[hcheck_log] in *;
      rewrite ?hcheck_cons, HI; cbn; try reflexivity;
      try (rewrite (ctl_sw3 c s _ HC E); reflexivity).
    (* the two set_notification_handler cases: the mutex is free, so no invocation is in progress *)
    all: unfold free_for in *; rewrite ?Hls, ?Hlc in *; cbn in *;
      pose proof (ctl_mx c s HC) as Hmx;
      destruct (wpcs s) as [[|m [| | |]| | | | | |]|]; cbn in *; try reflexivity;
      rewrite Hln in Hmx; rewrite Hmx in *; discriminate.
  - destruct (wpcs s) as [p|] eqn:Ew; [|discriminate].
    destruct p as [|m [| | |]| | | | | |]; unfold free_for, release_w in H;
      split_step H; finish_step H; cbn -[hcheck_log] in *;
      rewrite ?hcheck_cons, HI; cbn; rewrite ?Nat.eqb_refl; reflexivity.
Qed.

(** [handler_excl]: along every schedule, every handler invocation is of the handler installed
    by the latest set_notification_handler call that has returned, no set_notification_handler
    call returns while an invocation is in progress (so no invocation of a handler overlaps or
    follows the return of the call that replaced it), and invocations do not overlap. *)
Lemma handler_excl_holds : forall c h0 sc s,
  lk_set c = true -> lk_clear c = true -> lk_ntest c || lk_ncall c = true ->
  reach c h0 sc s -> hcheck_log (log s) = (hgen s, inside_b (wpcs s), true).
Proof.
  intros c h0 sc s A B C H.
  assert (X : ctl c s /\ hx_inv s); [|exact (proj2 X)].
  eapply reach_invariant with (P := fun s => ctl c s /\ hx_inv s); eauto.
  - split; [apply ctl_init|reflexivity].
  - intros s0 t s1 [D E] Hs. split; [eapply ctl_step|eapply hx_step]; eauto.
Qed.

(** while an invocation is in progress (or about to start under the lock) the client's
    set_notification_handler call cannot complete: it waits for Service::mutex_ *)
Lemma setter_blocked_holds : forall c h0 sc s m b rest,
  lk_set c = true -> lk_clear c = true -> lk_ntest c || lk_ncall c = true ->
  reach c h0 sc s -> (wpcs s = Some (WN m N3) \/ wpcs s = Some (WN m N4)) ->
  cpcs s = CIdle -> script s = CSetHandler b :: rest -> step c s Client = None.
Proof.
  intros c h0 sc s m b rest A B C Hr Hw Hc Hs.
  pose proof (ctl_mx c s (reach_ctl _ _ _ _ Hr)) as Hmx.
  assert (Hm : smutex s = Some Worker) by (destruct Hw as [E|E]; rewrite E in Hmx; cbn in Hmx; rewrite C in Hmx; exact Hmx).
  unfold step, step_client. rewrite Hc, Hs. unfold step_call, free_for. cbn. rewrite Hm.
  destruct b; rewrite ?A, ?B; reflexivity.
Qed.

(** * Race freedom (lockset): in no reachable state do the worker's and the client's
    next accesses (rows of the generated table) conflict *)
Local Open Scope string_scope.
Definition worker_fn (f : string) : bool :=
  existsb (String.eqb f) ["Deployer::Run"; "Deployer::NextTask"; "Deployer::HasPendingTasks"; "Deployer::FinishWork";
                          "Service::Notify"; "Deployer::ScheduleTask"].

(** [flag]: the table shows the repaired hand-over.  Before the repair StartWork looks at the queue
    without the lock (when no worker exists); after it no access to the queue is exempt, and every
    access to running_ must hold Deployer::mutex_. *)
Definition row_ok (flag : bool) (r : acc_row) : bool :=
  negb (is_data r) ||
  (if String.eqb (a_var r) VQUEUE then
     has_lock DMUTEX r || (negb flag && (String.eqb (a_fn r) "Deployer::StartWork" && akind_eqb (a_kind r) ARead))
   else if String.eqb (a_var r) VHANDLER then has_lock SMUTEX r
   else if String.eqb (a_var r) VRUNNING then has_lock DMUTEX r
   else if String.eqb (a_var r) VSINK then String.eqb (a_fn r) "Deployer::Run"
   else negb (worker_fn (a_fn r))).

(** the condition on the generated table under which race freedom is proved *)
Definition table_ok (tbl : list acc_row) : bool := forallb (row_ok (tbl_flag tbl)) tbl.

Lemma rows_in : forall tbl f r, In r (rows tbl f) -> In r tbl /\ a_fn r = f.
Proof. intros tbl f r H. unfold rows in H. apply filter_In in H. destruct H as [A B]. apply String.eqb_eq in B. auto. Qed.

Lemma rows_var_in : forall tbl f v r, In r (rows_var tbl f v) -> In r tbl /\ a_fn r = f /\ a_var r = v.
Proof.
  intros tbl f v r H. unfold rows_var in H. apply filter_In in H. destruct H as [A B].
  apply String.eqb_eq in B. apply rows_in in A. tauto.
Qed.

Lemma w_acc_fn : forall tbl s a, In a (w_acc tbl s) ->
  In a tbl /\ (worker_fn (a_fn a) = true \/ a_var a = VRUNNING) /\ wpcs s <> None.
Proof.
  intros tbl s a H. unfold w_acc in H. destruct (wpcs s) as [p|]; [|contradiction].
  destruct p; rewrite ?in_app_iff in H; repeat (destruct H as [H|H]);
    first [ apply rows_in in H; destruct H as [A B]; rewrite B; repeat split; auto; discriminate
          | apply rows_var_in in H; destruct H as (A & B & C); repeat split; auto; discriminate ].
Qed.

Lemma c_acc_fn : forall tbl s b, In b (c_acc tbl s) ->
  In b tbl /\ String.eqb (a_fn b) "Deployer::Run" = false /\
  (a_fn b = "Deployer::StartWork" -> tbl_flag tbl = true \/ in_startwork (cpcs s) = true).
Proof.
  intros tbl s b H. unfold c_acc, call_acc, disabled_rows in H.
  destruct (cpcs s); [destruct (script s) as [|[]]; [contradiction|..]; try (destruct b0)|..];
    try (destruct (tbl_flag tbl) eqn:Ef);
    try contradiction; rewrite ?in_app_iff in H;
    repeat (destruct H as [H|H]); apply rows_in in H; destruct H as [A B]; rewrite B;
    repeat split; auto; try discriminate.
Qed.

Lemma share_lock_common : forall m a b, has_lock m a = true -> has_lock m b = true -> share_lock a b = true.
Proof.
  intros m a b Ha Hb. unfold share_lock. apply existsb_exists. unfold has_lock in Ha.
  apply existsb_exists in Ha. destruct Ha as [x [Hx Hm]]. apply String.eqb_eq in Hm. subst x.
  exists m. auto.
Qed.

Lemma race_free_holds : forall tbl c h0 sc s,
  table_ok tbl = true -> tbl_flag tbl = nw c -> reach c h0 sc s -> race_state tbl s = false.
Proof.
  intros tbl c h0 sc s Hok Hfl Hr. pose proof (reach_ctl _ _ _ _ Hr) as HC.
  destruct (race_state tbl s) eqn:R; [exfalso|reflexivity].
  unfold race_state in R. apply existsb_exists in R. destruct R as [a [Ha R]].
  apply existsb_exists in R. destruct R as [b [Hb R]].
  destruct (w_acc_fn _ _ _ Ha) as (Ia & Wa & Hw).
  destruct (c_acc_fn _ _ _ Hb) as (Ib & Wb & Hsw).
  unfold table_ok in Hok. rewrite forallb_forall in Hok.
  pose proof (Hok _ Ia) as Oa. pose proof (Hok _ Ib) as Ob.
  unfold conflict in R. rewrite !andb_true_iff in R. destruct R as ((((Da & Db) & Ev) & _) & Ns).
  apply String.eqb_eq in Ev. unfold row_ok in Oa, Ob. rewrite Da in Oa. rewrite Db in Ob. cbn in Oa, Ob.
  rewrite <- Ev in Ob.
  destruct (String.eqb (a_var a) VQUEUE) eqn:Eq.
  - rewrite orb_true_iff in Oa, Ob. destruct Oa as [Oa|Oa].
    + destruct Ob as [Ob|Ob].
      * rewrite (share_lock_common _ _ _ Oa Ob) in Ns. discriminate.
      * rewrite !andb_true_iff in Ob. destruct Ob as (Of & Ob & _). apply String.eqb_eq in Ob.
        apply negb_true_iff in Of. destruct (Hsw Ob) as [X|X]; [congruence|].
        apply Hw. apply (ctl_sw c s HC); [congruence|exact X].
    + rewrite !andb_true_iff in Oa. destruct Oa as (_ & Oa & _). apply String.eqb_eq in Oa.
      destruct Wa as [Wa|Wa].
      * rewrite Oa in Wa. discriminate.
      * apply String.eqb_eq in Eq. rewrite Wa in Eq. discriminate.
  - destruct (String.eqb (a_var a) VHANDLER).
    + rewrite (share_lock_common _ _ _ Oa Ob) in Ns. discriminate.
    + destruct (String.eqb (a_var a) VRUNNING) eqn:Er.
      * rewrite (share_lock_common _ _ _ Oa Ob) in Ns. discriminate.
      * destruct (String.eqb (a_var a) VSINK).
        -- rewrite Wb in Ob. discriminate.
        -- change (negb (worker_fn (a_fn a)) = true) in Oa. destruct Wa as [Wa|Wa].
           ++ rewrite Wa in Oa. discriminate.
           ++ rewrite Wa in Er. discriminate.
Qed.

(** * Refutations (witnesses are the macro schedules of Sched.v, replayed on the real
    library by checks/c15.py) *)

(** The stronger reading of "each scheduled task is run before the service reports that
    maintenance is over": at a call boundary, with IsWorking() false, every task ever
    scheduled has been executed. *)
Definition every_task_runs_before_idle_full (c : cfg) : Prop :=
  forall h0 sc s t, reach c h0 sc s -> cpcs s = CIdle -> working s = false ->
                    ~ In EBadCall (log s) -> In t (scheds (log s)) -> In t (execs (log s)).

(** It is false of the model, whatever the lock configuration: the worker's exit window.
    The last observation is is_maintenance_mode() = False; tasks 3,4,5 were scheduled by a
    sync_user_data that returned False and have not been run. *)
Lemma window_witness : forall c, nw c = false -> exists s,
  run_macro c (init true witness_window_script) witness_window_sched = Some s /\
  cpcs s = CIdle /\ script s = [] /\ working s = false /\ ~ In EBadCall (log s) /\
  hd_error (log s) = Some (ERet RIsMaint 0) /\ In (ERet RSyncUser 0) (log s) /\
  In 3 (scheds (log s)) /\ ~ In 3 (execs (log s)) /\ map fst (queue s) = [3; 4; 5].
Proof.
  intros [a1 a2 a3 [] [] [] [] []] Hn; try discriminate Hn; eexists; (split; [vm_compute; reflexivity|]); cbn;
    repeat split; auto; try tauto; intuition (try discriminate; try lia).
Qed.

Lemma every_task_runs_before_idle_refuted : forall c, nw c = false -> ~ every_task_runs_before_idle_full c.
Proof.
  intros c Hn F. destruct (window_witness c Hn) as (s & Hrun & Hc & _ & Hw & Hb & _ & _ & Hs & He & _).
  apply He. eapply F; eauto. eapply run_macro_reach; [apply reach_init|exact Hrun].
Qed.

(** the same window through start_maintenance: the API call returns True *)
Lemma window_witness_start_maintenance : forall c, nw c = false -> exists s,
  run_macro c (init true witness_window_sm_script) witness_window_sched = Some s /\
  hd_error (log s) = Some (ERet RIsMaint 0) /\
  hd_error (tl (tl (tl (log s)))) = Some (ERet RStartMaint 1) /\
  In 3 (scheds (log s)) /\ ~ In 3 (execs (log s)).
Proof.
  intros [a1 a2 a3 [] [] [] [] []] Hn; try discriminate Hn; eexists; (split; [vm_compute; reflexivity|]); cbn;
    repeat split; auto; intuition (try discriminate; try lia).
Qed.

(** * The repaired hand-over (HFlag): no task is left behind *)
Definition c_quiet (p : cpc) : bool := match p with CSched _ _ | CSW0 _ => false | _ => true end.

Record fw_inv (s : state) : Prop := {
  fw_thr : wpcs s = Some WThrow -> In EBadCall (log s);
  fw_main : In EBadCall (log s) \/ (running s = false -> c_quiet (cpcs s) = true -> queue s = [])
}.

Lemma fw_init : forall h0 sc, fw_inv (init h0 sc).
Proof. intros. constructor; cbn; [discriminate|]. right. reflexivity. Qed.

Lemma fw_step : forall c s t s', nw c = true -> ctl c s -> fw_inv s -> step c s t = Some s' -> fw_inv s'.
Proof.
  intros c s t s' Hn HC [Hthr Hmain] H.
  pose proof (ctl_run c s HC) as Hrun. pose proof (ctl_swk c s HC) as Hsw. unfold sw_ok in Hsw. rewrite Hn in Hrun. rewrite ?Hn in Hsw. cbn in Hrun.
  destruct t; step_unfold H; rewrite ?Hn in H.
  - split_step H; finish_step H; try (destruct rs); constructor; cbn -[In] in *;
      try assumption; try discriminate;
      try (intros X; repeat right; exact (Hthr X));
      try solve [destruct Hmain as [L|R]; [left; repeat right; exact L|right; exact R]];
      try solve [destruct Hmain as [L|R]; [left; repeat right; exact L|right; intros; discriminate]].
    all: rewrite ?E in *; cbn -[In] in *; rewrite ?orb_true_r in Hrun;
      try solve [destruct Hmain as [L|R]; [left; repeat right; exact L|right; intros Hr Hq;
                 first [exact (R Hr Hq) | apply R; auto; fail | assumption | congruence]]].
    all: try (destruct Hsw as [X _]; discriminate X).
  - destruct (wpcs s) as [p|] eqn:Ew; [|discriminate].
    destruct p as [|m [| | |]| | | | | |]; unfold free_for, release_w in H; rewrite ?Hn in H;
      split_step H; finish_step H; constructor; cbn -[In] in *;
      try assumption; try discriminate; try (intros; discriminate);
      try (intros X; repeat right; exact (Hthr X));
      try (intros _; left; reflexivity);
      try solve [destruct Hmain as [L|R]; [left; repeat right; exact L|right; intros Hr Hq;
                 first [exact (R Hr Hq) | assumption | congruence]]].
    left. apply Hthr. reflexivity.
Qed.

(** in no state reached by the repaired hand-over is a task left in the queue while nobody holds the
    worker role and the client is not in the middle of scheduling or of StartWork's test *)
Lemma flag_no_task_left : forall c h0 sc s, nw c = true -> reach c h0 sc s ->
  ~ In EBadCall (log s) -> running s = false -> c_quiet (cpcs s) = true -> queue s = [].
Proof.
  intros c h0 sc s Hn Hr Hb.
  assert (X : ctl c s /\ fw_inv s).
  { eapply reach_invariant with (P := fun s => ctl c s /\ fw_inv s); eauto.
    - split; [apply ctl_init|apply fw_init].
    - intros s0 t s1 [A B] Hs. split; [eapply ctl_step|eapply fw_step]; eauto. }
  destruct X as [_ [_ [L|R]]]; [contradiction|exact R].
Qed.

(** [every_task_runs_before_idle]: the full reading holds of the repaired hand-over.  At a call
    boundary of the client, with IsWorking() false (is_maintenance_mode() returns False, join
    returns), every task ever scheduled - at any time, by the client or from inside a handler
    invocation - has been executed. *)
Lemma every_task_runs_before_idle_holds : forall c, nw c = true -> every_task_runs_before_idle_full c.
Proof.
  intros c Hn h0 sc s t Hr Hc Hw Hb Ht.
  pose proof (reach_ctl _ _ _ _ Hr) as HC.
  pose proof (working_wk s (ctl_wk c s HC) Hw) as Hnone.
  assert (Hrun : running s = false).
  { rewrite (ctl_run c s HC), Hnone, Hc. cbn. apply andb_false_r. }
  assert (Hq : queue s = []).
  { eapply flag_no_task_left; eauto. rewrite Hc. reflexivity. }
  destruct (reach_tasks _ _ _ _ Hr) as [_ _ Hsc]. apply Hsc in Ht. unfold all_tasks in Ht.
  rewrite Hnone, Hq in Ht. cbn in Ht. rewrite app_nil_r in Ht. exact Ht.
Qed.

(** the same at the moment the worker gives up its role: from the worker's successful exit test on
    (running_ cleared; its future need not be ready yet), at a call boundary of the client, every
    task ever scheduled has been executed *)
Lemma every_task_runs_when_worker_quits : forall c h0 sc s t, nw c = true -> reach c h0 sc s ->
  cpcs s = CIdle -> running s = false -> ~ In EBadCall (log s) -> In t (scheds (log s)) -> In t (execs (log s)).
Proof.
  intros c h0 sc s t Hn Hr Hc Hrun Hb Ht.
  pose proof (reach_ctl _ _ _ _ Hr) as HC.
  assert (Hq : queue s = []) by (eapply flag_no_task_left; eauto; rewrite Hc; reflexivity).
  assert (Hbody : body_task (wpcs s) = []).
  { pose proof (ctl_run c s HC) as X. rewrite Hrun, Hn, Hc in X. cbn in X. rewrite orb_false_r in X.
    destruct (wpcs s) as [[]|]; cbn in *; try discriminate; reflexivity. }
  destruct (reach_tasks _ _ _ _ Hr) as [_ _ Hsc]. apply Hsc in Ht. unfold all_tasks in Ht.
  rewrite Hbody, Hq in Ht. cbn in Ht. rewrite app_nil_r in Ht. exact Ht.
Qed.

(** a start call that returns False because a worker is running leaves its tasks to that worker:
    while running_ is set a worker that has not passed its exit test exists (or the client is about
    to start one) *)
Lemma flag_running_worker : forall c h0 sc s, nw c = true -> reach c h0 sc s ->
  running s = true -> w_active (wpcs s) = true \/ c_decided (cpcs s) = true.
Proof.
  intros c h0 sc s Hn Hr Hrun. pose proof (ctl_run c s (reach_ctl _ _ _ _ Hr)) as X.
  rewrite Hrun, Hn in X. cbn in X. symmetry in X. apply orb_true_iff in X. exact X.
Qed.

(** the old witness schedule on the repaired hand-over, run to the end of the script *)
Lemma window_closed_witness : forall c, nw c = true -> exists s,
  run_macro c (init true witness_window_script) witness_closed_sched = Some s /\
  cpcs s = CIdle /\ script s = [] /\ working s = false /\ running s = false /\ ~ In EBadCall (log s) /\
  hd_error (log s) = Some (ERet RIsMaint 0) /\ ~ In (ERet RSyncUser 0) (log s) /\
  scheds (log s) = [5; 4; 3; 2; 1; 0] /\ execs (log s) = [5; 4; 3; 2; 1; 0] /\ queue s = [].
Proof.
  intros [a1 a2 a3 [] [] [] [] []] Hn; try discriminate Hn; eexists; (split; [vm_compute; reflexivity|]); cbn;
    repeat split; auto; intuition (try discriminate; try lia).
Qed.

(** tasks scheduled before the worker's exit test: the call returns False, the same worker runs them *)
Lemma window_seen_witness : forall c, nw c = true -> exists s,
  run_macro c (init true witness_window_script) witness_seen_sched = Some s /\
  cpcs s = CIdle /\ script s = [] /\ working s = false /\ ~ In EBadCall (log s) /\
  hd_error (log s) = Some (ERet RIsMaint 0) /\ In (ERet RSyncUser 0) (log s) /\
  execs (log s) = [5; 4; 3; 2; 1; 0] /\ List.length (filter (fun e => match e with ESpawn => true | _ => false end) (log s)) = 1.
Proof.
  intros [a1 a2 a3 [] [] [] [] []] Hn; try discriminate Hn; eexists; (split; [vm_compute; reflexivity|]); cbn;
    repeat split; auto; intuition (try discriminate; try lia).
Qed.

(** The lock-scope table of librime before the repair of Service::Set/ClearNotificationHandler
    and Service::Notify (as generated from commit 6f9c578). *)
Definition lock_scopes_unfixed : list acc_row := [
  {| a_fn := "Deployer::ScheduleTask"; a_var := "Deployer::ScheduleTask"; a_kind := ACall; a_locks := [] |};
  {| a_fn := "Deployer::ScheduleTask"; a_var := "Deployer::pending_tasks_"; a_kind := AWrite; a_locks := ["Deployer::mutex_"] |};
  {| a_fn := "Deployer::NextTask"; a_var := "Deployer::pending_tasks_"; a_kind := ARead; a_locks := ["Deployer::mutex_"] |};
  {| a_fn := "Deployer::NextTask"; a_var := "Deployer::pending_tasks_"; a_kind := ARead; a_locks := ["Deployer::mutex_"] |};
  {| a_fn := "Deployer::NextTask"; a_var := "Deployer::pending_tasks_"; a_kind := AWrite; a_locks := ["Deployer::mutex_"] |};
  {| a_fn := "Deployer::HasPendingTasks"; a_var := "Deployer::pending_tasks_"; a_kind := ARead; a_locks := ["Deployer::mutex_"] |};
  {| a_fn := "Deployer::Run"; a_var := "Deployer::message_sink_"; a_kind := ARead; a_locks := [] |};
  {| a_fn := "Deployer::Run"; a_var := "Deployer::NextTask"; a_kind := ACall; a_locks := [] |};
  {| a_fn := "Deployer::Run"; a_var := "Deployer::message_sink_"; a_kind := ARead; a_locks := [] |};
  {| a_fn := "Deployer::Run"; a_var := "Deployer::HasPendingTasks"; a_kind := ACall; a_locks := [] |};
  {| a_fn := "Deployer::StartWork"; a_var := "Deployer::IsWorking"; a_kind := ACall; a_locks := [] |};
  {| a_fn := "Deployer::StartWork"; a_var := "Deployer::maintenance_mode_"; a_kind := AWrite; a_locks := [] |};
  {| a_fn := "Deployer::StartWork"; a_var := "Deployer::pending_tasks_"; a_kind := ARead; a_locks := [] |};
  {| a_fn := "Deployer::StartWork"; a_var := "Deployer::pending_tasks_"; a_kind := ARead; a_locks := [] |};
  {| a_fn := "Deployer::StartWork"; a_var := "Deployer::work_"; a_kind := AWrite; a_locks := [] |};
  {| a_fn := "Deployer::StartWork"; a_var := "Deployer::Run"; a_kind := ACall; a_locks := [] |};
  {| a_fn := "Deployer::StartWork"; a_var := "Deployer::work_"; a_kind := ARead; a_locks := [] |};
  {| a_fn := "Deployer::StartMaintenance"; a_var := "Deployer::StartWork"; a_kind := ACall; a_locks := [] |};
  {| a_fn := "Deployer::IsWorking"; a_var := "Deployer::work_"; a_kind := ARead; a_locks := [] |};
  {| a_fn := "Deployer::IsWorking"; a_var := "Deployer::work_"; a_kind := ARead; a_locks := [] |};
  {| a_fn := "Deployer::IsMaintenanceMode"; a_var := "Deployer::maintenance_mode_"; a_kind := ARead; a_locks := [] |};
  {| a_fn := "Deployer::IsMaintenanceMode"; a_var := "Deployer::IsWorking"; a_kind := ACall; a_locks := [] |};
  {| a_fn := "Deployer::JoinWorkThread"; a_var := "Deployer::work_"; a_kind := ARead; a_locks := [] |};
  {| a_fn := "Deployer::JoinWorkThread"; a_var := "Deployer::work_"; a_kind := AWrite; a_locks := [] |};
  {| a_fn := "Deployer::JoinMaintenanceThread"; a_var := "Deployer::JoinWorkThread"; a_kind := ACall; a_locks := [] |};
  {| a_fn := "Deployer::user_data_sync_dir"; a_var := "Deployer::sync_dir"; a_kind := ARead; a_locks := [] |};
  {| a_fn := "Deployer::user_data_sync_dir"; a_var := "Deployer::user_id"; a_kind := ARead; a_locks := [] |};
  {| a_fn := "Service::deployer"; a_var := "Service::deployer_"; a_kind := ARead; a_locks := [] |};
  {| a_fn := "Service::disabled"; a_var := "Service::started_"; a_kind := ARead; a_locks := [] |};
  {| a_fn := "Service::disabled"; a_var := "Deployer::IsMaintenanceMode"; a_kind := ACall; a_locks := [] |};
  {| a_fn := "Service::StartService"; a_var := "Service::started_"; a_kind := AWrite; a_locks := [] |};
  {| a_fn := "Service::StopService"; a_var := "Service::started_"; a_kind := AWrite; a_locks := [] |};
  {| a_fn := "Service::StopService"; a_var := "Service::CleanupAllSessions"; a_kind := ACall; a_locks := [] |};
  {| a_fn := "Service::CreateSession"; a_var := "Service::disabled"; a_kind := ACall; a_locks := [] |};
  {| a_fn := "Service::CreateSession"; a_var := "Service::sessions_"; a_kind := AWrite; a_locks := [] |};
  {| a_fn := "Service::GetSession"; a_var := "Service::disabled"; a_kind := ACall; a_locks := [] |};
  {| a_fn := "Service::GetSession"; a_var := "Service::sessions_"; a_kind := ARead; a_locks := [] |};
  {| a_fn := "Service::GetSession"; a_var := "Service::sessions_"; a_kind := ARead; a_locks := [] |};
  {| a_fn := "Service::DestroySession"; a_var := "Service::sessions_"; a_kind := ARead; a_locks := [] |};
  {| a_fn := "Service::DestroySession"; a_var := "Service::sessions_"; a_kind := ARead; a_locks := [] |};
  {| a_fn := "Service::DestroySession"; a_var := "Service::sessions_"; a_kind := AWrite; a_locks := [] |};
  {| a_fn := "Service::CleanupStaleSessions"; a_var := "Service::sessions_"; a_kind := ARead; a_locks := [] |};
  {| a_fn := "Service::CleanupStaleSessions"; a_var := "Service::sessions_"; a_kind := ARead; a_locks := [] |};
  {| a_fn := "Service::CleanupStaleSessions"; a_var := "Service::sessions_"; a_kind := AWrite; a_locks := [] |};
  {| a_fn := "Service::CleanupAllSessions"; a_var := "Service::sessions_"; a_kind := AWrite; a_locks := [] |};
  {| a_fn := "Service::SetNotificationHandler"; a_var := "Service::notification_handler_"; a_kind := AWrite; a_locks := [] |};
  {| a_fn := "Service::ClearNotificationHandler"; a_var := "Service::notification_handler_"; a_kind := AWrite; a_locks := [] |};
  {| a_fn := "Service::Notify"; a_var := "Service::notification_handler_"; a_kind := ARead; a_locks := [] |};
  {| a_fn := "Service::Notify"; a_var := "Service::notification_handler_"; a_kind := ARead; a_locks := ["Service::mutex_"] |};
  {| a_fn := "Service::CreateResourceResolver"; a_var := "Service::deployer"; a_kind := ACall; a_locks := [] |};
  {| a_fn := "Service::CreateResourceResolver"; a_var := "Service::deployer"; a_kind := ACall; a_locks := [] |};
  {| a_fn := "Service::CreateUserSpecificResourceResolver"; a_var := "Service::deployer"; a_kind := ACall; a_locks := [] |};
  {| a_fn := "Service::CreateDeployedResourceResolver"; a_var := "Service::deployer"; a_kind := ACall; a_locks := [] |};
  {| a_fn := "Service::CreateDeployedResourceResolver"; a_var := "Service::deployer"; a_kind := ACall; a_locks := [] |};
  {| a_fn := "Service::CreateStagingResourceResolver"; a_var := "Service::deployer"; a_kind := ACall; a_locks := [] |}
].

Definition cfg_unfixed : cfg := cfg_of_table lock_scopes_unfixed.

Lemma unfixed_table_not_ok : table_shape_ok lock_scopes_unfixed = true /\ table_ok lock_scopes_unfixed = false.
Proof. vm_compute. split; reflexivity. Qed.

(** data race: the worker is about to test notification_handler_ without the mutex while
    the client is about to overwrite it without the mutex *)
Lemma unfixed_race_refuted : exists s,
  reach cfg_unfixed true witness_badcall_script s /\ race_state lock_scopes_unfixed s = true.
Proof.
  destruct (run_macro cfg_unfixed (init true witness_badcall_script) witness_race_sched) as [s|] eqn:E;
    [|vm_compute in E; discriminate].
  exists s. split; [eapply run_macro_reach; [apply reach_init|exact E]|].
  vm_compute in E. inversion E; subst. vm_compute. reflexivity.
Qed.

(** and its consequence: an empty std::function is called, the exception surfaces at join *)
Lemma unfixed_badcall_refuted : exists s,
  reach cfg_unfixed true witness_badcall_script s /\ In EBadCall (log s) /\ hd_error (log s) = Some EJoinThrow.
Proof.
  destruct (run_macro cfg_unfixed (init true witness_badcall_script) witness_badcall_sched) as [s|] eqn:E;
    [|vm_compute in E; discriminate].
  exists s. split; [eapply run_macro_reach; [apply reach_init|exact E]|].
  vm_compute in E. inversion E; subst. cbn. split; [tauto|reflexivity].
Qed.

(** * Non-vacuity *)
Definition ex_script : list call := [CSyncUser [OOk; OThrow; OFail]; CCreate; CJoin; CIsMaint; CCreate].

(** a reachable state meeting the hypotheses of [excl_holds] ... *)
Example excl_nonvacuous : forall c, exists s,
  reach c true ex_script s /\ working s = true /\ cpcs s = CIdle /\ script s = CCreate :: [CJoin; CIsMaint; CCreate].
Proof.
  intros c. destruct (run_macro c (init true ex_script) (rep 6 Client)) as [s|] eqn:E.
  - exists s. split; [eapply run_macro_reach; [apply reach_init|exact E]|].
    destruct c as [a1 a2 a3 [] [] [] [] []]; vm_compute in E; inversion E; subst; cbn; auto.
  - destruct c as [a1 a2 a3 [] [] [] [] []]; vm_compute in E; discriminate.
Qed.

(** ... and one for [reopens_accept], [task_not_lost_holds] and [notif_bracketed_holds]:
    the worker has finished, three tasks were scheduled before it started and all ran,
    the handler saw start, failure *)
Example reopens_nonvacuous : forall c, lk_ntest c = true -> exists s,
  reach c true ex_script s /\ working s = false /\ cpcs s = CIdle /\
  script s = [CCreate] /\ scheds (before_last_spawn (log s)) = [2; 1; 0] /\ execs (log s) = [2; 1; 0] /\
  rev (notifs (log s)) = [NStart; NFailure] /\ ~ In EBadCall (log s) /\
  hd_error (log s) = Some (ERet RIsMaint 0).
Proof.
  intros c Hc.
  destruct (run_macro c (init true ex_script) (rep 7 Client ++ rep 16 Worker ++ [Client; Client])) as [s|] eqn:E.
  - exists s. split; [eapply run_macro_reach; [apply reach_init|exact E]|].
    destruct c as [a1 a2 a3 [] [] [] [] []]; cbn in Hc; try discriminate Hc; vm_compute in E; inversion E; subst; cbn;
      repeat split; auto; intros X; repeat (destruct X as [X|X]; [discriminate X|]); exact X.
  - destruct c as [a1 a2 a3 [] [] [] [] []]; cbn in Hc; try discriminate Hc; vm_compute in E; discriminate.
Qed.

(** non-vacuity of [setter_blocked_holds] / [handler_excl_holds]: the worker is inside the
    handler invocation and the client's next call is set_notification_handler *)
Definition hx_script : list call := [CSyncUser [OOk; OOk; OOk]; CSetHandler true; CJoin].
Definition hx_sched : list tid := rep 6 Client ++ rep 3 Worker.

Example setter_blocked_nonvacuous : forall c, lk_ntest c = true -> exists s,
  reach c true hx_script s /\ wpcs s = Some (WN MStart N4) /\ cpcs s = CIdle /\
  script s = [CSetHandler true; CJoin] /\ hd_error (log s) = Some (ENotify NStart).
Proof.
  intros c Hc. destruct (run_macro c (init true hx_script) hx_sched) as [s|] eqn:E.
  - exists s. split; [eapply run_macro_reach; [apply reach_init|exact E]|].
    destruct c as [a1 a2 a3 [] [] [] [] []]; cbn in Hc; try discriminate Hc; vm_compute in E; inversion E; subst; cbn; auto.
  - destruct c as [a1 a2 a3 [] [] [] [] []]; cbn in Hc; try discriminate Hc; vm_compute in E; discriminate.
Qed.

(** without the lock around the call the clause is false of the model: the setter returns
    while the invocation of the handler it replaced is still in progress *)
Definition cfg_call_unlocked : cfg :=
  {| lk_sched := true; lk_next := true; lk_hasp := true; lk_set := true; lk_clear := true;
     lk_ntest := false; lk_ncall := false; ho := HFuture |}.
Lemma handler_excl_unlocked_refuted : exists s,
  reach cfg_call_unlocked true hx_script s /\ snd (hcheck_log (log s)) = false.
Proof.
  destruct (run_macro cfg_call_unlocked (init true hx_script) (hx_sched ++ [Client])) as [s|] eqn:E;
    [|vm_compute in E; discriminate].
  exists s. split; [eapply run_macro_reach; [apply reach_init|exact E]|].
  vm_compute in E. inversion E; subst. vm_compute. reflexivity.
Qed.

(** * RimeSyncUserData destroys the sessions BEFORE it schedules its tasks and starts the
    worker: from its first step to its return no session exists, so the worker it spawns
    (CSW3 KSync -> ESpawn) starts with an empty session table.  (The worker's own steps never
    touch the table; sessions are only created by the client between API calls.) *)
Definition in_sync (p : cpc) : bool :=
  match p with
  | CSched _ KSync | CSW0 KSync | CSW1 KSync | CSW2 KSync | CSW3 KSync | CSW4 KSync => true
  | _ => false
  end.
Definition sync_clean (s : state) : Prop := in_sync (cpcs s) = true -> sessions s = [].

Lemma worker_keeps_client : forall c s s', step_worker c s = Some s' -> cpcs s' = cpcs s /\ sessions s' = sessions s.
Proof.
  intros c s s' H. step_unfold H. split_step H; finish_step H; cbn; auto;
    unfold release_w; cbn; destruct (smutex s) as [[|]|]; cbn; auto.
Qed.

Lemma in_sync_after_sched rs k : in_sync (after_sched rs k) = match k with KSync => true | KMaint => false end.
Proof. destruct rs, k; reflexivity. Qed.

Lemma sync_clean_step : forall c s t s', sync_clean s -> step c s t = Some s' -> sync_clean s'.
Proof.
  intros c s t s' Hinv H. destruct t.
  - unfold sync_clean in *. step_unfold H. split_step H; finish_step H; cbn in *; intros X;
      rewrite ?in_sync_after_sched in X;
      repeat match goal with E : cpcs s = _ |- _ => rewrite E in *; clear E end; cbn in *;
      try discriminate X; try reflexivity;
      try (apply Hinv; first [reflexivity | assumption]);
      try (match goal with k : kont |- _ => destruct k end; cbn in *; try discriminate X; apply Hinv; reflexivity).
  - cbn [step] in H. destruct (worker_keeps_client c s s' H) as (E1 & E2). unfold sync_clean. rewrite E1, E2. exact Hinv.
Qed.

Theorem sync_user_data_worker_starts_clean : forall c h0 sc s,
  reach c h0 sc s -> in_sync (cpcs s) = true -> sessions s = [].
Proof.
  intros c h0 sc s Hr. apply (reach_invariant c h0 sc sync_clean); [|apply sync_clean_step|exact Hr].
  unfold sync_clean. cbn. discriminate.
Qed.
