(** Dep/SchedProofs.v - invariants of the interleaving semantics Dep/Sched.v over ALL
    schedules (lists of micro steps of any length) and all client scripts. *)
From Coq Require Import List Bool Arith String Lia Permutation.
From RimeV Require Import Dep.Sched.
Import ListNotations.

(** * Reachability and the invariant rule *)
Definition reach (c : cfg) (h0 : bool) (sc : list call) (s : state) : Prop :=
  exists sched, run c (init h0 sc) sched = Some s.

Lemma run_app : forall c l1 l2 s,
  run c s (l1 ++ l2) = match run c s l1 with Some s' => run c s' l2 | None => None end.
Proof.
  induction l1 as [|t l1 IH]; intros l2 s; cbn; [reflexivity|].
  destruct (step c s t); [apply IH|reflexivity].
Qed.

Lemma run_invariant : forall c (P : state -> Prop),
  (forall s t s', P s -> step c s t = Some s' -> P s') ->
  forall sched s s', P s -> run c s sched = Some s' -> P s'.
Proof.
  intros c P Hstep. induction sched as [|t rest IH]; intros s s' HP Hrun; cbn in Hrun.
  - inversion Hrun; subst; exact HP.
  - destruct (step c s t) eqn:E; [|discriminate]. eapply IH; [|exact Hrun]. eapply Hstep; eauto.
Qed.

Lemma reach_invariant : forall c h0 sc (P : state -> Prop),
  P (init h0 sc) ->
  (forall s t s', P s -> step c s t = Some s' -> P s') ->
  forall s, reach c h0 sc s -> P s.
Proof. intros c h0 sc P H0 Hs s [sched Hr]. eapply run_invariant; eauto. Qed.

Lemma reach_step : forall c h0 sc s t s', reach c h0 sc s -> step c s t = Some s' -> reach c h0 sc s'.
Proof.
  intros c h0 sc s t s' [sched Hr] Hs. exists (sched ++ [t]).
  rewrite run_app, Hr. cbn. rewrite Hs. reflexivity.
Qed.

(** macro steps are sequences of micro steps *)
Lemma run_to_yield_reach : forall c h0 sc fuel s t s',
  reach c h0 sc s -> run_to_yield c fuel s t = Some s' -> reach c h0 sc s'.
Proof.
  induction fuel as [|f IH]; intros s t s' Hr H; cbn in H.
  - destruct (at_yield s t); [inversion H; subst; exact Hr|discriminate].
  - destruct (at_yield s t); [inversion H; subst; exact Hr|].
    destruct (step c s t) eqn:E; [|discriminate]. eapply IH; [|exact H]. eapply reach_step; eauto.
Qed.

Lemma macro_reach : forall c h0 sc s t s', reach c h0 sc s -> macro c s t = Some s' -> reach c h0 sc s'.
Proof.
  intros c h0 sc s t s' Hr H. unfold macro in H. destruct (step c s t) eqn:E; [|discriminate].
  eapply run_to_yield_reach; [|exact H]. eapply reach_step; eauto.
Qed.

Lemma run_macro_reach : forall c h0 sc sched s s',
  reach c h0 sc s -> run_macro c s sched = Some s' -> reach c h0 sc s'.
Proof.
  induction sched as [|t rest IH]; intros s s' Hr H; cbn in H.
  - inversion H; subst; exact Hr.
  - destruct (macro c s t) eqn:E; [|discriminate]. eapply IH; [|exact H]. eapply macro_reach; eauto.
Qed.

Lemma reach_init : forall c h0 sc, reach c h0 sc (init h0 sc).
Proof. intros. exists []. reflexivity. Qed.

(** * Step inversion *)
Ltac step_unfold H :=
  unfold step, step_client, step_worker, step_call, get_session, finish, after_notify in H.

Ltac split_step H :=
  repeat (match type of H with
          | context [match ?x with _ => _ end] =>
              match x with
              | context [match _ with _ => _ end] => fail 1
              | _ => (is_var x; destruct x) || (let E := fresh "E" in destruct x eqn:E)
              end
          | context [if ?b then _ else _] =>
              match b with
              | context [if _ then _ else _] => fail 1
              | context [match _ with _ => _ end] => fail 1
              | _ => let E := fresh "E" in destruct b eqn:E
              end
          end; try discriminate H).

Ltac finish_step H := inversion H; subst; clear H.

(** * Control invariant: worker existence vs future state, who may spawn, the
    maintenance flag, the owner of Service::mutex_, session operations *)
Definition wk_ok (w : option wpc) (f : fut) : Prop :=
  match w with
  | None => f = FNone \/ f = FReady
  | Some WFin => f = FReturned
  | Some _ => f = FRunning
  end.
Definition holds_s (c : cfg) (w : option wpc) : bool :=
  match w with Some (WN _ N3) => lk_ntest c || lk_ncall c | _ => false end.
Definition in_startwork (p : cpc) : bool := match p with CSW1 _ | CSW2 _ | CSW3 _ => true | _ => false end.
Definition mm_needed (p : cpc) : bool := match p with CSW2 _ | CSW3 _ | CSW4 _ => true | _ => false end.
Definition accepted_pc (p : cpc) : bool := match p with CCreate1 | CGet1 _ _ => true | _ => false end.

Record ctl (c : cfg) (s : state) : Prop := {
  ctl_wk : wk_ok (wpcs s) (work s);
  ctl_sw : in_startwork (cpcs s) = true -> wpcs s = None;
  ctl_mm : (working s = true \/ mm_needed (cpcs s) = true) -> mm s = true;
  ctl_mx : smutex s = if holds_s c (wpcs s) then Some Worker else None;
  ctl_started : started s = true;
  ctl_acc : accepted_pc (cpcs s) = true -> wpcs s = None;
  ctl_n2 : forall m, wpcs s = Some (WN m N2) -> lk_ntest c = false /\ lk_ncall c = true
}.

Lemma wk_ok_working : forall w f, wk_ok w f -> (match f with FRunning | FReturned => true | _ => false end) = true -> w <> None.
Proof. intros w f H Hf E. subst w. cbn in H. destruct H; subst f; discriminate. Qed.

Lemma wk_ok_not_working : forall w f, wk_ok w f -> (match f with FRunning | FReturned => true | _ => false end) = false -> w = None.
Proof.
  intros w f H Hf. destruct w as [p|]; [|reflexivity]. exfalso.
  destruct p; cbn in H; subst f; discriminate.
Qed.

Lemma ctl_init : forall c h0 sc, ctl c (init h0 sc).
Proof. intros. constructor; cbn; auto; try discriminate. intros [H|H]; discriminate. Qed.

Lemma not_disabled_no_worker : forall c s, ctl c s -> disabled s = false -> wpcs s = None.
Proof.
  intros c s [Hwk _ Hmm _ Hst _ _] Hd. unfold disabled, is_maint in Hd. rewrite Hst in Hd. cbn in Hd.
  destruct (working s) eqn:Ew.
  - rewrite Hmm in Hd by (left; reflexivity). discriminate.
  - eapply wk_ok_not_working; eauto.
Qed.

Lemma working_wk : forall s, wk_ok (wpcs s) (work s) -> working s = false -> wpcs s = None.
Proof. intros s H E. eapply wk_ok_not_working; eauto. Qed.

Ltac ctl_crush HC Hwk Hsw Hmm Hmx Hst Hacc Hn2 :=
  try match goal with Hd : disabled _ = false |- _ =>
        pose proof (not_disabled_no_worker _ _ HC Hd) as Hnw end;
  constructor;
  unfold working in *; cbn in *;
  repeat match goal with E : cpcs _ = _ |- _ => rewrite E in *; clear E end; cbn in *;
  try solve [ assumption | reflexivity | discriminate | intros; discriminate
            | intros [?|?]; try discriminate; auto
            | intros; auto
            | intros; rewrite Hsw in * by reflexivity; discriminate
            | match goal with E : work _ = _ |- _ => rewrite E in *; cbn in * end;
              solve [ destruct (wpcs _) as [[]|]; cbn in *; try discriminate; auto; destruct Hwk; discriminate
                    | intros [?|?]; try discriminate; auto ]
            | rewrite Hmx, Hsw by reflexivity; reflexivity
            | intros _; eapply wk_ok_not_working; eassumption
            | match goal with E : match work _ with _ => _ end = false |- _ => rewrite E end;
              intros [?|?]; discriminate ].

Lemma ctl_step : forall c s t s', ctl c s -> step c s t = Some s' -> ctl c s'.
Proof.
  intros c s t s' HC H. pose proof HC as [Hwk Hsw Hmm Hmx Hst Hacc Hn2].
  destruct t; step_unfold H.
  - (* client *)
    split_step H; finish_step H; try (destruct rs); ctl_crush HC Hwk Hsw Hmm Hmx Hst Hacc Hn2.
  - (* worker *)
    destruct (wpcs s) as [p|] eqn:Ew; [|discriminate].
    assert (Hsw' : in_startwork (cpcs s) = false)
      by (destruct (in_startwork (cpcs s)); [discriminate (Hsw eq_refl)|reflexivity]).
    assert (Hacc' : accepted_pc (cpcs s) = false)
      by (destruct (accepted_pc (cpcs s)); [discriminate (Hacc eq_refl)|reflexivity]).
    clear Hsw Hacc.
    destruct p as [|m [| |]| | | | | |]; unfold free_for, release_w in H; cbn in H, Hwk, Hmx;
      split_step H; finish_step H; constructor; unfold working, release_w in *; cbn in *;
      rewrite ?Hsw', ?Hacc', ?Hwk in *; cbn in *;
      try solve [ assumption | reflexivity | discriminate | intros; discriminate
                | intros [?|?]; try discriminate; auto | intros; auto
                | repeat match goal with
                         | E : lk_ntest _ = _ |- _ => rewrite E in *; clear E
                         | E : lk_ncall _ = _ |- _ => rewrite E in *; clear E
                         end; cbn in *; congruence
                | destruct (Hn2 _ eq_refl) as [A B]; rewrite A, B; reflexivity
                | destruct (lk_ntest c || lk_ncall c); congruence ].
Qed.
