(** Dep/StaleProofs.v - theorems about the staleness-decision model (C12, C13).

    Main result ([deploy_sim]): from any build directory whose artefacts are
    self-describing (stored checksums / timestamps describe what they were
    built from - the invariant [Inv], which every deployment preserves and
    which tolerates artefacts that are missing or rejected by Load), a
    deployment yields, for every artefact a clean deployment of the same
    sources writes, exactly that artefact.

    Hypotheses (Section variables, never axioms):
      H_crc   CRC32 is injective on the occurring (initial remainder, contents)
      H_cyid  the checksum of a compiled schema identifies it
      coherent/nonzero (H_mtime): within the history a file name with the same
              modification time has the same contents; mtimes are non-zero. *)
From Coq Require Import List NArith Bool Lia.
From RimeV Require Import Dep.Stale.
Import ListNotations.
Local Open Scope N_scope.

(** ** equality tests *)

Lemma rname_eqb_eq a b : rname_eqb a b = true <-> a = b.
Proof.
  destruct a, b; cbn; try (split; intro E; [discriminate E | discriminate E]); try tauto.
  - rewrite N.eqb_eq. split; intro E. + subst; reflexivity. + injection E; auto.
  - rewrite N.eqb_eq. split; intro E. + subst; reflexivity. + injection E; auto.
  - rewrite N.eqb_eq. split; intro E. + subst; reflexivity. + injection E; auto.
Qed.

Lemma fname_eqb_eq a b : fname_eqb a b = true <-> a = b.
Proof.
  destruct a, b; cbn; try (split; intro E; [discriminate E | discriminate E]).
  - rewrite rname_eqb_eq. split; intro E. + subst; reflexivity. + injection E; auto.
  - rewrite N.eqb_eq. split; intro E. + subst; reflexivity. + injection E; auto.
  - rewrite N.eqb_eq. split; intro E. + subst; reflexivity. + injection E; auto.
Qed.

Lemma akey_eqb_eq a b : akey_eqb a b = true <-> a = b.
Proof.
  destruct a as [[x|]|x|x|x], b as [[y|]|y|y|y]; cbn;
    try (split; intro E; [discriminate E | discriminate E]); try tauto.
  - rewrite N.eqb_eq. split; intro E. + subst; reflexivity. + injection E; auto.
  - rewrite N.eqb_eq. split; intro E. + subst; reflexivity. + injection E; auto.
  - rewrite N.eqb_eq. split; intro E. + subst; reflexivity. + injection E; auto.
  - rewrite N.eqb_eq. split; intro E. + subst; reflexivity. + injection E; auto.
Qed.

Lemma akey_eqb_refl k : akey_eqb k k = true.
Proof. apply akey_eqb_eq. reflexivity. Qed.

Lemma akey_eqb_neq a b : a <> b -> akey_eqb a b = false.
Proof. intro H. destruct (akey_eqb a b) eqn:E; auto. apply akey_eqb_eq in E. contradiction. Qed.

Lemma aget_aset_same k v a : aget (aset k v a) k = Some v.
Proof. cbn. rewrite akey_eqb_refl. reflexivity. Qed.

Lemma aget_aset_other k j v a : k <> j -> aget (aset k v a) j = aget a j.
Proof. intro H. cbn. rewrite (akey_eqb_neq _ _ H). reflexivity. Qed.

Lemma aget_aset k j v a : aget (aset k v a) j = if akey_eqb k j then Some v else aget a j.
Proof. reflexivity. Qed.

(** extensional sub-store: every entry of [c] is an entry of [a] *)
Definition sub (c a : arts) : Prop := forall k v, aget c k = Some v -> aget a k = Some v.

Lemma sub_refl a : sub a a.
Proof. intros k v H. exact H. Qed.

Lemma sub_nil a : sub [] a.
Proof. intros k v H. discriminate. Qed.

Lemma sub_aset k v c a : sub c a -> sub (aset k v c) (aset k v a).
Proof.
  intros H j w. rewrite !aget_aset. destruct (akey_eqb k j); auto.
Qed.

(** setting an entry the big store already has *)
Lemma sub_aset_l k v c a : sub c a -> aget a k = Some v -> sub (aset k v c) a.
Proof.
  intros H Ha j w. rewrite aget_aset. destruct (akey_eqb k j) eqn:E.
  - apply akey_eqb_eq in E. subst. intro X. injection X as <-. exact Ha.
  - apply H.
Qed.

Lemma sub_aset_r k v c a : sub c a -> (forall w, aget c k = Some w -> w = v) -> sub c (aset k v a).
Proof.
  intros H Hc j w Hj. rewrite aget_aset. destruct (akey_eqb k j) eqn:E.
  - apply akey_eqb_eq in E. subst. rewrite (Hc _ Hj). reflexivity.
  - apply H. exact Hj.
Qed.

Section Proofs.

Variable crc : N -> list N -> N.
Variable cyid : cyaml -> N.
Variable list_of : cyfrom -> list N.
Variable info_of : cyfrom -> schema_info.
Variable dinfo_of : N -> dict_info.
Variable deps_fn : srcs -> option N -> list rname.

Hypothesis H_crc : forall i l i' l', l <> [] -> l' <> [] -> crc i l = crc i' l' -> i = i' /\ l = l'.
Hypothesis H_cyid : forall c c', cyid c = cyid c' -> c = c'.

(** the source states of the history (H_mtime) *)
Variable Hist : list srcs.
Definition coherent : Prop :=
  forall s1 s2 f v1 v2, In s1 Hist -> In s2 Hist -> lookup s1 f = Some v1 -> lookup s2 f = Some v2 ->
    fv_mtime v1 = fv_mtime v2 -> v1 = v2.
Definition nonzero : Prop :=
  forall s f v, In s Hist -> lookup s f = Some v -> fv_mtime v <> 0.
Hypothesis H_coh : coherent.
Hypothesis H_nz : nonzero.
(** what the config compiler loads is determined by what it has loaded: if every
    resource read when compiling from [s0] is the same in [s], compiling from [s]
    reads the same resources *)
Definition deps_closed : Prop :=
  forall s s0 t, In s Hist -> In s0 Hist ->
    (forall r, In r (deps_fn s0 t) -> lookup s (FRes r) = lookup s0 (FRes r)) -> deps_fn s t = deps_fn s0 t.
Hypothesis H_deps : deps_closed.

Notation crc_files := (crc_files crc).
Notation build_config := (build_config deps_fn).
Notation config_update := (config_update deps_fn).
Notation compile_packs := (compile_packs crc dinfo_of).
Notation compile_core := (compile_core crc cyid dinfo_of).
Notation compile := (compile crc cyid dinfo_of).
Notation schema_update := (schema_update crc cyid info_of dinfo_of deps_fn).
Notation build_schema := (build_schema crc cyid info_of dinfo_of deps_fn).
Notation visit := (visit crc cyid info_of dinfo_of deps_fn).
Notation deploy := (deploy crc cyid list_of info_of dinfo_of deps_fn).

(** ** the invariant: artefacts are self-describing *)

Definition inv_tab (t : tab) : Prop := t_files t <> [] /\ exists i, t_ck t = crc i (t_files t).

Definition inv_prism (q : prism) : Prop :=
  p_sck q = cyid (p_cy q) /\ p_dck q = t_ck (p_tab q) /\ inv_tab (p_tab q).

Definition inv_art (k : akey) (v : art) : Prop :=
  match k, v with
  | KCy t, ACy c => exists s0, In s0 Hist /\ c = build_config s0 t
  | KTab _, ATab t => inv_tab t
  | KRev _, ATab t => inv_tab t
  | KPrism _, APrism q => inv_prism q
  | _, _ => False
  end.

Definition Inv (a : arts) : Prop := forall k v, aget a k = Some v -> inv_art k v.

Lemma Inv_nil : Inv [].
Proof. intros k v H. discriminate. Qed.

Lemma Inv_aset k v a : Inv a -> inv_art k v -> Inv (aset k v a).
Proof.
  intros Ha Hv j w. rewrite aget_aset. destruct (akey_eqb k j) eqn:E.
  - apply akey_eqb_eq in E. subst. intro X. injection X as <-. exact Hv.
  - apply Ha.
Qed.

Lemma Inv_sub c a : sub c a -> Inv a -> Inv c.
Proof. intros Hs Ha k v H. apply Ha. apply Hs. exact H. Qed.

Lemma Inv_get_cy a t c : Inv a -> get_cy a (KCy t) = Some c -> exists s0, In s0 Hist /\ c = build_config s0 t.
Proof.
  unfold get_cy. intros Ha H. destruct (aget a (KCy t)) as [[c'|?|?]|] eqn:E; try discriminate.
  injection H as <-. exact (Ha _ _ E).
Qed.

Lemma Inv_get_tab a d t : Inv a -> get_tab a (KTab d) = Some t -> inv_tab t.
Proof.
  unfold get_tab. intros Ha H. destruct (aget a (KTab d)) as [[?|t'|?]|] eqn:E; try discriminate.
  injection H as <-. exact (Ha _ _ E).
Qed.

Lemma Inv_get_rev a d t : Inv a -> get_tab a (KRev d) = Some t -> inv_tab t.
Proof.
  unfold get_tab. intros Ha H. destruct (aget a (KRev d)) as [[?|t'|?]|] eqn:E; try discriminate.
  injection H as <-. exact (Ha _ _ E).
Qed.

Lemma Inv_get_prism a p q : Inv a -> get_prism a (KPrism p) = Some q -> inv_prism q.
Proof.
  unfold get_prism. intros Ha H. destruct (aget a (KPrism p)) as [[?|?|q']|] eqn:E; try discriminate.
  injection H as <-. exact (Ha _ _ E).
Qed.

(** typed getters vs [sub] *)
Lemma sub_get_cy c a k v : sub c a -> get_cy c k = Some v -> get_cy a k = Some v.
Proof.
  unfold get_cy. intros Hs H. destruct (aget c k) as [[x|?|?]|] eqn:E; try discriminate.
  rewrite (Hs _ _ E). exact H.
Qed.
Lemma sub_get_tab c a k v : sub c a -> get_tab c k = Some v -> get_tab a k = Some v.
Proof.
  unfold get_tab. intros Hs H. destruct (aget c k) as [[?|x|?]|] eqn:E; try discriminate.
  rewrite (Hs _ _ E). exact H.
Qed.
Lemma sub_get_prism c a k v : sub c a -> get_prism c k = Some v -> get_prism a k = Some v.
Proof.
  unfold get_prism. intros Hs H. destruct (aget c k) as [[?|?|x]|] eqn:E; try discriminate.
  rewrite (Hs _ _ E). exact H.
Qed.

Lemma get_tab_aset k t a : get_tab (aset k (ATab t) a) k = Some t.
Proof. unfold get_tab. rewrite aget_aset_same. reflexivity. Qed.
Lemma get_tab_aset_other k j v a : k <> j -> get_tab (aset k v a) j = get_tab a j.
Proof. intro H. unfold get_tab. rewrite aget_aset_other by exact H. reflexivity. Qed.
Lemma get_cy_aset k c a : get_cy (aset k (ACy c) a) k = Some c.
Proof. unfold get_cy. rewrite aget_aset_same. reflexivity. Qed.
Lemma get_prism_aset_other k j v a : k <> j -> get_prism (aset k v a) j = get_prism a j.
Proof. intro H. unfold get_prism. rewrite aget_aset_other by exact H. reflexivity. Qed.

(** ** soundness of "keep" decisions *)

(** compiled config: unchanged timestamps => built from the current sources *)
Lemma keep_sound_cy s s0 t :
  In s Hist -> In s0 Hist ->
  needs_update s (Some (build_config s0 t)) = false -> build_config s0 t = build_config s t.
Proof.
  intros Hs Hs0. unfold needs_update, build_config. cbn [cy_ts].
  intro Hex.
  assert (forall r, In r (deps_fn s0 t) -> lookup s0 (FRes r) = lookup s (FRes r)) as Hall.
  { intros r Hr.
    assert (entry_stale s (r, ts_of (lookup s0 (FRes r))) = false) as Hst.
    { destruct (entry_stale s (r, ts_of (lookup s0 (FRes r)))) eqn:E; auto.
      rewrite <- Hex. symmetry. apply existsb_exists.
      exists (r, ts_of (lookup s0 (FRes r))). split; auto.
      apply in_map_iff. exists r. auto. }
    unfold entry_stale in Hst. cbn [fst snd] in Hst.
    destruct (lookup s (FRes r)) as [v|] eqn:Ev; destruct (lookup s0 (FRes r)) as [v0|] eqn:Ev0; cbn [ts_of] in Hst.
    - apply negb_false_iff, N.eqb_eq in Hst. rewrite ?Ev0. f_equal. eapply (H_coh s0 s); eauto.
    - apply negb_false_iff, N.eqb_eq in Hst. exfalso. eapply (H_nz s); eauto.
    - apply negb_false_iff, N.eqb_eq in Hst. exfalso. eapply (H_nz s0); eauto.
    - rewrite ?Ev0. reflexivity. }
  rewrite (H_deps s s0 t Hs Hs0) by (intros r Hr; symmetry; apply Hall; exact Hr).
  f_equal.
  - apply map_ext_in. intros r Hr. rewrite (Hall r Hr). reflexivity.
  - apply map_ext_in. intros r Hr. rewrite (Hall r Hr). reflexivity.
Qed.

Lemma fresh_cy_not_stale s t : In s Hist -> needs_update s (Some (build_config s t)) = false.
Proof.
  intro Hs. unfold needs_update, build_config. cbn [cy_ts].
  destruct (existsb _ _) eqn:E; auto. exfalso.
  apply existsb_exists in E. destruct E as [[r ts] [Hin Hst]].
  apply in_map_iff in Hin. destruct Hin as [r' [Heq _]]. injection Heq as -> <-.
  unfold entry_stale in Hst. cbn [fst snd] in Hst.
  destruct (lookup s (FRes r)) as [v|]; cbn [ts_of] in Hst.
  - rewrite N.eqb_refl in Hst. discriminate.
  - discriminate.
Qed.

(** tables: an unchanged checksum => built from the same files *)
Lemma keep_sound_tab t init files :
  inv_tab t -> files <> [] -> t_ck t = crc init files ->
  t = {| t_ck := crc init files; t_files := files |}.
Proof.
  intros [Hne [i Hi]] Hf Hck. rewrite Hi in Hck.
  destruct (H_crc _ _ _ _ Hne Hf Hck) as [Ei El].
  destruct t as [ck fl]. cbn in *. subst. reflexivity.
Qed.

Lemma stale_ck_false t ck : stale_ck t ck = false -> exists t', t = Some t' /\ t_ck t' = ck.
Proof.
  destruct t as [t'|]; cbn; intro H; [|discriminate].
  exists t'. split; auto. apply negb_false_iff, N.eqb_eq in H. exact H.
Qed.

(** ** simulation: a run from an invariant store vs a run from any sub-store *)

Definition Rel (a c : arts) : Prop := Inv a /\ sub c a.

Lemma Rel_inv_c a c : Rel a c -> Inv c.
Proof. intros [Ha Hs]. eapply Inv_sub; eauto. Qed.

Definition cset (b : bool) (k : akey) (v : art) (a : arts) : arts := if b then aset k v a else a.

(** a conditional write of a value that is already there whenever it is skipped *)
Lemma Rel_cset ba bc k v a c :
  Rel a c -> inv_art k v ->
  (ba = false -> aget a k = Some v) -> (bc = false -> aget c k = Some v) ->
  Rel (cset ba k v a) (cset bc k v c).
Proof.
  intros [Ha Hs] Hv Hka Hkc. unfold cset. destruct ba, bc.
  - split. + apply Inv_aset; auto. + apply sub_aset; auto.
  - split. + apply Inv_aset; auto.
    + apply sub_aset_r; auto. intros w Hw. rewrite (Hkc eq_refl) in Hw. injection Hw; auto.
  - split; auto. apply sub_aset_l; auto.
  - split; auto.
Qed.

Lemma aget_cset b k v a j :
  (b = false -> aget a k = Some v) ->
  aget (cset b k v a) j = if akey_eqb k j then Some v else aget a j.
Proof.
  intro H. unfold cset. destruct b.
  - apply aget_aset.
  - destruct (akey_eqb k j) eqn:E; auto. apply akey_eqb_eq in E. subst. auto.
Qed.

Lemma get_cy_aget a k c : get_cy a k = Some c -> aget a k = Some (ACy c).
Proof. unfold get_cy. destruct (aget a k) as [[x|?|?]|]; intro H; try discriminate. injection H as <-. reflexivity. Qed.
Lemma get_tab_aget a k t : get_tab a k = Some t -> aget a k = Some (ATab t).
Proof. unfold get_tab. destruct (aget a k) as [[?|x|?]|]; intro H; try discriminate. injection H as <-. reflexivity. Qed.
Lemma get_prism_aget a k q : get_prism a k = Some q -> aget a k = Some (APrism q).
Proof. unfold get_prism. destruct (aget a k) as [[?|?|x]|]; intro H; try discriminate. injection H as <-. reflexivity. Qed.

(** *** compiled configs *)

Lemma cfg_keep s t a :
  In s Hist -> Inv a -> needs_update s (get_cy a (KCy t)) = false ->
  aget a (KCy t) = Some (ACy (build_config s t)).
Proof.
  intros Hs Ha Hn. destruct (get_cy a (KCy t)) as [c|] eqn:E; [|discriminate].
  destruct (Inv_get_cy _ _ _ Ha E) as [s0 [Hs0 ->]].
  rewrite (get_cy_aget _ _ _ E). rewrite (keep_sound_cy s s0 t Hs Hs0 Hn). reflexivity.
Qed.

Lemma config_update_cset s t a :
  fst (config_update s t a) =
  match lookup s (FRes (res_of t)) with
  | Some _ => cset (needs_update s (get_cy a (KCy t))) (KCy t) (ACy (build_config s t)) a
  | None => a
  end.
Proof.
  unfold config_update, cset. destruct (needs_update s (get_cy a (KCy t))); destruct (lookup s (FRes (res_of t))); reflexivity.
Qed.

Lemma config_update_rel s t a c :
  In s Hist -> Rel a c -> Rel (fst (config_update s t a)) (fst (config_update s t c)).
Proof.
  intros Hs HR. rewrite !config_update_cset. destruct (lookup s (FRes (res_of t))); auto.
  apply Rel_cset; auto.
  - cbn. exists s. auto.
  - apply cfg_keep; auto. apply HR.
  - apply cfg_keep; auto. eapply Rel_inv_c; eauto.
Qed.

Lemma config_update_post s t a v :
  In s Hist -> Inv a -> lookup s (FRes (res_of t)) = Some v ->
  get_cy (fst (config_update s t a)) (KCy t) = Some (build_config s t).
Proof.
  intros Hs Ha Hl. rewrite config_update_cset, Hl. unfold get_cy.
  rewrite aget_cset by (apply cfg_keep; auto). rewrite akey_eqb_refl. reflexivity.
Qed.

(** *** tables *)

Lemma cids_of_nonempty s d r fl : cids_of s (d :: r) = Some fl -> fl <> [].
Proof.
  cbn. destruct (lookup s (FDict d)); [|discriminate]. destruct (cids_of s r); [|discriminate].
  intro H. injection H as <-. discriminate.
Qed.

Lemma app_nonempty {A} (l r : list A) : l <> [] -> l ++ r <> [].
Proof. destruct l; cbn; [congruence | discriminate]. Qed.

Lemma crc_files_nonempty i l : l <> [] -> crc_files i l = crc i l.
Proof. destruct l; [congruence | reflexivity]. Qed.

Lemma inv_newtab i files : files <> [] -> inv_tab {| t_ck := crc_files i files; t_files := files |}.
Proof. intro H. split; cbn; auto. exists i. apply crc_files_nonempty. exact H. Qed.

Lemma tab_keep k a i files :
  (forall t, get_tab a k = Some t -> inv_tab t) -> files <> [] ->
  stale_ck (get_tab a k) (crc_files i files) = false ->
  aget a k = Some (ATab {| t_ck := crc_files i files; t_files := files |}).
Proof.
  intros Hi Hf Hst. destruct (stale_ck_false _ _ Hst) as [t [Et Hck]].
  rewrite (get_tab_aget _ _ _ Et). rewrite crc_files_nonempty in * by exact Hf.
  rewrite (keep_sound_tab t i files (Hi _ Et) Hf Hck). reflexivity.
Qed.

Lemma compile_packs_rel s dck packs : forall a c,
  Rel a c -> Rel (fst (compile_packs s dck packs a)) (fst (compile_packs s dck packs c)).
Proof.
  induction packs as [|q r IH]; intros a c HR; cbn [Stale.compile_packs]; auto.
  destruct (lookup s (FDict q)) as [v|].
  2:{ specialize (IH a c HR). destruct (compile_packs s dck r a), (compile_packs s dck r c). exact IH. }
  destruct (cids_of s (tables_of q (dinfo_of (fv_cid v)))) as [fl|] eqn:Efl.
  2:{ specialize (IH a c HR). destruct (compile_packs s dck r a), (compile_packs s dck r c). exact IH. }
  set (files := fl ++ vocab_cids s (dinfo_of (fv_cid v))).
  assert (files <> []) as Hf by (apply app_nonempty; eapply cids_of_nonempty; exact Efl).
  set (nt := {| t_ck := crc_files dck files; t_files := files |}).
  assert (Rel (cset (stale_ck (get_tab a (KTab q)) (crc_files dck files)) (KTab q) (ATab nt) a)
              (cset (stale_ck (get_tab c (KTab q)) (crc_files dck files)) (KTab q) (ATab nt) c)) as HR'.
  { apply Rel_cset; auto.
    - cbn. apply inv_newtab. exact Hf.
    - apply tab_keep; auto. intros t Ht. eapply Inv_get_tab; [apply HR | exact Ht].
    - apply tab_keep; auto. intros t Ht. eapply Inv_get_tab; [eapply Rel_inv_c; exact HR | exact Ht]. }
  specialize (IH _ _ HR'). unfold cset in IH. fold nt.
  destruct (compile_packs s dck r _), (compile_packs s dck r _). exact IH.
Qed.

(** *** DictCompiler::Compile, dictionary source present *)

Lemma prism_keep p a files cy :
  Inv a -> files <> [] ->
  match get_prism a (KPrism p) with
  | Some q => negb (p_dck q =? crc_files 0 files) || negb (p_sck q =? cyid cy)
  | None => true
  end = false ->
  aget a (KPrism p) = Some (APrism {| p_dck := crc_files 0 files; p_sck := cyid cy;
                                      p_tab := {| t_ck := crc_files 0 files; t_files := files |}; p_cy := cy |}).
Proof.
  intros Ha Hf Hd. destruct (get_prism a (KPrism p)) as [q|] eqn:E; [|discriminate].
  apply orb_false_iff in Hd. destruct Hd as [H1 H2].
  apply negb_false_iff, N.eqb_eq in H1. apply negb_false_iff, N.eqb_eq in H2.
  destruct (Inv_get_prism _ _ _ Ha E) as [Hs [Hd Ht]].
  rewrite (get_prism_aget _ _ _ E).
  rewrite Hs in H2. apply H_cyid in H2.
  rewrite Hd in H1. rewrite crc_files_nonempty in * by exact Hf.
  pose proof (keep_sound_tab _ _ _ Ht Hf H1) as Et.
  destruct q as [dck sck tb c]. cbn [p_dck p_sck p_tab p_cy] in *.
  rewrite Hd, Hs, H2, Et. cbn [t_ck]. reflexivity.
Qed.

Lemma aget_cset_other b k v a j : k <> j -> aget (cset b k v a) j = aget a j.
Proof. intro H. unfold cset. destruct b; auto. apply aget_aset_other. exact H. Qed.

Lemma match_ne {A B} (l : list A) (x y : B) : l <> [] -> match l with [] => x | _ :: _ => y end = y.
Proof. destruct l; [congruence | reflexivity]. Qed.

Section Core.
Variables (s : srcs) (d p : N) (packs : list N) (cy : cyaml) (files : list N).
Hypothesis Hfiles : files <> [].
Let dck := crc_files 0 files.
Let nt := {| t_ck := dck; t_files := files |}.
Let fp := {| p_dck := dck; p_sck := cyid cy; p_tab := nt; p_cy := cy |}.
Definition rb_p_of (X : arts) : bool :=
  match get_prism X (KPrism p) with
  | Some q => negb (p_dck q =? dck) || negb (p_sck q =? cyid cy)
  | None => true
  end.
Definition rb_t_of (X : arts) : bool :=
  stale_ck (get_tab X (KTab d)) dck || stale_ck (get_tab X (KRev d)) dck.
Definition core_nf (X : arts) : arts :=
  cset (rb_p_of X) (KPrism p) (APrism fp)
       (cset (rb_t_of X) (KRev d) (ATab nt) (cset (rb_t_of X) (KTab d) (ATab nt) X)).

Lemma rb_t_keep_tab X : Inv X -> rb_t_of X = false -> aget X (KTab d) = Some (ATab nt).
Proof.
  intros HX H. apply orb_false_iff in H. destruct H as [H _].
  apply tab_keep; auto. intros t Ht. eapply Inv_get_tab; eauto.
Qed.

Lemma rb_t_keep_rev X : Inv X -> rb_t_of X = false -> aget X (KRev d) = Some (ATab nt).
Proof.
  intros HX H. apply orb_false_iff in H. destruct H as [_ H].
  apply tab_keep; auto. intros t Ht. eapply Inv_get_rev; eauto.
Qed.

Lemma compile_core_src X :
  Inv X ->
  fst (fst (compile_core s d p packs cy true dck files (stale_ck (get_tab X (KTab d)) dck) X))
  = fst (compile_packs s dck packs (core_nf X))
  /\ snd (compile_core s d p packs cy true dck files (stale_ck (get_tab X (KTab d)) dck) X) = true.
Proof.
  intro HX. unfold Stale.compile_core. fold dck. fold nt.
  change (stale_ck (get_tab X (KTab d)) dck || stale_ck (get_tab X (KRev d)) dck) with (rb_t_of X).
  change (match get_prism X (KPrism p) with
          | Some q => negb (p_dck q =? dck) || negb (p_sck q =? cyid cy)
          | None => true end) with (rb_p_of X).
  set (a1 := if rb_t_of X then aset (KRev d) (ATab nt) (aset (KTab d) (ATab nt) X) else X).
  assert (a1 = cset (rb_t_of X) (KRev d) (ATab nt) (cset (rb_t_of X) (KTab d) (ATab nt) X)) as Ea1.
  { unfold a1, cset. destruct (rb_t_of X); reflexivity. }
  assert (get_tab a1 (KTab d) = Some nt) as Eg.
  { rewrite Ea1. unfold get_tab. rewrite aget_cset_other by discriminate.
    rewrite aget_cset by (apply rb_t_keep_tab; auto). rewrite akey_eqb_refl. reflexivity. }
  unfold core_nf. rewrite <- Ea1.
  destruct (rb_p_of X).
  - rewrite Eg. cbn [t_files nt]. rewrite match_ne by exact Hfiles.
    fold fp. unfold cset.
    destruct (compile_packs s dck packs (aset (KPrism p) (APrism fp) a1)). split; reflexivity.
  - unfold cset. destruct (compile_packs s dck packs a1). split; reflexivity.
Qed.

Lemma core_nf_rel a c : Rel a c -> Rel (core_nf a) (core_nf c).
Proof.
  intro HR. pose proof (Rel_inv_c _ _ HR) as Hc. destruct HR as [Ha Hs].
  assert (Rel a c) as HR by (split; auto).
  unfold core_nf.
  apply Rel_cset.
  - apply Rel_cset.
    + apply Rel_cset; auto.
      * cbn. apply inv_newtab. exact Hfiles.
      * apply rb_t_keep_tab; auto.
      * apply rb_t_keep_tab; auto.
    + cbn. apply inv_newtab. exact Hfiles.
    + intro H. rewrite aget_cset_other by discriminate. apply rb_t_keep_rev; auto.
    + intro H. rewrite aget_cset_other by discriminate. apply rb_t_keep_rev; auto.
  - cbn. split; [reflexivity|]. split; [reflexivity|]. apply inv_newtab. exact Hfiles.
  - intro H. rewrite !aget_cset_other by discriminate. apply prism_keep; auto.
  - intro H. rewrite !aget_cset_other by discriminate. apply prism_keep; auto.
Qed.

Lemma compile_core_rel a c :
  Rel a c ->
  Rel (fst (fst (compile_core s d p packs cy true dck files (stale_ck (get_tab a (KTab d)) dck) a)))
      (fst (fst (compile_core s d p packs cy true dck files (stale_ck (get_tab c (KTab d)) dck) c)))
  /\ snd (compile_core s d p packs cy true dck files (stale_ck (get_tab a (KTab d)) dck) a)
     = snd (compile_core s d p packs cy true dck files (stale_ck (get_tab c (KTab d)) dck) c).
Proof.
  intro HR. pose proof (Rel_inv_c _ _ HR) as Hc.
  destruct (compile_core_src a (proj1 HR)) as [E1 E2].
  destruct (compile_core_src c Hc) as [E3 E4].
  rewrite E1, E2, E3, E4. split; auto.
  apply compile_packs_rel. apply core_nf_rel. exact HR.
Qed.
End Core.

Lemma compile_rel s d p packs cy a c :
  lookup s (FDict d) <> None -> Rel a c ->
  Rel (fst (fst (compile s d p packs cy a))) (fst (fst (compile s d p packs cy c)))
  /\ snd (compile s d p packs cy a) = snd (compile s d p packs cy c).
Proof.
  intros Hsrc HR. unfold Stale.compile.
  destruct (lookup s (FDict d)) as [v|]; [|congruence].
  destruct (cids_of s (tables_of d (dinfo_of (fv_cid v)))) as [fl|] eqn:Efl.
  - apply compile_core_rel; auto. apply app_nonempty. eapply cids_of_nonempty. exact Efl.
  - cbn. split; auto.
Qed.

(** [compile] never touches compiled configs *)
Lemma compile_packs_frame s dck packs t : forall a,
  aget (fst (compile_packs s dck packs a)) (KCy t) = aget a (KCy t).
Proof.
  induction packs as [|q r IH]; intro a; cbn [Stale.compile_packs]; auto.
  destruct (lookup s (FDict q)) as [v|].
  2:{ specialize (IH a). destruct (compile_packs s dck r a). exact IH. }
  destruct (cids_of s (tables_of q (dinfo_of (fv_cid v)))) as [fl|].
  2:{ specialize (IH a). destruct (compile_packs s dck r a). exact IH. }
  match goal with |- context [compile_packs s dck r ?X] => specialize (IH X); destruct (compile_packs s dck r X) end.
  cbn [fst] in *. rewrite IH. destruct (stale_ck _ _); auto.
Qed.

Lemma compile_core_frame s d p packs cy fs dck files rb a t :
  aget (fst (fst (compile_core s d p packs cy fs dck files rb a))) (KCy t) = aget a (KCy t).
Proof.
  unfold Stale.compile_core.
  set (a1 := if rb || stale_ck (get_tab a (KRev d)) dck then _ else a).
  assert (aget a1 (KCy t) = aget a (KCy t)) as E1.
  { unfold a1. destruct (rb || stale_ck (get_tab a (KRev d)) dck); auto. }
  destruct (match get_prism a (KPrism p) with Some _ => _ | None => true end).
  - destruct (get_tab a1 (KTab d)) as [tb|]; [|exact E1].
    destruct (t_files tb); [exact E1|].
    match goal with |- context [compile_packs s dck packs ?X] =>
      pose proof (compile_packs_frame s dck packs t X) as Hf; destruct (compile_packs s dck packs X) end.
    cbn [fst] in *. rewrite Hf. exact E1.
  - pose proof (compile_packs_frame s dck packs t a1) as Hf. destruct (compile_packs s dck packs a1).
    cbn [fst] in *. rewrite Hf. exact E1.
Qed.

Lemma compile_frame s d p packs cy a t :
  aget (fst (fst (compile s d p packs cy a))) (KCy t) = aget a (KCy t).
Proof.
  unfold Stale.compile. destruct (lookup s (FDict d)) as [v|].
  - destruct (cids_of s _); [apply compile_core_frame | reflexivity].
  - destruct (get_tab a (KTab d)); [apply compile_core_frame | reflexivity].
Qed.

(** *** SchemaUpdate, WorkspaceUpdate *)

(** the dictionary a schema names has a source file (the "no source, reuse the
    binary" branch is outside the property's edit alphabet) *)
Definition sourced (s : srcs) (x : N) : bool :=
  match si_dict (info_of (cy_from (build_config s (Some x)))) with
  | None => true
  | Some d => match lookup s (FDict d) with Some _ => true | None => false end
  end.

(** well-formed sources: default.yaml exists, every listed schema exists, every
    existing schema's dictionary has its source *)
Definition wf_srcs (s : srcs) : Prop :=
  lookup s (FRes RDefault) <> None /\
  (forall x, In x (list_of (cy_from (build_config s None))) -> lookup s (FRes (RSchema x)) <> None) /\
  (forall x, lookup s (FRes (RSchema x)) <> None -> sourced s x = true).

Definition cy_ok (s : srcs) (a : arts) (y : N) : Prop :=
  lookup s (FRes (RSchema y)) <> None -> get_cy a (KCy (Some y)) = Some (build_config s (Some y)).

Lemma config_update_frame s t a j : KCy t <> j -> aget (fst (config_update s t a)) j = aget a j.
Proof.
  intro H. rewrite config_update_cset. destruct (lookup s (FRes (res_of t))); auto.
  apply aget_cset_other. exact H.
Qed.

Lemma schema_update_frame s x dep a t :
  t <> Some x -> aget (fst (fst (schema_update s x dep a))) (KCy t) = aget a (KCy t).
Proof.
  intro H. unfold Stale.schema_update.
  destruct (lookup s (FRes (RSchema x))); [|reflexivity].
  pose proof (config_update_frame s (Some x) a (KCy t)) as Hf.
  destruct (config_update s (Some x) a) as [a1 l1]. cbn [fst] in Hf.
  assert (aget a1 (KCy t) = aget a (KCy t)) as E1 by (apply Hf; congruence).
  destruct (get_cy a1 (KCy (Some x))) as [cy|]; [|exact E1].
  destruct (si_dict (info_of (cy_from cy))) as [d|]; [|exact E1].
  match goal with |- context [compile s d ?p ?pk cy a1] =>
    pose proof (compile_frame s d p pk cy a1 t) as Hc; destruct (compile s d p pk cy a1) as [[a2 l2] ok2] end.
  cbn [fst] in *. rewrite Hc. exact E1.
Qed.

Lemma schema_update_rel s x dep a c :
  In s Hist -> (lookup s (FRes (RSchema x)) <> None -> sourced s x = true) -> Rel a c ->
  Rel (fst (fst (schema_update s x dep a))) (fst (fst (schema_update s x dep c)))
  /\ snd (schema_update s x dep a) = snd (schema_update s x dep c)
  /\ cy_ok s (fst (fst (schema_update s x dep a))) x /\ cy_ok s (fst (fst (schema_update s x dep c))) x.
Proof.
  intros Hs Hsrc HR. pose proof (Rel_inv_c _ _ HR) as Hc. unfold cy_ok, Stale.schema_update.
  destruct (lookup s (FRes (RSchema x))) as [v|] eqn:El.
  2:{ cbn [fst snd]. split; [exact HR|]. split; [reflexivity|]. split; intro H; congruence. }
  pose proof (config_update_rel s (Some x) a c Hs HR) as HR1.
  pose proof (config_update_post s (Some x) a v Hs (proj1 HR) El) as Pa.
  pose proof (config_update_post s (Some x) c v Hs Hc El) as Pc.
  destruct (config_update s (Some x) a) as [a1 la]. destruct (config_update s (Some x) c) as [c1 lc].
  cbn [fst] in *. rewrite Pa, Pc.
  assert (sourced s x = true) as Hsd by (apply Hsrc; congruence).
  unfold sourced in Hsd.
  destruct (si_dict (info_of (cy_from (build_config s (Some x))))) as [d|].
  2:{ cbn [fst snd]. split; [exact HR1|]. split; [reflexivity|]. split; intros _; assumption. }
  assert (lookup s (FDict d) <> None) as Hd by (destruct (lookup s (FDict d)); congruence).
  match goal with |- context [compile s d ?p ?pk ?cy a1] =>
    pose proof (compile_rel s d p pk cy a1 c1 Hd HR1) as [HR2 Hok];
    pose proof (compile_frame s d p pk cy a1 (Some x)) as Fa;
    pose proof (compile_frame s d p pk cy c1 (Some x)) as Fc;
    destruct (compile s d p pk cy a1) as [[a2 l2] ok2]; destruct (compile s d p pk cy c1) as [[c2 l2'] ok2'] end.
  cbn [fst snd] in *. split; [exact HR2|]. split; [exact Hok|]. split.
  - intros _. unfold get_cy in *. rewrite Fa. exact Pa.
  - intros _. unfold get_cy in *. rewrite Fc. exact Pc.
Qed.

Definition WRel (s : srcs) (A C : wstate) : Prop :=
  let '(a, _, ba, oka) := A in
  let '(c, _, bc, okc) := C in
  Rel a c /\ ba = bc /\ oka = okc /\ (forall y, In y ba -> cy_ok s a y /\ cy_ok s c y).

Lemma existsb_eqb_in x l : existsb (N.eqb x) l = true <-> In x l.
Proof.
  rewrite existsb_exists. split.
  - intros [y [Hy E]]. apply N.eqb_eq in E. subst. exact Hy.
  - intro H. exists x. split; auto. apply N.eqb_refl.
Qed.

Lemma build_schema_rel s dep A C x :
  In s Hist -> (forall y, lookup s (FRes (RSchema y)) <> None -> sourced s y = true) ->
  WRel s A C -> WRel s (build_schema s dep A x) (build_schema s dep C x).
Proof.
  intros Hs Hsrc. destruct A as [[[a la] ba] oka], C as [[[c lc] bc] okc].
  intros [HR [Eb [Eo Hcy]]]. subst bc okc. unfold Stale.build_schema.
  destruct (existsb (N.eqb x) ba) eqn:Ex.
  - cbn. auto.
  - pose proof (schema_update_rel s x dep a c Hs (Hsrc x) HR) as [HR' [Eok [Pa Pc]]].
    pose proof (fun t H => schema_update_frame s x dep a t H) as Fa.
    pose proof (fun t H => schema_update_frame s x dep c t H) as Fc.
    destruct (schema_update s x dep a) as [[a' l'] ok']. destruct (schema_update s x dep c) as [[c' l''] ok''].
    cbn [fst snd] in *. subst ok''. split; [exact HR'|]. split; [reflexivity|]. split; [reflexivity|].
    intros y H. split.
    + destruct H as [<-|Hy]; [exact Pa|].
      assert (y <> x) as Hne.
      { intro E. subst y. apply existsb_eqb_in in Hy. congruence. }
      unfold cy_ok, get_cy. rewrite Fa by congruence. apply (proj1 (Hcy y Hy)).
    + destruct H as [<-|Hy]; [exact Pc|].
      assert (y <> x) as Hne.
      { intro E. subst y. apply existsb_eqb_in in Hy. congruence. }
      unfold cy_ok, get_cy. rewrite Fc by congruence. apply (proj2 (Hcy y Hy)).
Qed.

Lemma fold_build_rel s dep deps : forall A C,
  In s Hist -> (forall y, lookup s (FRes (RSchema y)) <> None -> sourced s y = true) ->
  WRel s A C -> WRel s (fold_left (build_schema s dep) deps A) (fold_left (build_schema s dep) deps C).
Proof.
  induction deps as [|y r IH]; intros A C Hs Hsrc HW; cbn; auto.
  apply IH; auto. apply build_schema_rel; auto.
Qed.

Lemma build_schema_built s dep A x :
  let '(_, _, b, _) := build_schema s dep A x in In x b.
Proof.
  destruct A as [[[a la] ba] oka]. unfold Stale.build_schema.
  destruct (existsb (N.eqb x) ba) eqn:Ex.
  - apply existsb_eqb_in. exact Ex.
  - destruct (schema_update s x dep a) as [[a' l'] ok']. left. reflexivity.
Qed.

Lemma visit_rel s A C x :
  In s Hist -> (forall y, lookup s (FRes (RSchema y)) <> None -> sourced s y = true) ->
  lookup s (FRes (RSchema x)) <> None ->
  WRel s A C -> WRel s (visit s A x) (visit s C x).
Proof.
  intros Hs Hsrc Hx HW. unfold Stale.visit.
  pose proof (build_schema_rel s false A C x Hs Hsrc HW) as HW1.
  pose proof (build_schema_built s false A x) as Hb.
  destruct (build_schema s false A x) as [[[a la] ba] oka] eqn:EA.
  destruct (build_schema s false C x) as [[[c lc] bc] okc] eqn:EC.
  assert (get_cy a (KCy (Some x)) = get_cy c (KCy (Some x))) as Ecy.
  { destruct HW1 as [_ [_ [_ Hcy]]]. destruct (Hcy x Hb) as [Pa Pc]. rewrite (Pa Hx), (Pc Hx). reflexivity. }
  rewrite <- Ecy. apply fold_build_rel; auto.
Qed.

Lemma fold_visit_rel s xs : forall A C,
  In s Hist -> (forall y, lookup s (FRes (RSchema y)) <> None -> sourced s y = true) ->
  (forall x, In x xs -> lookup s (FRes (RSchema x)) <> None) ->
  WRel s A C -> WRel s (fold_left (visit s) xs A) (fold_left (visit s) xs C).
Proof.
  induction xs as [|x r IH]; intros A C Hs Hsrc Hl HW; cbn; auto.
  apply IH; auto.
  - intros y Hy. apply Hl. right. exact Hy.
  - apply visit_rel; auto. apply Hl. left. reflexivity.
Qed.

(** ** main simulation theorem *)
Theorem deploy_sim s a c :
  In s Hist -> wf_srcs s -> Inv a -> sub c a ->
  Rel (fst (fst (deploy s a))) (fst (fst (deploy s c))) /\ snd (deploy s a) = snd (deploy s c).
Proof.
  intros Hs [Hdef [Hlist Hsrc]] Ha Hsub. assert (Rel a c) as HR by (split; auto).
  pose proof (Rel_inv_c _ _ HR) as Hc. unfold Stale.deploy.
  destruct (lookup s (FRes RDefault)) as [v|] eqn:El; [|congruence].
  pose proof (config_update_rel s None a c Hs HR) as HR1.
  pose proof (config_update_post s None a v Hs Ha El) as Pa.
  pose proof (config_update_post s None c v Hs Hc El) as Pc.
  destruct (config_update s None a) as [a1 la]. destruct (config_update s None c) as [c1 lc].
  cbn [fst] in *. rewrite Pa, Pc.
  assert (WRel s (a1, la, [], true) (c1, lc, [], true)) as HW.
  { cbn. split; [exact HR1|]. split; [reflexivity|]. split; [reflexivity|]. intros y0 []. }
  pose proof (fold_visit_rel s (list_of (cy_from (build_config s None))) _ _ Hs Hsrc Hlist HW) as HW2.
  destruct (fold_left (visit s) _ (a1, la, [], true)) as [[[a2 l2] b2] ok2].
  destruct (fold_left (visit s) _ (c1, lc, [], true)) as [[[c2 l2'] b2'] ok2'].
  destruct HW2 as [HR2 [_ [Eok _]]]. cbn [fst snd]. split; auto.
Qed.

(** a deployment preserves the invariant *)
Corollary deploy_inv s a :
  In s Hist -> wf_srcs s -> Inv a -> Inv (fst (fst (deploy s a))).
Proof.
  intros Hs Hwf Ha. apply (deploy_sim s a a Hs Hwf Ha (sub_refl a)).
Qed.

(** C13 redeploy_completes / C12 core: from ANY invariant store - in particular
    one from which a kill removed or spoiled (rejected by Load) any set of
    artefacts - a deployment contains every artefact of the clean deployment
    of the same sources, identically, and succeeds iff the clean one does *)
Theorem redeploy_completes s a :
  In s Hist -> wf_srcs s -> Inv a ->
  sub (fst (fst (deploy s []))) (fst (fst (deploy s a))) /\ snd (deploy s a) = snd (deploy s []).
Proof.
  intros Hs Hwf Ha.
  destruct (deploy_sim s a [] Hs Hwf Ha (sub_nil a)) as [[_ Hsub] Hok]. split; auto.
Qed.

(** ** all histories: edits are arbitrary successive source states of [Hist] *)

Fixpoint run_hist (hs : list srcs) (a : arts) : arts :=
  match hs with
  | [] => a
  | s :: r => run_hist r (fst (fst (deploy s a)))
  end.

Lemma run_hist_inv hs : forall a,
  (forall s, In s hs -> In s Hist /\ wf_srcs s) -> Inv a -> Inv (run_hist hs a).
Proof.
  induction hs as [|s r IH]; intros a Hh Ha; cbn; auto.
  apply IH.
  - intros s' Hs'. apply Hh. right. exact Hs'.
  - destruct (Hh s (or_introl eq_refl)) as [Hs Hwf]. apply deploy_inv; auto.
Qed.

Theorem deploy_reaches_clean hs a s :
  (forall s', In s' hs -> In s' Hist /\ wf_srcs s') -> In s Hist -> wf_srcs s -> Inv a ->
  sub (fst (fst (deploy s []))) (fst (fst (deploy s (run_hist hs a))))
  /\ snd (deploy s (run_hist hs a)) = snd (deploy s []).
Proof.
  intros Hh Hs Hwf Ha. apply redeploy_completes; auto. apply run_hist_inv; auto.
Qed.

(** ** what a schema's artefacts are built from after its update *)

Lemma compile_packs_frame_gen s dck packs k : forall a,
  (forall q, In q packs -> KTab q <> k) ->
  aget (fst (compile_packs s dck packs a)) k = aget a k.
Proof.
  induction packs as [|q r IH]; intros a Hk; cbn [Stale.compile_packs]; auto.
  assert (forall q0, In q0 r -> KTab q0 <> k) as Hr by (intros q0 H0; apply Hk; right; exact H0).
  assert (KTab q <> k) as Hq by (apply Hk; left; reflexivity).
  destruct (lookup s (FDict q)) as [v|].
  2:{ specialize (IH a Hr). destruct (compile_packs s dck r a). exact IH. }
  destruct (cids_of s (tables_of q (dinfo_of (fv_cid v)))) as [fl|].
  2:{ specialize (IH a Hr). destruct (compile_packs s dck r a). exact IH. }
  match goal with |- context [compile_packs s dck r ?X] => specialize (IH X Hr); destruct (compile_packs s dck r X) end.
  cbn [fst] in *. rewrite IH. destruct (stale_ck _ _); auto. apply aget_aset_other. exact Hq.
Qed.

Theorem edited_schema_never_stale s x dep a v d vd fl :
  In s Hist -> Inv a -> lookup s (FRes (RSchema x)) = Some v ->
  let cy := build_config s (Some x) in
  let info := info_of (cy_from cy) in
  si_dict info = Some d -> lookup s (FDict d) = Some vd ->
  cids_of s (tables_of d (dinfo_of (fv_cid vd))) = Some fl ->
  let files := fl ++ vocab_cids s (dinfo_of (fv_cid vd)) in
  let nt := {| t_ck := crc_files 0 files; t_files := files |} in
  let p := match si_prism info with Some p => p | None => d end in
  let a' := fst (fst (schema_update s x dep a)) in
  get_cy a' (KCy (Some x)) = Some cy /\
  get_tab a' (KRev d) = Some nt /\
  get_prism a' (KPrism p) = Some {| p_dck := crc_files 0 files; p_sck := cyid cy; p_tab := nt; p_cy := cy |} /\
  (~ In d (si_packs info) -> get_tab a' (KTab d) = Some nt).
Proof.
  intros Hs Ha El cy info Hd Evd Efl files nt p a'.
  assert (files <> []) as Hf by (apply app_nonempty; eapply cids_of_nonempty; exact Efl).
  unfold a', Stale.schema_update. rewrite El.
  pose proof (config_update_post s (Some x) a v Hs Ha El) as Pa.
  pose proof (config_update_rel s (Some x) a a Hs (conj Ha (sub_refl a))) as [Ha1 _].
  destruct (config_update s (Some x) a) as [a1 la]. cbn [fst] in *. rewrite Pa.
  fold cy. fold info. rewrite Hd. fold p.
  pose proof (compile_frame s d p (si_packs info) cy a1 (Some x)) as Fc.
  unfold Stale.compile in *. rewrite Evd, Efl in *. fold files in Fc |- *.
  destruct (compile_core_src s d p (si_packs info) cy files Hf a1 Ha1) as [E1 E2].
  destruct (compile_core s d p (si_packs info) cy true (crc_files 0 files) files _ a1) as [[a2 l2] ok2].
  cbn [fst snd] in *. subst a2.
  split; [|split; [|split]].
  - unfold get_cy in *. rewrite Fc. exact Pa.
  - unfold get_tab. rewrite compile_packs_frame_gen by (intros; discriminate).
    unfold core_nf. rewrite aget_cset_other by discriminate.
    rewrite aget_cset.
    + rewrite akey_eqb_refl. reflexivity.
    + intro H. rewrite aget_cset_other by discriminate. apply rb_t_keep_rev; auto.
  - unfold get_prism. rewrite compile_packs_frame_gen by (intros; discriminate).
    unfold core_nf. rewrite aget_cset.
    + rewrite akey_eqb_refl. reflexivity.
    + intro H. rewrite !aget_cset_other by discriminate. apply prism_keep; auto.
  - intro Hnp. unfold get_tab. rewrite compile_packs_frame_gen.
    + unfold core_nf. rewrite !aget_cset_other by discriminate.
      rewrite aget_cset by (apply rb_t_keep_tab; auto). rewrite akey_eqb_refl. reflexivity.
    + intros q Hq E. injection E as ->. contradiction.
Qed.

(** ** the window between table->Save() and the creation of the reverse db:
    a table that loads with the right checksum but whose reverse db is missing
    (or rejected by Load) still forces the rebuild of both *)
Theorem missing_reverse_forces_rebuild s d p packs cy a vd fl :
  lookup s (FDict d) = Some vd ->
  cids_of s (tables_of d (dinfo_of (fv_cid vd))) = Some fl ->
  get_tab a (KRev d) = None ->
  exists bp l, snd (fst (compile s d p packs cy a)) = LDict d true true bp :: l.
Proof.
  intros Evd Efl Hrev. unfold Stale.compile. rewrite Evd, Efl. unfold Stale.compile_core.
  rewrite Hrev. cbn [stale_ck]. rewrite orb_true_r.
  destruct (match get_prism a (KPrism p) with Some _ => _ | None => true end).
  - match goal with |- context [match get_tab ?X (KTab d) with Some _ => _ | None => _ end] => destruct (get_tab X (KTab d)) as [t|] end.
    + destruct (t_files t).
      * eexists. eexists. reflexivity.
      * match goal with |- context [compile_packs s ?k packs ?X] => destruct (compile_packs s k packs X) end.
        eexists. eexists. reflexivity.
    + eexists. eexists. reflexivity.
  - match goal with |- context [compile_packs s ?k packs ?X] => destruct (compile_packs s k packs X) end.
    eexists. eexists. reflexivity.
Qed.

(** ** a deployment with no source change: fresh artefacts are kept *)

Theorem noop_deploy_rewrites_nothing_partial s t d p cy files X :
  In s Hist -> files <> [] ->
  let dck := crc_files 0 files in
  let nt := {| t_ck := dck; t_files := files |} in
  (* a freshly compiled config is not stale *)
  needs_update s (Some (build_config s t)) = false /\
  (* fresh table, reverse db and prism are all kept, nothing is written *)
  (get_tab X (KTab d) = Some nt -> get_tab X (KRev d) = Some nt ->
   get_prism X (KPrism p) = Some {| p_dck := dck; p_sck := cyid cy; p_tab := nt; p_cy := cy |} ->
   rb_t_of d files X = false /\ rb_p_of p cy files X = false /\ core_nf d p cy files X = X) /\
  (* a fresh pack is kept *)
  (forall q i, get_tab X (KTab q) = Some {| t_ck := crc_files i files; t_files := files |} ->
               stale_ck (get_tab X (KTab q)) (crc_files i files) = false).
Proof.
  intros Hs Hf dck nt. split; [apply fresh_cy_not_stale; exact Hs|]. split.
  - intros Et Er Ep.
    assert (rb_t_of d files X = false) as H1.
    { unfold rb_t_of. rewrite Et, Er. cbn. fold dck. rewrite N.eqb_refl. reflexivity. }
    assert (rb_p_of p cy files X = false) as H2.
    { unfold rb_p_of. rewrite Ep. cbn. fold dck. rewrite !N.eqb_refl. reflexivity. }
    split; auto. split; auto. unfold core_nf. rewrite H1, H2. reflexivity.
  - intros q i Eq. rewrite Eq. cbn. rewrite N.eqb_refl. reflexivity.
Qed.

(** ** workspace level: a deployment of a settled build directory rewrites nothing *)

Definition has (a : arts) (W : list (akey * art)) : Prop := forall k v, In (k, v) W -> aget a k = Some v.
Definition norebuild (l : list logent) : Prop := forallb (fun e => negb (rebuilt_entry e)) l = true.

Lemma norebuild_app l l' : norebuild l -> norebuild l' -> norebuild (l ++ l').
Proof. unfold norebuild. intros H H'. rewrite forallb_app, H, H'. reflexivity. Qed.

(** what the update of schema [x] writes - a function of the sources alone *)
Definition pack_writes (s : srcs) (dck : N) (packs : list N) : list (akey * art) :=
  flat_map (fun q =>
    match lookup s (FDict q) with
    | None => []
    | Some v =>
      match cids_of s (tables_of q (dinfo_of (fv_cid v))) with
      | None => []
      | Some fl => let files := fl ++ vocab_cids s (dinfo_of (fv_cid v)) in
                   [(KTab q, ATab {| t_ck := crc_files dck files; t_files := files |})]
      end
    end) packs.

Definition dict_writes (s : srcs) (d p : N) (packs : list N) (cy : cyaml) : list (akey * art) :=
  match lookup s (FDict d) with
  | None => []
  | Some v =>
    match cids_of s (tables_of d (dinfo_of (fv_cid v))) with
    | None => []
    | Some fl =>
      let files := fl ++ vocab_cids s (dinfo_of (fv_cid v)) in
      let dck := crc_files 0 files in
      let nt := {| t_ck := dck; t_files := files |} in
      (KTab d, ATab nt) :: (KRev d, ATab nt)
      :: (KPrism p, APrism {| p_dck := dck; p_sck := cyid cy; p_tab := nt; p_cy := cy |})
      :: pack_writes s dck packs
    end
  end.

Definition schema_writes (s : srcs) (x : N) : list (akey * art) :=
  match lookup s (FRes (RSchema x)) with
  | None => []
  | Some _ =>
    let cy := build_config s (Some x) in
    let info := info_of (cy_from cy) in
    (KCy (Some x), ACy cy)
    :: match si_dict info with
       | None => []
       | Some d => dict_writes s d (match si_prism info with Some p => p | None => d end) (si_packs info) cy
       end
  end.

(** the schemas a deployment visits: the listed ones and their dependencies *)
Definition targets (s : srcs) : list N :=
  flat_map (fun x => x :: si_deps (info_of (cy_from (build_config s (Some x)))))
           (list_of (cy_from (build_config s None))).

(** every artefact the deployment would write is already there *)
Definition settled (s : srcs) (a : arts) : Prop :=
  aget a (KCy None) = Some (ACy (build_config s None)) /\
  forall x, In x (targets s) -> has a (schema_writes s x).

Lemma config_update_noop s t a :
  In s Hist -> aget a (KCy t) = Some (ACy (build_config s t)) -> config_update s t a = (a, [LCfg t false]).
Proof.
  intros Hs Hg. unfold Stale.config_update, get_cy. rewrite Hg. rewrite (fresh_cy_not_stale s t Hs). reflexivity.
Qed.

Lemma compile_packs_noop s dck packs : forall a,
  has a (pack_writes s dck packs) -> exists l, compile_packs s dck packs a = (a, l) /\ norebuild l.
Proof.
  induction packs as [|q r IH]; intros a Hh; cbn [Stale.compile_packs].
  - exists []. split; reflexivity.
  - assert (has a (pack_writes s dck r)) as Hr.
    { intros k v Hin. apply Hh. unfold pack_writes. cbn [flat_map]. apply in_or_app. right. exact Hin. }
    destruct (IH a Hr) as [l [El Hl]].
    assert (forall v0, In (KTab q, v0) (pack_writes s dck [q]) -> aget a (KTab q) = Some v0) as Hq.
    { intros v0 Hin. apply Hh. unfold pack_writes in *. cbn [flat_map] in *. rewrite app_nil_r in Hin.
      apply in_or_app. left. exact Hin. }
    unfold pack_writes in Hq. cbn [flat_map] in Hq. rewrite app_nil_r in Hq.
    destruct (lookup s (FDict q)) as [v|].
    2:{ rewrite El. exists (LPack q 0 :: l). split; auto. }
    destruct (cids_of s (tables_of q (dinfo_of (fv_cid v)))) as [fl|].
    2:{ rewrite El. exists (LPack q 3 :: l). split; auto. }
    specialize (Hq _ (or_introl eq_refl)). unfold get_tab. rewrite Hq. cbn [stale_ck t_ck].
    rewrite N.eqb_refl. cbn [negb]. rewrite El. exists (LPack q 2 :: l). split; auto.
Qed.

Lemma compile_noop s d p packs cy a :
  has a (dict_writes s d p packs cy) -> lookup s (FDict d) <> None ->
  exists l ok, compile s d p packs cy a = (a, l, ok) /\ norebuild l.
Proof.
  intros Hh Hsrc. unfold Stale.compile. unfold dict_writes in Hh.
  destruct (lookup s (FDict d)) as [v|]; [|congruence].
  destruct (cids_of s (tables_of d (dinfo_of (fv_cid v)))) as [fl|].
  2:{ exists [LDictFail d], false. split; reflexivity. }
  set (files := fl ++ vocab_cids s (dinfo_of (fv_cid v))) in *.
  set (dck := crc_files 0 files) in *.
  set (nt := {| t_ck := dck; t_files := files |}) in *.
  pose proof (Hh _ _ (or_introl eq_refl)) as Ht.
  pose proof (Hh _ _ (or_intror (or_introl eq_refl))) as Hr.
  pose proof (Hh _ _ (or_intror (or_intror (or_introl eq_refl)))) as Hp.
  assert (has a (pack_writes s dck packs)) as Hpk.
  { intros k w Hin. apply Hh. right. right. right. exact Hin. }
  destruct (compile_packs_noop s dck packs a Hpk) as [l [El Hl]].
  unfold Stale.compile_core, get_tab, get_prism. rewrite Ht, Hr, Hp. cbn [stale_ck t_ck p_dck p_sck nt].
  rewrite !N.eqb_refl. cbn [negb orb]. rewrite El.
  exists (LDict d true false false :: l), true. split; auto.
Qed.

Lemma schema_update_noop s x dep a :
  In s Hist -> (lookup s (FRes (RSchema x)) <> None -> sourced s x = true) ->
  has a (schema_writes s x) ->
  exists l ok, schema_update s x dep a = (a, l, ok) /\ norebuild l.
Proof.
  intros Hs Hsrc Hh. unfold Stale.schema_update. unfold schema_writes in Hh.
  destruct (lookup s (FRes (RSchema x))) as [v|] eqn:El.
  2:{ exists [LSchemaMissing x dep], dep. split; reflexivity. }
  pose proof (Hh _ _ (or_introl eq_refl)) as Hcy.
  rewrite (config_update_noop s (Some x) a Hs Hcy). unfold get_cy. rewrite Hcy.
  assert (sourced s x = true) as Hsd by (apply Hsrc; congruence). unfold sourced in Hsd.
  destruct (si_dict (info_of (cy_from (build_config s (Some x))))) as [d|].
  2:{ exists [LCfg (Some x) false], true. split; reflexivity. }
  assert (lookup s (FDict d) <> None) as Hd by (destruct (lookup s (FDict d)); congruence).
  match goal with |- context [compile s d ?p ?pk ?cy a] =>
    destruct (compile_noop s d p pk cy a) as [l [ok [Ec Hl]]]; [intros k w Hin; apply Hh; right; exact Hin | exact Hd |] end.
  rewrite Ec. exists ([LCfg (Some x) false] ++ l), ok. split; auto.
Qed.

Lemma build_schema_noop s dep a l b ok x :
  In s Hist -> (forall y, lookup s (FRes (RSchema y)) <> None -> sourced s y = true) ->
  has a (schema_writes s x) -> norebuild l ->
  exists l' b' ok', build_schema s dep (a, l, b, ok) x = (a, l', b', ok') /\ norebuild l'.
Proof.
  intros Hs Hsrc Hh Hl. unfold Stale.build_schema.
  destruct (existsb (N.eqb x) b).
  - exists l, b, ok. auto.
  - destruct (schema_update_noop s x dep a Hs (Hsrc x) Hh) as [l2 [ok2 [E H2]]]. rewrite E.
    exists (l ++ l2), (x :: b), (ok && ok2). split; auto. apply norebuild_app; auto.
Qed.

Lemma fold_build_noop s dep a ys : forall l b ok,
  In s Hist -> (forall y, lookup s (FRes (RSchema y)) <> None -> sourced s y = true) ->
  (forall y, In y ys -> has a (schema_writes s y)) -> norebuild l ->
  exists l' b' ok', fold_left (build_schema s dep) ys (a, l, b, ok) = (a, l', b', ok') /\ norebuild l'.
Proof.
  induction ys as [|y r IH]; intros l b ok Hs Hsrc Hh Hl; cbn [fold_left].
  - exists l, b, ok. auto.
  - destruct (build_schema_noop s dep a l b ok y Hs Hsrc (Hh y (or_introl eq_refl)) Hl) as [l1 [b1 [ok1 [E H1]]]].
    rewrite E. apply IH; auto. intros z Hz. apply Hh. right. exact Hz.
Qed.

Lemma visit_noop s a l b ok x :
  In s Hist -> (forall y, lookup s (FRes (RSchema y)) <> None -> sourced s y = true) ->
  lookup s (FRes (RSchema x)) <> None ->
  has a (schema_writes s x) ->
  (forall y, In y (si_deps (info_of (cy_from (build_config s (Some x))))) -> has a (schema_writes s y)) ->
  norebuild l ->
  exists l' b' ok', visit s (a, l, b, ok) x = (a, l', b', ok') /\ norebuild l'.
Proof.
  intros Hs Hsrc Hx Hh Hd Hl. unfold Stale.visit.
  destruct (build_schema_noop s false a l b ok x Hs Hsrc Hh Hl) as [l1 [b1 [ok1 [E H1]]]]. rewrite E.
  assert (get_cy a (KCy (Some x)) = Some (build_config s (Some x))) as Hcy.
  { unfold get_cy. unfold schema_writes in Hh. destruct (lookup s (FRes (RSchema x))); [|congruence].
    rewrite (Hh _ _ (or_introl eq_refl)). reflexivity. }
  rewrite Hcy. apply fold_build_noop; auto.
Qed.

Lemma fold_visit_noop s a xs : forall l b ok,
  In s Hist -> (forall y, lookup s (FRes (RSchema y)) <> None -> sourced s y = true) ->
  (forall x, In x xs -> lookup s (FRes (RSchema x)) <> None) ->
  (forall x, In x xs -> has a (schema_writes s x) /\
     forall y, In y (si_deps (info_of (cy_from (build_config s (Some x))))) -> has a (schema_writes s y)) ->
  norebuild l ->
  exists l' b' ok', fold_left (visit s) xs (a, l, b, ok) = (a, l', b', ok') /\ norebuild l'.
Proof.
  induction xs as [|x r IH]; intros l b ok Hs Hsrc Hlist Hh Hl; cbn [fold_left].
  - exists l, b, ok. auto.
  - destruct (Hh x (or_introl eq_refl)) as [Hx Hd].
    destruct (visit_noop s a l b ok x Hs Hsrc (Hlist x (or_introl eq_refl)) Hx Hd Hl) as [l1 [b1 [ok1 [E H1]]]].
    rewrite E. apply IH; auto.
    + intros z Hz. apply Hlist. right. exact Hz.
    + intros z Hz. apply Hh. right. exact Hz.
Qed.

(** workspace-level no-op: the deployment of a settled build directory returns
    the very same store and logs no rebuild *)
Theorem noop_deploy_rewrites_nothing s a :
  In s Hist -> wf_srcs s -> settled s a ->
  exists l ok, deploy s a = (a, l, ok) /\ norebuild l.
Proof.
  intros Hs [Hdef [Hlist Hsrc]] [Hcd Hset]. unfold Stale.deploy.
  rewrite (config_update_noop s None a Hs Hcd). unfold get_cy. rewrite Hcd.
  destruct (fold_visit_noop s a (list_of (cy_from (build_config s None))) [LCfg None false] [] true Hs Hsrc Hlist)
    as [l [b [ok [E Hl]]]].
  - intros x Hx. split.
    + apply Hset. unfold targets. apply in_flat_map. exists x. split; auto. left. reflexivity.
    + intros y Hy. apply Hset. unfold targets. apply in_flat_map. exists x. split; auto. right. exact Hy.
  - reflexivity.
  - rewrite E. exists l, ok. split; auto.
Qed.

(** ** ... and a deployment settles the build directory, provided no two updates
    write different artefacts under one name (no two schemas share a prism name
    with different compiled configs; a pack table belongs to one dictionary) *)

Definition no_shared_outputs (s : srcs) : Prop :=
  forall x y k v v', In (k, v) (schema_writes s x) -> In (k, v') (schema_writes s y) -> v = v'.

Lemma aget_app W a k : aget (W ++ a) k = match aget W k with Some v => Some v | None => aget a k end.
Proof. induction W as [|[j w] r IH]; cbn; auto. destruct (akey_eqb j k); auto. Qed.

Lemma aget_In W k v : aget W k = Some v -> In (k, v) W.
Proof.
  induction W as [|[j w] r IH]; cbn; [discriminate|]. destruct (akey_eqb j k) eqn:E.
  - apply akey_eqb_eq in E. subst. intro H. injection H as <-. left. reflexivity.
  - intro H. right. apply IH. exact H.
Qed.

Lemma In_aget W k v : In (k, v) W -> exists v', aget W k = Some v'.
Proof.
  induction W as [|[j w] r IH]; cbn; [tauto|]. intros [E|H].
  - injection E as -> ->. rewrite akey_eqb_refl. eauto.
  - destruct (akey_eqb j k); eauto.
Qed.

Lemma aget_app_congr W a1 a2 k : (forall j, aget a1 j = aget a2 j) -> aget (W ++ a1) k = aget (W ++ a2) k.
Proof. intro H. rewrite !aget_app. destruct (aget W k); auto. Qed.

(** a store that is [rev W ++ a] extensionally *)
Definition is_nf (a' : arts) (W : list (akey * art)) (a : arts) : Prop := forall k, aget a' k = aget (rev W ++ a) k.

Lemma nf_has_self a' W a :
  is_nf a' W a -> (forall k v v', In (k, v) W -> In (k, v') W -> v = v') -> has a' W.
Proof.
  intros Hn Hc k v Hin. rewrite Hn, aget_app.
  destruct (In_aget (rev W) k v) as [v' Ev]; [apply in_rev; rewrite rev_involutive; exact Hin|].
  rewrite Ev. f_equal. apply (Hc k v' v); auto. apply in_rev. apply aget_In. exact Ev.
Qed.

Lemma nf_has_other a' Wx a Wy :
  is_nf a' Wx a -> has a Wy -> (forall k v v', In (k, v) Wx -> In (k, v') Wy -> v = v') -> has a' Wy.
Proof.
  intros Hn Hh Hc k v Hin. rewrite Hn, aget_app. destruct (aget (rev Wx) k) as [v'|] eqn:Ev.
  - f_equal. apply (Hc k v' v); auto. apply in_rev. apply aget_In. exact Ev.
  - apply Hh. exact Hin.
Qed.

Lemma cset_nf b k v a : (b = false -> aget a k = Some v) -> forall j, aget (cset b k v a) j = aget ((k, v) :: a) j.
Proof. intros H j. rewrite aget_cset by exact H. reflexivity. Qed.

Lemma Inv_cset b k v a : Inv a -> inv_art k v -> Inv (cset b k v a).
Proof. intros Ha Hv. unfold cset. destruct b; auto. apply Inv_aset; auto. Qed.

Lemma compile_packs_nf s dck packs : forall a,
  Inv a -> is_nf (fst (compile_packs s dck packs a)) (pack_writes s dck packs) a.
Proof.
  induction packs as [|q r IH]; intros a Ha k; cbn [Stale.compile_packs].
  - reflexivity.
  - unfold pack_writes. cbn [flat_map]. fold (pack_writes s dck r).
    destruct (lookup s (FDict q)) as [v|].
    2:{ specialize (IH a Ha k). destruct (compile_packs s dck r a). exact IH. }
    destruct (cids_of s (tables_of q (dinfo_of (fv_cid v)))) as [fl|] eqn:Efl.
    2:{ specialize (IH a Ha k). destruct (compile_packs s dck r a). exact IH. }
    set (files := fl ++ vocab_cids s (dinfo_of (fv_cid v))).
    assert (files <> []) as Hf by (apply app_nonempty; eapply cids_of_nonempty; exact Efl).
    set (nt := {| t_ck := crc_files dck files; t_files := files |}).
    set (rb := stale_ck (get_tab a (KTab q)) (crc_files dck files)).
    assert (rb = false -> aget a (KTab q) = Some (ATab nt)) as Hk.
    { apply tab_keep; auto. intros t Ht. eapply Inv_get_tab; eauto. }
    assert (Inv (cset rb (KTab q) (ATab nt) a)) as Ha1 by (apply Inv_cset; auto; cbn; apply inv_newtab; exact Hf).
    specialize (IH _ Ha1 k). unfold cset in IH.
    destruct (compile_packs s dck r (if rb then aset (KTab q) (ATab nt) a else a)) as [a' l'].
    cbn [fst] in *. rewrite IH. cbn [app rev]. rewrite <- app_assoc. apply aget_app_congr.
    intro j. apply (cset_nf rb (KTab q) (ATab nt) a Hk j).
Qed.

Lemma compile_nf s d p packs cy a :
  Inv a -> lookup s (FDict d) <> None ->
  is_nf (fst (fst (compile s d p packs cy a))) (dict_writes s d p packs cy) a.
Proof.
  intros Ha Hsrc k. unfold Stale.compile, dict_writes.
  destruct (lookup s (FDict d)) as [v|]; [|congruence].
  destruct (cids_of s (tables_of d (dinfo_of (fv_cid v)))) as [fl|] eqn:Efl; [|reflexivity].
  set (files := fl ++ vocab_cids s (dinfo_of (fv_cid v))).
  assert (files <> []) as Hf by (apply app_nonempty; eapply cids_of_nonempty; exact Efl).
  destruct (compile_core_src s d p packs cy files Hf a Ha) as [E1 _]. rewrite E1.
  assert (Inv (core_nf d p cy files a)) as Hc by (apply (core_nf_rel d p cy files Hf a a); split; [auto | apply sub_refl]).
  rewrite (compile_packs_nf s (crc_files 0 files) packs _ Hc k).
  cbn [rev]. rewrite <- !app_assoc. apply aget_app_congr. intro j. unfold core_nf. cbn [app].
  rewrite cset_nf.
  2:{ intro H. rewrite !aget_cset_other by discriminate. apply prism_keep; auto. }
  cbn [aget]. destruct (akey_eqb (KPrism p) j); auto.
  rewrite cset_nf.
  2:{ intro H. rewrite aget_cset_other by discriminate. apply rb_t_keep_rev; auto. }
  cbn [aget]. destruct (akey_eqb (KRev d) j); auto.
  rewrite cset_nf by (apply rb_t_keep_tab; auto). reflexivity.
Qed.

Lemma schema_update_nf s x dep a :
  In s Hist -> Inv a -> (lookup s (FRes (RSchema x)) <> None -> sourced s x = true) ->
  is_nf (fst (fst (schema_update s x dep a))) (schema_writes s x) a.
Proof.
  intros Hs Ha Hsrc k. unfold Stale.schema_update, schema_writes.
  destruct (lookup s (FRes (RSchema x))) as [v|] eqn:El; [|reflexivity].
  pose proof (config_update_post s (Some x) a v Hs Ha El) as Pa.
  pose proof (config_update_rel s (Some x) a a Hs (conj Ha (sub_refl a))) as [Ha1 _].
  pose proof (config_update_cset s (Some x) a) as Ecs. cbn [res_of] in Ecs. rewrite El in Ecs.
  destruct (config_update s (Some x) a) as [a1 la]. cbn [fst] in *. rewrite Pa.
  assert (forall j, aget a1 j = aget ((KCy (Some x), ACy (build_config s (Some x))) :: a) j) as Ha1nf.
  { intro j. rewrite Ecs. apply cset_nf. apply cfg_keep; auto. }
  assert (sourced s x = true) as Hsd by (apply Hsrc; congruence). unfold sourced in Hsd.
  destruct (si_dict (info_of (cy_from (build_config s (Some x))))) as [d|].
  2:{ cbn [fst rev app]. apply Ha1nf. }
  assert (lookup s (FDict d) <> None) as Hd by (destruct (lookup s (FDict d)); congruence).
  match goal with |- context [compile s d ?p ?pk ?cy a1] =>
    pose proof (compile_nf s d p pk cy a1 Ha1 Hd k) as Hn; destruct (compile s d p pk cy a1) as [[a2 l2] ok2] end.
  cbn [fst] in *. rewrite Hn. cbn [rev]. rewrite <- app_assoc. apply aget_app_congr. exact Ha1nf.
Qed.

(** run 1: every schema built so far has all its writes in the store *)
Definition SInv (s : srcs) (st : wstate) : Prop :=
  let '(a, _, b, _) := st in
  Inv a /\ aget a (KCy None) = Some (ACy (build_config s None)) /\ forall y, In y b -> has a (schema_writes s y).

Lemma build_schema_sinv s dep st x :
  In s Hist -> (forall y, lookup s (FRes (RSchema y)) <> None -> sourced s y = true) -> no_shared_outputs s ->
  SInv s st -> SInv s (build_schema s dep st x).
Proof.
  intros Hs Hsrc Hno. destruct st as [[[a l] b] ok]. intros [Ha [Hd Hb]]. unfold Stale.build_schema.
  destruct (existsb (N.eqb x) b) eqn:Ex; [cbn; auto|].
  pose proof (schema_update_nf s x dep a Hs Ha (Hsrc x)) as Hn.
  pose proof (schema_update_rel s x dep a a Hs (Hsrc x) (conj Ha (sub_refl a))) as [[Ha' _] _].
  pose proof (schema_update_frame s x dep a None ltac:(discriminate)) as Hf.
  destruct (schema_update s x dep a) as [[a' l'] ok']. cbn [fst] in *. split; [exact Ha'|]. split.
  - rewrite Hf. exact Hd.
  - intros y [<-|Hy].
    + eapply nf_has_self; [exact Hn | intros k v v'; apply Hno].
    + eapply nf_has_other; [exact Hn | apply Hb; exact Hy | intros k v v'; apply Hno].
Qed.

Lemma fold_build_sinv s dep ys : forall st,
  In s Hist -> (forall y, lookup s (FRes (RSchema y)) <> None -> sourced s y = true) -> no_shared_outputs s ->
  SInv s st -> SInv s (fold_left (build_schema s dep) ys st).
Proof.
  induction ys as [|y r IH]; intros st Hs Hsrc Hno H; cbn; auto. apply IH; auto. apply build_schema_sinv; auto.
Qed.

Definition built_of (st : wstate) : list N := let '(_, _, b, _) := st in b.

Lemma build_schema_mono s dep st x y : In y (built_of st) -> In y (built_of (build_schema s dep st x)).
Proof.
  destruct st as [[[a l] b] ok]. unfold Stale.build_schema. cbn [built_of].
  destruct (existsb (N.eqb x) b); [auto|]. destruct (schema_update s x dep a) as [[a' l'] ok']. cbn. auto.
Qed.

Lemma build_schema_adds s dep st x : In x (built_of (build_schema s dep st x)).
Proof. pose proof (build_schema_built s dep st x) as H. destruct (build_schema s dep st x) as [[[a l] b] ok]. exact H. Qed.

Lemma fold_build_mono s dep ys : forall st y, In y (built_of st) -> In y (built_of (fold_left (build_schema s dep) ys st)).
Proof. induction ys as [|z r IH]; intros st y H; cbn; auto. apply IH. apply build_schema_mono. exact H. Qed.

Lemma fold_build_adds s dep ys : forall st y, In y ys -> In y (built_of (fold_left (build_schema s dep) ys st)).
Proof.
  induction ys as [|z r IH]; intros st y H; [destruct H|]. destruct H as [<-|H]; cbn.
  - apply fold_build_mono. apply build_schema_adds.
  - apply IH. exact H.
Qed.

Lemma visit_sinv s st x :
  In s Hist -> (forall y, lookup s (FRes (RSchema y)) <> None -> sourced s y = true) -> no_shared_outputs s ->
  lookup s (FRes (RSchema x)) <> None ->
  SInv s st ->
  SInv s (visit s st x) /\
  (forall y, In y (built_of st) -> In y (built_of (visit s st x))) /\
  (forall y, In y (x :: si_deps (info_of (cy_from (build_config s (Some x))))) -> In y (built_of (visit s st x))).
Proof.
  intros Hs Hsrc Hno Hx H. unfold Stale.visit.
  pose proof (build_schema_sinv s false st x Hs Hsrc Hno H) as H1.
  pose proof (build_schema_adds s false st x) as Hb.
  pose proof (fun y => build_schema_mono s false st x y) as Hm.
  destruct (build_schema s false st x) as [[[a l] b] ok] eqn:E. cbn [built_of] in *.
  assert (get_cy a (KCy (Some x)) = Some (build_config s (Some x))) as Hcy.
  { destruct H1 as [_ [_ Hh]]. specialize (Hh x Hb). unfold schema_writes in Hh.
    destruct (lookup s (FRes (RSchema x))); [|congruence]. unfold get_cy. rewrite (Hh _ _ (or_introl eq_refl)). reflexivity. }
  rewrite Hcy. split; [apply fold_build_sinv; auto|]. split.
  - intros y Hy. apply fold_build_mono. cbn. auto.
  - intros y [<-|Hy].
    + apply fold_build_mono. cbn. exact Hb.
    + apply fold_build_adds. exact Hy.
Qed.

Lemma fold_visit_sinv s xs : forall st,
  In s Hist -> (forall y, lookup s (FRes (RSchema y)) <> None -> sourced s y = true) -> no_shared_outputs s ->
  (forall x, In x xs -> lookup s (FRes (RSchema x)) <> None) ->
  SInv s st ->
  SInv s (fold_left (visit s) xs st) /\
  (forall y, In y (built_of st) -> In y (built_of (fold_left (visit s) xs st))) /\
  (forall x y, In x xs -> In y (x :: si_deps (info_of (cy_from (build_config s (Some x))))) ->
               In y (built_of (fold_left (visit s) xs st))).
Proof.
  induction xs as [|x r IH]; intros st Hs Hsrc Hno Hl H; cbn [fold_left].
  - split; auto. split; auto. intros x y [].
  - destruct (visit_sinv s st x Hs Hsrc Hno (Hl x (or_introl eq_refl)) H) as [H1 [Hm Ha]].
    destruct (IH (visit s st x) Hs Hsrc Hno (fun z Hz => Hl z (or_intror Hz)) H1) as [H2 [Hm2 Ha2]].
    split; auto. split; [intros y Hy; apply Hm2; apply Hm; exact Hy|].
    intros z y [<-|Hz] Hy; [apply Hm2; apply Ha; exact Hy | eapply Ha2; eauto].
Qed.

Theorem deploy_settles s a :
  In s Hist -> wf_srcs s -> no_shared_outputs s -> Inv a ->
  settled s (fst (fst (deploy s a))).
Proof.
  intros Hs [Hdef [Hlist Hsrc]] Hno Ha. unfold Stale.deploy.
  destruct (lookup s (FRes RDefault)) as [v|] eqn:El; [|congruence].
  pose proof (config_update_post s None a v Hs Ha El) as Pa.
  pose proof (config_update_rel s None a a Hs (conj Ha (sub_refl a))) as [Ha1 _].
  destruct (config_update s None a) as [a1 la]. cbn [fst] in *. rewrite Pa.
  assert (SInv s (a1, la, [], true)) as H0.
  { cbn. split; auto. split; [apply get_cy_aget; exact Pa | intros y []]. }
  destruct (fold_visit_sinv s (list_of (cy_from (build_config s None))) _ Hs Hsrc Hno Hlist H0) as [H1 [_ Hall]].
  destruct (fold_left (visit s) _ (a1, la, [], true)) as [[[a2 l2] b2] ok2]. cbn [fst built_of] in *.
  destruct H1 as [_ [Hd Hb]]. split; auto.
  intros x Hx. apply Hb. unfold targets in Hx. apply in_flat_map in Hx. destruct Hx as [z [Hz Hy]]. eapply Hall; eauto.
Qed.

(** the workspace-level statement: the second of two deployments of unchanged
    sources returns the very same store and logs no rebuild *)
Theorem noop_second_deploy s a :
  In s Hist -> wf_srcs s -> no_shared_outputs s -> Inv a ->
  let a1 := fst (fst (deploy s a)) in
  exists l ok, deploy s a1 = (a1, l, ok) /\ norebuild l.
Proof.
  intros Hs Hwf Hno Ha a1. apply noop_deploy_rewrites_nothing; auto. apply deploy_settles; auto.
Qed.

End Proofs.

(** ** named hypotheses and full statements *)

Definition crc_inj (crc : N -> list N -> N) : Prop :=
  forall i l i' l', l <> [] -> l' <> [] -> crc i l = crc i' l' -> i = i' /\ l = l'.
Definition cyid_inj (cyid : cyaml -> N) : Prop := forall c c', cyid c = cyid c' -> c = c'.

(** unconditional no-op statement: a second deployment of unchanged sources logs
    no rebuild.  False of the model (and of librime) when two schema updates
    write different artefacts under one name - [noop_shared_prism_witness];
    proved under that hypothesis as [noop_second_deploy] ([no_shared_outputs]). *)
Definition noop_deploy_rewrites_nothing_full : Prop :=
  forall crc cyid list_of info_of dinfo_of deps_fn, crc_inj crc -> cyid_inj cyid ->
  forall Hist, coherent Hist -> nonzero Hist -> deps_closed deps_fn Hist ->
  forall s a, In s Hist -> wf_srcs list_of info_of deps_fn s -> Inv crc cyid deps_fn Hist a ->
  let a1 := fst (fst (deploy crc cyid list_of info_of dinfo_of deps_fn s a)) in
  forallb (fun e => negb (rebuilt_entry e)) (snd (fst (deploy crc cyid list_of info_of dinfo_of deps_fn s a1))) = true.

(** ** concrete runs of the model: non-vacuity and the two observations *)

Definition demo_crc (i : N) (l : list N) : N := fold_left (fun a x => a * 31 + x + 1) l (i + 7).
Definition demo_cyid (c : cyaml) : N :=
  fold_left (fun a e => a * 17 + snd e + 3) (cy_ts c) 5.
Definition demo_list_of (_ : cyfrom) : list N := [1; 2].
Definition demo_info_of (_ : cyfrom) : schema_info :=
  {| si_dict := Some 10; si_prism := None; si_packs := []; si_deps := [] |}.
Definition demo_dinfo_of (_ : N) : dict_info := {| di_imports := []; di_vocab := None |}.

Definition demo_srcs : srcs :=
  [(FRes RDefault, mkver 1 100); (FRes (RSchema 1), mkver 2 101); (FRes (RSchema 2), mkver 3 102);
   (FDict 10, mkver 4 103)].

Definition demo_deps (_ : srcs) (t : option N) : list rname := deps_of t.
Definition demo_deploy := deploy demo_crc demo_cyid demo_list_of demo_info_of demo_dinfo_of demo_deps.

(** the hypotheses of the theorems are satisfiable: these sources are well formed,
    the empty store is invariant, the deployment succeeds and builds six artefacts *)
Example wf_demo : wf_srcs demo_list_of demo_info_of demo_deps demo_srcs.
Proof.
  split; [discriminate|]. split.
  - intros x [<-|[<-|[]]]; discriminate.
  - intros x _. reflexivity.
Qed.

Example deploy_demo_runs :
  snd (demo_deploy demo_srcs []) = true /\
  map fst (fst (fst (demo_deploy demo_srcs []))) =
  [KPrism 10; KCy (Some 2); KPrism 10; KRev 10; KTab 10; KCy (Some 1); KCy None].
Proof. vm_compute. split; reflexivity. Qed.

(** observation 1 (hypothesis, not a finding): two schemas with different compiled
    configs sharing one prism name make every deployment rebuild that prism *)
Example noop_shared_prism_witness :
  let a1 := fst (fst (demo_deploy demo_srcs [])) in
  existsb rebuilt_entry (snd (fst (demo_deploy demo_srcs a1))) = true.
Proof. vm_compute. reflexivity. Qed.

(** observation 2 (outside the edit alphabet): deleting a .dict.yaml keeps the
    old table in use ("no source, reuse the binary") *)
Example delete_dict_keeps_table_witness :
  let a1 := fst (fst (demo_deploy demo_srcs [])) in
  let s2 := firstn 3 demo_srcs in
  get_tab (fst (fst (demo_deploy s2 a1))) (KTab 10) = get_tab a1 (KTab 10) /\
  get_tab a1 (KTab 10) <> None /\
  get_tab (fst (fst (demo_deploy s2 []))) (KTab 10) = None.
Proof. vm_compute. repeat split; discriminate. Qed.

(** [deps_closed] is satisfiable, also by a dependency relation that follows an
    __include: here a root file with an odd content id includes resource [ROther 1] *)
Example deps_closed_demo Hist : deps_closed demo_deps Hist.
Proof. intros s s0 t _ _ _. reflexivity. Qed.

Definition include_deps (s : srcs) (t : option N) : list rname :=
  deps_of t ++ match lookup s (FRes (res_of t)) with
               | Some v => if N.odd (fv_cid v) then [ROther 1] else []
               | None => []
               end.

Example deps_closed_include_demo Hist : deps_closed include_deps Hist.
Proof.
  intros s s0 t _ _ H. unfold include_deps.
  assert (In (res_of t) (include_deps s0 t)) as Hin.
  { unfold include_deps. apply in_or_app. left. destruct t; cbn; auto. }
  rewrite (H _ Hin). reflexivity.
Qed.

(** the shared-prism workspace of [noop_shared_prism_witness] is exactly what
    [no_shared_outputs] excludes: schemas 1 and 2 both write prism 10, differently *)
Example shared_prism_violates_hypothesis :
  ~ no_shared_outputs demo_crc demo_cyid demo_info_of demo_dinfo_of demo_deps demo_srcs.
Proof.
  intro H.
  destruct (aget (schema_writes demo_crc demo_cyid demo_info_of demo_dinfo_of demo_deps demo_srcs 1) (KPrism 10))
    as [v|] eqn:E1; [|vm_compute in E1; discriminate].
  destruct (aget (schema_writes demo_crc demo_cyid demo_info_of demo_dinfo_of demo_deps demo_srcs 2) (KPrism 10))
    as [v'|] eqn:E2; [|vm_compute in E2; discriminate].
  pose proof (H 1 2 (KPrism 10) v v' (aget_In _ _ _ E1) (aget_In _ _ _ E2)) as Eq. subst v'.
  rewrite <- E2 in E1. vm_compute in E1. discriminate.
Qed.
