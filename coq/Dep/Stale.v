(** Dep/Stale.v - the staleness-decision model of a deployment (C12, C13).

    A faithful functional port of
      lever/deployment_tasks.cc  WorkspaceUpdate::Run, SchemaUpdate::Run,
                                 ConfigFileUpdate::Run, ConfigNeedsUpdate
      config/build_info_plugin.cc (timestamps written into __build_info)
      dict/dict_compiler.cc      DictCompiler::Compile (rebuild_table,
                                 rebuild_prism, reverse db test, packs, the
                                 "no source, reuse binary" branch),
                                 compute_dict_file_checksum (imports, preset
                                 vocabulary)
    Models what the code does.  No proofs here.

    Sources are files with a content id and a modification time.  Artefacts
    carry exactly what the code stores (checksums, timestamps) plus ghost
    fields recording what they were built from ([cy_from], [t_files],
    [p_tab], [p_cy]); no decision reads a ghost field. *)
From Coq Require Import List NArith Bool.
Import ListNotations.
Local Open Scope N_scope.

(** ** names, files, sources *)

(** config resources (the keys of __build_info/timestamps) *)
Inductive rname := RDefault | RDefaultCustom | RSchema (x : N) | RCustom (x : N) | ROther (n : N).
(** [ROther]: any further resource the config compiler loads (__include / __patch of another file) *)
Inductive fname := FRes (r : rname) | FDict (d : N) | FVocab (v : N).

Record fver := mkver { fv_cid : N; fv_mtime : N }.

(** the resolved source files that exist (user dir first, then shared dir) *)
Definition srcs := list (fname * fver).

Definition rname_eqb (a b : rname) : bool :=
  match a, b with
  | RDefault, RDefault => true
  | RDefaultCustom, RDefaultCustom => true
  | RSchema x, RSchema y => x =? y
  | RCustom x, RCustom y => x =? y
  | ROther x, ROther y => x =? y
  | _, _ => false
  end.

Definition fname_eqb (a b : fname) : bool :=
  match a, b with
  | FRes r, FRes q => rname_eqb r q
  | FDict x, FDict y => x =? y
  | FVocab x, FVocab y => x =? y
  | _, _ => false
  end.

Fixpoint lookup (s : srcs) (f : fname) : option fver :=
  match s with
  | [] => None
  | (g, v) :: r => if fname_eqb g f then Some v else lookup r f
  end.

(** what the YAML of a schema / the header of a dictionary says (the parsers
    are external: these are functions of the contents) *)
Record schema_info := { si_dict : option N; si_prism : option N; si_packs : list N; si_deps : list N }.
Record dict_info := { di_imports : list N; di_vocab : option N }.

(** ** artefacts *)

Definition cyfrom := list (rname * option fver).

(** a compiled config: __build_info/timestamps as stored + what it was compiled from *)
Record cyaml := { cy_ts : list (rname * N); cy_from : cyfrom }.

(** a table or reverse db: metadata->dict_file_checksum; ghost: the contents
    (ids) of the dictionary files it was built from (a pack also depends on the
    primary table's syllabary: that dependence is carried by the initial
    remainder of its checksum, the primary's dict_file_checksum) *)
Record tab := { t_ck : N; t_files : list N }.

(** a prism: both stored checksums; ghost: the table whose syllabary it was
    built from and the compiled schema whose algebra it applied *)
Record prism := { p_dck : N; p_sck : N; p_tab : tab; p_cy : cyaml }.

Inductive art := ACy (c : cyaml) | ATab (t : tab) | APrism (p : prism).

(** build-directory entries: compiled config of default ([None]) or of a
    schema, <d>.table.bin, <d>.reverse.bin, <p>.prism.bin.  An entry that is
    absent or that Load()/the YAML parser rejects is simply not in the store. *)
Inductive akey := KCy (t : option N) | KTab (d : N) | KRev (d : N) | KPrism (p : N).

Definition akey_eqb (a b : akey) : bool :=
  match a, b with
  | KCy None, KCy None => true
  | KCy (Some x), KCy (Some y) => x =? y
  | KTab x, KTab y => x =? y
  | KRev x, KRev y => x =? y
  | KPrism x, KPrism y => x =? y
  | _, _ => false
  end.

Definition arts := list (akey * art).

Fixpoint aget (a : arts) (k : akey) : option art :=
  match a with
  | [] => None
  | (j, v) :: r => if akey_eqb j k then Some v else aget r k
  end.

Definition aset (k : akey) (v : art) (a : arts) : arts := (k, v) :: a.

Definition get_cy (a : arts) (k : akey) : option cyaml :=
  match aget a k with Some (ACy c) => Some c | _ => None end.
Definition get_tab (a : arts) (k : akey) : option tab :=
  match aget a k with Some (ATab t) => Some t | _ => None end.
Definition get_prism (a : arts) (k : akey) : option prism :=
  match aget a k with Some (APrism p) => Some p | _ => None end.

(** ** the decision log (what the guarded RIME_VERIF_DEPLOG hook prints) *)
Inductive logent :=
| LCfg (t : option N) (rebuilt : bool)        (* config-check / config-rebuild *)
| LSchemaMissing (x : N) (as_dep : bool)
| LDict (d : N) (from_source rebuild_table rebuild_prism : bool)
| LDictFail (d : N)                            (* Compile returned false before deciding *)
| LNoSourceNoTable (d : N)
| LPrismFail (d : N)                           (* BuildPrism returned false: empty syllabary *)
| LPack (q : N) (st : N).                      (* 0 no source, 1 rebuilt, 2 reused, 3 skipped *)

Section Model.

(** CRC32 with an initial remainder over the concatenated contents (ids) *)
Variable crc : N -> list N -> N.
(** Checksum() of a compiled schema file (its bytes include the timestamps) *)
Variable cyid : cyaml -> N.
(** external parsers *)
Variable list_of : cyfrom -> list N.          (* schema_list of a compiled default *)
Variable info_of : cyfrom -> schema_info.     (* what a compiled schema says *)
Variable dinfo_of : N -> dict_info.           (* header of a dictionary file *)
(** the resources the config compiler loads when it compiles target [t] from the
    sources [s] (the root file, its auto-patch, and whatever they __include /
    __patch, transitively): BuildInfoPlugin records exactly these *)
Variable deps_fn : srcs -> option N -> list rname.

(** *** compiled configs: build_info_plugin.cc, ConfigNeedsUpdate *)

Definition res_of (t : option N) : rname :=
  match t with None => RDefault | Some x => RSchema x end.

(** the dependency set of a workspace without further includes (used by the
    concrete examples) *)
Definition deps_of (t : option N) : list rname :=
  match t with
  | None => [RDefault; RDefaultCustom]
  | Some x => [RDefault; RDefaultCustom; RCustom x; RSchema x]
  end.

Definition ts_of (v : option fver) : N :=
  match v with Some f => fv_mtime f | None => 0 end.

Definition build_config (s : srcs) (t : option N) : cyaml :=
  {| cy_ts := map (fun r => (r, ts_of (lookup s (FRes r)))) (deps_fn s t);
     cy_from := map (fun r => (r, lookup s (FRes r))) (deps_fn s t) |}.

(** ConfigNeedsUpdate: any recorded entry whose source vanished (recorded
    time non-zero), appeared or changed *)
Definition entry_stale (s : srcs) (e : rname * N) : bool :=
  match lookup s (FRes (fst e)) with
  | None => negb (snd e =? 0)
  | Some v => negb (snd e =? fv_mtime v)
  end.

Definition needs_update (s : srcs) (c : option cyaml) : bool :=
  match c with
  | None => true                     (* no file / unparsable / no __build_info *)
  | Some c => existsb (entry_stale s) (cy_ts c)
  end.

(** ConfigFileUpdate::Run *)
Definition config_update (s : srcs) (t : option N) (a : arts) : arts * list logent :=
  if needs_update s (get_cy a (KCy t)) then
    match lookup s (FRes (res_of t)) with
    | Some _ => (aset (KCy t) (ACy (build_config s t)) a, [LCfg t true])
    | None => (a, [LCfg t true])     (* resource not loaded: nothing is saved *)
    end
  else (a, [LCfg t false]).

(** *** dictionaries: dict_compiler.cc *)

Definition tables_of (d : N) (di : dict_info) : list N :=
  d :: filter (fun i => negb (i =? d)) (di_imports di).

(** get_dict_files_from_settings: every listed table must exist *)
Fixpoint cids_of (s : srcs) (ds : list N) : option (list N) :=
  match ds with
  | [] => Some []
  | d :: r =>
    match lookup s (FDict d), cids_of s r with
    | Some v, Some l => Some (fv_cid v :: l)
    | _, _ => None
    end
  end.

(** ProcessFile of the preset vocabulary: an absent file contributes nothing *)
Definition vocab_cids (s : srcs) (di : dict_info) : list N :=
  match di_vocab di with
  | None => []
  | Some v => match lookup s (FVocab v) with Some f => [fv_cid f] | None => [] end
  end.

(** compute_dict_file_checksum *)
Definition crc_files (init : N) (l : list N) : N :=
  match l with [] => init | _ => crc init l end.

Definition stale_ck (t : option tab) (ck : N) : bool :=
  match t with Some t => negb (t_ck t =? ck) | None => true end.

(** the pack loop of Compile *)
Fixpoint compile_packs (s : srcs) (dck : N) (packs : list N) (a : arts)
  : arts * list logent :=
  match packs with
  | [] => (a, [])
  | q :: r =>
    match lookup s (FDict q) with
    | None => let '(a', l) := compile_packs s dck r a in (a', LPack q 0 :: l)
    | Some v =>
      let di := dinfo_of (fv_cid v) in
      match cids_of s (tables_of q di) with
      | None => let '(a', l) := compile_packs s dck r a in (a', LPack q 3 :: l)
      | Some fl =>
        let files := fl ++ vocab_cids s di in
        let pck := crc_files dck files in
        let rb := stale_ck (get_tab a (KTab q)) pck in
        let a1 := if rb then aset (KTab q) (ATab {| t_ck := pck; t_files := files |}) a else a in
        let '(a', l) := compile_packs s dck r a1 in
        (a', LPack q (if rb then 1 else 2) :: l)
      end
    end
  end.

(** decisions and effects shared by both branches once [dck], [files] are known *)
Definition compile_core (s : srcs) (d p : N) (packs : list N) (cy : cyaml) (from_source : bool)
           (dck : N) (files : list N) (rb_t0 : bool) (a : arts) : arts * list logent * bool :=
  let sck := cyid cy in
  let rb_p := match get_prism a (KPrism p) with
              | Some q => negb (p_dck q =? dck) || negb (p_sck q =? sck)
              | None => true
              end in
  let rb_t := rb_t0 || stale_ck (get_tab a (KRev d)) dck in
  let newt := {| t_ck := dck; t_files := files |} in
  let a1 := if rb_t then aset (KRev d) (ATab newt) (aset (KTab d) (ATab newt) a) else a in
  let hd := LDict d from_source rb_t rb_p in
  if rb_p then
    match get_tab a1 (KTab d) with
    | Some t =>
      match t_files t with
      | [] => (a1, [hd; LPrismFail d], false)          (* syllabary.empty() *)
      | _ =>
        let a2 := aset (KPrism p) (APrism {| p_dck := dck; p_sck := sck; p_tab := t; p_cy := cy |}) a1 in
        let '(a3, l) := compile_packs s dck packs a2 in
        (a3, hd :: l, true)
      end
    | None => (a1, [hd; LPrismFail d], false)
    end
  else
    let '(a3, l) := compile_packs s dck packs a1 in
    (a3, hd :: l, true).

(** DictCompiler::Compile for dictionary [d], prism [p], compiled schema [cy] *)
Definition compile (s : srcs) (d p : N) (packs : list N) (cy : cyaml) (a : arts)
  : arts * list logent * bool :=
  match lookup s (FDict d) with
  | Some v =>
    let di := dinfo_of (fv_cid v) in
    match cids_of s (tables_of d di) with
    | None => (a, [LDictFail d], false)
    | Some fl =>
      let files := fl ++ vocab_cids s di in
      let dck := crc_files 0 files in
      compile_core s d p packs cy true dck files (stale_ck (get_tab a (KTab d)) dck) a
    end
  | None =>
    (* no source: reuse the binary table and take its checksum *)
    match get_tab a (KTab d) with
    | Some t => compile_core s d p packs cy false (t_ck t) [] false a
    | None => (a, [LNoSourceNoTable d], false)
    end
  end.

(** SchemaUpdate::Run *)
Definition schema_update (s : srcs) (x : N) (as_dep : bool) (a : arts) : arts * list logent * bool :=
  match lookup s (FRes (RSchema x)) with
  | None => (a, [LSchemaMissing x as_dep], as_dep)
  | Some _ =>
    let '(a1, l1) := config_update s (Some x) a in
    match get_cy a1 (KCy (Some x)) with
    | None => (a1, l1, true)
    | Some cy =>
      let info := info_of (cy_from cy) in
      match si_dict info with
      | None => (a1, l1, true)
      | Some d =>
        let p := match si_prism info with Some p => p | None => d end in
        let '(a2, l2, ok) := compile s d p (si_packs info) cy a1 in
        (a2, l1 ++ l2, ok)
      end
    end
  end.

(** WorkspaceUpdate::Run: state = (artefacts, log, schemas already built, all ok) *)
Definition wstate := (arts * list logent * list N * bool)%type.

Definition build_schema (s : srcs) (as_dep : bool) (st : wstate) (x : N) : wstate :=
  let '(a, l, built, ok) := st in
  if existsb (N.eqb x) built then st
  else let '(a', l', ok') := schema_update s x as_dep a in
       (a', l ++ l', x :: built, ok && ok').

Definition visit (s : srcs) (st : wstate) (x : N) : wstate :=
  let st1 := build_schema s false st x in
  let '(a, _, _, _) := st1 in
  let deps := match get_cy a (KCy (Some x)) with
              | Some cy => si_deps (info_of (cy_from cy))
              | None => []
              end in
  fold_left (build_schema s true) deps st1.

Definition deploy (s : srcs) (a : arts) : arts * list logent * bool :=
  let '(a1, l1) := config_update s None a in
  match get_cy a1 (KCy None) with
  | None => (a1, l1, false)
  | Some cd =>
    let '(a2, l2, _, ok) := fold_left (visit s) (list_of (cy_from cd)) (a1, l1, [], true) in
    (a2, l2, ok)
  end.

End Model.

(** the keys a log entry says were (re)written *)
Definition rebuilt_entry (e : logent) : bool :=
  match e with
  | LCfg _ b => b
  | LDict _ _ bt bp => bt || bp
  | LPack _ st => st =? 1
  | _ => false
  end.
