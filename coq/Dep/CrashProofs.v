(** Dep/CrashProofs.v - theorems about killed builders and killed YAML saves (C13). *)
From Coq Require Import List NArith Bool String Lia Arith.
From RimeV Require Import Dep.Crash Dep.Stale.
Import ListNotations.
Local Open Scope N_scope.

(** ** memory-mapped builders *)

Definition untagged (f : option mfile) : Prop :=
  match f with None => True | Some m => m_tag m = false end.

Definition not_tag (e : eff) : Prop := e <> ETag.

Lemma apply_eff_untagged e f : not_tag e -> untagged f -> untagged (apply_eff e f).
Proof.
  intros He Hf. destruct e; destruct f as [m|]; cbn in *; auto. exfalso. apply He. reflexivity.
Qed.

Lemma run_untagged es : forall f, Forall not_tag es -> untagged f -> untagged (run_effs es f).
Proof.
  induction es as [|e r IH]; intros f Hall Hf; cbn; auto.
  inversion Hall as [|? ? He Hr]; subst. apply IH; auto. apply apply_eff_untagged; auto.
Qed.

Lemma firstn_tag_free es : forall n, (n <= tag_index es)%nat -> Forall not_tag (firstn n es).
Proof.
  induction es as [|e r IH]; intros n Hn.
  - rewrite firstn_nil. constructor.
  - destruct n as [|n]; [constructor|]. cbn [firstn].
    destruct e; cbn [tag_index] in Hn; try (constructor; [discriminate | apply IH; lia]); lia.
Qed.

Lemma load_untagged bf k f : bf_open_guarded bf = true -> untagged f -> load bf k f = LReject.
Proof.
  intros Hg Hf. destruct f as [m|]; cbn; auto. cbn in Hf. rewrite Hg, Hf. cbn.
  destruct (m_size m =? 0); reflexivity.
Qed.

Lemma builder_ok_parts bf k :
  builder_ok bf k = true ->
  prog_ok (bf_prog bf k) = true /\ bf_remove_before bf k = true /\ bf_open_guarded bf = true /\
  bf_alloc_zeroes bf = true /\
  forallb (fun g => existsb (String.eqb g) (prog_fields (bf_prog bf k))) (checked_ptrs k) = true.
Proof.
  unfold builder_ok. intro H. repeat (apply andb_true_iff in H; destruct H as [H ?]). auto.
Qed.

(** every kill point before the format-tag write leaves a file Load rejects *)
Theorem mmap_prefix_rejected bf k old est fin ext n :
  builder_ok bf k = true ->
  (n <= tag_index (kill_effs bf k old est fin ext))%nat ->
  load bf k (run_effs (firstn n (kill_effs bf k old est fin ext)) (start_file bf k old)) = LReject.
Proof.
  intros Hok Hn. destruct (builder_ok_parts _ _ Hok) as [_ [Hrm [Hg _]]].
  apply load_untagged; auto. apply run_untagged.
  - apply firstn_tag_free. exact Hn.
  - unfold start_file. rewrite Hrm. exact I.
Qed.

(** shape forced by [prog_ok] *)
Lemma fields_then_tag_shape p : fields_then_tag p = true -> exists fs, p = map SField fs ++ [STag; SRetTrue].
Proof.
  induction p as [|s r IH]; cbn; [discriminate|].
  destruct s; try discriminate.
  - intro H. destruct (IH H) as [fs ->]. exists (f :: fs). reflexivity.
  - destruct r as [|s2 r2]; [discriminate|]. destruct s2; try discriminate.
    destruct r2; [|discriminate]. intros _. exists []. reflexivity.
Qed.

Lemma prog_ok_shape p : prog_ok p = true -> exists fs, p = SCreate :: SAllocMeta :: map SField fs ++ [STag; SRetTrue].
Proof.
  destruct p as [|s1 [|s2 r]]; cbn; try discriminate; destruct s1; try discriminate.
  destruct s2; try discriminate. intro H. destruct (fields_then_tag_shape _ H) as [fs ->]. exists fs. reflexivity.
Qed.

Lemma prog_fields_shape fs : prog_fields (SCreate :: SAllocMeta :: map SField fs ++ [STag; SRetTrue]) = fs.
Proof.
  unfold prog_fields. cbn. induction fs as [|g r IH]; cbn; auto. f_equal. exact IH.
Qed.

Definition stores (ext : string -> N) (fs : list string) : list eff := map (fun g => EStore g (ext g)) fs.

Lemma kill_effs_shape bf k old est fin ext fs :
  bf_prog bf k = SCreate :: SAllocMeta :: map SField fs ++ [STag; SRetTrue] ->
  bf_remove_before bf k = true -> bf_alloc_zeroes bf = true ->
  kill_effs bf k old est fin ext = [ETrunc; ESize est; EZeroMeta] ++ stores ext fs ++ [ETag; EShrink fin].
Proof.
  intros Hp Hrm Hz. unfold kill_effs, builder_effs, start_file. rewrite Hp, Hrm. cbn [is_some flat_map stmt_effs andb].
  rewrite Hz. cbn [app]. f_equal. f_equal. f_equal.
  rewrite flat_map_app. cbn. rewrite <- app_assoc. f_equal.
  unfold stores. clear Hp. induction fs as [|g r IH]; cbn; auto. f_equal. exact IH.
Qed.

Lemma tag_index_stores ext fs tl : tag_index (stores ext fs ++ ETag :: tl) = List.length fs.
Proof. induction fs as [|g r IH]; cbn; auto. Qed.

Lemma run_stores ext fs : forall m,
  exists m', run_effs (stores ext fs) (Some m) = Some m' /\ m_size m' = m_size m /\ m_tag m' = m_tag m /\
             (forall g, In g fs \/ In g (m_fields m) -> In g (m_fields m')) /\
             (forall b, m_extent m <= b -> (forall g, In g fs -> ext g <= b) -> m_extent m' <= b).
Proof.
  induction fs as [|g r IH]; intro m; cbn.
  - exists m. repeat split; auto. intros g [[]|H]; auto.
  - match goal with |- context [Some ?X] => destruct (IH X) as [m' [E [Hs [Ht [Hf Hx]]]]] end.
    cbn in *. exists m'. repeat split; auto.
    + intros g0 [[<-|H]|H]; apply Hf; auto.
    + intros b Hb Hall. apply Hx.
      * apply N.max_lub; auto.
      * intros g0 H0. apply Hall. auto.
Qed.

(** every kill point after the format-tag write leaves the complete file: all
    metadata fields stored, tag present, Load accepts it (sizes permitting) *)
Theorem mmap_tagged_complete bf k old est fin ext n :
  builder_ok bf k = true ->
  (tag_index (kill_effs bf k old est fin ext) < n)%nat ->
  (forall g, ext g <= fin) -> fin <= est -> 0 < fin ->
  exists m, run_effs (firstn n (kill_effs bf k old est fin ext)) (start_file bf k old) = Some m /\
            m_tag m = true /\
            (forall g, In g (prog_fields (bf_prog bf k)) -> In g (m_fields m)) /\
            load bf k (Some m) = LAccept.
Proof.
  intros Hok Hn Hext Hfe Hpos.
  destruct (builder_ok_parts _ _ Hok) as [Hp [Hrm [Hg [Hz Hck]]]].
  destruct (prog_ok_shape _ Hp) as [fs Hfs].
  rewrite (kill_effs_shape bf k old est fin ext fs Hfs Hrm Hz) in *.
  rewrite Hfs, prog_fields_shape in *.
  unfold start_file. rewrite Hrm.
  cbn [app tag_index] in Hn. rewrite tag_index_stores in Hn.
  (* the prefix contains everything up to and including the tag *)
  assert (exists tl, (tl = [] \/ tl = [EShrink fin]) /\
            firstn n ([ETrunc; ESize est; EZeroMeta] ++ stores ext fs ++ [ETag; EShrink fin])
            = [ETrunc; ESize est; EZeroMeta] ++ stores ext fs ++ ETag :: tl) as [tl [Htl Ef]].
  { destruct n as [|[|[|n]]]; try lia. cbn [app firstn].
    assert (List.length (stores ext fs) = List.length fs) as Hl by (unfold stores; apply map_length).
    rewrite firstn_app. rewrite firstn_all2 by lia.
    rewrite Hl. destruct (n - List.length fs)%nat as [|j] eqn:Ej; [lia|].
    cbn [firstn]. destruct j as [|j].
    - exists []. split; auto.
    - exists [EShrink fin]. split; auto. cbn. destruct j; reflexivity. }
  rewrite Ef. unfold run_effs. rewrite fold_left_app. cbn [fold_left apply_eff app].
  rewrite fold_left_app.
  destruct (run_stores ext fs {| m_size := est; m_tag := false; m_fields := []; m_extent := 0 |})
    as [m' [E [Hs [Ht [Hf Hx]]]]].
  unfold run_effs in E. cbn [blank m_size] in *. rewrite E. cbn [fold_left apply_eff].
  assert (m_extent m' <= fin) as Hxf by (apply Hx; [cbn; lia | intros; apply Hext]).
  assert (forall sz, 0 < sz -> m_extent m' <= sz ->
          load bf k (Some {| m_size := sz; m_tag := true; m_fields := m_fields m'; m_extent := m_extent m' |}) = LAccept) as Hload.
  { intros sz Hsz Hle. cbn. destruct (sz =? 0) eqn:Ez; [apply N.eqb_eq in Ez; lia|]. cbn.
    assert (forallb (fun g => has g {| m_size := sz; m_tag := true; m_fields := m_fields m'; m_extent := m_extent m' |})
                    (checked_ptrs k) = true) as Hc.
    { apply forallb_forall. intros g Hgin. rewrite forallb_forall in Hck. specialize (Hck g Hgin).
      apply existsb_exists in Hck. destruct Hck as [g' [Hin Heq]]. apply String.eqb_eq in Heq. subst g'.
      unfold has. cbn. apply existsb_exists. exists g. split; [apply Hf; auto | apply String.eqb_refl]. }
    unfold has in Hc. cbn [m_fields] in Hc. rewrite Hc. cbn. destruct (m_extent m' <=? sz) eqn:El; auto. apply N.leb_gt in El. lia. }
  destruct Htl as [-> | ->]; cbn [fold_left apply_eff].
  - eexists. split; [reflexivity|]. cbn [m_tag m_fields]. split; [reflexivity|]. split.
    + intros g Hgi. apply Hf. auto.
    + rewrite Hs. apply Hload; lia.
  - eexists. split; [reflexivity|]. cbn [m_tag m_fields]. split; [reflexivity|]. split.
    + intros g Hgi. apply Hf. auto.
    + apply Hload; lia.
Qed.

(** *** the three shapes the translator refuses, each refuted by a witness *)

Definition demo_prog : list bstmt :=
  [SCreate; SAllocMeta; SField "dict_file_checksum"; SField "key_trie"; SField "value_trie"; STag; SRetTrue]%string.

Definition demo_facts (remove guarded : bool) : build_facts :=
  {| bf_prog := fun _ => demo_prog; bf_remove_before := fun _ => remove;
     bf_create_resizes_existing := true; bf_alloc_zeroes := true; bf_open_guarded := guarded;
     bf_save_mode := InPlace; bf_stamp_last := true |}.

Definition demo_ext (g : string) : N := if String.eqb g "value_trie" then 5000 else 100.

(** OpenReadOnly not guarded: the kill right after the file was created empty
    leaves a file on which Load crashes *)
Theorem unguarded_open_refuted :
  exists n, (n <= tag_index (kill_effs (demo_facts true false) KReverse None 6000 5000 demo_ext))%nat /\
    load (demo_facts true false) KReverse
         (run_effs (firstn n (kill_effs (demo_facts true false) KReverse None 6000 5000 demo_ext))
                   (start_file (demo_facts true false) KReverse None)) = LCrash.
Proof. exists 1%nat. vm_compute. split; [lia | reflexivity]. Qed.

Definition demo_old : mfile :=
  {| m_size := 5000; m_tag := true; m_fields := ["value_trie"; "key_trie"; "dict_file_checksum"]%string; m_extent := 5000 |}.

(** Build not preceded by Remove(): Create only resizes the previous file, which
    keeps its tag - a smaller estimate makes Load read beyond the mapping, a
    larger one leaves the previous contents accepted *)
Theorem reverse_without_remove_refuted :
  (exists n, (n <= tag_index (kill_effs (demo_facts false true) KReverse (Some demo_old) 1100 300 demo_ext))%nat /\
     load (demo_facts false true) KReverse
          (run_effs (firstn n (kill_effs (demo_facts false true) KReverse (Some demo_old) 1100 300 demo_ext))
                    (start_file (demo_facts false true) KReverse (Some demo_old))) = LCrash) /\
  (exists n, (n <= tag_index (kill_effs (demo_facts false true) KReverse (Some demo_old) 6000 5500 demo_ext))%nat /\
     load (demo_facts false true) KReverse
          (run_effs (firstn n (kill_effs (demo_facts false true) KReverse (Some demo_old) 6000 5500 demo_ext))
                    (start_file (demo_facts false true) KReverse (Some demo_old))) = LAccept).
Proof. split; exists 1%nat; vm_compute; (split; [lia | reflexivity]). Qed.

(** the positive theorem is not vacuous: the demo program with Remove() and a
    guarded open satisfies [builder_ok] *)
Example builder_ok_demo : builder_ok (demo_facts true true) KReverse = true.
Proof. reflexivity. Qed.

(** ** the stamp of WorkspaceUpdate *)

Lemma stamp_after_updates xs : forall old, stamp_after (map WUpdate xs) old = old.
Proof. induction xs as [|x r IH]; intro old; cbn; auto. Qed.

Lemma firstn_map_updates n xs : firstn n (map WUpdate xs) = map WUpdate (firstn n xs).
Proof. apply firstn_map. Qed.

(** the stamp is written after every schema update: a killed deployment leaves
    var/last_build_time as it was, so whatever made this deployment start
    (DetectModifications or a forced run) makes the next start-up deploy again *)
Theorem killed_deploy_is_redetected now xs old n latest :
  (n < List.length (ws_effs true now xs))%nat ->
  stamp_after (firstn n (ws_effs true now xs)) old = old /\
  detect_modifications latest (stamp_after (firstn n (ws_effs true now xs)) old) = detect_modifications latest old.
Proof.
  intro Hn. unfold ws_effs in *. rewrite app_length, map_length in Hn. cbn in Hn.
  assert (stamp_after (firstn n (map WUpdate xs ++ [WStamp now])) old = old) as E.
  { rewrite firstn_app, map_length. replace (n - List.length xs)%nat with 0%nat by lia. cbn [firstn]. rewrite app_nil_r.
    rewrite firstn_map_updates. apply stamp_after_updates. }
  rewrite E. split; reflexivity.
Qed.

(** written first, the stamp survives the kill and hides the unfinished work from
    every later start-up deployment until a source changes *)
Theorem stamp_first_refuted :
  exists n, (n < List.length (ws_effs false 2000 [1%N; 2%N]))%nat /\
    stamp_after (firstn n (ws_effs false 2000 [1; 2])) 0 = 2000 /\
    detect_modifications 1500 0 = true /\
    detect_modifications 1500 (stamp_after (firstn n (ws_effs false 2000 [1; 2])) 0) = false.
Proof. exists 1%nat. vm_compute. repeat split. lia. Qed.

(** ** compiled YAML *)

Section YamlProofs.
Variable A : Type.
Notation yfs := (yfs A).

Definition tmp_only (e : yeff A) : Prop :=
  match e with YOpenTrunc true => True | YWrite true _ => True | _ => False end.

Lemma tmp_only_final es : forall st : yfs, Forall tmp_only es -> y_final (run_yeffs es st) = y_final st.
Proof.
  induction es as [|e r IH]; intros st Hall; cbn; auto.
  inversion Hall as [|? ? He Hr]; subst. unfold run_yeffs in IH. rewrite IH by exact Hr.
  destruct e as [[|]|[|] c|]; cbn in *; tauto.
Qed.

Lemma run_tmp_writes cs : forall (st : yfs) b,
  y_tmp st = Some b ->
  y_tmp (run_yeffs (map (YWrite true) cs) st) = Some (b ++ List.concat cs)
  /\ y_final (run_yeffs (map (YWrite true) cs) st) = y_final st.
Proof.
  induction cs as [|c r IH]; intros st b Hb; cbn.
  - rewrite app_nil_r. auto.
  - unfold run_yeffs in IH.
    destruct (IH {| y_final := y_final st; y_tmp := yapp A (y_tmp st) c |} (b ++ c)) as [E1 E2].
    + cbn. rewrite Hb. reflexivity.
    + rewrite E1, E2. rewrite <- app_assoc. auto.
Qed.

Lemma Forall_firstn_x {B} (P : B -> Prop) (l : list B) : forall n, Forall P l -> Forall P (firstn n l).
Proof.
  induction l as [|x r IH]; intros n H.
  - rewrite firstn_nil. constructor.
  - destruct n; cbn; [constructor|]. inversion H; subst. constructor; auto.
Qed.

Lemma Forall_tmp_writes cs : Forall tmp_only (map (@YWrite A true) cs).
Proof. induction cs; cbn; constructor; cbn; auto. Qed.

(** temp+rename: at every kill point the final name holds either what it held
    before or the complete new document - never a strict prefix *)
Theorem yaml_save_atomic chunks (st : yfs) n :
  let st' := run_yeffs (firstn n (save_effs TempRename chunks)) st in
  y_final st' = y_final st \/ y_final st' = Some (List.concat chunks).
Proof.
  cbn zeta. unfold save_effs.
  change (YOpenTrunc true :: map (YWrite true) chunks ++ [YRename])
    with ((YOpenTrunc true :: map (YWrite true) chunks) ++ [@YRename A]).
  set (pre := YOpenTrunc true :: map (YWrite true) chunks).
  assert (Forall tmp_only pre) as Hpre by (constructor; [exact I | apply Forall_tmp_writes]).
  destruct (Nat.le_gt_cases n (List.length pre)) as [Hle | Hgt].
  - left. rewrite firstn_app. replace (n - List.length pre)%nat with 0%nat by lia. cbn [firstn]. rewrite app_nil_r.
    apply tmp_only_final. apply Forall_firstn_x. exact Hpre.
  - right. rewrite firstn_all2 by (rewrite app_length; change (List.length [@YRename A]) with 1%nat; lia).
    unfold run_yeffs. rewrite fold_left_app. cbn [fold_left].
    unfold pre. cbn [fold_left apply_yeff].
    destruct (run_tmp_writes chunks {| y_final := y_final st; y_tmp := Some [] |} [] eq_refl) as [E1 E2].
    unfold run_yeffs in E1, E2. cbn [apply_yeff]. rewrite E1. cbn. reflexivity.
Qed.

(** in place: the first flush alone is on disk under the final name - a strict
    prefix of the document whenever more than one flush is needed *)
Theorem yaml_inplace_leaves_prefix c1 c2 rest (st : yfs) :
  y_final (run_yeffs (firstn 2 (save_effs InPlace (c1 :: c2 :: rest))) st) = Some c1.
Proof. cbn. reflexivity. Qed.

End YamlProofs.

(** a stump that still carries the timestamps is as "up to date" as the full
    file: ConfigNeedsUpdate reads nothing but __build_info/timestamps *)
Lemma stump_accepted s c c' :
  cy_ts c' = cy_ts c -> needs_update s (Some c') = needs_update s (Some c).
Proof. intro H. unfold needs_update. rewrite H. reflexivity. Qed.
