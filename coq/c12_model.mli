
val negb : bool -> bool

val fst : ('a1 * 'a2) -> 'a1

val snd : ('a1 * 'a2) -> 'a2

val app : 'a1 list -> 'a1 list -> 'a1 list

val map : ('a1 -> 'a2) -> 'a1 list -> 'a2 list

val fold_left : ('a1 -> 'a2 -> 'a1) -> 'a2 list -> 'a1 -> 'a1

val existsb : ('a1 -> bool) -> 'a1 list -> bool

val filter : ('a1 -> bool) -> 'a1 list -> 'a1 list

type positive =
| XI of positive
| XO of positive
| XH

type n =
| N0
| Npos of positive

module Pos :
 sig
  val eqb : positive -> positive -> bool
 end

module N :
 sig
  val eqb : n -> n -> bool
 end

type rname =
| RDefault
| RDefaultCustom
| RSchema of n
| RCustom of n
| ROther of n

type fname =
| FRes of rname
| FDict of n
| FVocab of n

type fver = { fv_cid : n; fv_mtime : n }

type srcs = (fname * fver) list

val rname_eqb : rname -> rname -> bool

val fname_eqb : fname -> fname -> bool

val lookup : srcs -> fname -> fver option

type schema_info = { si_dict : n option; si_prism : n option;
                     si_packs : n list; si_deps : n list }

type dict_info = { di_imports : n list; di_vocab : n option }

type cyfrom = (rname * fver option) list

type cyaml = { cy_ts : (rname * n) list; cy_from : cyfrom }

type tab = { t_ck : n; t_files : n list }

type prism = { p_dck : n; p_sck : n; p_tab : tab; p_cy : cyaml }

type art =
| ACy of cyaml
| ATab of tab
| APrism of prism

type akey =
| KCy of n option
| KTab of n
| KRev of n
| KPrism of n

val akey_eqb : akey -> akey -> bool

type arts = (akey * art) list

val aget : arts -> akey -> art option

val aset : akey -> art -> arts -> arts

val get_cy : arts -> akey -> cyaml option

val get_tab : arts -> akey -> tab option

val get_prism : arts -> akey -> prism option

type logent =
| LCfg of n option * bool
| LSchemaMissing of n * bool
| LDict of n * bool * bool * bool
| LDictFail of n
| LNoSourceNoTable of n
| LPrismFail of n
| LPack of n * n

val res_of : n option -> rname

val ts_of : fver option -> n

val build_config :
  (srcs -> n option -> rname list) -> srcs -> n option -> cyaml

val entry_stale : srcs -> (rname * n) -> bool

val needs_update : srcs -> cyaml option -> bool

val config_update :
  (srcs -> n option -> rname list) -> srcs -> n option -> arts ->
  arts * logent list

val tables_of : n -> dict_info -> n list

val cids_of : srcs -> n list -> n list option

val vocab_cids : srcs -> dict_info -> n list

val crc_files : (n -> n list -> n) -> n -> n list -> n

val stale_ck : tab option -> n -> bool

val compile_packs :
  (n -> n list -> n) -> (n -> dict_info) -> srcs -> n -> n list -> arts ->
  arts * logent list

val compile_core :
  (n -> n list -> n) -> (cyaml -> n) -> (n -> dict_info) -> srcs -> n -> n ->
  n list -> cyaml -> bool -> n -> n list -> bool -> arts -> (arts * logent
  list) * bool

val compile :
  (n -> n list -> n) -> (cyaml -> n) -> (n -> dict_info) -> srcs -> n -> n ->
  n list -> cyaml -> arts -> (arts * logent list) * bool

val schema_update :
  (n -> n list -> n) -> (cyaml -> n) -> (cyfrom -> schema_info) -> (n ->
  dict_info) -> (srcs -> n option -> rname list) -> srcs -> n -> bool -> arts
  -> (arts * logent list) * bool

type wstate = ((arts * logent list) * n list) * bool

val build_schema :
  (n -> n list -> n) -> (cyaml -> n) -> (cyfrom -> schema_info) -> (n ->
  dict_info) -> (srcs -> n option -> rname list) -> srcs -> bool -> wstate ->
  n -> wstate

val visit :
  (n -> n list -> n) -> (cyaml -> n) -> (cyfrom -> schema_info) -> (n ->
  dict_info) -> (srcs -> n option -> rname list) -> srcs -> wstate -> n ->
  wstate

val deploy :
  (n -> n list -> n) -> (cyaml -> n) -> (cyfrom -> n list) -> (cyfrom ->
  schema_info) -> (n -> dict_info) -> (srcs -> n option -> rname list) ->
  srcs -> arts -> (arts * logent list) * bool

val rebuilt_entry : logent -> bool
