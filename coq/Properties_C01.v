(** C01 – no API call sequence crashes, hangs or corrupts memory.
    Property theorems only.  PARTIAL by nature (see DESIGN.md §4 C01, §6): what
    is proved here is (a) the handle ledger of the API's output structs – "the
    objects it hands out can be freed exactly once" – for every get_*/free_*
    pair of the current source and every call sequence; the totality of the
    modelled session core lives in Properties_C02/C05 (coq/Eng).  Memory safety
    of all unmodelled C++ is explored by the sanitizer-backed harness. *)
From Coq Require Import List String Bool.
From RimeV Require Import Api.Ledger Api.LedgerProofs Gen.ApiHandles.
Import ListNotations.

(** every get/free pair of the current rime_api_impl.h has the safe shape
    (finite domain: the list regenerated from the clang AST on every run) *)
Theorem C01_api_pairs_shape_ok : forallb shape_ok api_pairs = true.
Proof. vm_compute. reflexivity. Qed.
Print Assumptions C01_api_pairs_shape_ok.

Theorem C01_api_pairs_present : 3 <= List.length api_pairs.
Proof. vm_compute. repeat constructor. Qed.
Print Assumptions C01_api_pairs_present.

(** for every pair and EVERY sequence of get/free calls on a client struct
    (free twice, get twice, free before any get, …): no allocation is freed
    twice and nothing that did not come from `new` is deleted *)
Theorem C01_handles_never_freed_twice :
  forall ps, In ps api_pairs -> forall ops, exists s', run ps ops init = inl s'.
Proof.
  intros ps Hin ops.
  pose proof (proj1 (forallb_forall _ _) C01_api_pairs_shape_ok ps Hin) as Hok.
  destruct (ledger_safe ps Hok ops init (inv_init ps)) as (s' & Hr & _). now exists s'.
Qed.
Print Assumptions C01_handles_never_freed_twice.

(** … and the matching free releases every allocation the get made (freed exactly once) *)
Theorem C01_free_after_get_releases_all :
  forall ps, In ps api_pairs -> forall ops w s,
  run ps ops init = inl s ->
  exists s', do_free ps (do_get ps w s) = inl s' /\
             forall t, In t (tokens_of (do_get ps w s)) -> ~ In t (live s') /\ In t (freed s').
Proof.
  intros ps Hin ops w s Hrun.
  pose proof (proj1 (forallb_forall _ _) C01_api_pairs_shape_ok ps Hin) as Hok.
  destruct (ledger_safe ps Hok ops init (inv_init ps)) as (s0 & Hr & HI).
  rewrite Hrun in Hr. inversion Hr; subst s0.
  exact (get_then_free_releases_all ps Hok w s HI).
Qed.
Print Assumptions C01_free_after_get_releases_all.

(** non-vacuity: a free that does not clear the struct is refuted by get; free; free *)
Definition bad_pair : pair_shape :=
  {| ps_get := "g"; ps_free := "f"; ps_get_fields := [("text"%string, FromNew)]; ps_free_fields := ["text"%string];
     ps_get_clears_first := true; ps_free_clears := false |}.
Theorem C01_unclearing_free_refuted :
  run bad_pair [Get ["text"%string]; Free; Free] init = inr (DoubleFree "text").
Proof. vm_compute. reflexivity. Qed.
Print Assumptions C01_unclearing_free_refuted.
