(** C01 – no API call sequence crashes, hangs or corrupts memory.
    Property theorems only.  PARTIAL by nature (see DESIGN.md §4 C01, §6): what
    is proved here is (a) the handle ledger of the API's output structs – "the
    objects it hands out can be freed exactly once" – for every get_*/free_*
    pair of the current source and every call sequence; the totality of the
    modelled session core lives in Properties_C02/C05 (coq/Eng).  Memory safety
    of all unmodelled C++ is explored by the sanitizer-backed harness. *)
From Coq Require Import List String Bool.
From RimeV Require Import Api.Ledger Api.LedgerProofs Gen.ApiHandles.
Import ListNotations.

(** every get/free pair of the current rime_api_impl.h has the safe shape
    (finite domain: the list regenerated from the clang AST on every run) *)
Theorem C01_api_pairs_shape_ok : forallb shape_ok api_pairs = true.
Proof. vm_compute. reflexivity. Qed.
Print Assumptions C01_api_pairs_shape_ok.

Theorem C01_api_pairs_present : 3 <= List.length api_pairs.
Proof. vm_compute. repeat constructor. Qed.
Print Assumptions C01_api_pairs_present.

(** for every pair and EVERY sequence of get/free calls on a client struct
    (free twice, get twice, free before any get, …): no allocation is freed
    twice and nothing that did not come from `new` is deleted *)
Theorem C01_handles_never_freed_twice :
  forall ps, In ps api_pairs -> forall ops, exists s', run ps ops init = inl s'.
Proof.
  intros ps Hin ops.
  pose proof (proj1 (forallb_forall _ _) C01_api_pairs_shape_ok ps Hin) as Hok.
  destruct (ledger_safe ps Hok ops init (inv_init ps)) as (s' & Hr & _). now exists s'.
Qed.
Print Assumptions C01_handles_never_freed_twice.

(** … and the matching free releases every allocation the get made (freed exactly once) *)
Theorem C01_free_after_get_releases_all :
  forall ps, In ps api_pairs -> forall ops w s,
  run ps ops init = inl s ->
  exists s', do_free ps (do_get ps w s) = inl s' /\
             forall t, In t (tokens_of (do_get ps w s)) -> ~ In t (live s') /\ In t (freed s').
Proof.
  intros ps Hin ops w s Hrun.
  pose proof (proj1 (forallb_forall _ _) C01_api_pairs_shape_ok ps Hin) as Hok.
  destruct (ledger_safe ps Hok ops init (inv_init ps)) as (s0 & Hr & HI).
  rewrite Hrun in Hr. inversion Hr; subst s0.
  exact (get_then_free_releases_all ps Hok w s HI).
Qed.
Print Assumptions C01_free_after_get_releases_all.

(** non-vacuity: a free that does not clear the struct is refuted by get; free; free *)
Definition bad_pair : pair_shape :=
  {| ps_get := "g"; ps_free := "f"; ps_get_fields := [("text"%string, FromNew)]; ps_free_fields := ["text"%string];
     ps_get_clears_first := true; ps_free_clears := false |}.
Theorem C01_unclearing_free_refuted :
  run bad_pair [Get ["text"%string]; Free; Free] init = inr (DoubleFree "text").
Proof. vm_compute. reflexivity. Qed.
Print Assumptions C01_unclearing_free_refuted.

(** ---- appended by the Eng builder: the modelled session core (coq/Eng) ----
    [Eng.Api.step] reports [ObsCrash e] from the first modelled call on that
    reaches an undefined or throwing C++ operation ([Eng.Ctx.err]).  The full
    totality theorem is [C01_core_total] at the end of this file (proof:
    Eng/TotalFull.v): no crash of any kind over all histories, for translators
    whose candidates lie inside their segment; the statement without that
    hypothesis ([TotalProofs.core_total_full]) is refuted
    ([C01_core_total_needs_candidate_shape]).  The earlier partial theorems are kept: *)
From RimeV Require Eng.Api Eng.Ctx Eng.Engine Eng.Oracle Eng.Spec Eng.CommitProofs Eng.TotalFull Eng.TotalProofs Eng.PunctProofs Eng.KbProofs Eng.WfProofs Eng.Procs Eng.AsciiProofs Eng.Keys.

(** for EVERY history of API operations with arbitrary arguments (keys with any
    code/mask, indices up to SIZE_MAX, carets beyond the end, options, …), any
    configuration with page_size >= 1, either editor and any translator whose
    candidate lists are shorter than 2^31 - page_size, given the source fact
    that Context::DeleteCandidate looks the candidate up first: no modelled call
    dereferences a null candidate and none builds an invalid page range
    (PARTIAL: two of the four kinds of undefined operation) *)
Theorem C01_core_total_partial :
  forall cfg translate, RimeV.Eng.TotalProofs.total_hyps cfg translate ->
  forall ops, List.Forall RimeV.Eng.TotalProofs.no_null_no_bad_range_obs
                          (snd (RimeV.Eng.Api.run cfg translate ops)).
Proof. exact RimeV.Eng.TotalProofs.core_total_partial. Qed.
Print Assumptions C01_core_total_partial.

(** for every key sequence over the C05 editing alphabet (letters, BackSpace,
    Delete, KP_Left, KP_Right, Home, End, Escape), both editors, ANY translator:
    no undefined operation of any kind, CalculateSegmentation within its fuel *)
Theorem C01_core_total_edit_keys :
  forall fluid dlog translate keys,
    List.Forall (fun k => RimeV.Eng.Spec.ekey_ok (RimeV.Eng.Oracle.synth_cfg fluid dlog) k = true) keys ->
    List.forallb RimeV.Eng.CommitProofs.not_crash
      (snd (RimeV.Eng.Api.run (RimeV.Eng.Oracle.synth_cfg fluid dlog) translate
                              (List.map RimeV.Eng.Spec.op_of_ekey keys))) = true.
Proof. exact RimeV.Eng.TotalProofs.core_total_edit. Qed.
Print Assumptions C01_core_total_edit_keys.

(** … and with candidates that end at or after the start of their segment, for
    EVERY history the only undefined operation the modelled core can still reach
    is std::string::substr with pos > size: no null dereference, no invalid page
    range, and CalculateSegmentation finishes within its |input| + 1 rounds in
    every reachable state (PARTIAL: three of the four kinds; see
    TotalProofs.core_total_full for the full statement and what is missing).
    Round 3: the statement now covers EVERY processor / segmentor chain of the
    model (punctuator, punct_segmentor included); the model gained CommitHistory,
    whose Push(composition, input) can read a popped record unless the source
    resets [last] in its raw branch – the source fact [cf_hist_guard]
    (Gen/EngFacts.v: commit_history_guard, discharged for the synthetic
    configurations from the current source; [C01_commit_history_dangling] is the
    witness for the other shape). *)
Theorem C01_core_total_except_substr :
  forall cfg translate, RimeV.Eng.TotalProofs.total_hyps cfg translate ->
  RimeV.Eng.Engine.cf_hist_guard cfg = true ->
  RimeV.Eng.Engine.cf_kb_guard cfg = true ->
  (forall i s c, List.In c (translate i s) -> RimeV.Eng.Cand.si_start s <= RimeV.Eng.Cand.c_end c) ->
  forall ops, List.Forall RimeV.Eng.WfProofs.obs_only_substr (snd (RimeV.Eng.Api.run cfg translate ops)).
Proof. exact RimeV.Eng.TotalProofs.core_total_except_substr. Qed.
Print Assumptions C01_core_total_except_substr.

(** FULL: for EVERY history of API operations with arbitrary arguments, any
    configuration with page_size >= 1, either editor, given the source fact that
    Context::DeleteCandidate looks the candidate up first, and any translator
    whose candidate lists are shorter than 2^31 - page_size and whose candidates
    end inside the segment they were made for and cover at least one byte of it
    ([cands_fit]: si_start s < c_end c <= si_start s + |segment input|): NO
    observation is a crash – no std::string::substr with pos > size, no null
    candidate dereference, no invalid page range, and CalculateSegmentation
    finishes within its |input| + 1 rounds.  (Invariant: open segments hold only
    candidates that fit, closed ones a fitting selected candidate and a menu
    bounded by the end Segment::Reopen restores, raw segments cover only bytes
    the abc segmentor refuses, the last segment is open or empty; Compose
    re-establishes it from the weaker form Reopen leaves behind, and swallows
    the one raw segment with a stale length that OnSelect can cut short.) *)
(** Round 3: [plain_chain cfg] = segmentors [abc_segmentor, fallback_segmentor], no punctuator
    among the processors (these were ALL configurations of the model when the theorem was
    first proved; the key binder with ANY binding table is allowed), and the two source facts
    (CommitHistory::Push resets [last]; KeyBinder replays with redirecting_ set).  For chains with
    punct_segmentor the statement is false as it stands ([C01_punct_chain_stale_menu]). *)
Theorem C01_core_total :
  forall cfg translate, RimeV.Eng.TotalProofs.total_hyps cfg translate ->
  RimeV.Eng.TotalFull.plain_chain cfg ->
  RimeV.Eng.TotalFull.cands_fit translate ->
  forall ops, List.forallb RimeV.Eng.CommitProofs.not_crash (snd (RimeV.Eng.Api.run cfg translate ops)) = true.
Proof. exact RimeV.Eng.TotalProofs.core_total. Qed.
Print Assumptions C01_core_total.

(** non-vacuity: the synthetic schemas of the correspondence checks (both
    editors, the oracle translator) meet every hypothesis *)
Theorem C01_core_total_synth :
  forall fluid dlog ops,
    List.forallb RimeV.Eng.CommitProofs.not_crash
      (snd (RimeV.Eng.Api.run (RimeV.Eng.Oracle.synth_cfg fluid dlog) RimeV.Eng.Oracle.oracle_translate ops)) = true.
Proof. exact RimeV.Eng.TotalProofs.core_total_synth. Qed.
Print Assumptions C01_core_total_synth.

Theorem C01_oracle_translator_cands_fit : RimeV.Eng.TotalFull.cands_fit RimeV.Eng.Oracle.oracle_translate.
Proof. exact RimeV.Eng.TotalProofs.oracle_cands_fit. Qed.
Print Assumptions C01_oracle_translator_cands_fit.

(** the candidate-shape hypothesis cannot be dropped: with a translator whose
    candidate ends beyond the input, "a" + select_candidate(0) makes GetPreedit
    call substr with pos > size (the statement without the hypothesis is false) *)
Theorem C01_core_total_needs_candidate_shape : ~ RimeV.Eng.TotalProofs.core_total_full.
Proof. exact RimeV.Eng.TotalProofs.core_total_full_refuted. Qed.
Print Assumptions C01_core_total_needs_candidate_shape.

(** ---- round 3: CommitHistory and the punctuator chains ---- *)
(** the source shape of CommitHistory::Push(composition, input) WITHOUT the reset of [last]
    in its raw branch (librime before c6a26de): on synth_fluid, `a x, select 3, space,
    (x space) x 21, a, commit_composition` dereferences a popped record
    (replays/eng-commit-history-dangling-last.txt: heap-use-after-free under ASan) *)
Theorem C01_commit_history_dangling :
  let cfg := RimeV.Eng.Oracle.synth_cfg_gen true true true true false in
  RimeV.Eng.TotalProofs.total_hyps cfg RimeV.Eng.Oracle.oracle_translate /\
  RimeV.Eng.TotalFull.cands_fit RimeV.Eng.Oracle.oracle_translate /\
  RimeV.Eng.Engine.cf_segmentors cfg = (RimeV.Eng.Engine.SgAbc :: RimeV.Eng.Engine.SgFallback :: nil)%list /\
  ~ List.In RimeV.Eng.Engine.PPunctuator (RimeV.Eng.Engine.cf_processors cfg) /\
  List.existsb (fun o => match o with RimeV.Eng.Api.ObsCrash RimeV.Eng.Ctx.ErrDangling => true | _ => false end)
          (snd (RimeV.Eng.Api.run cfg RimeV.Eng.Oracle.oracle_translate RimeV.Eng.PunctProofs.dangling_ops)) = true.
Proof. exact RimeV.Eng.PunctProofs.commit_history_dangling. Qed.
Print Assumptions C01_commit_history_dangling.

(** the current source fact is the guarded shape: the synthetic configurations carry it *)
Theorem C01_commit_history_guard_in_source : RimeV.Eng.Oracle.hist_guard_in_source = true.
Proof. reflexivity. Qed.
Print Assumptions C01_commit_history_guard_in_source.

(** chains with punct_segmentor: the hypotheses of [C01_core_total] (candidates inside their
    segment, in the form TranslateSegments needs) do NOT suffice – after a full_shape toggle
    the punct segmentor takes the byte that the fallback segmentor would have re-absorbed
    into a closed raw segment cut short by a partial candidate; Segment::Reopen revives the
    stale menu and GetPreedit throws std::out_of_range
    (replays/eng-stale-raw-menu-after-shape-toggle.txt, confirmed on the real code) *)
Theorem C01_punct_chain_stale_menu :
  let cfg := RimeV.Eng.Oracle.synth_punct_cfg_gen true true true true true in
  RimeV.Eng.TotalProofs.total_hyps cfg (RimeV.Eng.Oracle.synth_translate cfg) /\
  RimeV.Eng.Engine.cf_hist_guard cfg = true /\
  RimeV.Eng.PunctProofs.cands_fit_seg (RimeV.Eng.Oracle.synth_translate cfg) /\
  RimeV.Eng.Engine.cf_segmentors cfg
  = (RimeV.Eng.Engine.SgAbc :: RimeV.Eng.Engine.SgPunct :: RimeV.Eng.Engine.SgFallback :: nil)%list /\
  List.existsb (fun o => match o with RimeV.Eng.Api.ObsCrash RimeV.Eng.Ctx.ErrSubstr => true | _ => false end)
          (snd (RimeV.Eng.Api.run cfg (RimeV.Eng.Oracle.synth_translate cfg) RimeV.Eng.PunctProofs.stale_menu_ops)) = true.
Proof. exact RimeV.Eng.PunctProofs.punct_chain_stale_menu. Qed.
Print Assumptions C01_punct_chain_stale_menu.

(** what IS proved for the punctuator schemas: no null dereference, no invalid page range
    (PARTIAL; the full statement with its extra hypothesis is
    [RimeV.Eng.PunctProofs.core_total_punct_full], not proved) *)
Theorem C01_core_total_partial_synth_punct :
  forall fluid dlog ops,
    List.Forall RimeV.Eng.TotalProofs.no_null_no_bad_range_obs
      (snd (RimeV.Eng.Api.run (RimeV.Eng.Oracle.synth_punct_cfg fluid dlog)
                              (RimeV.Eng.Oracle.synth_translate (RimeV.Eng.Oracle.synth_punct_cfg fluid dlog)) ops)).
Proof. exact RimeV.Eng.PunctProofs.core_total_partial_synth_punct. Qed.
Print Assumptions C01_core_total_partial_synth_punct.

(** ---- round 3, stage 3: the key binder ---- *)
(** source fact (gen/eng_facts.py, re-read on every run): KeyBinder::ProcessKeyEvent declines every
    key while redirecting_ is set and PerformKeyBinding sets it around the replay loop *)
Theorem C01_key_binder_guard_in_source : RimeV.Eng.Oracle.kb_guard_in_source = true.
Proof. reflexivity. Qed.
Print Assumptions C01_key_binder_guard_in_source.

(** termination of the redirect: with that fact, for EVERY configuration (any binding table:
    self-sending, cyclic, chained bindings) a key event nests ProcessKey exactly once – the replay
    runs in a chain where the key binder declines everything – so any nesting fuel >= 1 gives the
    same result (no unbounded recursion) *)
Theorem C01_key_binder_replay_depth :
  forall cfg translate, RimeV.Eng.Engine.cf_kb_guard cfg = true ->
  forall fuel s k,
    RimeV.Eng.Procs.process_key_n cfg translate (S fuel) false s k =
    RimeV.Eng.Procs.process_key_gen cfg translate
      (RimeV.Eng.Procs.key_binder_process cfg translate (Some (RimeV.Eng.KbProofs.process_key_replayed cfg translate)) false) s k.
Proof. exact RimeV.Eng.KbProofs.kb_replay_depth. Qed.
Print Assumptions C01_key_binder_replay_depth.

(** ... and no history of API operations ever reports the nesting error (nor a null dereference
    or an invalid page range; the dangling commit-history pointer only without its own guard) *)
Theorem C01_crash_kinds :
  forall cfg translate, RimeV.Eng.TotalProofs.total_hyps cfg translate ->
  forall ops, List.Forall (RimeV.Eng.WfProofs.crash_kind_ok cfg) (snd (RimeV.Eng.Api.run cfg translate ops)).
Proof. intros cfg translate (H1 & H2 & H3). exact (RimeV.Eng.WfProofs.crash_kinds cfg translate H1 H2 H3). Qed.
Print Assumptions C01_crash_kinds.

(** the source shape WITHOUT the flag: the self-sending binding Control+s -> Control+s of the synthetic
    table uses up every nesting depth of the model (the C++ recurses until the stack is exhausted) *)
Theorem C01_key_binder_unguarded_recursion :
  let cfg := RimeV.Eng.Oracle.synth_kb_cfg_gen true true true false true in
  snd (RimeV.Eng.Api.run cfg (RimeV.Eng.Oracle.synth_translate cfg) RimeV.Eng.KbProofs.kb_selfsend_ops)
  = (RimeV.Eng.Api.ObsCrash RimeV.Eng.Ctx.ErrRecursion :: nil)%list.
Proof. exact RimeV.Eng.KbProofs.kb_unguarded_recursion. Qed.
Print Assumptions C01_key_binder_unguarded_recursion.

(** FULL totality with a key binder: the synthetic binding table over the plain chain *)
Theorem C01_core_total_synth_kbplain :
  forall fluid dlog ops,
    List.forallb RimeV.Eng.CommitProofs.not_crash
      (snd (RimeV.Eng.Api.run (RimeV.Eng.Oracle.synth_kbplain_cfg fluid dlog) RimeV.Eng.Oracle.oracle_translate ops)) = true.
Proof. exact RimeV.Eng.KbProofs.core_total_synth_kbplain. Qed.
Print Assumptions C01_core_total_synth_kbplain.

(** PARTIAL for the stock-like chain (key_binder + punctuator components): the crash kinds above *)
Theorem C01_crash_kinds_synth_kb :
  forall fluid dlog ops,
    List.Forall (RimeV.Eng.WfProofs.crash_kind_ok (RimeV.Eng.Oracle.synth_kb_cfg fluid dlog))
      (snd (RimeV.Eng.Api.run (RimeV.Eng.Oracle.synth_kb_cfg fluid dlog)
                              (RimeV.Eng.Oracle.synth_translate (RimeV.Eng.Oracle.synth_kb_cfg fluid dlog)) ops)).
Proof. exact RimeV.Eng.KbProofs.crash_kinds_synth_kb. Qed.
Print Assumptions C01_crash_kinds_synth_kb.

(** * round 4: ascii_composer / ascii_segmentor in the modelled core (Eng stage 2) *)

(** full totality (no undefined operation over all histories, mode-switch keys of every style, Caps Lock, the
    tap window on any clock) for the plain chain with ascii_composer and key_binder in front *)
Theorem C01_core_total_synth_acplain :
  forall fluid dlog ops,
    List.forallb RimeV.Eng.CommitProofs.not_crash
      (snd (RimeV.Eng.Api.run (RimeV.Eng.Oracle.synth_acplain_cfg fluid dlog) RimeV.Eng.Oracle.oracle_translate ops)) = true.
Proof. exact RimeV.Eng.AsciiProofs.core_total_synth_acplain. Qed.
Print Assumptions C01_core_total_synth_acplain.

(** the stock chain order with ascii_segmentor and the punctuator components: every crash the model can reach is of
    one of the admitted kinds (no null dereference, no invalid page range; recursion / dangling only in the source
    shapes without their guards) *)
Theorem C01_crash_kinds_synth_ascii :
  forall fluid dlog ops,
    List.Forall (RimeV.Eng.WfProofs.crash_kind_ok (RimeV.Eng.Oracle.synth_ascii_cfg fluid dlog))
      (snd (RimeV.Eng.Api.run (RimeV.Eng.Oracle.synth_ascii_cfg fluid dlog)
                              (RimeV.Eng.Oracle.synth_translate (RimeV.Eng.Oracle.synth_ascii_cfg fluid dlog)) ops)).
Proof. exact RimeV.Eng.AsciiProofs.crash_kinds_synth_ascii. Qed.
Print Assumptions C01_crash_kinds_synth_ascii.

(** what the mode-switch machinery does, for any configuration: in ascii mode and idle every ordinary key is rejected
    ("direct commit") and only the pressed-flags change *)
Theorem C01_ascii_mode_idle_rejects :
  forall cfg translate s k,
    RimeV.Eng.AsciiProofs.ordinary_key k = true ->
    RimeV.Eng.Ctx.get_option (RimeV.Eng.Engine.st_ctx s) RimeV.Eng.Ctx.opt_ascii_mode = true ->
    RimeV.Eng.Ctx.is_composing (RimeV.Eng.Engine.st_ctx s) = false ->
    RimeV.Eng.Procs.ascii_composer_process cfg translate s k = (RimeV.Eng.Procs.ac_unpress s, RimeV.Eng.Procs.PRejected).
Proof. exact RimeV.Eng.AsciiProofs.ascii_mode_idle_rejects. Qed.
Print Assumptions C01_ascii_mode_idle_rejects.

(** a Shift / Control key released 500 ms or more after it went down toggles nothing *)
Theorem C01_ascii_tap_window :
  forall cfg translate s k,
    negb ((RimeV.Eng.Keys.k_shift k && RimeV.Eng.Keys.k_ctrl k) || RimeV.Eng.Keys.k_alt k || RimeV.Eng.Keys.k_super k) = true ->
    RimeV.Eng.Procs.ac_style_is_noop (RimeV.Eng.Procs.ac_caps_style cfg) = true ->
    List.existsb (BinInt.Z.eqb (RimeV.Eng.Keys.k_code k))
      [RimeV.Eng.Procs.XK_Shift_L; RimeV.Eng.Procs.XK_Shift_R; RimeV.Eng.Procs.XK_Control_L; RimeV.Eng.Procs.XK_Control_R] = true ->
    RimeV.Eng.Keys.k_release k = true ->
    BinNat.N.le (RimeV.Eng.Engine.ac_expire (RimeV.Eng.Engine.st_ac s)) (RimeV.Eng.Engine.st_clock s) ->
    RimeV.Eng.Engine.st_ctx (fst (RimeV.Eng.Procs.ascii_composer_process cfg translate s k)) = RimeV.Eng.Engine.st_ctx s /\
    snd (RimeV.Eng.Procs.ascii_composer_process cfg translate s k) = RimeV.Eng.Procs.PNoop.
Proof. exact RimeV.Eng.AsciiProofs.tap_window. Qed.
Print Assumptions C01_ascii_tap_window.

(** inline ascii mode ends with the composition: the slot on update_notifier_ switches ascii_mode off and disconnects *)
Theorem C01_inline_ascii_leaves_with_the_composition :
  forall c, RimeV.Eng.Ctx.cx_conn c = true -> RimeV.Eng.Ctx.is_composing c = false ->
    RimeV.Eng.Ctx.get_option (RimeV.Eng.Engine.ac_on_update c) RimeV.Eng.Ctx.opt_ascii_mode = false /\
    RimeV.Eng.Ctx.cx_conn (RimeV.Eng.Engine.ac_on_update c) = false.
Proof. exact RimeV.Eng.AsciiProofs.inline_leaves_ascii_mode. Qed.
Print Assumptions C01_inline_ascii_leaves_with_the_composition.

(** source facts (gen/eng_facts.py, re-read from src/rime/gear/ascii_composer.cc on every run): the constants the model of
    AsciiComposer::ProcessKeyEvent writes as literals *)
Theorem C01_ascii_composer_source_constants :
  RimeV.Gen.EngFacts.ascii_facts_recognised = true /\ RimeV.Gen.EngFacts.ascii_toggle_window_ms = BinNat.N.of_nat 500 /\
  RimeV.Gen.EngFacts.ascii_window_strict = true /\
  RimeV.Gen.EngFacts.ascii_push_lo = BinInt.Z.of_nat 32 /\ RimeV.Gen.EngFacts.ascii_push_hi = BinInt.Z.of_nat 128.
Proof. exact RimeV.Eng.AsciiProofs.ascii_source_constants. Qed.
Print Assumptions C01_ascii_composer_source_constants.
