(** Extraction of the C15 model (ExtrOcamlBasic only). *)
From Coq Require Extraction.
From Coq Require ExtrOcamlBasic.
From Coq Require Import NArith.
From RimeV Require Import Dep.Sched Gen.LockScopes.
Extraction "c15_model.ml" N.of_nat cfg_of_table table_shape_ok lock_scopes init enum run_macro macro log race_state
  witness_window_script witness_window_sm_script witness_window_sched
  witness_badcall_script witness_badcall_sched witness_race_sched
  witness_closed_sched witness_seen_sched handover_fact handover_of_table nw.
