(** C10 – what the user commits is learned, ranked no worse next time, can be
    forgotten.  Property theorems only; each closed by [exact] of a lemma proved
    in UdbL/*Proofs.v.  The model is the one of C11 (UdbL/Txn.v, Learn.v): a
    commit is the list of UpdateEntry calls [commit_calls kind segs ce_empty]
    that Memory::OnCommit and the translator's Memorize issue, every call
    reading the dictionary as it was *before* the commit. *)
From Coq Require Import List NArith ZArith Bool Reals.
From RimeV Require Import Base.Bytes UdbL.Txn UdbL.TxnProofs UdbL.Learn UdbL.CommitProofs
  UdbL.Rank UdbL.RankProofs UdbL.DynamicsR UdbL.Examples.
Import ListNotations.
Local Open Scope Z_scope.

(** Each commit raises the stored count of exactly the committed entries, alters
    no entry of another code, and the tick grows by the number of counted
    updates: for the calls of one commit, the last call targeting a key decides
    its count from the count held before the commit ([new_commits old 1 =
    |old| + 1], [new_commits old 0 = old]); untouched keys keep their value. *)
Theorem C10_commit_counts_exactly :
  forall d tick calls,
  let ws := fst (calls_writes d tick calls) in
  let tick' := snd (calls_writes d tick calls) in
  (forall calls1 e c calls2 k,
     calls = calls1 ++ (e, c) :: calls2 -> entry_key e = Some k ->
     (forall ec, In ec calls2 -> entry_key (fst ec) <> Some k) ->
     exists t, get (apply_batch ws d) k = Some (VEnt (new_commits (old_commits (get d k)) c) t) /\
               (tick <= t <= tick')%N) /\
  (forall k, (forall ec, In ec calls -> entry_key (fst ec) <> Some k) -> k <> tick_key ->
     get (apply_batch ws d) k = get d k) /\
  tick' = (tick + N.of_nat (n_counted calls))%N.
Proof. exact commit_counts_exactly. Qed.
Print Assumptions C10_commit_counts_exactly.

Theorem C10_counted_is_abs_plus_one : forall old, new_commits old 1 = Z.abs old + 1.
Proof. exact counted_once_is_abs_plus_one. Qed.
Print Assumptions C10_counted_is_abs_plus_one.

Theorem C10_touched_keeps_count : forall old, new_commits old 0 = old.
Proof. exact touched_keeps_count. Qed.
Print Assumptions C10_touched_keeps_count.

(** the script translator counts the whole phrase once (last call) and only
    touches its elements; the table translator counts every element *)
Theorem C10_script_counts_whole_phrase :
  forall ce, exists pre, memorize_calls KScript ce = pre ++ [(ce_entry ce, 1)] /\
                         forall ec, In ec pre -> snd ec = 0.
Proof. exact memorize_script_last. Qed.
Print Assumptions C10_script_counts_whole_phrase.

Theorem C10_table_counts_elements :
  forall ce ec, In ec (memorize_calls KTable ce) -> snd ec = 1.
Proof. exact table_calls_all_counted. Qed.
Print Assumptions C10_table_counts_elements.

(** A phrase assembled from k partial selections and a confirming one is saved
    as ONE entry: concatenated text under the concatenated code, counted once. *)
Theorem C10_phrase_from_partials_is_one_entry :
  forall partials final,
  Forall (fun sg => sg_rec sg = true /\ sg_conf sg = false) partials ->
  sg_rec final = true -> sg_conf final = true ->
  let T := concat (map (fun sg => de_text (sg_entry sg)) (partials ++ [final])) in
  let C := concat (map (fun sg => de_code (sg_entry sg)) (partials ++ [final])) in
  T <> [] ->
  exists pre, commit_calls KScript (partials ++ [final]) ce_empty = pre ++ [(mkde T [] C, 1)] /\
              forall ec, In ec pre -> snd ec = 0.
Proof. exact partials_one_entry. Qed.
Print Assumptions C10_phrase_from_partials_is_one_entry.

(** Deleting marks the record deleted (negative count) and hides it ... *)
Theorem C10_delete_marks_and_hides :
  forall d tick e k, entry_key e = Some k ->
  let c' := Z.min (-1) (- old_commits (get d k)) in
  upd_writes d tick e (-1) = ([WPut k (VEnt c' tick)], tick) /\
  c' < 0 /\ (0 <= old_commits (get d k) -> c' = - Z.max 1 (old_commits (get d k))) /\
  visible (VEnt c' tick) = false.
Proof. exact delete_marks_and_hides. Qed.
Print Assumptions C10_delete_marks_and_hides.

(** ... until it is committed again: the count becomes |c| + 1 > 0, visible. *)
Theorem C10_recommit_revives :
  forall old t,
  let del := Z.min (-1) (- old) in
  new_commits del 1 = Z.abs del + 1 /\ 0 < new_commits del 1 /\
  visible (VEnt (new_commits del 1) t) = true.
Proof. exact recommit_revives. Qed.
Print Assumptions C10_recommit_revives.

(** Ranked no worse: in the model of the merged emission (sorted user phrases,
    then system phrases, de-duplicated) the committed text's index after the
    commit is at most its index before – under the named hypothesis
    H_weight_mono about dynamics.h (validated numerically, not proved). *)
Theorem C10_rank_no_later :
  forall (W : Type) (wle : W -> W -> bool) (T : bytes) (L0 L1 : list (bytes * W)) (sys : list bytes),
  sorted_desc W wle L0 -> sorted_desc W wle L1 ->
  NoDup (map fst L0) -> NoDup (map fst L1) ->
  In T (map fst L1) ->
  (forall x, x <> T -> In x (map fst L1) -> In x (map fst L0)) ->
  (* H_weight_mono *)
  (forall x w0x w1x wT0 wT1, x <> T ->
     In (x, w0x) L0 -> In (x, w1x) L1 -> In (T, wT0) L0 -> In (T, wT1) L1 ->
     wle w0x wT0 = true -> wle wT1 w1x = false) ->
  forall i0, index_of T (emission W L0 sys) = Some i0 ->
  exists i1, index_of T (emission W L1 sys) = Some i1 /\ (i1 <= i0)%nat.
Proof. exact rank_no_later. Qed.
Print Assumptions C10_rank_no_later.

(** What is proved of dynamics.h towards H_weight_mono (over the reals, branch
    d < 20; the full statement is [DynamicsR.weight_mono_full], not proved):
    a commit adds its count to the decayed weight, and formula_p is monotone in
    the decayed weight and in the commit frequency. *)
Theorem C10_weight_partial_commit_gain :
  forall c t da ta : R, (0 < c)%R -> (formula_d 0 t da ta < formula_d c t da ta)%R.
Proof. exact formula_d_commit_gain. Qed.
Print Assumptions C10_weight_partial_commit_gain.

Theorem C10_weight_partial_mono_d :
  forall s u t d1 d2 : R,
  (m_of s u t < 1 / 2)%R -> (d1 < d2)%R -> (formula_p_low s u t d1 < formula_p_low s u t d2)%R.
Proof. exact formula_p_low_strict_d. Qed.
Print Assumptions C10_weight_partial_mono_d.

Theorem C10_weight_partial_mono_u :
  forall u1 u2 t d : R,
  (0 < t)%R -> (d <= kM)%R -> (u1 <= u2)%R -> (formula_p_low 0 u1 t d <= formula_p_low 0 u2 t d)%R.
Proof. exact formula_p_low_mono_u. Qed.
Print Assumptions C10_weight_partial_mono_u.

(** Non-vacuity. *)
Theorem C10_example_partials :
  commit_calls KScript [mkseg true false ex_a [ex_a]; mkseg true true ex_b [ex_b]] ce_empty =
  [(ex_ab, 1)] /\ entry_key ex_ab = Some ex_key_ab.
Proof. exact ex_partials. Qed.
Print Assumptions C10_example_partials.

Theorem C10_example_delete_revive :
  let d1 := apply_batch (fst (upd_writes [(ex_key_a, VEnt 3 7)] 9 ex_a (-1))) [(ex_key_a, VEnt 3 7)] in
  let d2 := apply_batch (fst (upd_writes d1 9 ex_a 1)) d1 in
  get d1 ex_key_a = Some (VEnt (-3) 9) /\ get d2 ex_key_a = Some (VEnt 4 10) /\
  get d2 tick_key = Some (VNum 10).
Proof. exact ex_delete_revive. Qed.
Print Assumptions C10_example_delete_revive.
