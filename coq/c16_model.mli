
val negb : bool -> bool

val snd : ('a1 * 'a2) -> 'a2

type comparison =
| Eq
| Lt
| Gt

val filter : ('a1 -> bool) -> 'a1 list -> 'a1 list

type positive =
| XI of positive
| XO of positive
| XH

type n =
| N0
| Npos of positive

module Pos :
 sig
  type mask =
  | IsNul
  | IsPos of positive
  | IsNeg
 end

module Coq_Pos :
 sig
  val succ : positive -> positive

  val add : positive -> positive -> positive

  val add_carry : positive -> positive -> positive

  val pred_double : positive -> positive

  type mask = Pos.mask =
  | IsNul
  | IsPos of positive
  | IsNeg

  val succ_double_mask : mask -> mask

  val double_mask : mask -> mask

  val double_pred_mask : positive -> mask

  val sub_mask : positive -> positive -> mask

  val sub_mask_carry : positive -> positive -> mask

  val compare_cont : comparison -> positive -> positive -> comparison

  val compare : positive -> positive -> comparison

  val eqb : positive -> positive -> bool
 end

module N :
 sig
  val add : n -> n -> n

  val sub : n -> n -> n

  val compare : n -> n -> comparison

  val eqb : n -> n -> bool

  val ltb : n -> n -> bool
 end

type sid = n

type 'op call =
| Create of sid
| Destroy of sid
| Find of sid
| Call of sid * 'op
| CleanupAll
| Advance of n
| CleanupStale

type 'obs out =
| OCreated of sid
| OBool of bool
| OObs of 'obs
| OUnit

type 'sess entry = 'sess * n

type 'sess smap = (sid * 'sess entry) list

val life_span : n

val lookup : sid -> 'a1 smap -> 'a1 entry option

val remove : sid -> 'a1 smap -> 'a1 smap

val insert : sid -> 'a1 entry -> 'a1 smap -> 'a1 smap

type ('sess, 'pers) svc = { live : 'sess smap; settings : 'pers; now : n }

val stale : n -> 'a1 entry -> bool

val step :
  ('a4 -> 'a1) -> ('a1 -> 'a2 -> 'a1 * 'a3) -> ('a1 -> 'a2 -> 'a4 -> 'a4) ->
  ('a2 -> 'a3) -> ('a1, 'a4) svc -> 'a2 call -> ('a1, 'a4) svc * 'a3 out

val run :
  ('a4 -> 'a1) -> ('a1 -> 'a2 -> 'a1 * 'a3) -> ('a1 -> 'a2 -> 'a4 -> 'a4) ->
  ('a2 -> 'a3) -> ('a1, 'a4) svc -> 'a2 call list -> ('a1, 'a4) svc * ('a2
  call * 'a3 out) list

type toy_sess = n

type toy_op = n

type toy_obs = bool * n

val toy_new : n -> toy_sess

val toy_step : toy_sess -> toy_op -> toy_sess * toy_obs

val toy_pstep : toy_sess -> toy_op -> n -> n

val toy_rejected : toy_op -> toy_obs

val toy_run : toy_op call list -> (toy_op call * toy_obs out) list
