(** Extraction of the C10 model (ExtrOcamlBasic only). *)
From Coq Require Extraction.
From Coq Require ExtrOcamlBasic.
From RimeV Require Import Base.Bytes UdbL.Txn UdbL.Learn.
Extraction "c10_model.ml" byte_of_N N_of_byte ops_of run_events db_run db0 recover reopen
  closed_count spec_units abs_units units_of visible entry_key commit_calls.
