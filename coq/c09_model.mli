
val negb : bool -> bool

type nat =
| O
| S of nat

val fst : ('a1 * 'a2) -> 'a1

val snd : ('a1 * 'a2) -> 'a2

val length : 'a1 list -> nat

val app : 'a1 list -> 'a1 list -> 'a1 list

type comparison =
| Eq
| Lt
| Gt

val compOpp : comparison -> comparison

val add : nat -> nat -> nat

type byte =
| X00
| X01
| X02
| X03
| X04
| X05
| X06
| X07
| X08
| X09
| X0a
| X0b
| X0c
| X0d
| X0e
| X0f
| X10
| X11
| X12
| X13
| X14
| X15
| X16
| X17
| X18
| X19
| X1a
| X1b
| X1c
| X1d
| X1e
| X1f
| X20
| X21
| X22
| X23
| X24
| X25
| X26
| X27
| X28
| X29
| X2a
| X2b
| X2c
| X2d
| X2e
| X2f
| X30
| X31
| X32
| X33
| X34
| X35
| X36
| X37
| X38
| X39
| X3a
| X3b
| X3c
| X3d
| X3e
| X3f
| X40
| X41
| X42
| X43
| X44
| X45
| X46
| X47
| X48
| X49
| X4a
| X4b
| X4c
| X4d
| X4e
| X4f
| X50
| X51
| X52
| X53
| X54
| X55
| X56
| X57
| X58
| X59
| X5a
| X5b
| X5c
| X5d
| X5e
| X5f
| X60
| X61
| X62
| X63
| X64
| X65
| X66
| X67
| X68
| X69
| X6a
| X6b
| X6c
| X6d
| X6e
| X6f
| X70
| X71
| X72
| X73
| X74
| X75
| X76
| X77
| X78
| X79
| X7a
| X7b
| X7c
| X7d
| X7e
| X7f
| X80
| X81
| X82
| X83
| X84
| X85
| X86
| X87
| X88
| X89
| X8a
| X8b
| X8c
| X8d
| X8e
| X8f
| X90
| X91
| X92
| X93
| X94
| X95
| X96
| X97
| X98
| X99
| X9a
| X9b
| X9c
| X9d
| X9e
| X9f
| Xa0
| Xa1
| Xa2
| Xa3
| Xa4
| Xa5
| Xa6
| Xa7
| Xa8
| Xa9
| Xaa
| Xab
| Xac
| Xad
| Xae
| Xaf
| Xb0
| Xb1
| Xb2
| Xb3
| Xb4
| Xb5
| Xb6
| Xb7
| Xb8
| Xb9
| Xba
| Xbb
| Xbc
| Xbd
| Xbe
| Xbf
| Xc0
| Xc1
| Xc2
| Xc3
| Xc4
| Xc5
| Xc6
| Xc7
| Xc8
| Xc9
| Xca
| Xcb
| Xcc
| Xcd
| Xce
| Xcf
| Xd0
| Xd1
| Xd2
| Xd3
| Xd4
| Xd5
| Xd6
| Xd7
| Xd8
| Xd9
| Xda
| Xdb
| Xdc
| Xdd
| Xde
| Xdf
| Xe0
| Xe1
| Xe2
| Xe3
| Xe4
| Xe5
| Xe6
| Xe7
| Xe8
| Xe9
| Xea
| Xeb
| Xec
| Xed
| Xee
| Xef
| Xf0
| Xf1
| Xf2
| Xf3
| Xf4
| Xf5
| Xf6
| Xf7
| Xf8
| Xf9
| Xfa
| Xfb
| Xfc
| Xfd
| Xfe
| Xff

module Nat :
 sig
  val eqb : nat -> nat -> bool

  val leb : nat -> nat -> bool

  val ltb : nat -> nat -> bool
 end

val nth_error : 'a1 list -> nat -> 'a1 option

val map : ('a1 -> 'a2) -> 'a1 list -> 'a2 list

val flat_map : ('a1 -> 'a2 list) -> 'a1 list -> 'a2 list

val fold_left : ('a1 -> 'a2 -> 'a1) -> 'a2 list -> 'a1 -> 'a1

val fold_right : ('a2 -> 'a1 -> 'a1) -> 'a1 -> 'a2 list -> 'a1

val existsb : ('a1 -> bool) -> 'a1 list -> bool

val combine : 'a1 list -> 'a2 list -> ('a1 * 'a2) list

val seq : nat -> nat -> nat list

type positive =
| XI of positive
| XO of positive
| XH

type n =
| N0
| Npos of positive

type z =
| Z0
| Zpos of positive
| Zneg of positive

module Pos :
 sig
  val succ : positive -> positive

  val add : positive -> positive -> positive

  val add_carry : positive -> positive -> positive

  val pred_double : positive -> positive

  val compare_cont : comparison -> positive -> positive -> comparison

  val compare : positive -> positive -> comparison

  val eqb : positive -> positive -> bool
 end

module N :
 sig
  val compare : n -> n -> comparison

  val eqb : n -> n -> bool
 end

val to_N : byte -> n

val of_N : n -> byte option

module Z :
 sig
  val double : z -> z

  val succ_double : z -> z

  val pred_double : z -> z

  val pos_sub : positive -> positive -> z

  val add : z -> z -> z

  val opp : z -> z

  val sub : z -> z -> z

  val compare : z -> z -> comparison

  val ltb : z -> z -> bool

  val eqb : z -> z -> bool

  val of_N : n -> z
 end

type bytes = byte list

val byte_of_N : n -> byte

val n_of_byte : byte -> n

val byte_eqb : byte -> byte -> bool

val bytes_eqb : bytes -> bytes -> bool

val bytes_cmp : bytes -> bytes -> comparison

val is_nil : 'a1 list -> bool

val kNormalSpelling : nat

type props = { ptype : nat; pcred : z; ptips : bytes }

val default_props : props

type spelling = { sstr : bytes; sprops : props }

val spelling_of : bytes -> spelling

type script = (bytes * spelling list) list

val map_find : bytes -> script -> spelling list option

val map_upd : bytes -> (spelling list -> spelling list) -> script -> script

val add_syllable : bytes -> script -> script

val adjust : props -> spelling -> spelling

val improve : spelling -> spelling -> spelling

val merge_into : spelling list -> spelling -> spelling -> spelling list

val merge_list : props -> spelling list -> spelling list -> spelling list

val merge : bytes -> props -> spelling list -> script -> script

type kind =
| Xlit
| Xform
| Erase
| Derive
| Fuzz
| Abbrev

val kind_deletion : kind -> bool

val kind_addition : kind -> bool

type calc = { ckind : kind; capply : (bytes -> spelling option) }

val deletion : calc -> bool

val addition : calc -> bool

val round_step : calc -> script -> (bytes * spelling list) -> script

val round : calc -> script -> script

val round_applied : calc -> script -> bool

val project_script : calc list -> script -> script

val project_modified : calc list -> script -> bool

val project : calc list -> script -> bool * script

val set_insert : bytes -> bytes list -> bytes list

val syllabary_of : bytes list -> bytes list

val init_script : bytes list -> script

val compile_script : bytes list -> calc list -> script option

type node = (bytes * nat) list

val trie_root : bytes list -> node

val step : byte -> node -> node

val walk : bytes -> node -> node

val leaf : node -> nat option

type tres =
| NoPath
| NoValue of node
| Value of nat * node

val traverse : bytes -> node -> tres

type 'fcred desc = { d_syll : nat; d_type : nat; d_cred : 'fcred;
                     d_tips : bytes }

type 'fcred prism = { p_keys : bytes list; p_alphabet : byte list;
                      p_map : 'fcred desc list list option }

val schar : byte -> z

val alpha_insert : byte -> byte list -> byte list

val alphabet_of : bytes list -> byte list

val index_of : bytes -> bytes list -> nat option

val syll_to_id : bytes list -> bytes -> nat

val desc_of : (z -> 'a1) -> bytes list -> spelling -> 'a1 desc

val build : (z -> 'a1) -> bytes list -> script option -> 'a1 prism

val get_value : 'a1 prism -> bytes -> nat option

val cps_from : bytes -> node -> nat -> (nat * nat) list

val common_prefix_search : 'a1 prism -> bytes -> (nat * nat) list

type qnode = { q_key : bytes; q_pos : node }

val limit_hit : nat -> nat -> bool

val scan :
  nat -> byte list -> qnode -> nat -> ((qnode list * (nat * nat)
  list) * nat) * bool

val bfs :
  nat -> nat -> byte list -> qnode list -> nat -> (nat * nat) list * bool

val node_weight : node -> nat

val expand_search_fuel : 'a1 prism -> bytes -> nat -> (nat * nat) list * bool

val query_spelling : (z -> 'a1) -> 'a1 prism -> nat -> 'a1 desc list
