
(** val negb : bool -> bool **)

let negb = function
| true -> false
| false -> true

type nat =
| O
| S of nat

(** val option_map : ('a1 -> 'a2) -> 'a1 option -> 'a2 option **)

let option_map f = function
| Some a -> Some (f a)
| None -> None

(** val fst : ('a1 * 'a2) -> 'a1 **)

let fst = function
| (x, _) -> x

(** val snd : ('a1 * 'a2) -> 'a2 **)

let snd = function
| (_, y) -> y

(** val length : 'a1 list -> nat **)

let rec length = function
| [] -> O
| _ :: l' -> S (length l')

(** val app : 'a1 list -> 'a1 list -> 'a1 list **)

let rec app l m0 =
  match l with
  | [] -> m0
  | a :: l1 -> a :: (app l1 m0)

type comparison =
| Eq
| Lt
| Gt

(** val compOpp : comparison -> comparison **)

let compOpp = function
| Eq -> Eq
| Lt -> Gt
| Gt -> Lt

module Coq__1 = struct
 (** val add : nat -> nat -> nat **)
 let rec add n0 m0 =
   match n0 with
   | O -> m0
   | S p -> S (add p m0)
end
include Coq__1

(** val sub : nat -> nat -> nat **)

let rec sub n0 m0 =
  match n0 with
  | O -> n0
  | S k -> (match m0 with
            | O -> n0
            | S l -> sub k l)

type byte =
| X00
| X01
| X02
| X03
| X04
| X05
| X06
| X07
| X08
| X09
| X0a
| X0b
| X0c
| X0d
| X0e
| X0f
| X10
| X11
| X12
| X13
| X14
| X15
| X16
| X17
| X18
| X19
| X1a
| X1b
| X1c
| X1d
| X1e
| X1f
| X20
| X21
| X22
| X23
| X24
| X25
| X26
| X27
| X28
| X29
| X2a
| X2b
| X2c
| X2d
| X2e
| X2f
| X30
| X31
| X32
| X33
| X34
| X35
| X36
| X37
| X38
| X39
| X3a
| X3b
| X3c
| X3d
| X3e
| X3f
| X40
| X41
| X42
| X43
| X44
| X45
| X46
| X47
| X48
| X49
| X4a
| X4b
| X4c
| X4d
| X4e
| X4f
| X50
| X51
| X52
| X53
| X54
| X55
| X56
| X57
| X58
| X59
| X5a
| X5b
| X5c
| X5d
| X5e
| X5f
| X60
| X61
| X62
| X63
| X64
| X65
| X66
| X67
| X68
| X69
| X6a
| X6b
| X6c
| X6d
| X6e
| X6f
| X70
| X71
| X72
| X73
| X74
| X75
| X76
| X77
| X78
| X79
| X7a
| X7b
| X7c
| X7d
| X7e
| X7f
| X80
| X81
| X82
| X83
| X84
| X85
| X86
| X87
| X88
| X89
| X8a
| X8b
| X8c
| X8d
| X8e
| X8f
| X90
| X91
| X92
| X93
| X94
| X95
| X96
| X97
| X98
| X99
| X9a
| X9b
| X9c
| X9d
| X9e
| X9f
| Xa0
| Xa1
| Xa2
| Xa3
| Xa4
| Xa5
| Xa6
| Xa7
| Xa8
| Xa9
| Xaa
| Xab
| Xac
| Xad
| Xae
| Xaf
| Xb0
| Xb1
| Xb2
| Xb3
| Xb4
| Xb5
| Xb6
| Xb7
| Xb8
| Xb9
| Xba
| Xbb
| Xbc
| Xbd
| Xbe
| Xbf
| Xc0
| Xc1
| Xc2
| Xc3
| Xc4
| Xc5
| Xc6
| Xc7
| Xc8
| Xc9
| Xca
| Xcb
| Xcc
| Xcd
| Xce
| Xcf
| Xd0
| Xd1
| Xd2
| Xd3
| Xd4
| Xd5
| Xd6
| Xd7
| Xd8
| Xd9
| Xda
| Xdb
| Xdc
| Xdd
| Xde
| Xdf
| Xe0
| Xe1
| Xe2
| Xe3
| Xe4
| Xe5
| Xe6
| Xe7
| Xe8
| Xe9
| Xea
| Xeb
| Xec
| Xed
| Xee
| Xef
| Xf0
| Xf1
| Xf2
| Xf3
| Xf4
| Xf5
| Xf6
| Xf7
| Xf8
| Xf9
| Xfa
| Xfb
| Xfc
| Xfd
| Xfe
| Xff

(** val to_bits :
    byte -> bool * (bool * (bool * (bool * (bool * (bool * (bool * bool)))))) **)

let to_bits = function
| X00 -> (false, (false, (false, (false, (false, (false, (false, false)))))))
| X01 -> (true, (false, (false, (false, (false, (false, (false, false)))))))
| X02 -> (false, (true, (false, (false, (false, (false, (false, false)))))))
| X03 -> (true, (true, (false, (false, (false, (false, (false, false)))))))
| X04 -> (false, (false, (true, (false, (false, (false, (false, false)))))))
| X05 -> (true, (false, (true, (false, (false, (false, (false, false)))))))
| X06 -> (false, (true, (true, (false, (false, (false, (false, false)))))))
| X07 -> (true, (true, (true, (false, (false, (false, (false, false)))))))
| X08 -> (false, (false, (false, (true, (false, (false, (false, false)))))))
| X09 -> (true, (false, (false, (true, (false, (false, (false, false)))))))
| X0a -> (false, (true, (false, (true, (false, (false, (false, false)))))))
| X0b -> (true, (true, (false, (true, (false, (false, (false, false)))))))
| X0c -> (false, (false, (true, (true, (false, (false, (false, false)))))))
| X0d -> (true, (false, (true, (true, (false, (false, (false, false)))))))
| X0e -> (false, (true, (true, (true, (false, (false, (false, false)))))))
| X0f -> (true, (true, (true, (true, (false, (false, (false, false)))))))
| X10 -> (false, (false, (false, (false, (true, (false, (false, false)))))))
| X11 -> (true, (false, (false, (false, (true, (false, (false, false)))))))
| X12 -> (false, (true, (false, (false, (true, (false, (false, false)))))))
| X13 -> (true, (true, (false, (false, (true, (false, (false, false)))))))
| X14 -> (false, (false, (true, (false, (true, (false, (false, false)))))))
| X15 -> (true, (false, (true, (false, (true, (false, (false, false)))))))
| X16 -> (false, (true, (true, (false, (true, (false, (false, false)))))))
| X17 -> (true, (true, (true, (false, (true, (false, (false, false)))))))
| X18 -> (false, (false, (false, (true, (true, (false, (false, false)))))))
| X19 -> (true, (false, (false, (true, (true, (false, (false, false)))))))
| X1a -> (false, (true, (false, (true, (true, (false, (false, false)))))))
| X1b -> (true, (true, (false, (true, (true, (false, (false, false)))))))
| X1c -> (false, (false, (true, (true, (true, (false, (false, false)))))))
| X1d -> (true, (false, (true, (true, (true, (false, (false, false)))))))
| X1e -> (false, (true, (true, (true, (true, (false, (false, false)))))))
| X1f -> (true, (true, (true, (true, (true, (false, (false, false)))))))
| X20 -> (false, (false, (false, (false, (false, (true, (false, false)))))))
| X21 -> (true, (false, (false, (false, (false, (true, (false, false)))))))
| X22 -> (false, (true, (false, (false, (false, (true, (false, false)))))))
| X23 -> (true, (true, (false, (false, (false, (true, (false, false)))))))
| X24 -> (false, (false, (true, (false, (false, (true, (false, false)))))))
| X25 -> (true, (false, (true, (false, (false, (true, (false, false)))))))
| X26 -> (false, (true, (true, (false, (false, (true, (false, false)))))))
| X27 -> (true, (true, (true, (false, (false, (true, (false, false)))))))
| X28 -> (false, (false, (false, (true, (false, (true, (false, false)))))))
| X29 -> (true, (false, (false, (true, (false, (true, (false, false)))))))
| X2a -> (false, (true, (false, (true, (false, (true, (false, false)))))))
| X2b -> (true, (true, (false, (true, (false, (true, (false, false)))))))
| X2c -> (false, (false, (true, (true, (false, (true, (false, false)))))))
| X2d -> (true, (false, (true, (true, (false, (true, (false, false)))))))
| X2e -> (false, (true, (true, (true, (false, (true, (false, false)))))))
| X2f -> (true, (true, (true, (true, (false, (true, (false, false)))))))
| X30 -> (false, (false, (false, (false, (true, (true, (false, false)))))))
| X31 -> (true, (false, (false, (false, (true, (true, (false, false)))))))
| X32 -> (false, (true, (false, (false, (true, (true, (false, false)))))))
| X33 -> (true, (true, (false, (false, (true, (true, (false, false)))))))
| X34 -> (false, (false, (true, (false, (true, (true, (false, false)))))))
| X35 -> (true, (false, (true, (false, (true, (true, (false, false)))))))
| X36 -> (false, (true, (true, (false, (true, (true, (false, false)))))))
| X37 -> (true, (true, (true, (false, (true, (true, (false, false)))))))
| X38 -> (false, (false, (false, (true, (true, (true, (false, false)))))))
| X39 -> (true, (false, (false, (true, (true, (true, (false, false)))))))
| X3a -> (false, (true, (false, (true, (true, (true, (false, false)))))))
| X3b -> (true, (true, (false, (true, (true, (true, (false, false)))))))
| X3c -> (false, (false, (true, (true, (true, (true, (false, false)))))))
| X3d -> (true, (false, (true, (true, (true, (true, (false, false)))))))
| X3e -> (false, (true, (true, (true, (true, (true, (false, false)))))))
| X3f -> (true, (true, (true, (true, (true, (true, (false, false)))))))
| X40 -> (false, (false, (false, (false, (false, (false, (true, false)))))))
| X41 -> (true, (false, (false, (false, (false, (false, (true, false)))))))
| X42 -> (false, (true, (false, (false, (false, (false, (true, false)))))))
| X43 -> (true, (true, (false, (false, (false, (false, (true, false)))))))
| X44 -> (false, (false, (true, (false, (false, (false, (true, false)))))))
| X45 -> (true, (false, (true, (false, (false, (false, (true, false)))))))
| X46 -> (false, (true, (true, (false, (false, (false, (true, false)))))))
| X47 -> (true, (true, (true, (false, (false, (false, (true, false)))))))
| X48 -> (false, (false, (false, (true, (false, (false, (true, false)))))))
| X49 -> (true, (false, (false, (true, (false, (false, (true, false)))))))
| X4a -> (false, (true, (false, (true, (false, (false, (true, false)))))))
| X4b -> (true, (true, (false, (true, (false, (false, (true, false)))))))
| X4c -> (false, (false, (true, (true, (false, (false, (true, false)))))))
| X4d -> (true, (false, (true, (true, (false, (false, (true, false)))))))
| X4e -> (false, (true, (true, (true, (false, (false, (true, false)))))))
| X4f -> (true, (true, (true, (true, (false, (false, (true, false)))))))
| X50 -> (false, (false, (false, (false, (true, (false, (true, false)))))))
| X51 -> (true, (false, (false, (false, (true, (false, (true, false)))))))
| X52 -> (false, (true, (false, (false, (true, (false, (true, false)))))))
| X53 -> (true, (true, (false, (false, (true, (false, (true, false)))))))
| X54 -> (false, (false, (true, (false, (true, (false, (true, false)))))))
| X55 -> (true, (false, (true, (false, (true, (false, (true, false)))))))
| X56 -> (false, (true, (true, (false, (true, (false, (true, false)))))))
| X57 -> (true, (true, (true, (false, (true, (false, (true, false)))))))
| X58 -> (false, (false, (false, (true, (true, (false, (true, false)))))))
| X59 -> (true, (false, (false, (true, (true, (false, (true, false)))))))
| X5a -> (false, (true, (false, (true, (true, (false, (true, false)))))))
| X5b -> (true, (true, (false, (true, (true, (false, (true, false)))))))
| X5c -> (false, (false, (true, (true, (true, (false, (true, false)))))))
| X5d -> (true, (false, (true, (true, (true, (false, (true, false)))))))
| X5e -> (false, (true, (true, (true, (true, (false, (true, false)))))))
| X5f -> (true, (true, (true, (true, (true, (false, (true, false)))))))
| X60 -> (false, (false, (false, (false, (false, (true, (true, false)))))))
| X61 -> (true, (false, (false, (false, (false, (true, (true, false)))))))
| X62 -> (false, (true, (false, (false, (false, (true, (true, false)))))))
| X63 -> (true, (true, (false, (false, (false, (true, (true, false)))))))
| X64 -> (false, (false, (true, (false, (false, (true, (true, false)))))))
| X65 -> (true, (false, (true, (false, (false, (true, (true, false)))))))
| X66 -> (false, (true, (true, (false, (false, (true, (true, false)))))))
| X67 -> (true, (true, (true, (false, (false, (true, (true, false)))))))
| X68 -> (false, (false, (false, (true, (false, (true, (true, false)))))))
| X69 -> (true, (false, (false, (true, (false, (true, (true, false)))))))
| X6a -> (false, (true, (false, (true, (false, (true, (true, false)))))))
| X6b -> (true, (true, (false, (true, (false, (true, (true, false)))))))
| X6c -> (false, (false, (true, (true, (false, (true, (true, false)))))))
| X6d -> (true, (false, (true, (true, (false, (true, (true, false)))))))
| X6e -> (false, (true, (true, (true, (false, (true, (true, false)))))))
| X6f -> (true, (true, (true, (true, (false, (true, (true, false)))))))
| X70 -> (false, (false, (false, (false, (true, (true, (true, false)))))))
| X71 -> (true, (false, (false, (false, (true, (true, (true, false)))))))
| X72 -> (false, (true, (false, (false, (true, (true, (true, false)))))))
| X73 -> (true, (true, (false, (false, (true, (true, (true, false)))))))
| X74 -> (false, (false, (true, (false, (true, (true, (true, false)))))))
| X75 -> (true, (false, (true, (false, (true, (true, (true, false)))))))
| X76 -> (false, (true, (true, (false, (true, (true, (true, false)))))))
| X77 -> (true, (true, (true, (false, (true, (true, (true, false)))))))
| X78 -> (false, (false, (false, (true, (true, (true, (true, false)))))))
| X79 -> (true, (false, (false, (true, (true, (true, (true, false)))))))
| X7a -> (false, (true, (false, (true, (true, (true, (true, false)))))))
| X7b -> (true, (true, (false, (true, (true, (true, (true, false)))))))
| X7c -> (false, (false, (true, (true, (true, (true, (true, false)))))))
| X7d -> (true, (false, (true, (true, (true, (true, (true, false)))))))
| X7e -> (false, (true, (true, (true, (true, (true, (true, false)))))))
| X7f -> (true, (true, (true, (true, (true, (true, (true, false)))))))
| X80 -> (false, (false, (false, (false, (false, (false, (false, true)))))))
| X81 -> (true, (false, (false, (false, (false, (false, (false, true)))))))
| X82 -> (false, (true, (false, (false, (false, (false, (false, true)))))))
| X83 -> (true, (true, (false, (false, (false, (false, (false, true)))))))
| X84 -> (false, (false, (true, (false, (false, (false, (false, true)))))))
| X85 -> (true, (false, (true, (false, (false, (false, (false, true)))))))
| X86 -> (false, (true, (true, (false, (false, (false, (false, true)))))))
| X87 -> (true, (true, (true, (false, (false, (false, (false, true)))))))
| X88 -> (false, (false, (false, (true, (false, (false, (false, true)))))))
| X89 -> (true, (false, (false, (true, (false, (false, (false, true)))))))
| X8a -> (false, (true, (false, (true, (false, (false, (false, true)))))))
| X8b -> (true, (true, (false, (true, (false, (false, (false, true)))))))
| X8c -> (false, (false, (true, (true, (false, (false, (false, true)))))))
| X8d -> (true, (false, (true, (true, (false, (false, (false, true)))))))
| X8e -> (false, (true, (true, (true, (false, (false, (false, true)))))))
| X8f -> (true, (true, (true, (true, (false, (false, (false, true)))))))
| X90 -> (false, (false, (false, (false, (true, (false, (false, true)))))))
| X91 -> (true, (false, (false, (false, (true, (false, (false, true)))))))
| X92 -> (false, (true, (false, (false, (true, (false, (false, true)))))))
| X93 -> (true, (true, (false, (false, (true, (false, (false, true)))))))
| X94 -> (false, (false, (true, (false, (true, (false, (false, true)))))))
| X95 -> (true, (false, (true, (false, (true, (false, (false, true)))))))
| X96 -> (false, (true, (true, (false, (true, (false, (false, true)))))))
| X97 -> (true, (true, (true, (false, (true, (false, (false, true)))))))
| X98 -> (false, (false, (false, (true, (true, (false, (false, true)))))))
| X99 -> (true, (false, (false, (true, (true, (false, (false, true)))))))
| X9a -> (false, (true, (false, (true, (true, (false, (false, true)))))))
| X9b -> (true, (true, (false, (true, (true, (false, (false, true)))))))
| X9c -> (false, (false, (true, (true, (true, (false, (false, true)))))))
| X9d -> (true, (false, (true, (true, (true, (false, (false, true)))))))
| X9e -> (false, (true, (true, (true, (true, (false, (false, true)))))))
| X9f -> (true, (true, (true, (true, (true, (false, (false, true)))))))
| Xa0 -> (false, (false, (false, (false, (false, (true, (false, true)))))))
| Xa1 -> (true, (false, (false, (false, (false, (true, (false, true)))))))
| Xa2 -> (false, (true, (false, (false, (false, (true, (false, true)))))))
| Xa3 -> (true, (true, (false, (false, (false, (true, (false, true)))))))
| Xa4 -> (false, (false, (true, (false, (false, (true, (false, true)))))))
| Xa5 -> (true, (false, (true, (false, (false, (true, (false, true)))))))
| Xa6 -> (false, (true, (true, (false, (false, (true, (false, true)))))))
| Xa7 -> (true, (true, (true, (false, (false, (true, (false, true)))))))
| Xa8 -> (false, (false, (false, (true, (false, (true, (false, true)))))))
| Xa9 -> (true, (false, (false, (true, (false, (true, (false, true)))))))
| Xaa -> (false, (true, (false, (true, (false, (true, (false, true)))))))
| Xab -> (true, (true, (false, (true, (false, (true, (false, true)))))))
| Xac -> (false, (false, (true, (true, (false, (true, (false, true)))))))
| Xad -> (true, (false, (true, (true, (false, (true, (false, true)))))))
| Xae -> (false, (true, (true, (true, (false, (true, (false, true)))))))
| Xaf -> (true, (true, (true, (true, (false, (true, (false, true)))))))
| Xb0 -> (false, (false, (false, (false, (true, (true, (false, true)))))))
| Xb1 -> (true, (false, (false, (false, (true, (true, (false, true)))))))
| Xb2 -> (false, (true, (false, (false, (true, (true, (false, true)))))))
| Xb3 -> (true, (true, (false, (false, (true, (true, (false, true)))))))
| Xb4 -> (false, (false, (true, (false, (true, (true, (false, true)))))))
| Xb5 -> (true, (false, (true, (false, (true, (true, (false, true)))))))
| Xb6 -> (false, (true, (true, (false, (true, (true, (false, true)))))))
| Xb7 -> (true, (true, (true, (false, (true, (true, (false, true)))))))
| Xb8 -> (false, (false, (false, (true, (true, (true, (false, true)))))))
| Xb9 -> (true, (false, (false, (true, (true, (true, (false, true)))))))
| Xba -> (false, (true, (false, (true, (true, (true, (false, true)))))))
| Xbb -> (true, (true, (false, (true, (true, (true, (false, true)))))))
| Xbc -> (false, (false, (true, (true, (true, (true, (false, true)))))))
| Xbd -> (true, (false, (true, (true, (true, (true, (false, true)))))))
| Xbe -> (false, (true, (true, (true, (true, (true, (false, true)))))))
| Xbf -> (true, (true, (true, (true, (true, (true, (false, true)))))))
| Xc0 -> (false, (false, (false, (false, (false, (false, (true, true)))))))
| Xc1 -> (true, (false, (false, (false, (false, (false, (true, true)))))))
| Xc2 -> (false, (true, (false, (false, (false, (false, (true, true)))))))
| Xc3 -> (true, (true, (false, (false, (false, (false, (true, true)))))))
| Xc4 -> (false, (false, (true, (false, (false, (false, (true, true)))))))
| Xc5 -> (true, (false, (true, (false, (false, (false, (true, true)))))))
| Xc6 -> (false, (true, (true, (false, (false, (false, (true, true)))))))
| Xc7 -> (true, (true, (true, (false, (false, (false, (true, true)))))))
| Xc8 -> (false, (false, (false, (true, (false, (false, (true, true)))))))
| Xc9 -> (true, (false, (false, (true, (false, (false, (true, true)))))))
| Xca -> (false, (true, (false, (true, (false, (false, (true, true)))))))
| Xcb -> (true, (true, (false, (true, (false, (false, (true, true)))))))
| Xcc -> (false, (false, (true, (true, (false, (false, (true, true)))))))
| Xcd -> (true, (false, (true, (true, (false, (false, (true, true)))))))
| Xce -> (false, (true, (true, (true, (false, (false, (true, true)))))))
| Xcf -> (true, (true, (true, (true, (false, (false, (true, true)))))))
| Xd0 -> (false, (false, (false, (false, (true, (false, (true, true)))))))
| Xd1 -> (true, (false, (false, (false, (true, (false, (true, true)))))))
| Xd2 -> (false, (true, (false, (false, (true, (false, (true, true)))))))
| Xd3 -> (true, (true, (false, (false, (true, (false, (true, true)))))))
| Xd4 -> (false, (false, (true, (false, (true, (false, (true, true)))))))
| Xd5 -> (true, (false, (true, (false, (true, (false, (true, true)))))))
| Xd6 -> (false, (true, (true, (false, (true, (false, (true, true)))))))
| Xd7 -> (true, (true, (true, (false, (true, (false, (true, true)))))))
| Xd8 -> (false, (false, (false, (true, (true, (false, (true, true)))))))
| Xd9 -> (true, (false, (false, (true, (true, (false, (true, true)))))))
| Xda -> (false, (true, (false, (true, (true, (false, (true, true)))))))
| Xdb -> (true, (true, (false, (true, (true, (false, (true, true)))))))
| Xdc -> (false, (false, (true, (true, (true, (false, (true, true)))))))
| Xdd -> (true, (false, (true, (true, (true, (false, (true, true)))))))
| Xde -> (false, (true, (true, (true, (true, (false, (true, true)))))))
| Xdf -> (true, (true, (true, (true, (true, (false, (true, true)))))))
| Xe0 -> (false, (false, (false, (false, (false, (true, (true, true)))))))
| Xe1 -> (true, (false, (false, (false, (false, (true, (true, true)))))))
| Xe2 -> (false, (true, (false, (false, (false, (true, (true, true)))))))
| Xe3 -> (true, (true, (false, (false, (false, (true, (true, true)))))))
| Xe4 -> (false, (false, (true, (false, (false, (true, (true, true)))))))
| Xe5 -> (true, (false, (true, (false, (false, (true, (true, true)))))))
| Xe6 -> (false, (true, (true, (false, (false, (true, (true, true)))))))
| Xe7 -> (true, (true, (true, (false, (false, (true, (true, true)))))))
| Xe8 -> (false, (false, (false, (true, (false, (true, (true, true)))))))
| Xe9 -> (true, (false, (false, (true, (false, (true, (true, true)))))))
| Xea -> (false, (true, (false, (true, (false, (true, (true, true)))))))
| Xeb -> (true, (true, (false, (true, (false, (true, (true, true)))))))
| Xec -> (false, (false, (true, (true, (false, (true, (true, true)))))))
| Xed -> (true, (false, (true, (true, (false, (true, (true, true)))))))
| Xee -> (false, (true, (true, (true, (false, (true, (true, true)))))))
| Xef -> (true, (true, (true, (true, (false, (true, (true, true)))))))
| Xf0 -> (false, (false, (false, (false, (true, (true, (true, true)))))))
| Xf1 -> (true, (false, (false, (false, (true, (true, (true, true)))))))
| Xf2 -> (false, (true, (false, (false, (true, (true, (true, true)))))))
| Xf3 -> (true, (true, (false, (false, (true, (true, (true, true)))))))
| Xf4 -> (false, (false, (true, (false, (true, (true, (true, true)))))))
| Xf5 -> (true, (false, (true, (false, (true, (true, (true, true)))))))
| Xf6 -> (false, (true, (true, (false, (true, (true, (true, true)))))))
| Xf7 -> (true, (true, (true, (false, (true, (true, (true, true)))))))
| Xf8 -> (false, (false, (false, (true, (true, (true, (true, true)))))))
| Xf9 -> (true, (false, (false, (true, (true, (true, (true, true)))))))
| Xfa -> (false, (true, (false, (true, (true, (true, (true, true)))))))
| Xfb -> (true, (true, (false, (true, (true, (true, (true, true)))))))
| Xfc -> (false, (false, (true, (true, (true, (true, (true, true)))))))
| Xfd -> (true, (false, (true, (true, (true, (true, (true, true)))))))
| Xfe -> (false, (true, (true, (true, (true, (true, (true, true)))))))
| Xff -> (true, (true, (true, (true, (true, (true, (true, true)))))))

(** val eqb : bool -> bool -> bool **)

let eqb b1 b2 =
  if b1 then b2 else if b2 then false else true

module Nat =
 struct
  (** val eqb : nat -> nat -> bool **)

  let rec eqb n0 m0 =
    match n0 with
    | O -> (match m0 with
            | O -> true
            | S _ -> false)
    | S n' -> (match m0 with
               | O -> false
               | S m' -> eqb n' m')

  (** val leb : nat -> nat -> bool **)

  let rec leb n0 m0 =
    match n0 with
    | O -> true
    | S n' -> (match m0 with
               | O -> false
               | S m' -> leb n' m')

  (** val ltb : nat -> nat -> bool **)

  let ltb n0 m0 =
    leb (S n0) m0
 end

(** val nth : nat -> 'a1 list -> 'a1 -> 'a1 **)

let rec nth n0 l default =
  match n0 with
  | O -> (match l with
          | [] -> default
          | x :: _ -> x)
  | S m0 -> (match l with
             | [] -> default
             | _ :: t -> nth m0 t default)

(** val nth_error : 'a1 list -> nat -> 'a1 option **)

let rec nth_error l = function
| O -> (match l with
        | [] -> None
        | x :: _ -> Some x)
| S n1 -> (match l with
           | [] -> None
           | _ :: l0 -> nth_error l0 n1)

(** val rev : 'a1 list -> 'a1 list **)

let rec rev = function
| [] -> []
| x :: l' -> app (rev l') (x :: [])

(** val map : ('a1 -> 'a2) -> 'a1 list -> 'a2 list **)

let rec map f = function
| [] -> []
| a :: t -> (f a) :: (map f t)

(** val flat_map : ('a1 -> 'a2 list) -> 'a1 list -> 'a2 list **)

let rec flat_map f = function
| [] -> []
| x :: t -> app (f x) (flat_map f t)

(** val fold_left : ('a1 -> 'a2 -> 'a1) -> 'a2 list -> 'a1 -> 'a1 **)

let rec fold_left f l a0 =
  match l with
  | [] -> a0
  | b :: t -> fold_left f t (f a0 b)

(** val fold_right : ('a2 -> 'a1 -> 'a1) -> 'a1 -> 'a2 list -> 'a1 **)

let rec fold_right f a0 = function
| [] -> a0
| b :: t -> f b (fold_right f a0 t)

(** val existsb : ('a1 -> bool) -> 'a1 list -> bool **)

let rec existsb f = function
| [] -> false
| a :: l0 -> (||) (f a) (existsb f l0)

(** val filter : ('a1 -> bool) -> 'a1 list -> 'a1 list **)

let rec filter f = function
| [] -> []
| x :: l0 -> if f x then x :: (filter f l0) else filter f l0

(** val find : ('a1 -> bool) -> 'a1 list -> 'a1 option **)

let rec find f = function
| [] -> None
| x :: tl -> if f x then Some x else find f tl

(** val combine : 'a1 list -> 'a2 list -> ('a1 * 'a2) list **)

let rec combine l l' =
  match l with
  | [] -> []
  | x :: tl ->
    (match l' with
     | [] -> []
     | y :: tl' -> (x, y) :: (combine tl tl'))

(** val skipn : nat -> 'a1 list -> 'a1 list **)

let rec skipn n0 l =
  match n0 with
  | O -> l
  | S n1 -> (match l with
             | [] -> []
             | _ :: l0 -> skipn n1 l0)

(** val seq : nat -> nat -> nat list **)

let rec seq start = function
| O -> []
| S len0 -> start :: (seq (S start) len0)

(** val repeat : 'a1 -> nat -> 'a1 list **)

let rec repeat x = function
| O -> []
| S k -> x :: (repeat x k)

type positive =
| XI of positive
| XO of positive
| XH

type n =
| N0
| Npos of positive

type z =
| Z0
| Zpos of positive
| Zneg of positive

module Pos =
 struct
  type mask =
  | IsNul
  | IsPos of positive
  | IsNeg
 end

module Coq_Pos =
 struct
  (** val succ : positive -> positive **)

  let rec succ = function
  | XI p -> XO (succ p)
  | XO p -> XI p
  | XH -> XO XH

  (** val add : positive -> positive -> positive **)

  let rec add x y =
    match x with
    | XI p ->
      (match y with
       | XI q -> XO (add_carry p q)
       | XO q -> XI (add p q)
       | XH -> XO (succ p))
    | XO p ->
      (match y with
       | XI q -> XI (add p q)
       | XO q -> XO (add p q)
       | XH -> XI p)
    | XH -> (match y with
             | XI q -> XO (succ q)
             | XO q -> XI q
             | XH -> XO XH)

  (** val add_carry : positive -> positive -> positive **)

  and add_carry x y =
    match x with
    | XI p ->
      (match y with
       | XI q -> XI (add_carry p q)
       | XO q -> XO (add_carry p q)
       | XH -> XI (succ p))
    | XO p ->
      (match y with
       | XI q -> XO (add_carry p q)
       | XO q -> XI (add p q)
       | XH -> XO (succ p))
    | XH ->
      (match y with
       | XI q -> XI (succ q)
       | XO q -> XO (succ q)
       | XH -> XI XH)

  (** val pred_double : positive -> positive **)

  let rec pred_double = function
  | XI p -> XI (XO p)
  | XO p -> XI (pred_double p)
  | XH -> XH

  type mask = Pos.mask =
  | IsNul
  | IsPos of positive
  | IsNeg

  (** val succ_double_mask : mask -> mask **)

  let succ_double_mask = function
  | IsNul -> IsPos XH
  | IsPos p -> IsPos (XI p)
  | IsNeg -> IsNeg

  (** val double_mask : mask -> mask **)

  let double_mask = function
  | IsPos p -> IsPos (XO p)
  | x0 -> x0

  (** val double_pred_mask : positive -> mask **)

  let double_pred_mask = function
  | XI p -> IsPos (XO (XO p))
  | XO p -> IsPos (XO (pred_double p))
  | XH -> IsNul

  (** val sub_mask : positive -> positive -> mask **)

  let rec sub_mask x y =
    match x with
    | XI p ->
      (match y with
       | XI q -> double_mask (sub_mask p q)
       | XO q -> succ_double_mask (sub_mask p q)
       | XH -> IsPos (XO p))
    | XO p ->
      (match y with
       | XI q -> succ_double_mask (sub_mask_carry p q)
       | XO q -> double_mask (sub_mask p q)
       | XH -> IsPos (pred_double p))
    | XH -> (match y with
             | XH -> IsNul
             | _ -> IsNeg)

  (** val sub_mask_carry : positive -> positive -> mask **)

  and sub_mask_carry x y =
    match x with
    | XI p ->
      (match y with
       | XI q -> succ_double_mask (sub_mask_carry p q)
       | XO q -> double_mask (sub_mask p q)
       | XH -> IsPos (pred_double p))
    | XO p ->
      (match y with
       | XI q -> double_mask (sub_mask_carry p q)
       | XO q -> succ_double_mask (sub_mask_carry p q)
       | XH -> double_pred_mask p)
    | XH -> IsNeg

  (** val mul : positive -> positive -> positive **)

  let rec mul x y =
    match x with
    | XI p -> add y (XO (mul p y))
    | XO p -> XO (mul p y)
    | XH -> y

  (** val iter : ('a1 -> 'a1) -> 'a1 -> positive -> 'a1 **)

  let rec iter f x = function
  | XI n' -> f (iter f (iter f x n') n')
  | XO n' -> iter f (iter f x n') n'
  | XH -> f x

  (** val pow : positive -> positive -> positive **)

  let pow x =
    iter (mul x) XH

  (** val size : positive -> positive **)

  let rec size = function
  | XI p0 -> succ (size p0)
  | XO p0 -> succ (size p0)
  | XH -> XH

  (** val compare_cont : comparison -> positive -> positive -> comparison **)

  let rec compare_cont r x y =
    match x with
    | XI p ->
      (match y with
       | XI q -> compare_cont r p q
       | XO q -> compare_cont Gt p q
       | XH -> Gt)
    | XO p ->
      (match y with
       | XI q -> compare_cont Lt p q
       | XO q -> compare_cont r p q
       | XH -> Gt)
    | XH -> (match y with
             | XH -> r
             | _ -> Lt)

  (** val compare : positive -> positive -> comparison **)

  let compare =
    compare_cont Eq

  (** val eqb : positive -> positive -> bool **)

  let rec eqb p q =
    match p with
    | XI p0 -> (match q with
                | XI q0 -> eqb p0 q0
                | _ -> false)
    | XO p0 -> (match q with
                | XO q0 -> eqb p0 q0
                | _ -> false)
    | XH -> (match q with
             | XH -> true
             | _ -> false)

  (** val iter_op : ('a1 -> 'a1 -> 'a1) -> positive -> 'a1 -> 'a1 **)

  let rec iter_op op p a =
    match p with
    | XI p0 -> op a (iter_op op p0 (op a a))
    | XO p0 -> iter_op op p0 (op a a)
    | XH -> a

  (** val to_nat : positive -> nat **)

  let to_nat x =
    iter_op Coq__1.add x (S O)

  (** val of_succ_nat : nat -> positive **)

  let rec of_succ_nat = function
  | O -> XH
  | S x -> succ (of_succ_nat x)
 end

module N =
 struct
  (** val succ_double : n -> n **)

  let succ_double = function
  | N0 -> Npos XH
  | Npos p -> Npos (XI p)

  (** val double : n -> n **)

  let double = function
  | N0 -> N0
  | Npos p -> Npos (XO p)

  (** val add : n -> n -> n **)

  let add n0 m0 =
    match n0 with
    | N0 -> m0
    | Npos p -> (match m0 with
                 | N0 -> n0
                 | Npos q -> Npos (Coq_Pos.add p q))

  (** val sub : n -> n -> n **)

  let sub n0 m0 =
    match n0 with
    | N0 -> N0
    | Npos n' ->
      (match m0 with
       | N0 -> n0
       | Npos m' ->
         (match Coq_Pos.sub_mask n' m' with
          | Coq_Pos.IsPos p -> Npos p
          | _ -> N0))

  (** val mul : n -> n -> n **)

  let mul n0 m0 =
    match n0 with
    | N0 -> N0
    | Npos p -> (match m0 with
                 | N0 -> N0
                 | Npos q -> Npos (Coq_Pos.mul p q))

  (** val compare : n -> n -> comparison **)

  let compare n0 m0 =
    match n0 with
    | N0 -> (match m0 with
             | N0 -> Eq
             | Npos _ -> Lt)
    | Npos n' -> (match m0 with
                  | N0 -> Gt
                  | Npos m' -> Coq_Pos.compare n' m')

  (** val eqb : n -> n -> bool **)

  let eqb n0 m0 =
    match n0 with
    | N0 -> (match m0 with
             | N0 -> true
             | Npos _ -> false)
    | Npos p -> (match m0 with
                 | N0 -> false
                 | Npos q -> Coq_Pos.eqb p q)

  (** val leb : n -> n -> bool **)

  let leb x y =
    match compare x y with
    | Gt -> false
    | _ -> true

  (** val ltb : n -> n -> bool **)

  let ltb x y =
    match compare x y with
    | Lt -> true
    | _ -> false

  (** val max : n -> n -> n **)

  let max n0 n' =
    match compare n0 n' with
    | Gt -> n0
    | _ -> n'

  (** val pow : n -> n -> n **)

  let pow n0 = function
  | N0 -> Npos XH
  | Npos p0 -> (match n0 with
                | N0 -> N0
                | Npos q -> Npos (Coq_Pos.pow q p0))

  (** val log2 : n -> n **)

  let log2 = function
  | N0 -> N0
  | Npos p0 ->
    (match p0 with
     | XI p -> Npos (Coq_Pos.size p)
     | XO p -> Npos (Coq_Pos.size p)
     | XH -> N0)

  (** val pos_div_eucl : positive -> n -> n * n **)

  let rec pos_div_eucl a b =
    match a with
    | XI a' ->
      let (q, r) = pos_div_eucl a' b in
      let r' = succ_double r in
      if leb b r' then ((succ_double q), (sub r' b)) else ((double q), r')
    | XO a' ->
      let (q, r) = pos_div_eucl a' b in
      let r' = double r in
      if leb b r' then ((succ_double q), (sub r' b)) else ((double q), r')
    | XH ->
      (match b with
       | N0 -> (N0, (Npos XH))
       | Npos p -> (match p with
                    | XH -> ((Npos XH), N0)
                    | _ -> (N0, (Npos XH))))

  (** val div_eucl : n -> n -> n * n **)

  let div_eucl a b =
    match a with
    | N0 -> (N0, N0)
    | Npos na -> (match b with
                  | N0 -> (N0, a)
                  | Npos _ -> pos_div_eucl na b)

  (** val div : n -> n -> n **)

  let div a b =
    fst (div_eucl a b)

  (** val to_nat : n -> nat **)

  let to_nat = function
  | N0 -> O
  | Npos p -> Coq_Pos.to_nat p

  (** val of_nat : nat -> n **)

  let of_nat = function
  | O -> N0
  | S n' -> Npos (Coq_Pos.of_succ_nat n')
 end

(** val eqb0 : byte -> byte -> bool **)

let eqb0 a b =
  let (a0, p) = to_bits a in
  let (a1, p0) = p in
  let (a2, p1) = p0 in
  let (a3, p2) = p1 in
  let (a4, p3) = p2 in
  let (a5, p4) = p3 in
  let (a6, a7) = p4 in
  let (b0, p5) = to_bits b in
  let (b1, p6) = p5 in
  let (b2, p7) = p6 in
  let (b3, p8) = p7 in
  let (b4, p9) = p8 in
  let (b5, p10) = p9 in
  let (b6, b7) = p10 in
  (&&)
    ((&&)
      ((&&)
        ((&&)
          ((&&) ((&&) ((&&) (eqb a0 b0) (eqb a1 b1)) (eqb a2 b2)) (eqb a3 b3))
          (eqb a4 b4)) (eqb a5 b5)) (eqb a6 b6)) (eqb a7 b7)

(** val to_N : byte -> n **)

let to_N = function
| X00 -> N0
| X01 -> Npos XH
| X02 -> Npos (XO XH)
| X03 -> Npos (XI XH)
| X04 -> Npos (XO (XO XH))
| X05 -> Npos (XI (XO XH))
| X06 -> Npos (XO (XI XH))
| X07 -> Npos (XI (XI XH))
| X08 -> Npos (XO (XO (XO XH)))
| X09 -> Npos (XI (XO (XO XH)))
| X0a -> Npos (XO (XI (XO XH)))
| X0b -> Npos (XI (XI (XO XH)))
| X0c -> Npos (XO (XO (XI XH)))
| X0d -> Npos (XI (XO (XI XH)))
| X0e -> Npos (XO (XI (XI XH)))
| X0f -> Npos (XI (XI (XI XH)))
| X10 -> Npos (XO (XO (XO (XO XH))))
| X11 -> Npos (XI (XO (XO (XO XH))))
| X12 -> Npos (XO (XI (XO (XO XH))))
| X13 -> Npos (XI (XI (XO (XO XH))))
| X14 -> Npos (XO (XO (XI (XO XH))))
| X15 -> Npos (XI (XO (XI (XO XH))))
| X16 -> Npos (XO (XI (XI (XO XH))))
| X17 -> Npos (XI (XI (XI (XO XH))))
| X18 -> Npos (XO (XO (XO (XI XH))))
| X19 -> Npos (XI (XO (XO (XI XH))))
| X1a -> Npos (XO (XI (XO (XI XH))))
| X1b -> Npos (XI (XI (XO (XI XH))))
| X1c -> Npos (XO (XO (XI (XI XH))))
| X1d -> Npos (XI (XO (XI (XI XH))))
| X1e -> Npos (XO (XI (XI (XI XH))))
| X1f -> Npos (XI (XI (XI (XI XH))))
| X20 -> Npos (XO (XO (XO (XO (XO XH)))))
| X21 -> Npos (XI (XO (XO (XO (XO XH)))))
| X22 -> Npos (XO (XI (XO (XO (XO XH)))))
| X23 -> Npos (XI (XI (XO (XO (XO XH)))))
| X24 -> Npos (XO (XO (XI (XO (XO XH)))))
| X25 -> Npos (XI (XO (XI (XO (XO XH)))))
| X26 -> Npos (XO (XI (XI (XO (XO XH)))))
| X27 -> Npos (XI (XI (XI (XO (XO XH)))))
| X28 -> Npos (XO (XO (XO (XI (XO XH)))))
| X29 -> Npos (XI (XO (XO (XI (XO XH)))))
| X2a -> Npos (XO (XI (XO (XI (XO XH)))))
| X2b -> Npos (XI (XI (XO (XI (XO XH)))))
| X2c -> Npos (XO (XO (XI (XI (XO XH)))))
| X2d -> Npos (XI (XO (XI (XI (XO XH)))))
| X2e -> Npos (XO (XI (XI (XI (XO XH)))))
| X2f -> Npos (XI (XI (XI (XI (XO XH)))))
| X30 -> Npos (XO (XO (XO (XO (XI XH)))))
| X31 -> Npos (XI (XO (XO (XO (XI XH)))))
| X32 -> Npos (XO (XI (XO (XO (XI XH)))))
| X33 -> Npos (XI (XI (XO (XO (XI XH)))))
| X34 -> Npos (XO (XO (XI (XO (XI XH)))))
| X35 -> Npos (XI (XO (XI (XO (XI XH)))))
| X36 -> Npos (XO (XI (XI (XO (XI XH)))))
| X37 -> Npos (XI (XI (XI (XO (XI XH)))))
| X38 -> Npos (XO (XO (XO (XI (XI XH)))))
| X39 -> Npos (XI (XO (XO (XI (XI XH)))))
| X3a -> Npos (XO (XI (XO (XI (XI XH)))))
| X3b -> Npos (XI (XI (XO (XI (XI XH)))))
| X3c -> Npos (XO (XO (XI (XI (XI XH)))))
| X3d -> Npos (XI (XO (XI (XI (XI XH)))))
| X3e -> Npos (XO (XI (XI (XI (XI XH)))))
| X3f -> Npos (XI (XI (XI (XI (XI XH)))))
| X40 -> Npos (XO (XO (XO (XO (XO (XO XH))))))
| X41 -> Npos (XI (XO (XO (XO (XO (XO XH))))))
| X42 -> Npos (XO (XI (XO (XO (XO (XO XH))))))
| X43 -> Npos (XI (XI (XO (XO (XO (XO XH))))))
| X44 -> Npos (XO (XO (XI (XO (XO (XO XH))))))
| X45 -> Npos (XI (XO (XI (XO (XO (XO XH))))))
| X46 -> Npos (XO (XI (XI (XO (XO (XO XH))))))
| X47 -> Npos (XI (XI (XI (XO (XO (XO XH))))))
| X48 -> Npos (XO (XO (XO (XI (XO (XO XH))))))
| X49 -> Npos (XI (XO (XO (XI (XO (XO XH))))))
| X4a -> Npos (XO (XI (XO (XI (XO (XO XH))))))
| X4b -> Npos (XI (XI (XO (XI (XO (XO XH))))))
| X4c -> Npos (XO (XO (XI (XI (XO (XO XH))))))
| X4d -> Npos (XI (XO (XI (XI (XO (XO XH))))))
| X4e -> Npos (XO (XI (XI (XI (XO (XO XH))))))
| X4f -> Npos (XI (XI (XI (XI (XO (XO XH))))))
| X50 -> Npos (XO (XO (XO (XO (XI (XO XH))))))
| X51 -> Npos (XI (XO (XO (XO (XI (XO XH))))))
| X52 -> Npos (XO (XI (XO (XO (XI (XO XH))))))
| X53 -> Npos (XI (XI (XO (XO (XI (XO XH))))))
| X54 -> Npos (XO (XO (XI (XO (XI (XO XH))))))
| X55 -> Npos (XI (XO (XI (XO (XI (XO XH))))))
| X56 -> Npos (XO (XI (XI (XO (XI (XO XH))))))
| X57 -> Npos (XI (XI (XI (XO (XI (XO XH))))))
| X58 -> Npos (XO (XO (XO (XI (XI (XO XH))))))
| X59 -> Npos (XI (XO (XO (XI (XI (XO XH))))))
| X5a -> Npos (XO (XI (XO (XI (XI (XO XH))))))
| X5b -> Npos (XI (XI (XO (XI (XI (XO XH))))))
| X5c -> Npos (XO (XO (XI (XI (XI (XO XH))))))
| X5d -> Npos (XI (XO (XI (XI (XI (XO XH))))))
| X5e -> Npos (XO (XI (XI (XI (XI (XO XH))))))
| X5f -> Npos (XI (XI (XI (XI (XI (XO XH))))))
| X60 -> Npos (XO (XO (XO (XO (XO (XI XH))))))
| X61 -> Npos (XI (XO (XO (XO (XO (XI XH))))))
| X62 -> Npos (XO (XI (XO (XO (XO (XI XH))))))
| X63 -> Npos (XI (XI (XO (XO (XO (XI XH))))))
| X64 -> Npos (XO (XO (XI (XO (XO (XI XH))))))
| X65 -> Npos (XI (XO (XI (XO (XO (XI XH))))))
| X66 -> Npos (XO (XI (XI (XO (XO (XI XH))))))
| X67 -> Npos (XI (XI (XI (XO (XO (XI XH))))))
| X68 -> Npos (XO (XO (XO (XI (XO (XI XH))))))
| X69 -> Npos (XI (XO (XO (XI (XO (XI XH))))))
| X6a -> Npos (XO (XI (XO (XI (XO (XI XH))))))
| X6b -> Npos (XI (XI (XO (XI (XO (XI XH))))))
| X6c -> Npos (XO (XO (XI (XI (XO (XI XH))))))
| X6d -> Npos (XI (XO (XI (XI (XO (XI XH))))))
| X6e -> Npos (XO (XI (XI (XI (XO (XI XH))))))
| X6f -> Npos (XI (XI (XI (XI (XO (XI XH))))))
| X70 -> Npos (XO (XO (XO (XO (XI (XI XH))))))
| X71 -> Npos (XI (XO (XO (XO (XI (XI XH))))))
| X72 -> Npos (XO (XI (XO (XO (XI (XI XH))))))
| X73 -> Npos (XI (XI (XO (XO (XI (XI XH))))))
| X74 -> Npos (XO (XO (XI (XO (XI (XI XH))))))
| X75 -> Npos (XI (XO (XI (XO (XI (XI XH))))))
| X76 -> Npos (XO (XI (XI (XO (XI (XI XH))))))
| X77 -> Npos (XI (XI (XI (XO (XI (XI XH))))))
| X78 -> Npos (XO (XO (XO (XI (XI (XI XH))))))
| X79 -> Npos (XI (XO (XO (XI (XI (XI XH))))))
| X7a -> Npos (XO (XI (XO (XI (XI (XI XH))))))
| X7b -> Npos (XI (XI (XO (XI (XI (XI XH))))))
| X7c -> Npos (XO (XO (XI (XI (XI (XI XH))))))
| X7d -> Npos (XI (XO (XI (XI (XI (XI XH))))))
| X7e -> Npos (XO (XI (XI (XI (XI (XI XH))))))
| X7f -> Npos (XI (XI (XI (XI (XI (XI XH))))))
| X80 -> Npos (XO (XO (XO (XO (XO (XO (XO XH)))))))
| X81 -> Npos (XI (XO (XO (XO (XO (XO (XO XH)))))))
| X82 -> Npos (XO (XI (XO (XO (XO (XO (XO XH)))))))
| X83 -> Npos (XI (XI (XO (XO (XO (XO (XO XH)))))))
| X84 -> Npos (XO (XO (XI (XO (XO (XO (XO XH)))))))
| X85 -> Npos (XI (XO (XI (XO (XO (XO (XO XH)))))))
| X86 -> Npos (XO (XI (XI (XO (XO (XO (XO XH)))))))
| X87 -> Npos (XI (XI (XI (XO (XO (XO (XO XH)))))))
| X88 -> Npos (XO (XO (XO (XI (XO (XO (XO XH)))))))
| X89 -> Npos (XI (XO (XO (XI (XO (XO (XO XH)))))))
| X8a -> Npos (XO (XI (XO (XI (XO (XO (XO XH)))))))
| X8b -> Npos (XI (XI (XO (XI (XO (XO (XO XH)))))))
| X8c -> Npos (XO (XO (XI (XI (XO (XO (XO XH)))))))
| X8d -> Npos (XI (XO (XI (XI (XO (XO (XO XH)))))))
| X8e -> Npos (XO (XI (XI (XI (XO (XO (XO XH)))))))
| X8f -> Npos (XI (XI (XI (XI (XO (XO (XO XH)))))))
| X90 -> Npos (XO (XO (XO (XO (XI (XO (XO XH)))))))
| X91 -> Npos (XI (XO (XO (XO (XI (XO (XO XH)))))))
| X92 -> Npos (XO (XI (XO (XO (XI (XO (XO XH)))))))
| X93 -> Npos (XI (XI (XO (XO (XI (XO (XO XH)))))))
| X94 -> Npos (XO (XO (XI (XO (XI (XO (XO XH)))))))
| X95 -> Npos (XI (XO (XI (XO (XI (XO (XO XH)))))))
| X96 -> Npos (XO (XI (XI (XO (XI (XO (XO XH)))))))
| X97 -> Npos (XI (XI (XI (XO (XI (XO (XO XH)))))))
| X98 -> Npos (XO (XO (XO (XI (XI (XO (XO XH)))))))
| X99 -> Npos (XI (XO (XO (XI (XI (XO (XO XH)))))))
| X9a -> Npos (XO (XI (XO (XI (XI (XO (XO XH)))))))
| X9b -> Npos (XI (XI (XO (XI (XI (XO (XO XH)))))))
| X9c -> Npos (XO (XO (XI (XI (XI (XO (XO XH)))))))
| X9d -> Npos (XI (XO (XI (XI (XI (XO (XO XH)))))))
| X9e -> Npos (XO (XI (XI (XI (XI (XO (XO XH)))))))
| X9f -> Npos (XI (XI (XI (XI (XI (XO (XO XH)))))))
| Xa0 -> Npos (XO (XO (XO (XO (XO (XI (XO XH)))))))
| Xa1 -> Npos (XI (XO (XO (XO (XO (XI (XO XH)))))))
| Xa2 -> Npos (XO (XI (XO (XO (XO (XI (XO XH)))))))
| Xa3 -> Npos (XI (XI (XO (XO (XO (XI (XO XH)))))))
| Xa4 -> Npos (XO (XO (XI (XO (XO (XI (XO XH)))))))
| Xa5 -> Npos (XI (XO (XI (XO (XO (XI (XO XH)))))))
| Xa6 -> Npos (XO (XI (XI (XO (XO (XI (XO XH)))))))
| Xa7 -> Npos (XI (XI (XI (XO (XO (XI (XO XH)))))))
| Xa8 -> Npos (XO (XO (XO (XI (XO (XI (XO XH)))))))
| Xa9 -> Npos (XI (XO (XO (XI (XO (XI (XO XH)))))))
| Xaa -> Npos (XO (XI (XO (XI (XO (XI (XO XH)))))))
| Xab -> Npos (XI (XI (XO (XI (XO (XI (XO XH)))))))
| Xac -> Npos (XO (XO (XI (XI (XO (XI (XO XH)))))))
| Xad -> Npos (XI (XO (XI (XI (XO (XI (XO XH)))))))
| Xae -> Npos (XO (XI (XI (XI (XO (XI (XO XH)))))))
| Xaf -> Npos (XI (XI (XI (XI (XO (XI (XO XH)))))))
| Xb0 -> Npos (XO (XO (XO (XO (XI (XI (XO XH)))))))
| Xb1 -> Npos (XI (XO (XO (XO (XI (XI (XO XH)))))))
| Xb2 -> Npos (XO (XI (XO (XO (XI (XI (XO XH)))))))
| Xb3 -> Npos (XI (XI (XO (XO (XI (XI (XO XH)))))))
| Xb4 -> Npos (XO (XO (XI (XO (XI (XI (XO XH)))))))
| Xb5 -> Npos (XI (XO (XI (XO (XI (XI (XO XH)))))))
| Xb6 -> Npos (XO (XI (XI (XO (XI (XI (XO XH)))))))
| Xb7 -> Npos (XI (XI (XI (XO (XI (XI (XO XH)))))))
| Xb8 -> Npos (XO (XO (XO (XI (XI (XI (XO XH)))))))
| Xb9 -> Npos (XI (XO (XO (XI (XI (XI (XO XH)))))))
| Xba -> Npos (XO (XI (XO (XI (XI (XI (XO XH)))))))
| Xbb -> Npos (XI (XI (XO (XI (XI (XI (XO XH)))))))
| Xbc -> Npos (XO (XO (XI (XI (XI (XI (XO XH)))))))
| Xbd -> Npos (XI (XO (XI (XI (XI (XI (XO XH)))))))
| Xbe -> Npos (XO (XI (XI (XI (XI (XI (XO XH)))))))
| Xbf -> Npos (XI (XI (XI (XI (XI (XI (XO XH)))))))
| Xc0 -> Npos (XO (XO (XO (XO (XO (XO (XI XH)))))))
| Xc1 -> Npos (XI (XO (XO (XO (XO (XO (XI XH)))))))
| Xc2 -> Npos (XO (XI (XO (XO (XO (XO (XI XH)))))))
| Xc3 -> Npos (XI (XI (XO (XO (XO (XO (XI XH)))))))
| Xc4 -> Npos (XO (XO (XI (XO (XO (XO (XI XH)))))))
| Xc5 -> Npos (XI (XO (XI (XO (XO (XO (XI XH)))))))
| Xc6 -> Npos (XO (XI (XI (XO (XO (XO (XI XH)))))))
| Xc7 -> Npos (XI (XI (XI (XO (XO (XO (XI XH)))))))
| Xc8 -> Npos (XO (XO (XO (XI (XO (XO (XI XH)))))))
| Xc9 -> Npos (XI (XO (XO (XI (XO (XO (XI XH)))))))
| Xca -> Npos (XO (XI (XO (XI (XO (XO (XI XH)))))))
| Xcb -> Npos (XI (XI (XO (XI (XO (XO (XI XH)))))))
| Xcc -> Npos (XO (XO (XI (XI (XO (XO (XI XH)))))))
| Xcd -> Npos (XI (XO (XI (XI (XO (XO (XI XH)))))))
| Xce -> Npos (XO (XI (XI (XI (XO (XO (XI XH)))))))
| Xcf -> Npos (XI (XI (XI (XI (XO (XO (XI XH)))))))
| Xd0 -> Npos (XO (XO (XO (XO (XI (XO (XI XH)))))))
| Xd1 -> Npos (XI (XO (XO (XO (XI (XO (XI XH)))))))
| Xd2 -> Npos (XO (XI (XO (XO (XI (XO (XI XH)))))))
| Xd3 -> Npos (XI (XI (XO (XO (XI (XO (XI XH)))))))
| Xd4 -> Npos (XO (XO (XI (XO (XI (XO (XI XH)))))))
| Xd5 -> Npos (XI (XO (XI (XO (XI (XO (XI XH)))))))
| Xd6 -> Npos (XO (XI (XI (XO (XI (XO (XI XH)))))))
| Xd7 -> Npos (XI (XI (XI (XO (XI (XO (XI XH)))))))
| Xd8 -> Npos (XO (XO (XO (XI (XI (XO (XI XH)))))))
| Xd9 -> Npos (XI (XO (XO (XI (XI (XO (XI XH)))))))
| Xda -> Npos (XO (XI (XO (XI (XI (XO (XI XH)))))))
| Xdb -> Npos (XI (XI (XO (XI (XI (XO (XI XH)))))))
| Xdc -> Npos (XO (XO (XI (XI (XI (XO (XI XH)))))))
| Xdd -> Npos (XI (XO (XI (XI (XI (XO (XI XH)))))))
| Xde -> Npos (XO (XI (XI (XI (XI (XO (XI XH)))))))
| Xdf -> Npos (XI (XI (XI (XI (XI (XO (XI XH)))))))
| Xe0 -> Npos (XO (XO (XO (XO (XO (XI (XI XH)))))))
| Xe1 -> Npos (XI (XO (XO (XO (XO (XI (XI XH)))))))
| Xe2 -> Npos (XO (XI (XO (XO (XO (XI (XI XH)))))))
| Xe3 -> Npos (XI (XI (XO (XO (XO (XI (XI XH)))))))
| Xe4 -> Npos (XO (XO (XI (XO (XO (XI (XI XH)))))))
| Xe5 -> Npos (XI (XO (XI (XO (XO (XI (XI XH)))))))
| Xe6 -> Npos (XO (XI (XI (XO (XO (XI (XI XH)))))))
| Xe7 -> Npos (XI (XI (XI (XO (XO (XI (XI XH)))))))
| Xe8 -> Npos (XO (XO (XO (XI (XO (XI (XI XH)))))))
| Xe9 -> Npos (XI (XO (XO (XI (XO (XI (XI XH)))))))
| Xea -> Npos (XO (XI (XO (XI (XO (XI (XI XH)))))))
| Xeb -> Npos (XI (XI (XO (XI (XO (XI (XI XH)))))))
| Xec -> Npos (XO (XO (XI (XI (XO (XI (XI XH)))))))
| Xed -> Npos (XI (XO (XI (XI (XO (XI (XI XH)))))))
| Xee -> Npos (XO (XI (XI (XI (XO (XI (XI XH)))))))
| Xef -> Npos (XI (XI (XI (XI (XO (XI (XI XH)))))))
| Xf0 -> Npos (XO (XO (XO (XO (XI (XI (XI XH)))))))
| Xf1 -> Npos (XI (XO (XO (XO (XI (XI (XI XH)))))))
| Xf2 -> Npos (XO (XI (XO (XO (XI (XI (XI XH)))))))
| Xf3 -> Npos (XI (XI (XO (XO (XI (XI (XI XH)))))))
| Xf4 -> Npos (XO (XO (XI (XO (XI (XI (XI XH)))))))
| Xf5 -> Npos (XI (XO (XI (XO (XI (XI (XI XH)))))))
| Xf6 -> Npos (XO (XI (XI (XO (XI (XI (XI XH)))))))
| Xf7 -> Npos (XI (XI (XI (XO (XI (XI (XI XH)))))))
| Xf8 -> Npos (XO (XO (XO (XI (XI (XI (XI XH)))))))
| Xf9 -> Npos (XI (XO (XO (XI (XI (XI (XI XH)))))))
| Xfa -> Npos (XO (XI (XO (XI (XI (XI (XI XH)))))))
| Xfb -> Npos (XI (XI (XO (XI (XI (XI (XI XH)))))))
| Xfc -> Npos (XO (XO (XI (XI (XI (XI (XI XH)))))))
| Xfd -> Npos (XI (XO (XI (XI (XI (XI (XI XH)))))))
| Xfe -> Npos (XO (XI (XI (XI (XI (XI (XI XH)))))))
| Xff -> Npos (XI (XI (XI (XI (XI (XI (XI XH)))))))

(** val of_N : n -> byte option **)

let of_N = function
| N0 -> Some X00
| Npos p ->
  (match p with
   | XI p0 ->
     (match p0 with
      | XI p1 ->
        (match p1 with
         | XI p2 ->
           (match p2 with
            | XI p3 ->
              (match p3 with
               | XI p4 ->
                 (match p4 with
                  | XI p5 ->
                    (match p5 with
                     | XI p6 -> (match p6 with
                                 | XH -> Some Xff
                                 | _ -> None)
                     | XO p6 -> (match p6 with
                                 | XH -> Some Xbf
                                 | _ -> None)
                     | XH -> Some X7f)
                  | XO p5 ->
                    (match p5 with
                     | XI p6 -> (match p6 with
                                 | XH -> Some Xdf
                                 | _ -> None)
                     | XO p6 -> (match p6 with
                                 | XH -> Some X9f
                                 | _ -> None)
                     | XH -> Some X5f)
                  | XH -> Some X3f)
               | XO p4 ->
                 (match p4 with
                  | XI p5 ->
                    (match p5 with
                     | XI p6 -> (match p6 with
                                 | XH -> Some Xef
                                 | _ -> None)
                     | XO p6 -> (match p6 with
                                 | XH -> Some Xaf
                                 | _ -> None)
                     | XH -> Some X6f)
                  | XO p5 ->
                    (match p5 with
                     | XI p6 -> (match p6 with
                                 | XH -> Some Xcf
                                 | _ -> None)
                     | XO p6 -> (match p6 with
                                 | XH -> Some X8f
                                 | _ -> None)
                     | XH -> Some X4f)
                  | XH -> Some X2f)
               | XH -> Some X1f)
            | XO p3 ->
              (match p3 with
               | XI p4 ->
                 (match p4 with
                  | XI p5 ->
                    (match p5 with
                     | XI p6 -> (match p6 with
                                 | XH -> Some Xf7
                                 | _ -> None)
                     | XO p6 -> (match p6 with
                                 | XH -> Some Xb7
                                 | _ -> None)
                     | XH -> Some X77)
                  | XO p5 ->
                    (match p5 with
                     | XI p6 -> (match p6 with
                                 | XH -> Some Xd7
                                 | _ -> None)
                     | XO p6 -> (match p6 with
                                 | XH -> Some X97
                                 | _ -> None)
                     | XH -> Some X57)
                  | XH -> Some X37)
               | XO p4 ->
                 (match p4 with
                  | XI p5 ->
                    (match p5 with
                     | XI p6 -> (match p6 with
                                 | XH -> Some Xe7
                                 | _ -> None)
                     | XO p6 -> (match p6 with
                                 | XH -> Some Xa7
                                 | _ -> None)
                     | XH -> Some X67)
                  | XO p5 ->
                    (match p5 with
                     | XI p6 -> (match p6 with
                                 | XH -> Some Xc7
                                 | _ -> None)
                     | XO p6 -> (match p6 with
                                 | XH -> Some X87
                                 | _ -> None)
                     | XH -> Some X47)
                  | XH -> Some X27)
               | XH -> Some X17)
            | XH -> Some X0f)
         | XO p2 ->
           (match p2 with
            | XI p3 ->
              (match p3 with
               | XI p4 ->
                 (match p4 with
                  | XI p5 ->
                    (match p5 with
                     | XI p6 -> (match p6 with
                                 | XH -> Some Xfb
                                 | _ -> None)
                     | XO p6 -> (match p6 with
                                 | XH -> Some Xbb
                                 | _ -> None)
                     | XH -> Some X7b)
                  | XO p5 ->
                    (match p5 with
                     | XI p6 -> (match p6 with
                                 | XH -> Some Xdb
                                 | _ -> None)
                     | XO p6 -> (match p6 with
                                 | XH -> Some X9b
                                 | _ -> None)
                     | XH -> Some X5b)
                  | XH -> Some X3b)
               | XO p4 ->
                 (match p4 with
                  | XI p5 ->
                    (match p5 with
                     | XI p6 -> (match p6 with
                                 | XH -> Some Xeb
                                 | _ -> None)
                     | XO p6 -> (match p6 with
                                 | XH -> Some Xab
                                 | _ -> None)
                     | XH -> Some X6b)
                  | XO p5 ->
                    (match p5 with
                     | XI p6 -> (match p6 with
                                 | XH -> Some Xcb
                                 | _ -> None)
                     | XO p6 -> (match p6 with
                                 | XH -> Some X8b
                                 | _ -> None)
                     | XH -> Some X4b)
                  | XH -> Some X2b)
               | XH -> Some X1b)
            | XO p3 ->
              (match p3 with
               | XI p4 ->
                 (match p4 with
                  | XI p5 ->
                    (match p5 with
                     | XI p6 -> (match p6 with
                                 | XH -> Some Xf3
                                 | _ -> None)
                     | XO p6 -> (match p6 with
                                 | XH -> Some Xb3
                                 | _ -> None)
                     | XH -> Some X73)
                  | XO p5 ->
                    (match p5 with
                     | XI p6 -> (match p6 with
                                 | XH -> Some Xd3
                                 | _ -> None)
                     | XO p6 -> (match p6 with
                                 | XH -> Some X93
                                 | _ -> None)
                     | XH -> Some X53)
                  | XH -> Some X33)
               | XO p4 ->
                 (match p4 with
                  | XI p5 ->
                    (match p5 with
                     | XI p6 -> (match p6 with
                                 | XH -> Some Xe3
                                 | _ -> None)
                     | XO p6 -> (match p6 with
                                 | XH -> Some Xa3
                                 | _ -> None)
                     | XH -> Some X63)
                  | XO p5 ->
                    (match p5 with
                     | XI p6 -> (match p6 with
                                 | XH -> Some Xc3
                                 | _ -> None)
                     | XO p6 -> (match p6 with
                                 | XH -> Some X83
                                 | _ -> None)
                     | XH -> Some X43)
                  | XH -> Some X23)
               | XH -> Some X13)
            | XH -> Some X0b)
         | XH -> Some X07)
      | XO p1 ->
        (match p1 with
         | XI p2 ->
           (match p2 with
            | XI p3 ->
              (match p3 with
               | XI p4 ->
                 (match p4 with
                  | XI p5 ->
                    (match p5 with
                     | XI p6 -> (match p6 with
                                 | XH -> Some Xfd
                                 | _ -> None)
                     | XO p6 -> (match p6 with
                                 | XH -> Some Xbd
                                 | _ -> None)
                     | XH -> Some X7d)
                  | XO p5 ->
                    (match p5 with
                     | XI p6 -> (match p6 with
                                 | XH -> Some Xdd
                                 | _ -> None)
                     | XO p6 -> (match p6 with
                                 | XH -> Some X9d
                                 | _ -> None)
                     | XH -> Some X5d)
                  | XH -> Some X3d)
               | XO p4 ->
                 (match p4 with
                  | XI p5 ->
                    (match p5 with
                     | XI p6 -> (match p6 with
                                 | XH -> Some Xed
                                 | _ -> None)
                     | XO p6 -> (match p6 with
                                 | XH -> Some Xad
                                 | _ -> None)
                     | XH -> Some X6d)
                  | XO p5 ->
                    (match p5 with
                     | XI p6 -> (match p6 with
                                 | XH -> Some Xcd
                                 | _ -> None)
                     | XO p6 -> (match p6 with
                                 | XH -> Some X8d
                                 | _ -> None)
                     | XH -> Some X4d)
                  | XH -> Some X2d)
               | XH -> Some X1d)
            | XO p3 ->
              (match p3 with
               | XI p4 ->
                 (match p4 with
                  | XI p5 ->
                    (match p5 with
                     | XI p6 -> (match p6 with
                                 | XH -> Some Xf5
                                 | _ -> None)
                     | XO p6 -> (match p6 with
                                 | XH -> Some Xb5
                                 | _ -> None)
                     | XH -> Some X75)
                  | XO p5 ->
                    (match p5 with
                     | XI p6 -> (match p6 with
                                 | XH -> Some Xd5
                                 | _ -> None)
                     | XO p6 -> (match p6 with
                                 | XH -> Some X95
                                 | _ -> None)
                     | XH -> Some X55)
                  | XH -> Some X35)
               | XO p4 ->
                 (match p4 with
                  | XI p5 ->
                    (match p5 with
                     | XI p6 -> (match p6 with
                                 | XH -> Some Xe5
                                 | _ -> None)
                     | XO p6 -> (match p6 with
                                 | XH -> Some Xa5
                                 | _ -> None)
                     | XH -> Some X65)
                  | XO p5 ->
                    (match p5 with
                     | XI p6 -> (match p6 with
                                 | XH -> Some Xc5
                                 | _ -> None)
                     | XO p6 -> (match p6 with
                                 | XH -> Some X85
                                 | _ -> None)
                     | XH -> Some X45)
                  | XH -> Some X25)
               | XH -> Some X15)
            | XH -> Some X0d)
         | XO p2 ->
           (match p2 with
            | XI p3 ->
              (match p3 with
               | XI p4 ->
                 (match p4 with
                  | XI p5 ->
                    (match p5 with
                     | XI p6 -> (match p6 with
                                 | XH -> Some Xf9
                                 | _ -> None)
                     | XO p6 -> (match p6 with
                                 | XH -> Some Xb9
                                 | _ -> None)
                     | XH -> Some X79)
                  | XO p5 ->
                    (match p5 with
                     | XI p6 -> (match p6 with
                                 | XH -> Some Xd9
                                 | _ -> None)
                     | XO p6 -> (match p6 with
                                 | XH -> Some X99
                                 | _ -> None)
                     | XH -> Some X59)
                  | XH -> Some X39)
               | XO p4 ->
                 (match p4 with
                  | XI p5 ->
                    (match p5 with
                     | XI p6 -> (match p6 with
                                 | XH -> Some Xe9
                                 | _ -> None)
                     | XO p6 -> (match p6 with
                                 | XH -> Some Xa9
                                 | _ -> None)
                     | XH -> Some X69)
                  | XO p5 ->
                    (match p5 with
                     | XI p6 -> (match p6 with
                                 | XH -> Some Xc9
                                 | _ -> None)
                     | XO p6 -> (match p6 with
                                 | XH -> Some X89
                                 | _ -> None)
                     | XH -> Some X49)
                  | XH -> Some X29)
               | XH -> Some X19)
            | XO p3 ->
              (match p3 with
               | XI p4 ->
                 (match p4 with
                  | XI p5 ->
                    (match p5 with
                     | XI p6 -> (match p6 with
                                 | XH -> Some Xf1
                                 | _ -> None)
                     | XO p6 -> (match p6 with
                                 | XH -> Some Xb1
                                 | _ -> None)
                     | XH -> Some X71)
                  | XO p5 ->
                    (match p5 with
                     | XI p6 -> (match p6 with
                                 | XH -> Some Xd1
                                 | _ -> None)
                     | XO p6 -> (match p6 with
                                 | XH -> Some X91
                                 | _ -> None)
                     | XH -> Some X51)
                  | XH -> Some X31)
               | XO p4 ->
                 (match p4 with
                  | XI p5 ->
                    (match p5 with
                     | XI p6 -> (match p6 with
                                 | XH -> Some Xe1
                                 | _ -> None)
                     | XO p6 -> (match p6 with
                                 | XH -> Some Xa1
                                 | _ -> None)
                     | XH -> Some X61)
                  | XO p5 ->
                    (match p5 with
                     | XI p6 -> (match p6 with
                                 | XH -> Some Xc1
                                 | _ -> None)
                     | XO p6 -> (match p6 with
                                 | XH -> Some X81
                                 | _ -> None)
                     | XH -> Some X41)
                  | XH -> Some X21)
               | XH -> Some X11)
            | XH -> Some X09)
         | XH -> Some X05)
      | XH -> Some X03)
   | XO p0 ->
     (match p0 with
      | XI p1 ->
        (match p1 with
         | XI p2 ->
           (match p2 with
            | XI p3 ->
              (match p3 with
               | XI p4 ->
                 (match p4 with
                  | XI p5 ->
                    (match p5 with
                     | XI p6 -> (match p6 with
                                 | XH -> Some Xfe
                                 | _ -> None)
                     | XO p6 -> (match p6 with
                                 | XH -> Some Xbe
                                 | _ -> None)
                     | XH -> Some X7e)
                  | XO p5 ->
                    (match p5 with
                     | XI p6 -> (match p6 with
                                 | XH -> Some Xde
                                 | _ -> None)
                     | XO p6 -> (match p6 with
                                 | XH -> Some X9e
                                 | _ -> None)
                     | XH -> Some X5e)
                  | XH -> Some X3e)
               | XO p4 ->
                 (match p4 with
                  | XI p5 ->
                    (match p5 with
                     | XI p6 -> (match p6 with
                                 | XH -> Some Xee
                                 | _ -> None)
                     | XO p6 -> (match p6 with
                                 | XH -> Some Xae
                                 | _ -> None)
                     | XH -> Some X6e)
                  | XO p5 ->
                    (match p5 with
                     | XI p6 -> (match p6 with
                                 | XH -> Some Xce
                                 | _ -> None)
                     | XO p6 -> (match p6 with
                                 | XH -> Some X8e
                                 | _ -> None)
                     | XH -> Some X4e)
                  | XH -> Some X2e)
               | XH -> Some X1e)
            | XO p3 ->
              (match p3 with
               | XI p4 ->
                 (match p4 with
                  | XI p5 ->
                    (match p5 with
                     | XI p6 -> (match p6 with
                                 | XH -> Some Xf6
                                 | _ -> None)
                     | XO p6 -> (match p6 with
                                 | XH -> Some Xb6
                                 | _ -> None)
                     | XH -> Some X76)
                  | XO p5 ->
                    (match p5 with
                     | XI p6 -> (match p6 with
                                 | XH -> Some Xd6
                                 | _ -> None)
                     | XO p6 -> (match p6 with
                                 | XH -> Some X96
                                 | _ -> None)
                     | XH -> Some X56)
                  | XH -> Some X36)
               | XO p4 ->
                 (match p4 with
                  | XI p5 ->
                    (match p5 with
                     | XI p6 -> (match p6 with
                                 | XH -> Some Xe6
                                 | _ -> None)
                     | XO p6 -> (match p6 with
                                 | XH -> Some Xa6
                                 | _ -> None)
                     | XH -> Some X66)
                  | XO p5 ->
                    (match p5 with
                     | XI p6 -> (match p6 with
                                 | XH -> Some Xc6
                                 | _ -> None)
                     | XO p6 -> (match p6 with
                                 | XH -> Some X86
                                 | _ -> None)
                     | XH -> Some X46)
                  | XH -> Some X26)
               | XH -> Some X16)
            | XH -> Some X0e)
         | XO p2 ->
           (match p2 with
            | XI p3 ->
              (match p3 with
               | XI p4 ->
                 (match p4 with
                  | XI p5 ->
                    (match p5 with
                     | XI p6 -> (match p6 with
                                 | XH -> Some Xfa
                                 | _ -> None)
                     | XO p6 -> (match p6 with
                                 | XH -> Some Xba
                                 | _ -> None)
                     | XH -> Some X7a)
                  | XO p5 ->
                    (match p5 with
                     | XI p6 -> (match p6 with
                                 | XH -> Some Xda
                                 | _ -> None)
                     | XO p6 -> (match p6 with
                                 | XH -> Some X9a
                                 | _ -> None)
                     | XH -> Some X5a)
                  | XH -> Some X3a)
               | XO p4 ->
                 (match p4 with
                  | XI p5 ->
                    (match p5 with
                     | XI p6 -> (match p6 with
                                 | XH -> Some Xea
                                 | _ -> None)
                     | XO p6 -> (match p6 with
                                 | XH -> Some Xaa
                                 | _ -> None)
                     | XH -> Some X6a)
                  | XO p5 ->
                    (match p5 with
                     | XI p6 -> (match p6 with
                                 | XH -> Some Xca
                                 | _ -> None)
                     | XO p6 -> (match p6 with
                                 | XH -> Some X8a
                                 | _ -> None)
                     | XH -> Some X4a)
                  | XH -> Some X2a)
               | XH -> Some X1a)
            | XO p3 ->
              (match p3 with
               | XI p4 ->
                 (match p4 with
                  | XI p5 ->
                    (match p5 with
                     | XI p6 -> (match p6 with
                                 | XH -> Some Xf2
                                 | _ -> None)
                     | XO p6 -> (match p6 with
                                 | XH -> Some Xb2
                                 | _ -> None)
                     | XH -> Some X72)
                  | XO p5 ->
                    (match p5 with
                     | XI p6 -> (match p6 with
                                 | XH -> Some Xd2
                                 | _ -> None)
                     | XO p6 -> (match p6 with
                                 | XH -> Some X92
                                 | _ -> None)
                     | XH -> Some X52)
                  | XH -> Some X32)
               | XO p4 ->
                 (match p4 with
                  | XI p5 ->
                    (match p5 with
                     | XI p6 -> (match p6 with
                                 | XH -> Some Xe2
                                 | _ -> None)
                     | XO p6 -> (match p6 with
                                 | XH -> Some Xa2
                                 | _ -> None)
                     | XH -> Some X62)
                  | XO p5 ->
                    (match p5 with
                     | XI p6 -> (match p6 with
                                 | XH -> Some Xc2
                                 | _ -> None)
                     | XO p6 -> (match p6 with
                                 | XH -> Some X82
                                 | _ -> None)
                     | XH -> Some X42)
                  | XH -> Some X22)
               | XH -> Some X12)
            | XH -> Some X0a)
         | XH -> Some X06)
      | XO p1 ->
        (match p1 with
         | XI p2 ->
           (match p2 with
            | XI p3 ->
              (match p3 with
               | XI p4 ->
                 (match p4 with
                  | XI p5 ->
                    (match p5 with
                     | XI p6 -> (match p6 with
                                 | XH -> Some Xfc
                                 | _ -> None)
                     | XO p6 -> (match p6 with
                                 | XH -> Some Xbc
                                 | _ -> None)
                     | XH -> Some X7c)
                  | XO p5 ->
                    (match p5 with
                     | XI p6 -> (match p6 with
                                 | XH -> Some Xdc
                                 | _ -> None)
                     | XO p6 -> (match p6 with
                                 | XH -> Some X9c
                                 | _ -> None)
                     | XH -> Some X5c)
                  | XH -> Some X3c)
               | XO p4 ->
                 (match p4 with
                  | XI p5 ->
                    (match p5 with
                     | XI p6 -> (match p6 with
                                 | XH -> Some Xec
                                 | _ -> None)
                     | XO p6 -> (match p6 with
                                 | XH -> Some Xac
                                 | _ -> None)
                     | XH -> Some X6c)
                  | XO p5 ->
                    (match p5 with
                     | XI p6 -> (match p6 with
                                 | XH -> Some Xcc
                                 | _ -> None)
                     | XO p6 -> (match p6 with
                                 | XH -> Some X8c
                                 | _ -> None)
                     | XH -> Some X4c)
                  | XH -> Some X2c)
               | XH -> Some X1c)
            | XO p3 ->
              (match p3 with
               | XI p4 ->
                 (match p4 with
                  | XI p5 ->
                    (match p5 with
                     | XI p6 -> (match p6 with
                                 | XH -> Some Xf4
                                 | _ -> None)
                     | XO p6 -> (match p6 with
                                 | XH -> Some Xb4
                                 | _ -> None)
                     | XH -> Some X74)
                  | XO p5 ->
                    (match p5 with
                     | XI p6 -> (match p6 with
                                 | XH -> Some Xd4
                                 | _ -> None)
                     | XO p6 -> (match p6 with
                                 | XH -> Some X94
                                 | _ -> None)
                     | XH -> Some X54)
                  | XH -> Some X34)
               | XO p4 ->
                 (match p4 with
                  | XI p5 ->
                    (match p5 with
                     | XI p6 -> (match p6 with
                                 | XH -> Some Xe4
                                 | _ -> None)
                     | XO p6 -> (match p6 with
                                 | XH -> Some Xa4
                                 | _ -> None)
                     | XH -> Some X64)
                  | XO p5 ->
                    (match p5 with
                     | XI p6 -> (match p6 with
                                 | XH -> Some Xc4
                                 | _ -> None)
                     | XO p6 -> (match p6 with
                                 | XH -> Some X84
                                 | _ -> None)
                     | XH -> Some X44)
                  | XH -> Some X24)
               | XH -> Some X14)
            | XH -> Some X0c)
         | XO p2 ->
           (match p2 with
            | XI p3 ->
              (match p3 with
               | XI p4 ->
                 (match p4 with
                  | XI p5 ->
                    (match p5 with
                     | XI p6 -> (match p6 with
                                 | XH -> Some Xf8
                                 | _ -> None)
                     | XO p6 -> (match p6 with
                                 | XH -> Some Xb8
                                 | _ -> None)
                     | XH -> Some X78)
                  | XO p5 ->
                    (match p5 with
                     | XI p6 -> (match p6 with
                                 | XH -> Some Xd8
                                 | _ -> None)
                     | XO p6 -> (match p6 with
                                 | XH -> Some X98
                                 | _ -> None)
                     | XH -> Some X58)
                  | XH -> Some X38)
               | XO p4 ->
                 (match p4 with
                  | XI p5 ->
                    (match p5 with
                     | XI p6 -> (match p6 with
                                 | XH -> Some Xe8
                                 | _ -> None)
                     | XO p6 -> (match p6 with
                                 | XH -> Some Xa8
                                 | _ -> None)
                     | XH -> Some X68)
                  | XO p5 ->
                    (match p5 with
                     | XI p6 -> (match p6 with
                                 | XH -> Some Xc8
                                 | _ -> None)
                     | XO p6 -> (match p6 with
                                 | XH -> Some X88
                                 | _ -> None)
                     | XH -> Some X48)
                  | XH -> Some X28)
               | XH -> Some X18)
            | XO p3 ->
              (match p3 with
               | XI p4 ->
                 (match p4 with
                  | XI p5 ->
                    (match p5 with
                     | XI p6 -> (match p6 with
                                 | XH -> Some Xf0
                                 | _ -> None)
                     | XO p6 -> (match p6 with
                                 | XH -> Some Xb0
                                 | _ -> None)
                     | XH -> Some X70)
                  | XO p5 ->
                    (match p5 with
                     | XI p6 -> (match p6 with
                                 | XH -> Some Xd0
                                 | _ -> None)
                     | XO p6 -> (match p6 with
                                 | XH -> Some X90
                                 | _ -> None)
                     | XH -> Some X50)
                  | XH -> Some X30)
               | XO p4 ->
                 (match p4 with
                  | XI p5 ->
                    (match p5 with
                     | XI p6 -> (match p6 with
                                 | XH -> Some Xe0
                                 | _ -> None)
                     | XO p6 -> (match p6 with
                                 | XH -> Some Xa0
                                 | _ -> None)
                     | XH -> Some X60)
                  | XO p5 ->
                    (match p5 with
                     | XI p6 -> (match p6 with
                                 | XH -> Some Xc0
                                 | _ -> None)
                     | XO p6 -> (match p6 with
                                 | XH -> Some X80
                                 | _ -> None)
                     | XH -> Some X40)
                  | XH -> Some X20)
               | XH -> Some X10)
            | XH -> Some X08)
         | XH -> Some X04)
      | XH -> Some X02)
   | XH -> Some X01)

module Z =
 struct
  (** val double : z -> z **)

  let double = function
  | Z0 -> Z0
  | Zpos p -> Zpos (XO p)
  | Zneg p -> Zneg (XO p)

  (** val succ_double : z -> z **)

  let succ_double = function
  | Z0 -> Zpos XH
  | Zpos p -> Zpos (XI p)
  | Zneg p -> Zneg (Coq_Pos.pred_double p)

  (** val pred_double : z -> z **)

  let pred_double = function
  | Z0 -> Zneg XH
  | Zpos p -> Zpos (Coq_Pos.pred_double p)
  | Zneg p -> Zneg (XI p)

  (** val pos_sub : positive -> positive -> z **)

  let rec pos_sub x y =
    match x with
    | XI p ->
      (match y with
       | XI q -> double (pos_sub p q)
       | XO q -> succ_double (pos_sub p q)
       | XH -> Zpos (XO p))
    | XO p ->
      (match y with
       | XI q -> pred_double (pos_sub p q)
       | XO q -> double (pos_sub p q)
       | XH -> Zpos (Coq_Pos.pred_double p))
    | XH ->
      (match y with
       | XI q -> Zneg (XO q)
       | XO q -> Zneg (Coq_Pos.pred_double q)
       | XH -> Z0)

  (** val add : z -> z -> z **)

  let add x y =
    match x with
    | Z0 -> y
    | Zpos x' ->
      (match y with
       | Z0 -> x
       | Zpos y' -> Zpos (Coq_Pos.add x' y')
       | Zneg y' -> pos_sub x' y')
    | Zneg x' ->
      (match y with
       | Z0 -> x
       | Zpos y' -> pos_sub y' x'
       | Zneg y' -> Zneg (Coq_Pos.add x' y'))

  (** val opp : z -> z **)

  let opp = function
  | Z0 -> Z0
  | Zpos x0 -> Zneg x0
  | Zneg x0 -> Zpos x0

  (** val sub : z -> z -> z **)

  let sub m0 n0 =
    add m0 (opp n0)

  (** val compare : z -> z -> comparison **)

  let compare x y =
    match x with
    | Z0 -> (match y with
             | Z0 -> Eq
             | Zpos _ -> Lt
             | Zneg _ -> Gt)
    | Zpos x' -> (match y with
                  | Zpos y' -> Coq_Pos.compare x' y'
                  | _ -> Gt)
    | Zneg x' ->
      (match y with
       | Zneg y' -> compOpp (Coq_Pos.compare x' y')
       | _ -> Lt)

  (** val leb : z -> z -> bool **)

  let leb x y =
    match compare x y with
    | Gt -> false
    | _ -> true

  (** val min : z -> z -> z **)

  let min n0 m0 =
    match compare n0 m0 with
    | Gt -> m0
    | _ -> n0

  (** val to_N : z -> n **)

  let to_N = function
  | Zpos p -> Npos p
  | _ -> N0

  (** val of_nat : nat -> z **)

  let of_nat = function
  | O -> Z0
  | S n1 -> Zpos (Coq_Pos.of_succ_nat n1)

  (** val of_N : n -> z **)

  let of_N = function
  | N0 -> Z0
  | Npos p -> Zpos p
 end

type bytes = byte list

(** val byte_of_N : n -> byte **)

let byte_of_N n0 =
  match of_N n0 with
  | Some b -> b
  | None -> X00

(** val n_of_byte : byte -> n **)

let n_of_byte =
  to_N

(** val bytes_eqb : bytes -> bytes -> bool **)

let rec bytes_eqb a b =
  match a with
  | [] -> (match b with
           | [] -> true
           | _ :: _ -> false)
  | x :: a' ->
    (match b with
     | [] -> false
     | y :: b' -> (&&) (eqb0 x y) (bytes_eqb a' b'))

(** val bytes_ltb : bytes -> bytes -> bool **)

let rec bytes_ltb a b =
  match a with
  | [] -> (match b with
           | [] -> false
           | _ :: _ -> true)
  | x :: a' ->
    (match b with
     | [] -> false
     | y :: b' ->
       let nx = to_N x in
       let ny = to_N y in
       if N.ltb nx ny
       then true
       else if N.ltb ny nx then false else bytes_ltb a' b')

type dec = { dm : n; de : z }

(** val dec_zero : dec **)

let dec_zero =
  { dm = N0; de = Z0 }

(** val dec_scale : dec -> z -> n **)

let dec_scale d k =
  N.mul d.dm (N.pow (Npos (XO (XI (XO XH)))) (Z.to_N (Z.sub d.de k)))

(** val dec_leb : dec -> dec -> bool **)

let dec_leb a b =
  let k = Z.min a.de b.de in N.leb (dec_scale a k) (dec_scale b k)

(** val dec_ltb : dec -> dec -> bool **)

let dec_ltb a b =
  negb (dec_leb b a)

(** val dbl_epsilon : dec **)

let dbl_epsilon =
  { dm = (N.pow (Npos (XI (XO XH))) (Npos (XO (XO (XI (XO (XI XH))))))); de =
    (Zneg (XO (XO (XI (XO (XI XH)))))) }

(** val eff : dec -> dec **)

let eff w =
  if N.eqb w.dm N0 then dbl_epsilon else w

(** val is_space : byte -> bool **)

let is_space = function
| X09 -> true
| X0a -> true
| X0b -> true
| X0c -> true
| X0d -> true
| X20 -> true
| _ -> false

(** val digit_of : byte -> n option **)

let digit_of b =
  let n0 = to_N b in
  if (&&) (N.leb (Npos (XO (XO (XO (XO (XI XH)))))) n0)
       (N.leb n0 (Npos (XI (XO (XO (XI (XI XH)))))))
  then Some (N.sub n0 (Npos (XO (XO (XO (XO (XI XH)))))))
  else None

(** val read_digits : n -> nat -> bytes -> (n * nat) * bytes **)

let rec read_digits acc cnt l = match l with
| [] -> ((acc, cnt), [])
| b :: r ->
  (match digit_of b with
   | Some d ->
     read_digits (N.add (N.mul acc (Npos (XO (XI (XO XH))))) d) (S cnt) r
   | None -> ((acc, cnt), l))

(** val drop_while : ('a1 -> bool) -> 'a1 list -> 'a1 list **)

let rec drop_while f l = match l with
| [] -> []
| x :: r -> if f x then drop_while f r else l

(** val ndigits_aux : nat -> n -> z **)

let rec ndigits_aux fuel m0 =
  match fuel with
  | O -> Z0
  | S f ->
    if N.eqb m0 N0
    then Z0
    else Z.add (Zpos XH) (ndigits_aux f (N.div m0 (Npos (XO (XI (XO XH))))))

(** val ndigits : n -> z **)

let ndigits m0 =
  ndigits_aux (S (N.to_nat (N.log2 m0))) m0

(** val dec_in_double_range : dec -> bool **)

let dec_in_double_range d =
  (||) (N.eqb d.dm N0)
    (let mag = Z.add d.de (ndigits d.dm) in
     if (&&) (Z.leb (Zneg (XO (XI (XO (XO (XI (XI (XO (XO XH))))))))) mag)
          (Z.leb mag (Zpos (XO (XO (XI (XO (XI (XI (XO (XO XH))))))))))
     then true
     else if (||)
               (Z.leb mag (Zneg (XO (XO (XI (XO (XI (XI (XO (XO XH))))))))))
               (Z.leb (Zpos (XO (XI (XI (XO (XI (XI (XO (XO XH))))))))) mag)
          then false
          else (&&)
                 (dec_leb { dm = (Npos (XO (XI (XI (XO XH))))); de = (Zneg
                   (XI (XO (XI (XO (XI (XI (XO (XO XH))))))))) } d)
                 (dec_ltb d { dm = (Npos (XO (XI (XO (XO XH))))); de = (Zpos
                   (XI (XI (XO (XO (XI (XI (XO (XO XH))))))))) }))

(** val parse_stod : bytes -> dec **)

let parse_stod s =
  let s0 = drop_while is_space s in
  (match s0 with
   | [] ->
     let neg = false in
     let (p, s1) = read_digits N0 O s0 in
     let (ip, ic) = p in
     (match s1 with
      | [] ->
        let p0 = ((ip, O), ic) in
        let (p1, ndig) = p0 in
        let (m0, fc) = p1 in
        (match ndig with
         | O -> dec_zero
         | S _ ->
           let ex =
             match s1 with
             | [] -> Z0
             | b :: r ->
               (match b with
                | X45 ->
                  (match r with
                   | [] ->
                     let eneg = false in
                     let (p2, _) = read_digits N0 O r in
                     let (ev, ec) = p2 in
                     (match ec with
                      | O -> Z0
                      | S _ -> if eneg then Z.opp (Z.of_N ev) else Z.of_N ev)
                   | b0 :: t ->
                     (match b0 with
                      | X2b ->
                        let eneg = false in
                        let (p2, _) = read_digits N0 O t in
                        let (ev, ec) = p2 in
                        (match ec with
                         | O -> Z0
                         | S _ ->
                           if eneg then Z.opp (Z.of_N ev) else Z.of_N ev)
                      | X2d ->
                        let eneg = true in
                        let (p2, _) = read_digits N0 O t in
                        let (ev, ec) = p2 in
                        (match ec with
                         | O -> Z0
                         | S _ ->
                           if eneg then Z.opp (Z.of_N ev) else Z.of_N ev)
                      | _ ->
                        let eneg = false in
                        let (p2, _) = read_digits N0 O r in
                        let (ev, ec) = p2 in
                        (match ec with
                         | O -> Z0
                         | S _ ->
                           if eneg then Z.opp (Z.of_N ev) else Z.of_N ev)))
                | X65 ->
                  (match r with
                   | [] ->
                     let eneg = false in
                     let (p2, _) = read_digits N0 O r in
                     let (ev, ec) = p2 in
                     (match ec with
                      | O -> Z0
                      | S _ -> if eneg then Z.opp (Z.of_N ev) else Z.of_N ev)
                   | b0 :: t ->
                     (match b0 with
                      | X2b ->
                        let eneg = false in
                        let (p2, _) = read_digits N0 O t in
                        let (ev, ec) = p2 in
                        (match ec with
                         | O -> Z0
                         | S _ ->
                           if eneg then Z.opp (Z.of_N ev) else Z.of_N ev)
                      | X2d ->
                        let eneg = true in
                        let (p2, _) = read_digits N0 O t in
                        let (ev, ec) = p2 in
                        (match ec with
                         | O -> Z0
                         | S _ ->
                           if eneg then Z.opp (Z.of_N ev) else Z.of_N ev)
                      | _ ->
                        let eneg = false in
                        let (p2, _) = read_digits N0 O r in
                        let (ev, ec) = p2 in
                        (match ec with
                         | O -> Z0
                         | S _ ->
                           if eneg then Z.opp (Z.of_N ev) else Z.of_N ev)))
                | _ -> Z0)
           in
           let d = { dm = m0; de = (Z.sub ex (Z.of_nat fc)) } in
           if neg
           then dec_zero
           else if dec_in_double_range d then d else dec_zero)
      | b :: r ->
        (match b with
         | X2e ->
           let (p0, r') = read_digits ip O r in
           let (m0, c) = p0 in
           let p1 = ((m0, c), (add ic c)) in
           let (p2, ndig) = p1 in
           let (m1, fc) = p2 in
           (match ndig with
            | O -> dec_zero
            | S _ ->
              let ex =
                match r' with
                | [] -> Z0
                | b0 :: r0 ->
                  (match b0 with
                   | X45 ->
                     (match r0 with
                      | [] ->
                        let eneg = false in
                        let (p3, _) = read_digits N0 O r0 in
                        let (ev, ec) = p3 in
                        (match ec with
                         | O -> Z0
                         | S _ ->
                           if eneg then Z.opp (Z.of_N ev) else Z.of_N ev)
                      | b1 :: t ->
                        (match b1 with
                         | X2b ->
                           let eneg = false in
                           let (p3, _) = read_digits N0 O t in
                           let (ev, ec) = p3 in
                           (match ec with
                            | O -> Z0
                            | S _ ->
                              if eneg then Z.opp (Z.of_N ev) else Z.of_N ev)
                         | X2d ->
                           let eneg = true in
                           let (p3, _) = read_digits N0 O t in
                           let (ev, ec) = p3 in
                           (match ec with
                            | O -> Z0
                            | S _ ->
                              if eneg then Z.opp (Z.of_N ev) else Z.of_N ev)
                         | _ ->
                           let eneg = false in
                           let (p3, _) = read_digits N0 O r0 in
                           let (ev, ec) = p3 in
                           (match ec with
                            | O -> Z0
                            | S _ ->
                              if eneg then Z.opp (Z.of_N ev) else Z.of_N ev)))
                   | X65 ->
                     (match r0 with
                      | [] ->
                        let eneg = false in
                        let (p3, _) = read_digits N0 O r0 in
                        let (ev, ec) = p3 in
                        (match ec with
                         | O -> Z0
                         | S _ ->
                           if eneg then Z.opp (Z.of_N ev) else Z.of_N ev)
                      | b1 :: t ->
                        (match b1 with
                         | X2b ->
                           let eneg = false in
                           let (p3, _) = read_digits N0 O t in
                           let (ev, ec) = p3 in
                           (match ec with
                            | O -> Z0
                            | S _ ->
                              if eneg then Z.opp (Z.of_N ev) else Z.of_N ev)
                         | X2d ->
                           let eneg = true in
                           let (p3, _) = read_digits N0 O t in
                           let (ev, ec) = p3 in
                           (match ec with
                            | O -> Z0
                            | S _ ->
                              if eneg then Z.opp (Z.of_N ev) else Z.of_N ev)
                         | _ ->
                           let eneg = false in
                           let (p3, _) = read_digits N0 O r0 in
                           let (ev, ec) = p3 in
                           (match ec with
                            | O -> Z0
                            | S _ ->
                              if eneg then Z.opp (Z.of_N ev) else Z.of_N ev)))
                   | _ -> Z0)
              in
              let d = { dm = m1; de = (Z.sub ex (Z.of_nat fc)) } in
              if neg
              then dec_zero
              else if dec_in_double_range d then d else dec_zero)
         | _ ->
           let p0 = ((ip, O), ic) in
           let (p1, ndig) = p0 in
           let (m0, fc) = p1 in
           (match ndig with
            | O -> dec_zero
            | S _ ->
              let ex =
                match s1 with
                | [] -> Z0
                | b0 :: r0 ->
                  (match b0 with
                   | X45 ->
                     (match r0 with
                      | [] ->
                        let eneg = false in
                        let (p2, _) = read_digits N0 O r0 in
                        let (ev, ec) = p2 in
                        (match ec with
                         | O -> Z0
                         | S _ ->
                           if eneg then Z.opp (Z.of_N ev) else Z.of_N ev)
                      | b1 :: t ->
                        (match b1 with
                         | X2b ->
                           let eneg = false in
                           let (p2, _) = read_digits N0 O t in
                           let (ev, ec) = p2 in
                           (match ec with
                            | O -> Z0
                            | S _ ->
                              if eneg then Z.opp (Z.of_N ev) else Z.of_N ev)
                         | X2d ->
                           let eneg = true in
                           let (p2, _) = read_digits N0 O t in
                           let (ev, ec) = p2 in
                           (match ec with
                            | O -> Z0
                            | S _ ->
                              if eneg then Z.opp (Z.of_N ev) else Z.of_N ev)
                         | _ ->
                           let eneg = false in
                           let (p2, _) = read_digits N0 O r0 in
                           let (ev, ec) = p2 in
                           (match ec with
                            | O -> Z0
                            | S _ ->
                              if eneg then Z.opp (Z.of_N ev) else Z.of_N ev)))
                   | X65 ->
                     (match r0 with
                      | [] ->
                        let eneg = false in
                        let (p2, _) = read_digits N0 O r0 in
                        let (ev, ec) = p2 in
                        (match ec with
                         | O -> Z0
                         | S _ ->
                           if eneg then Z.opp (Z.of_N ev) else Z.of_N ev)
                      | b1 :: t ->
                        (match b1 with
                         | X2b ->
                           let eneg = false in
                           let (p2, _) = read_digits N0 O t in
                           let (ev, ec) = p2 in
                           (match ec with
                            | O -> Z0
                            | S _ ->
                              if eneg then Z.opp (Z.of_N ev) else Z.of_N ev)
                         | X2d ->
                           let eneg = true in
                           let (p2, _) = read_digits N0 O t in
                           let (ev, ec) = p2 in
                           (match ec with
                            | O -> Z0
                            | S _ ->
                              if eneg then Z.opp (Z.of_N ev) else Z.of_N ev)
                         | _ ->
                           let eneg = false in
                           let (p2, _) = read_digits N0 O r0 in
                           let (ev, ec) = p2 in
                           (match ec with
                            | O -> Z0
                            | S _ ->
                              if eneg then Z.opp (Z.of_N ev) else Z.of_N ev)))
                   | _ -> Z0)
              in
              let d = { dm = m0; de = (Z.sub ex (Z.of_nat fc)) } in
              if neg
              then dec_zero
              else if dec_in_double_range d then d else dec_zero)))
   | b :: r ->
     (match b with
      | X2b ->
        let neg = false in
        let (p, s1) = read_digits N0 O r in
        let (ip, ic) = p in
        (match s1 with
         | [] ->
           let p0 = ((ip, O), ic) in
           let (p1, ndig) = p0 in
           let (m0, fc) = p1 in
           (match ndig with
            | O -> dec_zero
            | S _ ->
              let ex =
                match s1 with
                | [] -> Z0
                | b0 :: r0 ->
                  (match b0 with
                   | X45 ->
                     (match r0 with
                      | [] ->
                        let eneg = false in
                        let (p2, _) = read_digits N0 O r0 in
                        let (ev, ec) = p2 in
                        (match ec with
                         | O -> Z0
                         | S _ ->
                           if eneg then Z.opp (Z.of_N ev) else Z.of_N ev)
                      | b1 :: t ->
                        (match b1 with
                         | X2b ->
                           let eneg = false in
                           let (p2, _) = read_digits N0 O t in
                           let (ev, ec) = p2 in
                           (match ec with
                            | O -> Z0
                            | S _ ->
                              if eneg then Z.opp (Z.of_N ev) else Z.of_N ev)
                         | X2d ->
                           let eneg = true in
                           let (p2, _) = read_digits N0 O t in
                           let (ev, ec) = p2 in
                           (match ec with
                            | O -> Z0
                            | S _ ->
                              if eneg then Z.opp (Z.of_N ev) else Z.of_N ev)
                         | _ ->
                           let eneg = false in
                           let (p2, _) = read_digits N0 O r0 in
                           let (ev, ec) = p2 in
                           (match ec with
                            | O -> Z0
                            | S _ ->
                              if eneg then Z.opp (Z.of_N ev) else Z.of_N ev)))
                   | X65 ->
                     (match r0 with
                      | [] ->
                        let eneg = false in
                        let (p2, _) = read_digits N0 O r0 in
                        let (ev, ec) = p2 in
                        (match ec with
                         | O -> Z0
                         | S _ ->
                           if eneg then Z.opp (Z.of_N ev) else Z.of_N ev)
                      | b1 :: t ->
                        (match b1 with
                         | X2b ->
                           let eneg = false in
                           let (p2, _) = read_digits N0 O t in
                           let (ev, ec) = p2 in
                           (match ec with
                            | O -> Z0
                            | S _ ->
                              if eneg then Z.opp (Z.of_N ev) else Z.of_N ev)
                         | X2d ->
                           let eneg = true in
                           let (p2, _) = read_digits N0 O t in
                           let (ev, ec) = p2 in
                           (match ec with
                            | O -> Z0
                            | S _ ->
                              if eneg then Z.opp (Z.of_N ev) else Z.of_N ev)
                         | _ ->
                           let eneg = false in
                           let (p2, _) = read_digits N0 O r0 in
                           let (ev, ec) = p2 in
                           (match ec with
                            | O -> Z0
                            | S _ ->
                              if eneg then Z.opp (Z.of_N ev) else Z.of_N ev)))
                   | _ -> Z0)
              in
              let d = { dm = m0; de = (Z.sub ex (Z.of_nat fc)) } in
              if neg
              then dec_zero
              else if dec_in_double_range d then d else dec_zero)
         | b0 :: r0 ->
           (match b0 with
            | X2e ->
              let (p0, r') = read_digits ip O r0 in
              let (m0, c) = p0 in
              let p1 = ((m0, c), (add ic c)) in
              let (p2, ndig) = p1 in
              let (m1, fc) = p2 in
              (match ndig with
               | O -> dec_zero
               | S _ ->
                 let ex =
                   match r' with
                   | [] -> Z0
                   | b1 :: r1 ->
                     (match b1 with
                      | X45 ->
                        (match r1 with
                         | [] ->
                           let eneg = false in
                           let (p3, _) = read_digits N0 O r1 in
                           let (ev, ec) = p3 in
                           (match ec with
                            | O -> Z0
                            | S _ ->
                              if eneg then Z.opp (Z.of_N ev) else Z.of_N ev)
                         | b2 :: t ->
                           (match b2 with
                            | X2b ->
                              let eneg = false in
                              let (p3, _) = read_digits N0 O t in
                              let (ev, ec) = p3 in
                              (match ec with
                               | O -> Z0
                               | S _ ->
                                 if eneg then Z.opp (Z.of_N ev) else Z.of_N ev)
                            | X2d ->
                              let eneg = true in
                              let (p3, _) = read_digits N0 O t in
                              let (ev, ec) = p3 in
                              (match ec with
                               | O -> Z0
                               | S _ ->
                                 if eneg then Z.opp (Z.of_N ev) else Z.of_N ev)
                            | _ ->
                              let eneg = false in
                              let (p3, _) = read_digits N0 O r1 in
                              let (ev, ec) = p3 in
                              (match ec with
                               | O -> Z0
                               | S _ ->
                                 if eneg then Z.opp (Z.of_N ev) else Z.of_N ev)))
                      | X65 ->
                        (match r1 with
                         | [] ->
                           let eneg = false in
                           let (p3, _) = read_digits N0 O r1 in
                           let (ev, ec) = p3 in
                           (match ec with
                            | O -> Z0
                            | S _ ->
                              if eneg then Z.opp (Z.of_N ev) else Z.of_N ev)
                         | b2 :: t ->
                           (match b2 with
                            | X2b ->
                              let eneg = false in
                              let (p3, _) = read_digits N0 O t in
                              let (ev, ec) = p3 in
                              (match ec with
                               | O -> Z0
                               | S _ ->
                                 if eneg then Z.opp (Z.of_N ev) else Z.of_N ev)
                            | X2d ->
                              let eneg = true in
                              let (p3, _) = read_digits N0 O t in
                              let (ev, ec) = p3 in
                              (match ec with
                               | O -> Z0
                               | S _ ->
                                 if eneg then Z.opp (Z.of_N ev) else Z.of_N ev)
                            | _ ->
                              let eneg = false in
                              let (p3, _) = read_digits N0 O r1 in
                              let (ev, ec) = p3 in
                              (match ec with
                               | O -> Z0
                               | S _ ->
                                 if eneg then Z.opp (Z.of_N ev) else Z.of_N ev)))
                      | _ -> Z0)
                 in
                 let d = { dm = m1; de = (Z.sub ex (Z.of_nat fc)) } in
                 if neg
                 then dec_zero
                 else if dec_in_double_range d then d else dec_zero)
            | _ ->
              let p0 = ((ip, O), ic) in
              let (p1, ndig) = p0 in
              let (m0, fc) = p1 in
              (match ndig with
               | O -> dec_zero
               | S _ ->
                 let ex =
                   match s1 with
                   | [] -> Z0
                   | b1 :: r1 ->
                     (match b1 with
                      | X45 ->
                        (match r1 with
                         | [] ->
                           let eneg = false in
                           let (p2, _) = read_digits N0 O r1 in
                           let (ev, ec) = p2 in
                           (match ec with
                            | O -> Z0
                            | S _ ->
                              if eneg then Z.opp (Z.of_N ev) else Z.of_N ev)
                         | b2 :: t ->
                           (match b2 with
                            | X2b ->
                              let eneg = false in
                              let (p2, _) = read_digits N0 O t in
                              let (ev, ec) = p2 in
                              (match ec with
                               | O -> Z0
                               | S _ ->
                                 if eneg then Z.opp (Z.of_N ev) else Z.of_N ev)
                            | X2d ->
                              let eneg = true in
                              let (p2, _) = read_digits N0 O t in
                              let (ev, ec) = p2 in
                              (match ec with
                               | O -> Z0
                               | S _ ->
                                 if eneg then Z.opp (Z.of_N ev) else Z.of_N ev)
                            | _ ->
                              let eneg = false in
                              let (p2, _) = read_digits N0 O r1 in
                              let (ev, ec) = p2 in
                              (match ec with
                               | O -> Z0
                               | S _ ->
                                 if eneg then Z.opp (Z.of_N ev) else Z.of_N ev)))
                      | X65 ->
                        (match r1 with
                         | [] ->
                           let eneg = false in
                           let (p2, _) = read_digits N0 O r1 in
                           let (ev, ec) = p2 in
                           (match ec with
                            | O -> Z0
                            | S _ ->
                              if eneg then Z.opp (Z.of_N ev) else Z.of_N ev)
                         | b2 :: t ->
                           (match b2 with
                            | X2b ->
                              let eneg = false in
                              let (p2, _) = read_digits N0 O t in
                              let (ev, ec) = p2 in
                              (match ec with
                               | O -> Z0
                               | S _ ->
                                 if eneg then Z.opp (Z.of_N ev) else Z.of_N ev)
                            | X2d ->
                              let eneg = true in
                              let (p2, _) = read_digits N0 O t in
                              let (ev, ec) = p2 in
                              (match ec with
                               | O -> Z0
                               | S _ ->
                                 if eneg then Z.opp (Z.of_N ev) else Z.of_N ev)
                            | _ ->
                              let eneg = false in
                              let (p2, _) = read_digits N0 O r1 in
                              let (ev, ec) = p2 in
                              (match ec with
                               | O -> Z0
                               | S _ ->
                                 if eneg then Z.opp (Z.of_N ev) else Z.of_N ev)))
                      | _ -> Z0)
                 in
                 let d = { dm = m0; de = (Z.sub ex (Z.of_nat fc)) } in
                 if neg
                 then dec_zero
                 else if dec_in_double_range d then d else dec_zero)))
      | X2d ->
        let neg = true in
        let (p, s1) = read_digits N0 O r in
        let (ip, ic) = p in
        (match s1 with
         | [] ->
           let p0 = ((ip, O), ic) in
           let (p1, ndig) = p0 in
           let (m0, fc) = p1 in
           (match ndig with
            | O -> dec_zero
            | S _ ->
              let ex =
                match s1 with
                | [] -> Z0
                | b0 :: r0 ->
                  (match b0 with
                   | X45 ->
                     (match r0 with
                      | [] ->
                        let eneg = false in
                        let (p2, _) = read_digits N0 O r0 in
                        let (ev, ec) = p2 in
                        (match ec with
                         | O -> Z0
                         | S _ ->
                           if eneg then Z.opp (Z.of_N ev) else Z.of_N ev)
                      | b1 :: t ->
                        (match b1 with
                         | X2b ->
                           let eneg = false in
                           let (p2, _) = read_digits N0 O t in
                           let (ev, ec) = p2 in
                           (match ec with
                            | O -> Z0
                            | S _ ->
                              if eneg then Z.opp (Z.of_N ev) else Z.of_N ev)
                         | X2d ->
                           let eneg = true in
                           let (p2, _) = read_digits N0 O t in
                           let (ev, ec) = p2 in
                           (match ec with
                            | O -> Z0
                            | S _ ->
                              if eneg then Z.opp (Z.of_N ev) else Z.of_N ev)
                         | _ ->
                           let eneg = false in
                           let (p2, _) = read_digits N0 O r0 in
                           let (ev, ec) = p2 in
                           (match ec with
                            | O -> Z0
                            | S _ ->
                              if eneg then Z.opp (Z.of_N ev) else Z.of_N ev)))
                   | X65 ->
                     (match r0 with
                      | [] ->
                        let eneg = false in
                        let (p2, _) = read_digits N0 O r0 in
                        let (ev, ec) = p2 in
                        (match ec with
                         | O -> Z0
                         | S _ ->
                           if eneg then Z.opp (Z.of_N ev) else Z.of_N ev)
                      | b1 :: t ->
                        (match b1 with
                         | X2b ->
                           let eneg = false in
                           let (p2, _) = read_digits N0 O t in
                           let (ev, ec) = p2 in
                           (match ec with
                            | O -> Z0
                            | S _ ->
                              if eneg then Z.opp (Z.of_N ev) else Z.of_N ev)
                         | X2d ->
                           let eneg = true in
                           let (p2, _) = read_digits N0 O t in
                           let (ev, ec) = p2 in
                           (match ec with
                            | O -> Z0
                            | S _ ->
                              if eneg then Z.opp (Z.of_N ev) else Z.of_N ev)
                         | _ ->
                           let eneg = false in
                           let (p2, _) = read_digits N0 O r0 in
                           let (ev, ec) = p2 in
                           (match ec with
                            | O -> Z0
                            | S _ ->
                              if eneg then Z.opp (Z.of_N ev) else Z.of_N ev)))
                   | _ -> Z0)
              in
              let d = { dm = m0; de = (Z.sub ex (Z.of_nat fc)) } in
              if neg
              then dec_zero
              else if dec_in_double_range d then d else dec_zero)
         | b0 :: r0 ->
           (match b0 with
            | X2e ->
              let (p0, r') = read_digits ip O r0 in
              let (m0, c) = p0 in
              let p1 = ((m0, c), (add ic c)) in
              let (p2, ndig) = p1 in
              let (m1, fc) = p2 in
              (match ndig with
               | O -> dec_zero
               | S _ ->
                 let ex =
                   match r' with
                   | [] -> Z0
                   | b1 :: r1 ->
                     (match b1 with
                      | X45 ->
                        (match r1 with
                         | [] ->
                           let eneg = false in
                           let (p3, _) = read_digits N0 O r1 in
                           let (ev, ec) = p3 in
                           (match ec with
                            | O -> Z0
                            | S _ ->
                              if eneg then Z.opp (Z.of_N ev) else Z.of_N ev)
                         | b2 :: t ->
                           (match b2 with
                            | X2b ->
                              let eneg = false in
                              let (p3, _) = read_digits N0 O t in
                              let (ev, ec) = p3 in
                              (match ec with
                               | O -> Z0
                               | S _ ->
                                 if eneg then Z.opp (Z.of_N ev) else Z.of_N ev)
                            | X2d ->
                              let eneg = true in
                              let (p3, _) = read_digits N0 O t in
                              let (ev, ec) = p3 in
                              (match ec with
                               | O -> Z0
                               | S _ ->
                                 if eneg then Z.opp (Z.of_N ev) else Z.of_N ev)
                            | _ ->
                              let eneg = false in
                              let (p3, _) = read_digits N0 O r1 in
                              let (ev, ec) = p3 in
                              (match ec with
                               | O -> Z0
                               | S _ ->
                                 if eneg then Z.opp (Z.of_N ev) else Z.of_N ev)))
                      | X65 ->
                        (match r1 with
                         | [] ->
                           let eneg = false in
                           let (p3, _) = read_digits N0 O r1 in
                           let (ev, ec) = p3 in
                           (match ec with
                            | O -> Z0
                            | S _ ->
                              if eneg then Z.opp (Z.of_N ev) else Z.of_N ev)
                         | b2 :: t ->
                           (match b2 with
                            | X2b ->
                              let eneg = false in
                              let (p3, _) = read_digits N0 O t in
                              let (ev, ec) = p3 in
                              (match ec with
                               | O -> Z0
                               | S _ ->
                                 if eneg then Z.opp (Z.of_N ev) else Z.of_N ev)
                            | X2d ->
                              let eneg = true in
                              let (p3, _) = read_digits N0 O t in
                              let (ev, ec) = p3 in
                              (match ec with
                               | O -> Z0
                               | S _ ->
                                 if eneg then Z.opp (Z.of_N ev) else Z.of_N ev)
                            | _ ->
                              let eneg = false in
                              let (p3, _) = read_digits N0 O r1 in
                              let (ev, ec) = p3 in
                              (match ec with
                               | O -> Z0
                               | S _ ->
                                 if eneg then Z.opp (Z.of_N ev) else Z.of_N ev)))
                      | _ -> Z0)
                 in
                 let d = { dm = m1; de = (Z.sub ex (Z.of_nat fc)) } in
                 if neg
                 then dec_zero
                 else if dec_in_double_range d then d else dec_zero)
            | _ ->
              let p0 = ((ip, O), ic) in
              let (p1, ndig) = p0 in
              let (m0, fc) = p1 in
              (match ndig with
               | O -> dec_zero
               | S _ ->
                 let ex =
                   match s1 with
                   | [] -> Z0
                   | b1 :: r1 ->
                     (match b1 with
                      | X45 ->
                        (match r1 with
                         | [] ->
                           let eneg = false in
                           let (p2, _) = read_digits N0 O r1 in
                           let (ev, ec) = p2 in
                           (match ec with
                            | O -> Z0
                            | S _ ->
                              if eneg then Z.opp (Z.of_N ev) else Z.of_N ev)
                         | b2 :: t ->
                           (match b2 with
                            | X2b ->
                              let eneg = false in
                              let (p2, _) = read_digits N0 O t in
                              let (ev, ec) = p2 in
                              (match ec with
                               | O -> Z0
                               | S _ ->
                                 if eneg then Z.opp (Z.of_N ev) else Z.of_N ev)
                            | X2d ->
                              let eneg = true in
                              let (p2, _) = read_digits N0 O t in
                              let (ev, ec) = p2 in
                              (match ec with
                               | O -> Z0
                               | S _ ->
                                 if eneg then Z.opp (Z.of_N ev) else Z.of_N ev)
                            | _ ->
                              let eneg = false in
                              let (p2, _) = read_digits N0 O r1 in
                              let (ev, ec) = p2 in
                              (match ec with
                               | O -> Z0
                               | S _ ->
                                 if eneg then Z.opp (Z.of_N ev) else Z.of_N ev)))
                      | X65 ->
                        (match r1 with
                         | [] ->
                           let eneg = false in
                           let (p2, _) = read_digits N0 O r1 in
                           let (ev, ec) = p2 in
                           (match ec with
                            | O -> Z0
                            | S _ ->
                              if eneg then Z.opp (Z.of_N ev) else Z.of_N ev)
                         | b2 :: t ->
                           (match b2 with
                            | X2b ->
                              let eneg = false in
                              let (p2, _) = read_digits N0 O t in
                              let (ev, ec) = p2 in
                              (match ec with
                               | O -> Z0
                               | S _ ->
                                 if eneg then Z.opp (Z.of_N ev) else Z.of_N ev)
                            | X2d ->
                              let eneg = true in
                              let (p2, _) = read_digits N0 O t in
                              let (ev, ec) = p2 in
                              (match ec with
                               | O -> Z0
                               | S _ ->
                                 if eneg then Z.opp (Z.of_N ev) else Z.of_N ev)
                            | _ ->
                              let eneg = false in
                              let (p2, _) = read_digits N0 O r1 in
                              let (ev, ec) = p2 in
                              (match ec with
                               | O -> Z0
                               | S _ ->
                                 if eneg then Z.opp (Z.of_N ev) else Z.of_N ev)))
                      | _ -> Z0)
                 in
                 let d = { dm = m0; de = (Z.sub ex (Z.of_nat fc)) } in
                 if neg
                 then dec_zero
                 else if dec_in_double_range d then d else dec_zero)))
      | _ ->
        let neg = false in
        let (p, s1) = read_digits N0 O s0 in
        let (ip, ic) = p in
        (match s1 with
         | [] ->
           let p0 = ((ip, O), ic) in
           let (p1, ndig) = p0 in
           let (m0, fc) = p1 in
           (match ndig with
            | O -> dec_zero
            | S _ ->
              let ex =
                match s1 with
                | [] -> Z0
                | b0 :: r0 ->
                  (match b0 with
                   | X45 ->
                     (match r0 with
                      | [] ->
                        let eneg = false in
                        let (p2, _) = read_digits N0 O r0 in
                        let (ev, ec) = p2 in
                        (match ec with
                         | O -> Z0
                         | S _ ->
                           if eneg then Z.opp (Z.of_N ev) else Z.of_N ev)
                      | b1 :: t ->
                        (match b1 with
                         | X2b ->
                           let eneg = false in
                           let (p2, _) = read_digits N0 O t in
                           let (ev, ec) = p2 in
                           (match ec with
                            | O -> Z0
                            | S _ ->
                              if eneg then Z.opp (Z.of_N ev) else Z.of_N ev)
                         | X2d ->
                           let eneg = true in
                           let (p2, _) = read_digits N0 O t in
                           let (ev, ec) = p2 in
                           (match ec with
                            | O -> Z0
                            | S _ ->
                              if eneg then Z.opp (Z.of_N ev) else Z.of_N ev)
                         | _ ->
                           let eneg = false in
                           let (p2, _) = read_digits N0 O r0 in
                           let (ev, ec) = p2 in
                           (match ec with
                            | O -> Z0
                            | S _ ->
                              if eneg then Z.opp (Z.of_N ev) else Z.of_N ev)))
                   | X65 ->
                     (match r0 with
                      | [] ->
                        let eneg = false in
                        let (p2, _) = read_digits N0 O r0 in
                        let (ev, ec) = p2 in
                        (match ec with
                         | O -> Z0
                         | S _ ->
                           if eneg then Z.opp (Z.of_N ev) else Z.of_N ev)
                      | b1 :: t ->
                        (match b1 with
                         | X2b ->
                           let eneg = false in
                           let (p2, _) = read_digits N0 O t in
                           let (ev, ec) = p2 in
                           (match ec with
                            | O -> Z0
                            | S _ ->
                              if eneg then Z.opp (Z.of_N ev) else Z.of_N ev)
                         | X2d ->
                           let eneg = true in
                           let (p2, _) = read_digits N0 O t in
                           let (ev, ec) = p2 in
                           (match ec with
                            | O -> Z0
                            | S _ ->
                              if eneg then Z.opp (Z.of_N ev) else Z.of_N ev)
                         | _ ->
                           let eneg = false in
                           let (p2, _) = read_digits N0 O r0 in
                           let (ev, ec) = p2 in
                           (match ec with
                            | O -> Z0
                            | S _ ->
                              if eneg then Z.opp (Z.of_N ev) else Z.of_N ev)))
                   | _ -> Z0)
              in
              let d = { dm = m0; de = (Z.sub ex (Z.of_nat fc)) } in
              if neg
              then dec_zero
              else if dec_in_double_range d then d else dec_zero)
         | b0 :: r0 ->
           (match b0 with
            | X2e ->
              let (p0, r') = read_digits ip O r0 in
              let (m0, c) = p0 in
              let p1 = ((m0, c), (add ic c)) in
              let (p2, ndig) = p1 in
              let (m1, fc) = p2 in
              (match ndig with
               | O -> dec_zero
               | S _ ->
                 let ex =
                   match r' with
                   | [] -> Z0
                   | b1 :: r1 ->
                     (match b1 with
                      | X45 ->
                        (match r1 with
                         | [] ->
                           let eneg = false in
                           let (p3, _) = read_digits N0 O r1 in
                           let (ev, ec) = p3 in
                           (match ec with
                            | O -> Z0
                            | S _ ->
                              if eneg then Z.opp (Z.of_N ev) else Z.of_N ev)
                         | b2 :: t ->
                           (match b2 with
                            | X2b ->
                              let eneg = false in
                              let (p3, _) = read_digits N0 O t in
                              let (ev, ec) = p3 in
                              (match ec with
                               | O -> Z0
                               | S _ ->
                                 if eneg then Z.opp (Z.of_N ev) else Z.of_N ev)
                            | X2d ->
                              let eneg = true in
                              let (p3, _) = read_digits N0 O t in
                              let (ev, ec) = p3 in
                              (match ec with
                               | O -> Z0
                               | S _ ->
                                 if eneg then Z.opp (Z.of_N ev) else Z.of_N ev)
                            | _ ->
                              let eneg = false in
                              let (p3, _) = read_digits N0 O r1 in
                              let (ev, ec) = p3 in
                              (match ec with
                               | O -> Z0
                               | S _ ->
                                 if eneg then Z.opp (Z.of_N ev) else Z.of_N ev)))
                      | X65 ->
                        (match r1 with
                         | [] ->
                           let eneg = false in
                           let (p3, _) = read_digits N0 O r1 in
                           let (ev, ec) = p3 in
                           (match ec with
                            | O -> Z0
                            | S _ ->
                              if eneg then Z.opp (Z.of_N ev) else Z.of_N ev)
                         | b2 :: t ->
                           (match b2 with
                            | X2b ->
                              let eneg = false in
                              let (p3, _) = read_digits N0 O t in
                              let (ev, ec) = p3 in
                              (match ec with
                               | O -> Z0
                               | S _ ->
                                 if eneg then Z.opp (Z.of_N ev) else Z.of_N ev)
                            | X2d ->
                              let eneg = true in
                              let (p3, _) = read_digits N0 O t in
                              let (ev, ec) = p3 in
                              (match ec with
                               | O -> Z0
                               | S _ ->
                                 if eneg then Z.opp (Z.of_N ev) else Z.of_N ev)
                            | _ ->
                              let eneg = false in
                              let (p3, _) = read_digits N0 O r1 in
                              let (ev, ec) = p3 in
                              (match ec with
                               | O -> Z0
                               | S _ ->
                                 if eneg then Z.opp (Z.of_N ev) else Z.of_N ev)))
                      | _ -> Z0)
                 in
                 let d = { dm = m1; de = (Z.sub ex (Z.of_nat fc)) } in
                 if neg
                 then dec_zero
                 else if dec_in_double_range d then d else dec_zero)
            | _ ->
              let p0 = ((ip, O), ic) in
              let (p1, ndig) = p0 in
              let (m0, fc) = p1 in
              (match ndig with
               | O -> dec_zero
               | S _ ->
                 let ex =
                   match s1 with
                   | [] -> Z0
                   | b1 :: r1 ->
                     (match b1 with
                      | X45 ->
                        (match r1 with
                         | [] ->
                           let eneg = false in
                           let (p2, _) = read_digits N0 O r1 in
                           let (ev, ec) = p2 in
                           (match ec with
                            | O -> Z0
                            | S _ ->
                              if eneg then Z.opp (Z.of_N ev) else Z.of_N ev)
                         | b2 :: t ->
                           (match b2 with
                            | X2b ->
                              let eneg = false in
                              let (p2, _) = read_digits N0 O t in
                              let (ev, ec) = p2 in
                              (match ec with
                               | O -> Z0
                               | S _ ->
                                 if eneg then Z.opp (Z.of_N ev) else Z.of_N ev)
                            | X2d ->
                              let eneg = true in
                              let (p2, _) = read_digits N0 O t in
                              let (ev, ec) = p2 in
                              (match ec with
                               | O -> Z0
                               | S _ ->
                                 if eneg then Z.opp (Z.of_N ev) else Z.of_N ev)
                            | _ ->
                              let eneg = false in
                              let (p2, _) = read_digits N0 O r1 in
                              let (ev, ec) = p2 in
                              (match ec with
                               | O -> Z0
                               | S _ ->
                                 if eneg then Z.opp (Z.of_N ev) else Z.of_N ev)))
                      | X65 ->
                        (match r1 with
                         | [] ->
                           let eneg = false in
                           let (p2, _) = read_digits N0 O r1 in
                           let (ev, ec) = p2 in
                           (match ec with
                            | O -> Z0
                            | S _ ->
                              if eneg then Z.opp (Z.of_N ev) else Z.of_N ev)
                         | b2 :: t ->
                           (match b2 with
                            | X2b ->
                              let eneg = false in
                              let (p2, _) = read_digits N0 O t in
                              let (ev, ec) = p2 in
                              (match ec with
                               | O -> Z0
                               | S _ ->
                                 if eneg then Z.opp (Z.of_N ev) else Z.of_N ev)
                            | X2d ->
                              let eneg = true in
                              let (p2, _) = read_digits N0 O t in
                              let (ev, ec) = p2 in
                              (match ec with
                               | O -> Z0
                               | S _ ->
                                 if eneg then Z.opp (Z.of_N ev) else Z.of_N ev)
                            | _ ->
                              let eneg = false in
                              let (p2, _) = read_digits N0 O r1 in
                              let (ev, ec) = p2 in
                              (match ec with
                               | O -> Z0
                               | S _ ->
                                 if eneg then Z.opp (Z.of_N ev) else Z.of_N ev)))
                      | _ -> Z0)
                 in
                 let d = { dm = m0; de = (Z.sub ex (Z.of_nat fc)) } in
                 if neg
                 then dec_zero
                 else if dec_in_double_range d then d else dec_zero)))))

(** val ends_with_percent : bytes -> bool **)

let ends_with_percent s =
  match rev s with
  | [] -> false
  | b :: _ -> (match b with
               | X25 -> true
               | _ -> false)

(** val weight_of_str : bytes -> dec **)

let weight_of_str s =
  if ends_with_percent s
  then dec_zero
  else (match s with
        | [] -> dec_zero
        | _ :: _ -> parse_stod s)

(** val trim_right : bytes -> bytes **)

let trim_right l =
  rev (drop_while is_space (rev l))

(** val split_keep : byte -> bytes -> bytes list **)

let rec split_keep d = function
| [] -> [] :: []
| x :: r ->
  if eqb0 x d
  then [] :: (split_keep d r)
  else (match split_keep d r with
        | [] -> (x :: []) :: []
        | tok :: toks -> (x :: tok) :: toks)

(** val is_nil : 'a1 list -> bool **)

let is_nil = function
| [] -> true
| _ :: _ -> false

(** val split_skip : byte -> bytes -> bytes list **)

let split_skip d l =
  filter (fun t -> negb (is_nil t)) (split_keep d l)

type colspec = { col_text : nat option; col_code : nat option;
                 col_weight : nat option }

type lineres =
| LSkip
| LRow of bytes * bytes * bytes

(** val no_comment_line : bytes **)

let no_comment_line =
  X23 :: (X20 :: (X6e :: (X6f :: (X20 :: (X63 :: (X6f :: (X6d :: (X6d :: (X65 :: (X6e :: (X74 :: [])))))))))))

(** val column : bytes list -> nat option -> bytes **)

let column row = function
| Some i -> nth i row []
| None -> []

(** val parse_line : colspec -> bool -> bytes -> bool * lineres **)

let parse_line cs enable_comment raw =
  let line = trim_right raw in
  (match line with
   | [] -> (enable_comment, LSkip)
   | c0 :: _ ->
     if (&&) enable_comment (eqb0 c0 X23)
     then ((if bytes_eqb line no_comment_line then false else enable_comment),
            LSkip)
     else let row = split_keep X09 line in
          (match cs.col_text with
           | Some tc ->
             (match nth tc row [] with
              | [] -> (enable_comment, LSkip)
              | b :: l ->
                (enable_comment, (LRow ((b :: l), (column row cs.col_code),
                  (column row cs.col_weight)))))
           | None -> (enable_comment, LSkip)))

type rawentry = { re_text : bytes; re_code : bytes list; re_w : dec }

type collector = { co_syll : bytes list; co_entries : rawentry list;
                   co_words : (bytes * bytes list) list; co_num : nat;
                   co_uncoded : nat }

(** val collector0 : collector **)

let collector0 =
  { co_syll = []; co_entries = []; co_words = []; co_num = O; co_uncoded = O }

(** val set_insert : bytes -> bytes list -> bytes list **)

let rec set_insert s l = match l with
| [] -> s :: []
| x :: r ->
  if bytes_ltb s x
  then s :: l
  else if bytes_ltb x s then x :: (set_insert s r) else l

(** val words_find : bytes -> (bytes * bytes list) list -> bytes list **)

let rec words_find t = function
| [] -> []
| p :: r -> let (k, v) = p in if bytes_eqb k t then v else words_find t r

(** val words_add :
    bytes -> bytes -> (bytes * bytes list) list -> (bytes * bytes list) list **)

let rec words_add t c = function
| [] -> (t, (c :: [])) :: []
| p :: r ->
  let (k, v) = p in
  if bytes_eqb k t then (k, (c :: v)) :: r else (k, v) :: (words_add t c r)

(** val create_entry : bytes -> bytes -> bytes -> collector -> collector **)

let create_entry word code_str weight_str c =
  let raw = split_skip X20 code_str in
  let w = weight_of_str weight_str in
  let syll = fold_left (fun s x -> set_insert x s) raw c.co_syll in
  let add0 = fun words -> { co_syll = syll; co_entries = ({ re_text = word;
    re_code = raw; re_w = w } :: c.co_entries); co_words = words; co_num = (S
    c.co_num); co_uncoded = c.co_uncoded }
  in
  (match raw with
   | [] -> add0 c.co_words
   | _ :: l ->
     (match l with
      | [] ->
        if existsb (bytes_eqb code_str) (words_find word c.co_words)
        then { co_syll = syll; co_entries = c.co_entries; co_words =
               c.co_words; co_num = c.co_num; co_uncoded = c.co_uncoded }
        else add0 (words_add word code_str c.co_words)
      | _ :: _ -> add0 c.co_words))

(** val collect_row : lineres -> collector -> collector **)

let collect_row r c =
  match r with
  | LSkip -> c
  | LRow (word, code, weight) ->
    (match code with
     | [] ->
       { co_syll = c.co_syll; co_entries = c.co_entries; co_words =
         c.co_words; co_num = c.co_num; co_uncoded = (S c.co_uncoded) }
     | _ :: _ -> create_entry word code weight c)

(** val collect_lines :
    colspec -> bool -> bytes list -> collector -> collector **)

let rec collect_lines cs ec lines c =
  match lines with
  | [] -> c
  | l :: r ->
    let (ec', res0) = parse_line cs ec l in
    collect_lines cs ec' r (collect_row res0 c)

(** val collect_files : (colspec * bytes list) list -> collector **)

let collect_files files =
  fold_left (fun c f -> collect_lines (fst f) true (snd f) c) files collector0

type entry = { e_text : bytes; e_code : nat list; e_w : dec }

type 'a page = { p_entries : entry list; p_next : 'a option }

type 'a lvl = (nat * 'a page) list

type voc4 = entry list

type voc3 = voc4 lvl

type voc2 = voc3 lvl

type voc1 = voc2 lvl

(** val page0 : 'a1 page **)

let page0 =
  { p_entries = []; p_next = None }

(** val upd : nat -> ('a1 page -> 'a1 page) -> 'a1 lvl -> 'a1 lvl **)

let rec upd k f l = match l with
| [] -> (k, (f page0)) :: []
| p0 :: r ->
  let (k', p) = p0 in
  if Nat.ltb k k'
  then (k, (f page0)) :: l
  else if Nat.eqb k k' then (k', (f p)) :: r else (k', p) :: (upd k f r)

(** val add_entry : entry -> 'a1 page -> 'a1 page **)

let add_entry e p =
  { p_entries = (app p.p_entries (e :: [])); p_next = p.p_next }

(** val on_next : 'a1 -> ('a1 -> 'a1) -> 'a1 page -> 'a1 page **)

let on_next dflt f p =
  { p_entries = p.p_entries; p_next = (Some
    (f (match p.p_next with
        | Some n0 -> n0
        | None -> dflt))) }

(** val ins_lvl :
    'a1 -> (nat list -> 'a1 -> 'a1) -> entry -> nat list -> 'a1 lvl -> 'a1 lvl **)

let ins_lvl dflt deeper e code v =
  match code with
  | [] -> v
  | a :: rest ->
    (match rest with
     | [] -> upd a (add_entry e) v
     | _ :: _ -> upd a (on_next dflt (deeper rest)) v)

(** val ins4 : entry -> nat list -> voc4 -> voc4 **)

let ins4 e _ v =
  app v (e :: [])

(** val ins3 : entry -> nat list -> voc3 -> voc3 **)

let ins3 e =
  ins_lvl [] (ins4 e) e

(** val ins2 : entry -> nat list -> voc2 -> voc2 **)

let ins2 e =
  ins_lvl [] (ins3 e) e

(** val ins1 : entry -> nat list -> voc1 -> voc1 **)

let ins1 e =
  ins_lvl [] (ins2 e) e

(** val vocab_of : entry list -> voc1 **)

let vocab_of es =
  fold_left (fun v e -> ins1 e e.e_code v) es []

(** val insert_desc : entry -> entry list -> entry list **)

let rec insert_desc e l = match l with
| [] -> e :: []
| x :: r -> if dec_ltb x.e_w e.e_w then e :: l else x :: (insert_desc e r)

(** val sort_entries : entry list -> entry list **)

let sort_entries l =
  fold_right insert_desc [] l

(** val sort_lvl : ('a1 -> 'a1) -> 'a1 lvl -> 'a1 lvl **)

let sort_lvl sort_next v =
  map (fun kp -> ((fst kp), { p_entries = (sort_entries (snd kp).p_entries);
    p_next = (option_map sort_next (snd kp).p_next) })) v

(** val sort3 : voc3 -> voc3 **)

let sort3 =
  sort_lvl sort_entries

(** val sort2 : voc2 -> voc2 **)

let sort2 =
  sort_lvl sort3

(** val sort1 : voc1 -> voc1 **)

let sort1 =
  sort_lvl sort2

(** val index_of : bytes -> bytes list -> nat option **)

let rec index_of s = function
| [] -> None
| x :: r ->
  if bytes_eqb x s then Some O else option_map (fun x0 -> S x0) (index_of s r)

(** val id_of : bytes list -> bytes -> nat **)

let id_of syll s =
  match index_of s syll with
  | Some i -> i
  | None -> O

(** val short_of : bytes list -> rawentry -> entry **)

let short_of syll r =
  { e_text = r.re_text; e_code = (map (id_of syll) r.re_code); e_w =
    (eff r.re_w) }

(** val entries_of : collector -> entry list **)

let entries_of c =
  map (short_of c.co_syll) (rev c.co_entries)

(** val compile_vocab : bool -> collector -> voc1 **)

let compile_vocab sort_original c =
  let v = vocab_of (entries_of c) in if sort_original then v else sort1 v

type out = nat list * (bytes * dec)

(** val flat_lvl :
    (nat list -> 'a1 -> out list) -> nat list -> 'a1 lvl -> out list **)

let flat_lvl flat_next prefix v =
  flat_map (fun kp ->
    app
      (map (fun e -> ((app prefix ((fst kp) :: [])), (e.e_text, e.e_w)))
        (snd kp).p_entries)
      (match (snd kp).p_next with
       | Some n0 -> flat_next (app prefix ((fst kp) :: [])) n0
       | None -> [])) v

(** val flat4 : nat list -> voc4 -> out list **)

let flat4 prefix v =
  map (fun e -> ((app prefix (skipn (S (S (S O))) e.e_code)), (e.e_text,
    e.e_w))) v

(** val flat3 : nat list -> voc4 lvl -> out list **)

let flat3 =
  flat_lvl flat4

(** val flat2 : nat list -> voc4 lvl lvl -> out list **)

let flat2 =
  flat_lvl flat3

(** val flat1 : voc1 -> out list **)

let flat1 v =
  flat_lvl flat2 [] v

type 'f ientry = { ie_text : bytes; ie_w : 'f }

type 'f lentry = { le_extra : nat list; le_entry : 'f ientry }

type ('f, 'a) inode = { n_key : nat; n_entries : 'f ientry list;
                        n_next : 'a option }

type 'f tail = 'f lentry list

type 'f trunk3 = ('f, 'f tail) inode list

type 'f trunk2 = ('f, 'f trunk3) inode list

type 'f hnode = { h_entries : 'f ientry list; h_next : 'f trunk2 option }

type 'f head = 'f hnode list

(** val build_entry : (dec -> 'a1) -> entry -> 'a1 ientry **)

let build_entry cast e =
  { ie_text = e.e_text; ie_w = (cast e.e_w) }

(** val build_tail : (dec -> 'a1) -> voc4 -> 'a1 tail **)

let build_tail cast v =
  map (fun e -> { le_extra = (skipn (S (S (S O))) e.e_code); le_entry =
    (build_entry cast e) }) v

(** val build_trunk :
    (dec -> 'a1) -> ('a2 -> 'a3) -> 'a2 lvl -> ('a1, 'a3) inode list **)

let build_trunk cast build_next v =
  map (fun kp -> { n_key = (fst kp); n_entries =
    (map (build_entry cast) (snd kp).p_entries); n_next =
    (option_map build_next (snd kp).p_next) }) v

(** val build_trunk3 : (dec -> 'a1) -> voc3 -> 'a1 trunk3 **)

let build_trunk3 cast =
  build_trunk cast (build_tail cast)

(** val build_trunk2 : (dec -> 'a1) -> voc2 -> 'a1 trunk2 **)

let build_trunk2 cast =
  build_trunk cast (build_trunk3 cast)

(** val hnode0 : 'a1 hnode **)

let hnode0 =
  { h_entries = []; h_next = None }

(** val set_nth : nat -> 'a1 -> 'a1 list -> 'a1 list **)

let rec set_nth i x = function
| [] -> []
| y :: r -> (match i with
             | O -> x :: r
             | S j -> y :: (set_nth j x r))

(** val build_head : (dec -> 'a1) -> nat -> voc1 -> 'a1 head **)

let build_head cast num_syllables v =
  fold_left (fun arr kp ->
    set_nth (fst kp) { h_entries =
      (map (build_entry cast) (snd kp).p_entries); h_next =
      (option_map (build_trunk2 cast) (snd kp).p_next) } arr) v
    (repeat hnode0 num_syllables)

(** val find_node :
    nat -> ('a1, 'a2) inode list -> ('a1, 'a2) inode option **)

let find_node k nodes =
  find (fun n0 -> Nat.eqb n0.n_key k) nodes

type 'f iout = nat list * 'f ientry

(** val emit : nat list -> 'a1 ientry list -> 'a1 iout list **)

let emit code es =
  map (fun e -> (code, e)) es

(** val emit_tail : nat list -> 'a1 tail -> 'a1 iout list **)

let emit_tail prefix t =
  map (fun le -> ((app prefix le.le_extra), le.le_entry)) t

(** val enum_trunk :
    (nat list -> 'a2 -> 'a1 iout list) -> nat -> nat list -> ('a1, 'a2) inode
    list -> 'a1 iout list **)

let enum_trunk enum_next num_syllables prefix nodes =
  flat_map (fun i ->
    match find_node i nodes with
    | Some n0 ->
      app (emit (app prefix (i :: [])) n0.n_entries)
        (match n0.n_next with
         | Some x -> enum_next (app prefix (i :: [])) x
         | None -> [])
    | None -> []) (seq O num_syllables)

(** val enum_trunk3 :
    nat -> nat list -> ('a1, 'a1 tail) inode list -> 'a1 iout list **)

let enum_trunk3 s =
  enum_trunk emit_tail s

(** val enum_trunk2 :
    nat -> nat list -> ('a1, ('a1, 'a1 tail) inode list) inode list -> 'a1
    iout list **)

let enum_trunk2 s =
  enum_trunk (enum_trunk3 s) s

(** val enumerate : nat -> 'a1 head -> 'a1 iout list **)

let enumerate num_syllables h =
  flat_map (fun i ->
    match nth_error h i with
    | Some n0 ->
      app (emit (i :: []) n0.h_entries)
        (match n0.h_next with
         | Some x -> enum_trunk2 num_syllables (i :: []) x
         | None -> [])
    | None -> []) (seq O num_syllables)

(** val query_phrases : 'a1 head -> nat list -> 'a1 iout list **)

let query_phrases h = function
| [] -> []
| a :: r1 ->
  (match nth_error h a with
   | Some n1 ->
     (match r1 with
      | [] -> emit (a :: []) n1.h_entries
      | b :: r2 ->
        (match n1.h_next with
         | Some t2 ->
           (match r2 with
            | [] ->
              (match find_node b t2 with
               | Some n2 -> emit (a :: (b :: [])) n2.n_entries
               | None -> [])
            | c :: r3 ->
              (match find_node b t2 with
               | Some n2 ->
                 (match n2.n_next with
                  | Some t3 ->
                    (match r3 with
                     | [] ->
                       (match find_node c t3 with
                        | Some n3 -> emit (a :: (b :: (c :: []))) n3.n_entries
                        | None -> [])
                     | _ :: _ ->
                       (match find_node c t3 with
                        | Some n3 ->
                          (match n3.n_next with
                           | Some t4 -> emit_tail (a :: (b :: (c :: []))) t4
                           | None -> [])
                        | None -> []))
                  | None -> [])
               | None -> []))
         | None -> []))
   | None -> [])

(** val lvl_find : nat -> 'a1 lvl -> 'a1 page option **)

let rec lvl_find k = function
| [] -> None
| p0 :: r -> let (k', p) = p0 in if Nat.eqb k' k then Some p else lvl_find k r

(** val rev_codes : bytes list -> voc1 -> bytes -> bytes list **)

let rev_codes syll v text =
  map snd
    (filter (fun is ->
      match lvl_find (fst is) v with
      | Some p -> existsb (fun e -> bytes_eqb e.e_text text) p.p_entries
      | None -> false) (combine (seq O (length syll)) syll))

(** val join_sp : bytes list -> bytes **)

let rec join_sp = function
| [] -> []
| x :: r -> (match r with
             | [] -> x
             | _ :: _ -> app x (X20 :: (join_sp r)))

(** val rev_lookup : bytes list -> voc1 -> bytes -> bytes option **)

let rev_lookup syll v text =
  match join_sp (rev_codes syll v text) with
  | [] -> None
  | b :: l -> Some (b :: l)

type compiled = { c_syll : bytes list; c_num_entries : nat; c_uncoded : 
                  nat; c_voc : voc1; c_index : dec head }

(** val compile : bool -> (colspec * bytes list) list -> compiled **)

let compile sort_original files =
  let c = collect_files files in
  let v = compile_vocab sort_original c in
  { c_syll = c.co_syll; c_num_entries = c.co_num; c_uncoded = c.co_uncoded;
  c_voc = v; c_index = (build_head (fun w -> w) (length c.co_syll) v) }

(** val code_ids : bytes list -> bytes list -> nat list option **)

let code_ids syll code =
  fold_right (fun s acc ->
    match index_of s syll with
    | Some i -> (match acc with
                 | Some l -> Some (i :: l)
                 | None -> None)
    | None -> None) (Some []) code

type layout = { sz_metadata : n; al_metadata : n; sz_stringtype : n;
                sz_arr_stringtype : n; sz_headnode : n; sz_arr_headnode : 
                n; sz_trunknode : n; sz_arr_trunknode : n; sz_longentry : 
                n; sz_arr_longentry : n; sz_entry : n; al_entry : n;
                sz_syllid : n; al_syllid : n; al_char : n }

type estimate_kind =
| EstLinear of n * n * n
| EstIndexExact of n * n * n
| EstUnrecognised

type build_facts = { bf_estimate : estimate_kind; bf_growth_doubles : 
                     bool; bf_rederive_after_image : bool }

type merr =
| StalePointer
| StaleStringRefs
| NoEstimate

type 'a res =
| Ok of 'a
| Err of merr

type mfile = { cap : n; used : n; epoch : nat; has_refs : bool;
               stale_refs : bool }

type ptr = nat * n

type 'a m = mfile -> ('a * mfile) res

(** val ret : 'a1 -> 'a1 m **)

let ret a s =
  Ok (a, s)

(** val bind : 'a1 m -> ('a1 -> 'a2 m) -> 'a2 m **)

let bind m0 f s =
  match m0 s with
  | Ok a0 -> let (a, s') = a0 in f a s'
  | Err e -> Err e

(** val align_up : n -> n -> n **)

let align_up x a =
  N.mul (N.div (N.sub (N.add x a) (Npos XH)) a) a

(** val allocate : bool -> n -> n -> ptr m **)

let allocate growth_doubles al size0 s =
  let u = align_up s.used al in
  if N.ltb s.cap (N.add u size0)
  then let newcap =
         if growth_doubles
         then N.max (N.add u size0) (N.mul (Npos (XO XH)) s.cap)
         else N.add u size0
       in
       Ok (((S s.epoch), u), { cap = newcap; used = (N.add u size0); epoch =
       (S s.epoch); has_refs = s.has_refs; stale_refs =
       ((||) s.stale_refs s.has_refs) })
  else Ok ((s.epoch, u), { cap = s.cap; used = (N.add u size0); epoch =
         s.epoch; has_refs = s.has_refs; stale_refs = s.stale_refs })

(** val touch : ptr -> unit m **)

let touch p s =
  if Nat.eqb (fst p) s.epoch then Ok ((), s) else Err StalePointer

(** val add_ref : ptr -> unit m **)

let add_ref p s =
  Ok ((), { cap = s.cap; used = s.used; epoch = s.epoch; has_refs = true;
    stale_refs = ((||) s.stale_refs (negb (Nat.eqb (fst p) s.epoch))) })

(** val patch_refs : unit m **)

let patch_refs s =
  if s.stale_refs then Err StaleStringRefs else Ok ((), s)

(** val repeatM : nat -> unit m -> unit m **)

let rec repeatM n0 m0 =
  match n0 with
  | O -> ret ()
  | S k -> bind m0 (fun _ -> repeatM k m0)

(** val forM : 'a1 list -> ('a1 -> unit m) -> unit m **)

let rec forM l f =
  match l with
  | [] -> ret ()
  | x :: r -> bind (f x) (fun _ -> forM r f)

(** val arr_bytes : n -> n -> nat -> n **)

let arr_bytes arr_sz elt_sz n0 =
  N.sub (N.add arr_sz (N.mul elt_sz (N.of_nat n0))) elt_sz

(** val create_array : layout -> bool -> n -> n -> nat -> ptr m **)

let create_array l growth_doubles arr_sz elt_sz n0 =
  bind (allocate growth_doubles l.al_char (arr_bytes arr_sz elt_sz n0))
    (fun p -> bind (touch p) (fun _ -> ret p))

(** val m_build_entry : ptr -> unit m **)

let m_build_entry slot =
  bind (add_ref slot) (fun _ -> touch slot)

(** val m_build_entry_list : layout -> bool -> ptr -> nat -> unit m **)

let m_build_entry_list l growth_doubles dest n0 =
  bind (touch dest) (fun _ ->
    bind
      (allocate growth_doubles l.al_entry (N.mul l.sz_entry (N.of_nat n0)))
      (fun at_ ->
      bind (touch dest) (fun _ ->
        repeatM n0 (bind (touch dest) (fun _ -> m_build_entry at_)))))

(** val m_build_tail : layout -> bool -> voc4 -> ptr m **)

let m_build_tail l growth_doubles v =
  bind
    (create_array l growth_doubles l.sz_arr_longentry l.sz_longentry
      (length v)) (fun index ->
    bind
      (forM v (fun e ->
        bind (touch index) (fun _ ->
          bind
            (allocate growth_doubles l.al_syllid
              (N.mul l.sz_syllid
                (N.of_nat (sub (length e.e_code) (S (S (S O))))))) (fun p ->
            bind (touch index) (fun _ ->
              bind (touch index) (fun _ ->
                bind (touch p) (fun _ -> m_build_entry index))))))) (fun _ ->
      ret index))

(** val m_build_trunk :
    layout -> bool -> ('a1 -> ptr m) -> 'a1 lvl -> ptr m **)

let m_build_trunk l growth_doubles build_next v =
  bind
    (create_array l growth_doubles l.sz_arr_trunknode l.sz_trunknode
      (length v)) (fun index ->
    bind
      (forM v (fun kp ->
        bind (touch index) (fun _ ->
          bind
            (m_build_entry_list l growth_doubles index
              (length (snd kp).p_entries)) (fun _ ->
            match (snd kp).p_next with
            | Some n0 -> bind (build_next n0) (fun _ -> touch index)
            | None -> ret ())))) (fun _ -> ret index))

(** val m_build_trunk3 : layout -> bool -> voc3 -> ptr m **)

let m_build_trunk3 l growth_doubles =
  m_build_trunk l growth_doubles (m_build_tail l growth_doubles)

(** val m_build_trunk2 : layout -> bool -> voc2 -> ptr m **)

let m_build_trunk2 l growth_doubles =
  m_build_trunk l growth_doubles (m_build_trunk3 l growth_doubles)

(** val m_build_head : layout -> bool -> nat -> voc1 -> ptr m **)

let m_build_head l growth_doubles num_syllables v =
  bind
    (create_array l growth_doubles l.sz_arr_headnode l.sz_headnode
      num_syllables) (fun index ->
    bind
      (forM v (fun kp ->
        bind
          (m_build_entry_list l growth_doubles index
            (length (snd kp).p_entries)) (fun _ ->
          match (snd kp).p_next with
          | Some n0 ->
            bind (m_build_trunk2 l growth_doubles n0) (fun _ -> touch index)
          | None -> ret ()))) (fun _ -> ret index))

(** val m_build_prefix : layout -> bool -> nat -> voc1 -> ptr m **)

let m_build_prefix l growth_doubles num_syllables v =
  bind (allocate growth_doubles l.al_metadata l.sz_metadata) (fun meta ->
    bind (touch meta) (fun _ ->
      bind
        (create_array l growth_doubles l.sz_arr_stringtype l.sz_stringtype
          num_syllables) (fun syl ->
        bind (repeatM num_syllables (add_ref syl)) (fun _ ->
          bind (touch meta) (fun _ ->
            bind (m_build_head l growth_doubles num_syllables v) (fun _ ->
              bind (touch meta) (fun _ -> ret meta)))))))

(** val m_build_finish : layout -> bool -> bool -> ptr -> n -> unit m **)

let m_build_finish l growth_doubles rederive meta image_size =
  bind patch_refs (fun _ ->
    bind (allocate growth_doubles l.al_char image_size) (fun img ->
      bind (touch img) (fun _ ->
        bind (fun s -> touch (if rederive then (s.epoch, N0) else meta) s)
          (fun _ s -> touch (if rederive then (s.epoch, N0) else meta) s))))

(** val m_table_build :
    layout -> bool -> bool -> nat -> voc1 -> n -> unit m **)

let m_table_build l growth_doubles rederive num_syllables v image_size =
  bind (m_build_prefix l growth_doubles num_syllables v) (fun meta ->
    m_build_finish l growth_doubles rederive meta image_size)

(** val sum_N : ('a1 -> n) -> 'a1 list -> n **)

let sum_N f l =
  fold_right (fun x acc -> N.add (f x) acc) N0 l

(** val bytes_tail : layout -> voc4 -> n **)

let bytes_tail l v =
  N.add (arr_bytes l.sz_arr_longentry l.sz_longentry (length v))
    (sum_N (fun e ->
      N.mul l.sz_syllid (N.of_nat (sub (length e.e_code) (S (S (S O)))))) v)

(** val bytes_page : layout -> ('a1 -> n) -> 'a1 page -> n **)

let bytes_page l bytes_next p =
  N.add (N.mul l.sz_entry (N.of_nat (length p.p_entries)))
    (match p.p_next with
     | Some n0 -> bytes_next n0
     | None -> N0)

(** val bytes_trunk : layout -> ('a1 -> n) -> 'a1 lvl -> n **)

let bytes_trunk l bytes_next v =
  N.add (arr_bytes l.sz_arr_trunknode l.sz_trunknode (length v))
    (sum_N (fun kp -> bytes_page l bytes_next (snd kp)) v)

(** val bytes_trunk3 : layout -> voc3 -> n **)

let bytes_trunk3 l =
  bytes_trunk l (bytes_tail l)

(** val bytes_trunk2 : layout -> voc2 -> n **)

let bytes_trunk2 l =
  bytes_trunk l (bytes_trunk3 l)

(** val bytes_head : layout -> nat -> voc1 -> n **)

let bytes_head l num_syllables v =
  N.add (arr_bytes l.sz_arr_headnode l.sz_headnode num_syllables)
    (sum_N (fun kp -> bytes_page l (bytes_trunk2 l) (snd kp)) v)

(** val bytes_fixed : layout -> nat -> voc1 -> n **)

let bytes_fixed l num_syllables v =
  N.add
    (N.add l.sz_metadata
      (arr_bytes l.sz_arr_stringtype l.sz_stringtype num_syllables))
    (bytes_head l num_syllables v)

(** val bytes_needed : layout -> nat -> voc1 -> n -> n **)

let bytes_needed l num_syllables v image_size =
  N.add (bytes_fixed l num_syllables v) image_size

(** val estimate :
    layout -> estimate_kind -> nat -> nat -> voc1 -> n option **)

let estimate l k num_syllables num_entries v =
  match k with
  | EstLinear (r, a, b) ->
    Some
      (N.add (N.add r (N.mul a (N.of_nat num_syllables)))
        (N.mul b (N.of_nat num_entries)))
  | EstIndexExact (r, a, b) ->
    Some
      (N.max
        (N.add (N.add r (N.mul a (N.of_nat num_syllables)))
          (N.mul b (N.of_nat num_entries)))
        (N.add r (bytes_fixed l num_syllables v)))
  | EstUnrecognised -> None

(** val mfile0 : n -> mfile **)

let mfile0 capacity =
  { cap = capacity; used = N0; epoch = O; has_refs = false; stale_refs =
    false }

(** val table_build :
    layout -> build_facts -> nat -> nat -> voc1 -> n -> mfile res **)

let table_build l bf num_syllables num_entries v image_size =
  match estimate l bf.bf_estimate num_syllables num_entries v with
  | Some c ->
    (match m_table_build l bf.bf_growth_doubles bf.bf_rederive_after_image
             num_syllables v image_size (mfile0 c) with
     | Ok a -> let (_, s) = a in Ok s
     | Err e -> Err e)
  | None -> Err NoEstimate

(** val current_layout : layout **)

let current_layout =
  { sz_metadata = (Npos (XO (XO (XI (XO (XO (XO XH))))))); al_metadata =
    (Npos (XO (XO XH))); sz_stringtype = (Npos (XO (XO XH)));
    sz_arr_stringtype = (Npos (XO (XO (XO XH)))); sz_headnode = (Npos (XO (XO
    (XI XH)))); sz_arr_headnode = (Npos (XO (XO (XO (XO XH)))));
    sz_trunknode = (Npos (XO (XO (XO (XO XH))))); sz_arr_trunknode = (Npos
    (XO (XO (XI (XO XH))))); sz_longentry = (Npos (XO (XO (XO (XO XH)))));
    sz_arr_longentry = (Npos (XO (XO (XI (XO XH))))); sz_entry = (Npos (XO
    (XO (XO XH)))); al_entry = (Npos (XO (XO XH))); sz_syllid = (Npos (XO (XO
    XH))); al_syllid = (Npos (XO (XO XH))); al_char = (Npos XH) }

(** val current_facts : build_facts **)

let current_facts =
  { bf_estimate = (EstIndexExact ((Npos (XO (XO (XO (XO (XO (XO (XO (XO (XO
    (XO (XO (XO XH))))))))))))), (Npos (XO (XO (XO (XO (XO XH)))))), (Npos
    (XO (XO (XO (XO (XO (XO XH))))))))); bf_growth_doubles = true;
    bf_rederive_after_image = true }
