From Coq Require Extraction.
From Coq Require ExtrOcamlBasic.
From RimeV Require Import Svc.SvcModel Svc.Toy.
Extraction "c16_model.ml" toy_run.
