
(** val negb : bool -> bool **)

let negb = function
| true -> false
| false -> true

type nat =
| O
| S of nat

(** val option_map : ('a1 -> 'a2) -> 'a1 option -> 'a2 option **)

let option_map f = function
| Some a -> Some (f a)
| None -> None

(** val fst : ('a1 * 'a2) -> 'a1 **)

let fst = function
| (x, _) -> x

(** val snd : ('a1 * 'a2) -> 'a2 **)

let snd = function
| (_, y) -> y

(** val length : 'a1 list -> nat **)

let rec length = function
| [] -> O
| _ :: l' -> S (length l')

(** val app : 'a1 list -> 'a1 list -> 'a1 list **)

let rec app l m =
  match l with
  | [] -> m
  | a :: l1 -> a :: (app l1 m)

type comparison =
| Eq
| Lt
| Gt

(** val compOpp : comparison -> comparison **)

let compOpp = function
| Eq -> Eq
| Lt -> Gt
| Gt -> Lt

module Coq__1 = struct
 (** val add : nat -> nat -> nat **)
 let rec add n0 m =
   match n0 with
   | O -> m
   | S p -> S (add p m)
end
include Coq__1

(** val sub : nat -> nat -> nat **)

let rec sub n0 m =
  match n0 with
  | O -> n0
  | S k -> (match m with
            | O -> n0
            | S l -> sub k l)

type byte =
| X00
| X01
| X02
| X03
| X04
| X05
| X06
| X07
| X08
| X09
| X0a
| X0b
| X0c
| X0d
| X0e
| X0f
| X10
| X11
| X12
| X13
| X14
| X15
| X16
| X17
| X18
| X19
| X1a
| X1b
| X1c
| X1d
| X1e
| X1f
| X20
| X21
| X22
| X23
| X24
| X25
| X26
| X27
| X28
| X29
| X2a
| X2b
| X2c
| X2d
| X2e
| X2f
| X30
| X31
| X32
| X33
| X34
| X35
| X36
| X37
| X38
| X39
| X3a
| X3b
| X3c
| X3d
| X3e
| X3f
| X40
| X41
| X42
| X43
| X44
| X45
| X46
| X47
| X48
| X49
| X4a
| X4b
| X4c
| X4d
| X4e
| X4f
| X50
| X51
| X52
| X53
| X54
| X55
| X56
| X57
| X58
| X59
| X5a
| X5b
| X5c
| X5d
| X5e
| X5f
| X60
| X61
| X62
| X63
| X64
| X65
| X66
| X67
| X68
| X69
| X6a
| X6b
| X6c
| X6d
| X6e
| X6f
| X70
| X71
| X72
| X73
| X74
| X75
| X76
| X77
| X78
| X79
| X7a
| X7b
| X7c
| X7d
| X7e
| X7f
| X80
| X81
| X82
| X83
| X84
| X85
| X86
| X87
| X88
| X89
| X8a
| X8b
| X8c
| X8d
| X8e
| X8f
| X90
| X91
| X92
| X93
| X94
| X95
| X96
| X97
| X98
| X99
| X9a
| X9b
| X9c
| X9d
| X9e
| X9f
| Xa0
| Xa1
| Xa2
| Xa3
| Xa4
| Xa5
| Xa6
| Xa7
| Xa8
| Xa9
| Xaa
| Xab
| Xac
| Xad
| Xae
| Xaf
| Xb0
| Xb1
| Xb2
| Xb3
| Xb4
| Xb5
| Xb6
| Xb7
| Xb8
| Xb9
| Xba
| Xbb
| Xbc
| Xbd
| Xbe
| Xbf
| Xc0
| Xc1
| Xc2
| Xc3
| Xc4
| Xc5
| Xc6
| Xc7
| Xc8
| Xc9
| Xca
| Xcb
| Xcc
| Xcd
| Xce
| Xcf
| Xd0
| Xd1
| Xd2
| Xd3
| Xd4
| Xd5
| Xd6
| Xd7
| Xd8
| Xd9
| Xda
| Xdb
| Xdc
| Xdd
| Xde
| Xdf
| Xe0
| Xe1
| Xe2
| Xe3
| Xe4
| Xe5
| Xe6
| Xe7
| Xe8
| Xe9
| Xea
| Xeb
| Xec
| Xed
| Xee
| Xef
| Xf0
| Xf1
| Xf2
| Xf3
| Xf4
| Xf5
| Xf6
| Xf7
| Xf8
| Xf9
| Xfa
| Xfb
| Xfc
| Xfd
| Xfe
| Xff

(** val to_bits :
    byte -> bool * (bool * (bool * (bool * (bool * (bool * (bool * bool)))))) **)

let to_bits = function
| X00 -> (false, (false, (false, (false, (false, (false, (false, false)))))))
| X01 -> (true, (false, (false, (false, (false, (false, (false, false)))))))
| X02 -> (false, (true, (false, (false, (false, (false, (false, false)))))))
| X03 -> (true, (true, (false, (false, (false, (false, (false, false)))))))
| X04 -> (false, (false, (true, (false, (false, (false, (false, false)))))))
| X05 -> (true, (false, (true, (false, (false, (false, (false, false)))))))
| X06 -> (false, (true, (true, (false, (false, (false, (false, false)))))))
| X07 -> (true, (true, (true, (false, (false, (false, (false, false)))))))
| X08 -> (false, (false, (false, (true, (false, (false, (false, false)))))))
| X09 -> (true, (false, (false, (true, (false, (false, (false, false)))))))
| X0a -> (false, (true, (false, (true, (false, (false, (false, false)))))))
| X0b -> (true, (true, (false, (true, (false, (false, (false, false)))))))
| X0c -> (false, (false, (true, (true, (false, (false, (false, false)))))))
| X0d -> (true, (false, (true, (true, (false, (false, (false, false)))))))
| X0e -> (false, (true, (true, (true, (false, (false, (false, false)))))))
| X0f -> (true, (true, (true, (true, (false, (false, (false, false)))))))
| X10 -> (false, (false, (false, (false, (true, (false, (false, false)))))))
| X11 -> (true, (false, (false, (false, (true, (false, (false, false)))))))
| X12 -> (false, (true, (false, (false, (true, (false, (false, false)))))))
| X13 -> (true, (true, (false, (false, (true, (false, (false, false)))))))
| X14 -> (false, (false, (true, (false, (true, (false, (false, false)))))))
| X15 -> (true, (false, (true, (false, (true, (false, (false, false)))))))
| X16 -> (false, (true, (true, (false, (true, (false, (false, false)))))))
| X17 -> (true, (true, (true, (false, (true, (false, (false, false)))))))
| X18 -> (false, (false, (false, (true, (true, (false, (false, false)))))))
| X19 -> (true, (false, (false, (true, (true, (false, (false, false)))))))
| X1a -> (false, (true, (false, (true, (true, (false, (false, false)))))))
| X1b -> (true, (true, (false, (true, (true, (false, (false, false)))))))
| X1c -> (false, (false, (true, (true, (true, (false, (false, false)))))))
| X1d -> (true, (false, (true, (true, (true, (false, (false, false)))))))
| X1e -> (false, (true, (true, (true, (true, (false, (false, false)))))))
| X1f -> (true, (true, (true, (true, (true, (false, (false, false)))))))
| X20 -> (false, (false, (false, (false, (false, (true, (false, false)))))))
| X21 -> (true, (false, (false, (false, (false, (true, (false, false)))))))
| X22 -> (false, (true, (false, (false, (false, (true, (false, false)))))))
| X23 -> (true, (true, (false, (false, (false, (true, (false, false)))))))
| X24 -> (false, (false, (true, (false, (false, (true, (false, false)))))))
| X25 -> (true, (false, (true, (false, (false, (true, (false, false)))))))
| X26 -> (false, (true, (true, (false, (false, (true, (false, false)))))))
| X27 -> (true, (true, (true, (false, (false, (true, (false, false)))))))
| X28 -> (false, (false, (false, (true, (false, (true, (false, false)))))))
| X29 -> (true, (false, (false, (true, (false, (true, (false, false)))))))
| X2a -> (false, (true, (false, (true, (false, (true, (false, false)))))))
| X2b -> (true, (true, (false, (true, (false, (true, (false, false)))))))
| X2c -> (false, (false, (true, (true, (false, (true, (false, false)))))))
| X2d -> (true, (false, (true, (true, (false, (true, (false, false)))))))
| X2e -> (false, (true, (true, (true, (false, (true, (false, false)))))))
| X2f -> (true, (true, (true, (true, (false, (true, (false, false)))))))
| X30 -> (false, (false, (false, (false, (true, (true, (false, false)))))))
| X31 -> (true, (false, (false, (false, (true, (true, (false, false)))))))
| X32 -> (false, (true, (false, (false, (true, (true, (false, false)))))))
| X33 -> (true, (true, (false, (false, (true, (true, (false, false)))))))
| X34 -> (false, (false, (true, (false, (true, (true, (false, false)))))))
| X35 -> (true, (false, (true, (false, (true, (true, (false, false)))))))
| X36 -> (false, (true, (true, (false, (true, (true, (false, false)))))))
| X37 -> (true, (true, (true, (false, (true, (true, (false, false)))))))
| X38 -> (false, (false, (false, (true, (true, (true, (false, false)))))))
| X39 -> (true, (false, (false, (true, (true, (true, (false, false)))))))
| X3a -> (false, (true, (false, (true, (true, (true, (false, false)))))))
| X3b -> (true, (true, (false, (true, (true, (true, (false, false)))))))
| X3c -> (false, (false, (true, (true, (true, (true, (false, false)))))))
| X3d -> (true, (false, (true, (true, (true, (true, (false, false)))))))
| X3e -> (false, (true, (true, (true, (true, (true, (false, false)))))))
| X3f -> (true, (true, (true, (true, (true, (true, (false, false)))))))
| X40 -> (false, (false, (false, (false, (false, (false, (true, false)))))))
| X41 -> (true, (false, (false, (false, (false, (false, (true, false)))))))
| X42 -> (false, (true, (false, (false, (false, (false, (true, false)))))))
| X43 -> (true, (true, (false, (false, (false, (false, (true, false)))))))
| X44 -> (false, (false, (true, (false, (false, (false, (true, false)))))))
| X45 -> (true, (false, (true, (false, (false, (false, (true, false)))))))
| X46 -> (false, (true, (true, (false, (false, (false, (true, false)))))))
| X47 -> (true, (true, (true, (false, (false, (false, (true, false)))))))
| X48 -> (false, (false, (false, (true, (false, (false, (true, false)))))))
| X49 -> (true, (false, (false, (true, (false, (false, (true, false)))))))
| X4a -> (false, (true, (false, (true, (false, (false, (true, false)))))))
| X4b -> (true, (true, (false, (true, (false, (false, (true, false)))))))
| X4c -> (false, (false, (true, (true, (false, (false, (true, false)))))))
| X4d -> (true, (false, (true, (true, (false, (false, (true, false)))))))
| X4e -> (false, (true, (true, (true, (false, (false, (true, false)))))))
| X4f -> (true, (true, (true, (true, (false, (false, (true, false)))))))
| X50 -> (false, (false, (false, (false, (true, (false, (true, false)))))))
| X51 -> (true, (false, (false, (false, (true, (false, (true, false)))))))
| X52 -> (false, (true, (false, (false, (true, (false, (true, false)))))))
| X53 -> (true, (true, (false, (false, (true, (false, (true, false)))))))
| X54 -> (false, (false, (true, (false, (true, (false, (true, false)))))))
| X55 -> (true, (false, (true, (false, (true, (false, (true, false)))))))
| X56 -> (false, (true, (true, (false, (true, (false, (true, false)))))))
| X57 -> (true, (true, (true, (false, (true, (false, (true, false)))))))
| X58 -> (false, (false, (false, (true, (true, (false, (true, false)))))))
| X59 -> (true, (false, (false, (true, (true, (false, (true, false)))))))
| X5a -> (false, (true, (false, (true, (true, (false, (true, false)))))))
| X5b -> (true, (true, (false, (true, (true, (false, (true, false)))))))
| X5c -> (false, (false, (true, (true, (true, (false, (true, false)))))))
| X5d -> (true, (false, (true, (true, (true, (false, (true, false)))))))
| X5e -> (false, (true, (true, (true, (true, (false, (true, false)))))))
| X5f -> (true, (true, (true, (true, (true, (false, (true, false)))))))
| X60 -> (false, (false, (false, (false, (false, (true, (true, false)))))))
| X61 -> (true, (false, (false, (false, (false, (true, (true, false)))))))
| X62 -> (false, (true, (false, (false, (false, (true, (true, false)))))))
| X63 -> (true, (true, (false, (false, (false, (true, (true, false)))))))
| X64 -> (false, (false, (true, (false, (false, (true, (true, false)))))))
| X65 -> (true, (false, (true, (false, (false, (true, (true, false)))))))
| X66 -> (false, (true, (true, (false, (false, (true, (true, false)))))))
| X67 -> (true, (true, (true, (false, (false, (true, (true, false)))))))
| X68 -> (false, (false, (false, (true, (false, (true, (true, false)))))))
| X69 -> (true, (false, (false, (true, (false, (true, (true, false)))))))
| X6a -> (false, (true, (false, (true, (false, (true, (true, false)))))))
| X6b -> (true, (true, (false, (true, (false, (true, (true, false)))))))
| X6c -> (false, (false, (true, (true, (false, (true, (true, false)))))))
| X6d -> (true, (false, (true, (true, (false, (true, (true, false)))))))
| X6e -> (false, (true, (true, (true, (false, (true, (true, false)))))))
| X6f -> (true, (true, (true, (true, (false, (true, (true, false)))))))
| X70 -> (false, (false, (false, (false, (true, (true, (true, false)))))))
| X71 -> (true, (false, (false, (false, (true, (true, (true, false)))))))
| X72 -> (false, (true, (false, (false, (true, (true, (true, false)))))))
| X73 -> (true, (true, (false, (false, (true, (true, (true, false)))))))
| X74 -> (false, (false, (true, (false, (true, (true, (true, false)))))))
| X75 -> (true, (false, (true, (false, (true, (true, (true, false)))))))
| X76 -> (false, (true, (true, (false, (true, (true, (true, false)))))))
| X77 -> (true, (true, (true, (false, (true, (true, (true, false)))))))
| X78 -> (false, (false, (false, (true, (true, (true, (true, false)))))))
| X79 -> (true, (false, (false, (true, (true, (true, (true, false)))))))
| X7a -> (false, (true, (false, (true, (true, (true, (true, false)))))))
| X7b -> (true, (true, (false, (true, (true, (true, (true, false)))))))
| X7c -> (false, (false, (true, (true, (true, (true, (true, false)))))))
| X7d -> (true, (false, (true, (true, (true, (true, (true, false)))))))
| X7e -> (false, (true, (true, (true, (true, (true, (true, false)))))))
| X7f -> (true, (true, (true, (true, (true, (true, (true, false)))))))
| X80 -> (false, (false, (false, (false, (false, (false, (false, true)))))))
| X81 -> (true, (false, (false, (false, (false, (false, (false, true)))))))
| X82 -> (false, (true, (false, (false, (false, (false, (false, true)))))))
| X83 -> (true, (true, (false, (false, (false, (false, (false, true)))))))
| X84 -> (false, (false, (true, (false, (false, (false, (false, true)))))))
| X85 -> (true, (false, (true, (false, (false, (false, (false, true)))))))
| X86 -> (false, (true, (true, (false, (false, (false, (false, true)))))))
| X87 -> (true, (true, (true, (false, (false, (false, (false, true)))))))
| X88 -> (false, (false, (false, (true, (false, (false, (false, true)))))))
| X89 -> (true, (false, (false, (true, (false, (false, (false, true)))))))
| X8a -> (false, (true, (false, (true, (false, (false, (false, true)))))))
| X8b -> (true, (true, (false, (true, (false, (false, (false, true)))))))
| X8c -> (false, (false, (true, (true, (false, (false, (false, true)))))))
| X8d -> (true, (false, (true, (true, (false, (false, (false, true)))))))
| X8e -> (false, (true, (true, (true, (false, (false, (false, true)))))))
| X8f -> (true, (true, (true, (true, (false, (false, (false, true)))))))
| X90 -> (false, (false, (false, (false, (true, (false, (false, true)))))))
| X91 -> (true, (false, (false, (false, (true, (false, (false, true)))))))
| X92 -> (false, (true, (false, (false, (true, (false, (false, true)))))))
| X93 -> (true, (true, (false, (false, (true, (false, (false, true)))))))
| X94 -> (false, (false, (true, (false, (true, (false, (false, true)))))))
| X95 -> (true, (false, (true, (false, (true, (false, (false, true)))))))
| X96 -> (false, (true, (true, (false, (true, (false, (false, true)))))))
| X97 -> (true, (true, (true, (false, (true, (false, (false, true)))))))
| X98 -> (false, (false, (false, (true, (true, (false, (false, true)))))))
| X99 -> (true, (false, (false, (true, (true, (false, (false, true)))))))
| X9a -> (false, (true, (false, (true, (true, (false, (false, true)))))))
| X9b -> (true, (true, (false, (true, (true, (false, (false, true)))))))
| X9c -> (false, (false, (true, (true, (true, (false, (false, true)))))))
| X9d -> (true, (false, (true, (true, (true, (false, (false, true)))))))
| X9e -> (false, (true, (true, (true, (true, (false, (false, true)))))))
| X9f -> (true, (true, (true, (true, (true, (false, (false, true)))))))
| Xa0 -> (false, (false, (false, (false, (false, (true, (false, true)))))))
| Xa1 -> (true, (false, (false, (false, (false, (true, (false, true)))))))
| Xa2 -> (false, (true, (false, (false, (false, (true, (false, true)))))))
| Xa3 -> (true, (true, (false, (false, (false, (true, (false, true)))))))
| Xa4 -> (false, (false, (true, (false, (false, (true, (false, true)))))))
| Xa5 -> (true, (false, (true, (false, (false, (true, (false, true)))))))
| Xa6 -> (false, (true, (true, (false, (false, (true, (false, true)))))))
| Xa7 -> (true, (true, (true, (false, (false, (true, (false, true)))))))
| Xa8 -> (false, (false, (false, (true, (false, (true, (false, true)))))))
| Xa9 -> (true, (false, (false, (true, (false, (true, (false, true)))))))
| Xaa -> (false, (true, (false, (true, (false, (true, (false, true)))))))
| Xab -> (true, (true, (false, (true, (false, (true, (false, true)))))))
| Xac -> (false, (false, (true, (true, (false, (true, (false, true)))))))
| Xad -> (true, (false, (true, (true, (false, (true, (false, true)))))))
| Xae -> (false, (true, (true, (true, (false, (true, (false, true)))))))
| Xaf -> (true, (true, (true, (true, (false, (true, (false, true)))))))
| Xb0 -> (false, (false, (false, (false, (true, (true, (false, true)))))))
| Xb1 -> (true, (false, (false, (false, (true, (true, (false, true)))))))
| Xb2 -> (false, (true, (false, (false, (true, (true, (false, true)))))))
| Xb3 -> (true, (true, (false, (false, (true, (true, (false, true)))))))
| Xb4 -> (false, (false, (true, (false, (true, (true, (false, true)))))))
| Xb5 -> (true, (false, (true, (false, (true, (true, (false, true)))))))
| Xb6 -> (false, (true, (true, (false, (true, (true, (false, true)))))))
| Xb7 -> (true, (true, (true, (false, (true, (true, (false, true)))))))
| Xb8 -> (false, (false, (false, (true, (true, (true, (false, true)))))))
| Xb9 -> (true, (false, (false, (true, (true, (true, (false, true)))))))
| Xba -> (false, (true, (false, (true, (true, (true, (false, true)))))))
| Xbb -> (true, (true, (false, (true, (true, (true, (false, true)))))))
| Xbc -> (false, (false, (true, (true, (true, (true, (false, true)))))))
| Xbd -> (true, (false, (true, (true, (true, (true, (false, true)))))))
| Xbe -> (false, (true, (true, (true, (true, (true, (false, true)))))))
| Xbf -> (true, (true, (true, (true, (true, (true, (false, true)))))))
| Xc0 -> (false, (false, (false, (false, (false, (false, (true, true)))))))
| Xc1 -> (true, (false, (false, (false, (false, (false, (true, true)))))))
| Xc2 -> (false, (true, (false, (false, (false, (false, (true, true)))))))
| Xc3 -> (true, (true, (false, (false, (false, (false, (true, true)))))))
| Xc4 -> (false, (false, (true, (false, (false, (false, (true, true)))))))
| Xc5 -> (true, (false, (true, (false, (false, (false, (true, true)))))))
| Xc6 -> (false, (true, (true, (false, (false, (false, (true, true)))))))
| Xc7 -> (true, (true, (true, (false, (false, (false, (true, true)))))))
| Xc8 -> (false, (false, (false, (true, (false, (false, (true, true)))))))
| Xc9 -> (true, (false, (false, (true, (false, (false, (true, true)))))))
| Xca -> (false, (true, (false, (true, (false, (false, (true, true)))))))
| Xcb -> (true, (true, (false, (true, (false, (false, (true, true)))))))
| Xcc -> (false, (false, (true, (true, (false, (false, (true, true)))))))
| Xcd -> (true, (false, (true, (true, (false, (false, (true, true)))))))
| Xce -> (false, (true, (true, (true, (false, (false, (true, true)))))))
| Xcf -> (true, (true, (true, (true, (false, (false, (true, true)))))))
| Xd0 -> (false, (false, (false, (false, (true, (false, (true, true)))))))
| Xd1 -> (true, (false, (false, (false, (true, (false, (true, true)))))))
| Xd2 -> (false, (true, (false, (false, (true, (false, (true, true)))))))
| Xd3 -> (true, (true, (false, (false, (true, (false, (true, true)))))))
| Xd4 -> (false, (false, (true, (false, (true, (false, (true, true)))))))
| Xd5 -> (true, (false, (true, (false, (true, (false, (true, true)))))))
| Xd6 -> (false, (true, (true, (false, (true, (false, (true, true)))))))
| Xd7 -> (true, (true, (true, (false, (true, (false, (true, true)))))))
| Xd8 -> (false, (false, (false, (true, (true, (false, (true, true)))))))
| Xd9 -> (true, (false, (false, (true, (true, (false, (true, true)))))))
| Xda -> (false, (true, (false, (true, (true, (false, (true, true)))))))
| Xdb -> (true, (true, (false, (true, (true, (false, (true, true)))))))
| Xdc -> (false, (false, (true, (true, (true, (false, (true, true)))))))
| Xdd -> (true, (false, (true, (true, (true, (false, (true, true)))))))
| Xde -> (false, (true, (true, (true, (true, (false, (true, true)))))))
| Xdf -> (true, (true, (true, (true, (true, (false, (true, true)))))))
| Xe0 -> (false, (false, (false, (false, (false, (true, (true, true)))))))
| Xe1 -> (true, (false, (false, (false, (false, (true, (true, true)))))))
| Xe2 -> (false, (true, (false, (false, (false, (true, (true, true)))))))
| Xe3 -> (true, (true, (false, (false, (false, (true, (true, true)))))))
| Xe4 -> (false, (false, (true, (false, (false, (true, (true, true)))))))
| Xe5 -> (true, (false, (true, (false, (false, (true, (true, true)))))))
| Xe6 -> (false, (true, (true, (false, (false, (true, (true, true)))))))
| Xe7 -> (true, (true, (true, (false, (false, (true, (true, true)))))))
| Xe8 -> (false, (false, (false, (true, (false, (true, (true, true)))))))
| Xe9 -> (true, (false, (false, (true, (false, (true, (true, true)))))))
| Xea -> (false, (true, (false, (true, (false, (true, (true, true)))))))
| Xeb -> (true, (true, (false, (true, (false, (true, (true, true)))))))
| Xec -> (false, (false, (true, (true, (false, (true, (true, true)))))))
| Xed -> (true, (false, (true, (true, (false, (true, (true, true)))))))
| Xee -> (false, (true, (true, (true, (false, (true, (true, true)))))))
| Xef -> (true, (true, (true, (true, (false, (true, (true, true)))))))
| Xf0 -> (false, (false, (false, (false, (true, (true, (true, true)))))))
| Xf1 -> (true, (false, (false, (false, (true, (true, (true, true)))))))
| Xf2 -> (false, (true, (false, (false, (true, (true, (true, true)))))))
| Xf3 -> (true, (true, (false, (false, (true, (true, (true, true)))))))
| Xf4 -> (false, (false, (true, (false, (true, (true, (true, true)))))))
| Xf5 -> (true, (false, (true, (false, (true, (true, (true, true)))))))
| Xf6 -> (false, (true, (true, (false, (true, (true, (true, true)))))))
| Xf7 -> (true, (true, (true, (false, (true, (true, (true, true)))))))
| Xf8 -> (false, (false, (false, (true, (true, (true, (true, true)))))))
| Xf9 -> (true, (false, (false, (true, (true, (true, (true, true)))))))
| Xfa -> (false, (true, (false, (true, (true, (true, (true, true)))))))
| Xfb -> (true, (true, (false, (true, (true, (true, (true, true)))))))
| Xfc -> (false, (false, (true, (true, (true, (true, (true, true)))))))
| Xfd -> (true, (false, (true, (true, (true, (true, (true, true)))))))
| Xfe -> (false, (true, (true, (true, (true, (true, (true, true)))))))
| Xff -> (true, (true, (true, (true, (true, (true, (true, true)))))))

(** val eqb : bool -> bool -> bool **)

let eqb b1 b2 =
  if b1 then b2 else if b2 then false else true

module Nat =
 struct
  (** val eqb : nat -> nat -> bool **)

  let rec eqb n0 m =
    match n0 with
    | O -> (match m with
            | O -> true
            | S _ -> false)
    | S n' -> (match m with
               | O -> false
               | S m' -> eqb n' m')

  (** val leb : nat -> nat -> bool **)

  let rec leb n0 m =
    match n0 with
    | O -> true
    | S n' -> (match m with
               | O -> false
               | S m' -> leb n' m')

  (** val ltb : nat -> nat -> bool **)

  let ltb n0 m =
    leb (S n0) m

  (** val divmod : nat -> nat -> nat -> nat -> nat * nat **)

  let rec divmod x y q u =
    match x with
    | O -> (q, u)
    | S x' ->
      (match u with
       | O -> divmod x' y (S q) y
       | S u' -> divmod x' y q u')

  (** val div : nat -> nat -> nat **)

  let div x y = match y with
  | O -> y
  | S y' -> fst (divmod x y' O y')
 end

(** val hd_error : 'a1 list -> 'a1 option **)

let hd_error = function
| [] -> None
| x :: _ -> Some x

(** val tl : 'a1 list -> 'a1 list **)

let tl = function
| [] -> []
| _ :: m -> m

(** val nth : nat -> 'a1 list -> 'a1 -> 'a1 **)

let rec nth n0 l default =
  match n0 with
  | O -> (match l with
          | [] -> default
          | x :: _ -> x)
  | S m -> (match l with
            | [] -> default
            | _ :: t -> nth m t default)

(** val nth_error : 'a1 list -> nat -> 'a1 option **)

let rec nth_error l = function
| O -> (match l with
        | [] -> None
        | x :: _ -> Some x)
| S n1 -> (match l with
           | [] -> None
           | _ :: l0 -> nth_error l0 n1)

(** val last : 'a1 list -> 'a1 -> 'a1 **)

let rec last l d =
  match l with
  | [] -> d
  | a :: l0 -> (match l0 with
                | [] -> a
                | _ :: _ -> last l0 d)

(** val rev : 'a1 list -> 'a1 list **)

let rec rev = function
| [] -> []
| x :: l' -> app (rev l') (x :: [])

(** val map : ('a1 -> 'a2) -> 'a1 list -> 'a2 list **)

let rec map f = function
| [] -> []
| a :: t -> (f a) :: (map f t)

(** val flat_map : ('a1 -> 'a2 list) -> 'a1 list -> 'a2 list **)

let rec flat_map f = function
| [] -> []
| x :: t -> app (f x) (flat_map f t)

(** val fold_left : ('a1 -> 'a2 -> 'a1) -> 'a2 list -> 'a1 -> 'a1 **)

let rec fold_left f l a0 =
  match l with
  | [] -> a0
  | b :: t -> fold_left f t (f a0 b)

(** val fold_right : ('a2 -> 'a1 -> 'a1) -> 'a1 -> 'a2 list -> 'a1 **)

let rec fold_right f a0 = function
| [] -> a0
| b :: t -> f b (fold_right f a0 t)

(** val existsb : ('a1 -> bool) -> 'a1 list -> bool **)

let rec existsb f = function
| [] -> false
| a :: l0 -> (||) (f a) (existsb f l0)

(** val forallb : ('a1 -> bool) -> 'a1 list -> bool **)

let rec forallb f = function
| [] -> true
| a :: l0 -> (&&) (f a) (forallb f l0)

(** val filter : ('a1 -> bool) -> 'a1 list -> 'a1 list **)

let rec filter f = function
| [] -> []
| x :: l0 -> if f x then x :: (filter f l0) else filter f l0

(** val find : ('a1 -> bool) -> 'a1 list -> 'a1 option **)

let rec find f = function
| [] -> None
| x :: tl0 -> if f x then Some x else find f tl0

(** val firstn : nat -> 'a1 list -> 'a1 list **)

let rec firstn n0 l =
  match n0 with
  | O -> []
  | S n1 -> (match l with
             | [] -> []
             | a :: l0 -> a :: (firstn n1 l0))

(** val skipn : nat -> 'a1 list -> 'a1 list **)

let rec skipn n0 l =
  match n0 with
  | O -> l
  | S n1 -> (match l with
             | [] -> []
             | _ :: l0 -> skipn n1 l0)

type positive =
| XI of positive
| XO of positive
| XH

type n =
| N0
| Npos of positive

type z =
| Z0
| Zpos of positive
| Zneg of positive

module Pos =
 struct
  type mask =
  | IsNul
  | IsPos of positive
  | IsNeg
 end

module Coq_Pos =
 struct
  (** val succ : positive -> positive **)

  let rec succ = function
  | XI p -> XO (succ p)
  | XO p -> XI p
  | XH -> XO XH

  (** val add : positive -> positive -> positive **)

  let rec add x y =
    match x with
    | XI p ->
      (match y with
       | XI q -> XO (add_carry p q)
       | XO q -> XI (add p q)
       | XH -> XO (succ p))
    | XO p ->
      (match y with
       | XI q -> XI (add p q)
       | XO q -> XO (add p q)
       | XH -> XI p)
    | XH -> (match y with
             | XI q -> XO (succ q)
             | XO q -> XI q
             | XH -> XO XH)

  (** val add_carry : positive -> positive -> positive **)

  and add_carry x y =
    match x with
    | XI p ->
      (match y with
       | XI q -> XI (add_carry p q)
       | XO q -> XO (add_carry p q)
       | XH -> XI (succ p))
    | XO p ->
      (match y with
       | XI q -> XO (add_carry p q)
       | XO q -> XI (add p q)
       | XH -> XO (succ p))
    | XH ->
      (match y with
       | XI q -> XI (succ q)
       | XO q -> XO (succ q)
       | XH -> XI XH)

  (** val pred_double : positive -> positive **)

  let rec pred_double = function
  | XI p -> XI (XO p)
  | XO p -> XI (pred_double p)
  | XH -> XH

  (** val pred_N : positive -> n **)

  let pred_N = function
  | XI p -> Npos (XO p)
  | XO p -> Npos (pred_double p)
  | XH -> N0

  type mask = Pos.mask =
  | IsNul
  | IsPos of positive
  | IsNeg

  (** val succ_double_mask : mask -> mask **)

  let succ_double_mask = function
  | IsNul -> IsPos XH
  | IsPos p -> IsPos (XI p)
  | IsNeg -> IsNeg

  (** val double_mask : mask -> mask **)

  let double_mask = function
  | IsPos p -> IsPos (XO p)
  | x0 -> x0

  (** val double_pred_mask : positive -> mask **)

  let double_pred_mask = function
  | XI p -> IsPos (XO (XO p))
  | XO p -> IsPos (XO (pred_double p))
  | XH -> IsNul

  (** val sub_mask : positive -> positive -> mask **)

  let rec sub_mask x y =
    match x with
    | XI p ->
      (match y with
       | XI q -> double_mask (sub_mask p q)
       | XO q -> succ_double_mask (sub_mask p q)
       | XH -> IsPos (XO p))
    | XO p ->
      (match y with
       | XI q -> succ_double_mask (sub_mask_carry p q)
       | XO q -> double_mask (sub_mask p q)
       | XH -> IsPos (pred_double p))
    | XH -> (match y with
             | XH -> IsNul
             | _ -> IsNeg)

  (** val sub_mask_carry : positive -> positive -> mask **)

  and sub_mask_carry x y =
    match x with
    | XI p ->
      (match y with
       | XI q -> succ_double_mask (sub_mask_carry p q)
       | XO q -> double_mask (sub_mask p q)
       | XH -> IsPos (pred_double p))
    | XO p ->
      (match y with
       | XI q -> double_mask (sub_mask_carry p q)
       | XO q -> succ_double_mask (sub_mask_carry p q)
       | XH -> double_pred_mask p)
    | XH -> IsNeg

  (** val mul : positive -> positive -> positive **)

  let rec mul x y =
    match x with
    | XI p -> add y (XO (mul p y))
    | XO p -> XO (mul p y)
    | XH -> y

  (** val iter : ('a1 -> 'a1) -> 'a1 -> positive -> 'a1 **)

  let rec iter f x = function
  | XI n' -> f (iter f (iter f x n') n')
  | XO n' -> iter f (iter f x n') n'
  | XH -> f x

  (** val compare_cont : comparison -> positive -> positive -> comparison **)

  let rec compare_cont r x y =
    match x with
    | XI p ->
      (match y with
       | XI q -> compare_cont r p q
       | XO q -> compare_cont Gt p q
       | XH -> Gt)
    | XO p ->
      (match y with
       | XI q -> compare_cont Lt p q
       | XO q -> compare_cont r p q
       | XH -> Gt)
    | XH -> (match y with
             | XH -> r
             | _ -> Lt)

  (** val compare : positive -> positive -> comparison **)

  let compare =
    compare_cont Eq

  (** val eqb : positive -> positive -> bool **)

  let rec eqb p q =
    match p with
    | XI p0 -> (match q with
                | XI q0 -> eqb p0 q0
                | _ -> false)
    | XO p0 -> (match q with
                | XO q0 -> eqb p0 q0
                | _ -> false)
    | XH -> (match q with
             | XH -> true
             | _ -> false)

  (** val coq_Nsucc_double : n -> n **)

  let coq_Nsucc_double = function
  | N0 -> Npos XH
  | Npos p -> Npos (XI p)

  (** val coq_Ndouble : n -> n **)

  let coq_Ndouble = function
  | N0 -> N0
  | Npos p -> Npos (XO p)

  (** val coq_lor : positive -> positive -> positive **)

  let rec coq_lor p q =
    match p with
    | XI p0 ->
      (match q with
       | XI q0 -> XI (coq_lor p0 q0)
       | XO q0 -> XI (coq_lor p0 q0)
       | XH -> p)
    | XO p0 ->
      (match q with
       | XI q0 -> XI (coq_lor p0 q0)
       | XO q0 -> XO (coq_lor p0 q0)
       | XH -> XI p0)
    | XH -> (match q with
             | XO q0 -> XI q0
             | _ -> q)

  (** val coq_land : positive -> positive -> n **)

  let rec coq_land p q =
    match p with
    | XI p0 ->
      (match q with
       | XI q0 -> coq_Nsucc_double (coq_land p0 q0)
       | XO q0 -> coq_Ndouble (coq_land p0 q0)
       | XH -> Npos XH)
    | XO p0 ->
      (match q with
       | XI q0 -> coq_Ndouble (coq_land p0 q0)
       | XO q0 -> coq_Ndouble (coq_land p0 q0)
       | XH -> N0)
    | XH -> (match q with
             | XO _ -> N0
             | _ -> Npos XH)

  (** val ldiff : positive -> positive -> n **)

  let rec ldiff p q =
    match p with
    | XI p0 ->
      (match q with
       | XI q0 -> coq_Ndouble (ldiff p0 q0)
       | XO q0 -> coq_Nsucc_double (ldiff p0 q0)
       | XH -> Npos (XO p0))
    | XO p0 ->
      (match q with
       | XI q0 -> coq_Ndouble (ldiff p0 q0)
       | XO q0 -> coq_Ndouble (ldiff p0 q0)
       | XH -> Npos p)
    | XH -> (match q with
             | XO _ -> Npos XH
             | _ -> N0)

  (** val shiftl : positive -> n -> positive **)

  let shiftl p = function
  | N0 -> p
  | Npos n1 -> iter (fun x -> XO x) p n1

  (** val testbit : positive -> n -> bool **)

  let rec testbit p n0 =
    match p with
    | XI p0 -> (match n0 with
                | N0 -> true
                | Npos n1 -> testbit p0 (pred_N n1))
    | XO p0 -> (match n0 with
                | N0 -> false
                | Npos n1 -> testbit p0 (pred_N n1))
    | XH -> (match n0 with
             | N0 -> true
             | Npos _ -> false)

  (** val iter_op : ('a1 -> 'a1 -> 'a1) -> positive -> 'a1 -> 'a1 **)

  let rec iter_op op0 p a =
    match p with
    | XI p0 -> op0 a (iter_op op0 p0 (op0 a a))
    | XO p0 -> iter_op op0 p0 (op0 a a)
    | XH -> a

  (** val to_nat : positive -> nat **)

  let to_nat x =
    iter_op Coq__1.add x (S O)

  (** val of_succ_nat : nat -> positive **)

  let rec of_succ_nat = function
  | O -> XH
  | S x -> succ (of_succ_nat x)
 end

module N =
 struct
  (** val succ_double : n -> n **)

  let succ_double = function
  | N0 -> Npos XH
  | Npos p -> Npos (XI p)

  (** val double : n -> n **)

  let double = function
  | N0 -> N0
  | Npos p -> Npos (XO p)

  (** val succ_pos : n -> positive **)

  let succ_pos = function
  | N0 -> XH
  | Npos p -> Coq_Pos.succ p

  (** val add : n -> n -> n **)

  let add n0 m =
    match n0 with
    | N0 -> m
    | Npos p -> (match m with
                 | N0 -> n0
                 | Npos q -> Npos (Coq_Pos.add p q))

  (** val sub : n -> n -> n **)

  let sub n0 m =
    match n0 with
    | N0 -> N0
    | Npos n' ->
      (match m with
       | N0 -> n0
       | Npos m' ->
         (match Coq_Pos.sub_mask n' m' with
          | Coq_Pos.IsPos p -> Npos p
          | _ -> N0))

  (** val mul : n -> n -> n **)

  let mul n0 m =
    match n0 with
    | N0 -> N0
    | Npos p -> (match m with
                 | N0 -> N0
                 | Npos q -> Npos (Coq_Pos.mul p q))

  (** val compare : n -> n -> comparison **)

  let compare n0 m =
    match n0 with
    | N0 -> (match m with
             | N0 -> Eq
             | Npos _ -> Lt)
    | Npos n' -> (match m with
                  | N0 -> Gt
                  | Npos m' -> Coq_Pos.compare n' m')

  (** val eqb : n -> n -> bool **)

  let eqb n0 m =
    match n0 with
    | N0 -> (match m with
             | N0 -> true
             | Npos _ -> false)
    | Npos p -> (match m with
                 | N0 -> false
                 | Npos q -> Coq_Pos.eqb p q)

  (** val leb : n -> n -> bool **)

  let leb x y =
    match compare x y with
    | Gt -> false
    | _ -> true

  (** val ltb : n -> n -> bool **)

  let ltb x y =
    match compare x y with
    | Lt -> true
    | _ -> false

  (** val min : n -> n -> n **)

  let min n0 n' =
    match compare n0 n' with
    | Gt -> n'
    | _ -> n0

  (** val div2 : n -> n **)

  let div2 = function
  | N0 -> N0
  | Npos p0 -> (match p0 with
                | XI p -> Npos p
                | XO p -> Npos p
                | XH -> N0)

  (** val pos_div_eucl : positive -> n -> n * n **)

  let rec pos_div_eucl a b =
    match a with
    | XI a' ->
      let (q, r) = pos_div_eucl a' b in
      let r' = succ_double r in
      if leb b r' then ((succ_double q), (sub r' b)) else ((double q), r')
    | XO a' ->
      let (q, r) = pos_div_eucl a' b in
      let r' = double r in
      if leb b r' then ((succ_double q), (sub r' b)) else ((double q), r')
    | XH ->
      (match b with
       | N0 -> (N0, (Npos XH))
       | Npos p -> (match p with
                    | XH -> ((Npos XH), N0)
                    | _ -> (N0, (Npos XH))))

  (** val div_eucl : n -> n -> n * n **)

  let div_eucl a b =
    match a with
    | N0 -> (N0, N0)
    | Npos na -> (match b with
                  | N0 -> (N0, a)
                  | Npos _ -> pos_div_eucl na b)

  (** val div : n -> n -> n **)

  let div a b =
    fst (div_eucl a b)

  (** val modulo : n -> n -> n **)

  let modulo a b =
    snd (div_eucl a b)

  (** val coq_lor : n -> n -> n **)

  let coq_lor n0 m =
    match n0 with
    | N0 -> m
    | Npos p -> (match m with
                 | N0 -> n0
                 | Npos q -> Npos (Coq_Pos.coq_lor p q))

  (** val coq_land : n -> n -> n **)

  let coq_land n0 m =
    match n0 with
    | N0 -> N0
    | Npos p -> (match m with
                 | N0 -> N0
                 | Npos q -> Coq_Pos.coq_land p q)

  (** val ldiff : n -> n -> n **)

  let ldiff n0 m =
    match n0 with
    | N0 -> N0
    | Npos p -> (match m with
                 | N0 -> n0
                 | Npos q -> Coq_Pos.ldiff p q)

  (** val shiftl : n -> n -> n **)

  let shiftl a n0 =
    match a with
    | N0 -> N0
    | Npos a0 -> Npos (Coq_Pos.shiftl a0 n0)

  (** val shiftr : n -> n -> n **)

  let shiftr a = function
  | N0 -> a
  | Npos p -> Coq_Pos.iter div2 a p

  (** val testbit : n -> n -> bool **)

  let testbit a n0 =
    match a with
    | N0 -> false
    | Npos p -> Coq_Pos.testbit p n0

  (** val to_nat : n -> nat **)

  let to_nat = function
  | N0 -> O
  | Npos p -> Coq_Pos.to_nat p

  (** val of_nat : nat -> n **)

  let of_nat = function
  | O -> N0
  | S n' -> Npos (Coq_Pos.of_succ_nat n')
 end

(** val eqb0 : byte -> byte -> bool **)

let eqb0 a b =
  let (a0, p) = to_bits a in
  let (a1, p0) = p in
  let (a2, p1) = p0 in
  let (a3, p2) = p1 in
  let (a4, p3) = p2 in
  let (a5, p4) = p3 in
  let (a6, a7) = p4 in
  let (b0, p5) = to_bits b in
  let (b1, p6) = p5 in
  let (b2, p7) = p6 in
  let (b3, p8) = p7 in
  let (b4, p9) = p8 in
  let (b5, p10) = p9 in
  let (b6, b7) = p10 in
  (&&)
    ((&&)
      ((&&)
        ((&&)
          ((&&) ((&&) ((&&) (eqb a0 b0) (eqb a1 b1)) (eqb a2 b2)) (eqb a3 b3))
          (eqb a4 b4)) (eqb a5 b5)) (eqb a6 b6)) (eqb a7 b7)

(** val to_N : byte -> n **)

let to_N = function
| X00 -> N0
| X01 -> Npos XH
| X02 -> Npos (XO XH)
| X03 -> Npos (XI XH)
| X04 -> Npos (XO (XO XH))
| X05 -> Npos (XI (XO XH))
| X06 -> Npos (XO (XI XH))
| X07 -> Npos (XI (XI XH))
| X08 -> Npos (XO (XO (XO XH)))
| X09 -> Npos (XI (XO (XO XH)))
| X0a -> Npos (XO (XI (XO XH)))
| X0b -> Npos (XI (XI (XO XH)))
| X0c -> Npos (XO (XO (XI XH)))
| X0d -> Npos (XI (XO (XI XH)))
| X0e -> Npos (XO (XI (XI XH)))
| X0f -> Npos (XI (XI (XI XH)))
| X10 -> Npos (XO (XO (XO (XO XH))))
| X11 -> Npos (XI (XO (XO (XO XH))))
| X12 -> Npos (XO (XI (XO (XO XH))))
| X13 -> Npos (XI (XI (XO (XO XH))))
| X14 -> Npos (XO (XO (XI (XO XH))))
| X15 -> Npos (XI (XO (XI (XO XH))))
| X16 -> Npos (XO (XI (XI (XO XH))))
| X17 -> Npos (XI (XI (XI (XO XH))))
| X18 -> Npos (XO (XO (XO (XI XH))))
| X19 -> Npos (XI (XO (XO (XI XH))))
| X1a -> Npos (XO (XI (XO (XI XH))))
| X1b -> Npos (XI (XI (XO (XI XH))))
| X1c -> Npos (XO (XO (XI (XI XH))))
| X1d -> Npos (XI (XO (XI (XI XH))))
| X1e -> Npos (XO (XI (XI (XI XH))))
| X1f -> Npos (XI (XI (XI (XI XH))))
| X20 -> Npos (XO (XO (XO (XO (XO XH)))))
| X21 -> Npos (XI (XO (XO (XO (XO XH)))))
| X22 -> Npos (XO (XI (XO (XO (XO XH)))))
| X23 -> Npos (XI (XI (XO (XO (XO XH)))))
| X24 -> Npos (XO (XO (XI (XO (XO XH)))))
| X25 -> Npos (XI (XO (XI (XO (XO XH)))))
| X26 -> Npos (XO (XI (XI (XO (XO XH)))))
| X27 -> Npos (XI (XI (XI (XO (XO XH)))))
| X28 -> Npos (XO (XO (XO (XI (XO XH)))))
| X29 -> Npos (XI (XO (XO (XI (XO XH)))))
| X2a -> Npos (XO (XI (XO (XI (XO XH)))))
| X2b -> Npos (XI (XI (XO (XI (XO XH)))))
| X2c -> Npos (XO (XO (XI (XI (XO XH)))))
| X2d -> Npos (XI (XO (XI (XI (XO XH)))))
| X2e -> Npos (XO (XI (XI (XI (XO XH)))))
| X2f -> Npos (XI (XI (XI (XI (XO XH)))))
| X30 -> Npos (XO (XO (XO (XO (XI XH)))))
| X31 -> Npos (XI (XO (XO (XO (XI XH)))))
| X32 -> Npos (XO (XI (XO (XO (XI XH)))))
| X33 -> Npos (XI (XI (XO (XO (XI XH)))))
| X34 -> Npos (XO (XO (XI (XO (XI XH)))))
| X35 -> Npos (XI (XO (XI (XO (XI XH)))))
| X36 -> Npos (XO (XI (XI (XO (XI XH)))))
| X37 -> Npos (XI (XI (XI (XO (XI XH)))))
| X38 -> Npos (XO (XO (XO (XI (XI XH)))))
| X39 -> Npos (XI (XO (XO (XI (XI XH)))))
| X3a -> Npos (XO (XI (XO (XI (XI XH)))))
| X3b -> Npos (XI (XI (XO (XI (XI XH)))))
| X3c -> Npos (XO (XO (XI (XI (XI XH)))))
| X3d -> Npos (XI (XO (XI (XI (XI XH)))))
| X3e -> Npos (XO (XI (XI (XI (XI XH)))))
| X3f -> Npos (XI (XI (XI (XI (XI XH)))))
| X40 -> Npos (XO (XO (XO (XO (XO (XO XH))))))
| X41 -> Npos (XI (XO (XO (XO (XO (XO XH))))))
| X42 -> Npos (XO (XI (XO (XO (XO (XO XH))))))
| X43 -> Npos (XI (XI (XO (XO (XO (XO XH))))))
| X44 -> Npos (XO (XO (XI (XO (XO (XO XH))))))
| X45 -> Npos (XI (XO (XI (XO (XO (XO XH))))))
| X46 -> Npos (XO (XI (XI (XO (XO (XO XH))))))
| X47 -> Npos (XI (XI (XI (XO (XO (XO XH))))))
| X48 -> Npos (XO (XO (XO (XI (XO (XO XH))))))
| X49 -> Npos (XI (XO (XO (XI (XO (XO XH))))))
| X4a -> Npos (XO (XI (XO (XI (XO (XO XH))))))
| X4b -> Npos (XI (XI (XO (XI (XO (XO XH))))))
| X4c -> Npos (XO (XO (XI (XI (XO (XO XH))))))
| X4d -> Npos (XI (XO (XI (XI (XO (XO XH))))))
| X4e -> Npos (XO (XI (XI (XI (XO (XO XH))))))
| X4f -> Npos (XI (XI (XI (XI (XO (XO XH))))))
| X50 -> Npos (XO (XO (XO (XO (XI (XO XH))))))
| X51 -> Npos (XI (XO (XO (XO (XI (XO XH))))))
| X52 -> Npos (XO (XI (XO (XO (XI (XO XH))))))
| X53 -> Npos (XI (XI (XO (XO (XI (XO XH))))))
| X54 -> Npos (XO (XO (XI (XO (XI (XO XH))))))
| X55 -> Npos (XI (XO (XI (XO (XI (XO XH))))))
| X56 -> Npos (XO (XI (XI (XO (XI (XO XH))))))
| X57 -> Npos (XI (XI (XI (XO (XI (XO XH))))))
| X58 -> Npos (XO (XO (XO (XI (XI (XO XH))))))
| X59 -> Npos (XI (XO (XO (XI (XI (XO XH))))))
| X5a -> Npos (XO (XI (XO (XI (XI (XO XH))))))
| X5b -> Npos (XI (XI (XO (XI (XI (XO XH))))))
| X5c -> Npos (XO (XO (XI (XI (XI (XO XH))))))
| X5d -> Npos (XI (XO (XI (XI (XI (XO XH))))))
| X5e -> Npos (XO (XI (XI (XI (XI (XO XH))))))
| X5f -> Npos (XI (XI (XI (XI (XI (XO XH))))))
| X60 -> Npos (XO (XO (XO (XO (XO (XI XH))))))
| X61 -> Npos (XI (XO (XO (XO (XO (XI XH))))))
| X62 -> Npos (XO (XI (XO (XO (XO (XI XH))))))
| X63 -> Npos (XI (XI (XO (XO (XO (XI XH))))))
| X64 -> Npos (XO (XO (XI (XO (XO (XI XH))))))
| X65 -> Npos (XI (XO (XI (XO (XO (XI XH))))))
| X66 -> Npos (XO (XI (XI (XO (XO (XI XH))))))
| X67 -> Npos (XI (XI (XI (XO (XO (XI XH))))))
| X68 -> Npos (XO (XO (XO (XI (XO (XI XH))))))
| X69 -> Npos (XI (XO (XO (XI (XO (XI XH))))))
| X6a -> Npos (XO (XI (XO (XI (XO (XI XH))))))
| X6b -> Npos (XI (XI (XO (XI (XO (XI XH))))))
| X6c -> Npos (XO (XO (XI (XI (XO (XI XH))))))
| X6d -> Npos (XI (XO (XI (XI (XO (XI XH))))))
| X6e -> Npos (XO (XI (XI (XI (XO (XI XH))))))
| X6f -> Npos (XI (XI (XI (XI (XO (XI XH))))))
| X70 -> Npos (XO (XO (XO (XO (XI (XI XH))))))
| X71 -> Npos (XI (XO (XO (XO (XI (XI XH))))))
| X72 -> Npos (XO (XI (XO (XO (XI (XI XH))))))
| X73 -> Npos (XI (XI (XO (XO (XI (XI XH))))))
| X74 -> Npos (XO (XO (XI (XO (XI (XI XH))))))
| X75 -> Npos (XI (XO (XI (XO (XI (XI XH))))))
| X76 -> Npos (XO (XI (XI (XO (XI (XI XH))))))
| X77 -> Npos (XI (XI (XI (XO (XI (XI XH))))))
| X78 -> Npos (XO (XO (XO (XI (XI (XI XH))))))
| X79 -> Npos (XI (XO (XO (XI (XI (XI XH))))))
| X7a -> Npos (XO (XI (XO (XI (XI (XI XH))))))
| X7b -> Npos (XI (XI (XO (XI (XI (XI XH))))))
| X7c -> Npos (XO (XO (XI (XI (XI (XI XH))))))
| X7d -> Npos (XI (XO (XI (XI (XI (XI XH))))))
| X7e -> Npos (XO (XI (XI (XI (XI (XI XH))))))
| X7f -> Npos (XI (XI (XI (XI (XI (XI XH))))))
| X80 -> Npos (XO (XO (XO (XO (XO (XO (XO XH)))))))
| X81 -> Npos (XI (XO (XO (XO (XO (XO (XO XH)))))))
| X82 -> Npos (XO (XI (XO (XO (XO (XO (XO XH)))))))
| X83 -> Npos (XI (XI (XO (XO (XO (XO (XO XH)))))))
| X84 -> Npos (XO (XO (XI (XO (XO (XO (XO XH)))))))
| X85 -> Npos (XI (XO (XI (XO (XO (XO (XO XH)))))))
| X86 -> Npos (XO (XI (XI (XO (XO (XO (XO XH)))))))
| X87 -> Npos (XI (XI (XI (XO (XO (XO (XO XH)))))))
| X88 -> Npos (XO (XO (XO (XI (XO (XO (XO XH)))))))
| X89 -> Npos (XI (XO (XO (XI (XO (XO (XO XH)))))))
| X8a -> Npos (XO (XI (XO (XI (XO (XO (XO XH)))))))
| X8b -> Npos (XI (XI (XO (XI (XO (XO (XO XH)))))))
| X8c -> Npos (XO (XO (XI (XI (XO (XO (XO XH)))))))
| X8d -> Npos (XI (XO (XI (XI (XO (XO (XO XH)))))))
| X8e -> Npos (XO (XI (XI (XI (XO (XO (XO XH)))))))
| X8f -> Npos (XI (XI (XI (XI (XO (XO (XO XH)))))))
| X90 -> Npos (XO (XO (XO (XO (XI (XO (XO XH)))))))
| X91 -> Npos (XI (XO (XO (XO (XI (XO (XO XH)))))))
| X92 -> Npos (XO (XI (XO (XO (XI (XO (XO XH)))))))
| X93 -> Npos (XI (XI (XO (XO (XI (XO (XO XH)))))))
| X94 -> Npos (XO (XO (XI (XO (XI (XO (XO XH)))))))
| X95 -> Npos (XI (XO (XI (XO (XI (XO (XO XH)))))))
| X96 -> Npos (XO (XI (XI (XO (XI (XO (XO XH)))))))
| X97 -> Npos (XI (XI (XI (XO (XI (XO (XO XH)))))))
| X98 -> Npos (XO (XO (XO (XI (XI (XO (XO XH)))))))
| X99 -> Npos (XI (XO (XO (XI (XI (XO (XO XH)))))))
| X9a -> Npos (XO (XI (XO (XI (XI (XO (XO XH)))))))
| X9b -> Npos (XI (XI (XO (XI (XI (XO (XO XH)))))))
| X9c -> Npos (XO (XO (XI (XI (XI (XO (XO XH)))))))
| X9d -> Npos (XI (XO (XI (XI (XI (XO (XO XH)))))))
| X9e -> Npos (XO (XI (XI (XI (XI (XO (XO XH)))))))
| X9f -> Npos (XI (XI (XI (XI (XI (XO (XO XH)))))))
| Xa0 -> Npos (XO (XO (XO (XO (XO (XI (XO XH)))))))
| Xa1 -> Npos (XI (XO (XO (XO (XO (XI (XO XH)))))))
| Xa2 -> Npos (XO (XI (XO (XO (XO (XI (XO XH)))))))
| Xa3 -> Npos (XI (XI (XO (XO (XO (XI (XO XH)))))))
| Xa4 -> Npos (XO (XO (XI (XO (XO (XI (XO XH)))))))
| Xa5 -> Npos (XI (XO (XI (XO (XO (XI (XO XH)))))))
| Xa6 -> Npos (XO (XI (XI (XO (XO (XI (XO XH)))))))
| Xa7 -> Npos (XI (XI (XI (XO (XO (XI (XO XH)))))))
| Xa8 -> Npos (XO (XO (XO (XI (XO (XI (XO XH)))))))
| Xa9 -> Npos (XI (XO (XO (XI (XO (XI (XO XH)))))))
| Xaa -> Npos (XO (XI (XO (XI (XO (XI (XO XH)))))))
| Xab -> Npos (XI (XI (XO (XI (XO (XI (XO XH)))))))
| Xac -> Npos (XO (XO (XI (XI (XO (XI (XO XH)))))))
| Xad -> Npos (XI (XO (XI (XI (XO (XI (XO XH)))))))
| Xae -> Npos (XO (XI (XI (XI (XO (XI (XO XH)))))))
| Xaf -> Npos (XI (XI (XI (XI (XO (XI (XO XH)))))))
| Xb0 -> Npos (XO (XO (XO (XO (XI (XI (XO XH)))))))
| Xb1 -> Npos (XI (XO (XO (XO (XI (XI (XO XH)))))))
| Xb2 -> Npos (XO (XI (XO (XO (XI (XI (XO XH)))))))
| Xb3 -> Npos (XI (XI (XO (XO (XI (XI (XO XH)))))))
| Xb4 -> Npos (XO (XO (XI (XO (XI (XI (XO XH)))))))
| Xb5 -> Npos (XI (XO (XI (XO (XI (XI (XO XH)))))))
| Xb6 -> Npos (XO (XI (XI (XO (XI (XI (XO XH)))))))
| Xb7 -> Npos (XI (XI (XI (XO (XI (XI (XO XH)))))))
| Xb8 -> Npos (XO (XO (XO (XI (XI (XI (XO XH)))))))
| Xb9 -> Npos (XI (XO (XO (XI (XI (XI (XO XH)))))))
| Xba -> Npos (XO (XI (XO (XI (XI (XI (XO XH)))))))
| Xbb -> Npos (XI (XI (XO (XI (XI (XI (XO XH)))))))
| Xbc -> Npos (XO (XO (XI (XI (XI (XI (XO XH)))))))
| Xbd -> Npos (XI (XO (XI (XI (XI (XI (XO XH)))))))
| Xbe -> Npos (XO (XI (XI (XI (XI (XI (XO XH)))))))
| Xbf -> Npos (XI (XI (XI (XI (XI (XI (XO XH)))))))
| Xc0 -> Npos (XO (XO (XO (XO (XO (XO (XI XH)))))))
| Xc1 -> Npos (XI (XO (XO (XO (XO (XO (XI XH)))))))
| Xc2 -> Npos (XO (XI (XO (XO (XO (XO (XI XH)))))))
| Xc3 -> Npos (XI (XI (XO (XO (XO (XO (XI XH)))))))
| Xc4 -> Npos (XO (XO (XI (XO (XO (XO (XI XH)))))))
| Xc5 -> Npos (XI (XO (XI (XO (XO (XO (XI XH)))))))
| Xc6 -> Npos (XO (XI (XI (XO (XO (XO (XI XH)))))))
| Xc7 -> Npos (XI (XI (XI (XO (XO (XO (XI XH)))))))
| Xc8 -> Npos (XO (XO (XO (XI (XO (XO (XI XH)))))))
| Xc9 -> Npos (XI (XO (XO (XI (XO (XO (XI XH)))))))
| Xca -> Npos (XO (XI (XO (XI (XO (XO (XI XH)))))))
| Xcb -> Npos (XI (XI (XO (XI (XO (XO (XI XH)))))))
| Xcc -> Npos (XO (XO (XI (XI (XO (XO (XI XH)))))))
| Xcd -> Npos (XI (XO (XI (XI (XO (XO (XI XH)))))))
| Xce -> Npos (XO (XI (XI (XI (XO (XO (XI XH)))))))
| Xcf -> Npos (XI (XI (XI (XI (XO (XO (XI XH)))))))
| Xd0 -> Npos (XO (XO (XO (XO (XI (XO (XI XH)))))))
| Xd1 -> Npos (XI (XO (XO (XO (XI (XO (XI XH)))))))
| Xd2 -> Npos (XO (XI (XO (XO (XI (XO (XI XH)))))))
| Xd3 -> Npos (XI (XI (XO (XO (XI (XO (XI XH)))))))
| Xd4 -> Npos (XO (XO (XI (XO (XI (XO (XI XH)))))))
| Xd5 -> Npos (XI (XO (XI (XO (XI (XO (XI XH)))))))
| Xd6 -> Npos (XO (XI (XI (XO (XI (XO (XI XH)))))))
| Xd7 -> Npos (XI (XI (XI (XO (XI (XO (XI XH)))))))
| Xd8 -> Npos (XO (XO (XO (XI (XI (XO (XI XH)))))))
| Xd9 -> Npos (XI (XO (XO (XI (XI (XO (XI XH)))))))
| Xda -> Npos (XO (XI (XO (XI (XI (XO (XI XH)))))))
| Xdb -> Npos (XI (XI (XO (XI (XI (XO (XI XH)))))))
| Xdc -> Npos (XO (XO (XI (XI (XI (XO (XI XH)))))))
| Xdd -> Npos (XI (XO (XI (XI (XI (XO (XI XH)))))))
| Xde -> Npos (XO (XI (XI (XI (XI (XO (XI XH)))))))
| Xdf -> Npos (XI (XI (XI (XI (XI (XO (XI XH)))))))
| Xe0 -> Npos (XO (XO (XO (XO (XO (XI (XI XH)))))))
| Xe1 -> Npos (XI (XO (XO (XO (XO (XI (XI XH)))))))
| Xe2 -> Npos (XO (XI (XO (XO (XO (XI (XI XH)))))))
| Xe3 -> Npos (XI (XI (XO (XO (XO (XI (XI XH)))))))
| Xe4 -> Npos (XO (XO (XI (XO (XO (XI (XI XH)))))))
| Xe5 -> Npos (XI (XO (XI (XO (XO (XI (XI XH)))))))
| Xe6 -> Npos (XO (XI (XI (XO (XO (XI (XI XH)))))))
| Xe7 -> Npos (XI (XI (XI (XO (XO (XI (XI XH)))))))
| Xe8 -> Npos (XO (XO (XO (XI (XO (XI (XI XH)))))))
| Xe9 -> Npos (XI (XO (XO (XI (XO (XI (XI XH)))))))
| Xea -> Npos (XO (XI (XO (XI (XO (XI (XI XH)))))))
| Xeb -> Npos (XI (XI (XO (XI (XO (XI (XI XH)))))))
| Xec -> Npos (XO (XO (XI (XI (XO (XI (XI XH)))))))
| Xed -> Npos (XI (XO (XI (XI (XO (XI (XI XH)))))))
| Xee -> Npos (XO (XI (XI (XI (XO (XI (XI XH)))))))
| Xef -> Npos (XI (XI (XI (XI (XO (XI (XI XH)))))))
| Xf0 -> Npos (XO (XO (XO (XO (XI (XI (XI XH)))))))
| Xf1 -> Npos (XI (XO (XO (XO (XI (XI (XI XH)))))))
| Xf2 -> Npos (XO (XI (XO (XO (XI (XI (XI XH)))))))
| Xf3 -> Npos (XI (XI (XO (XO (XI (XI (XI XH)))))))
| Xf4 -> Npos (XO (XO (XI (XO (XI (XI (XI XH)))))))
| Xf5 -> Npos (XI (XO (XI (XO (XI (XI (XI XH)))))))
| Xf6 -> Npos (XO (XI (XI (XO (XI (XI (XI XH)))))))
| Xf7 -> Npos (XI (XI (XI (XO (XI (XI (XI XH)))))))
| Xf8 -> Npos (XO (XO (XO (XI (XI (XI (XI XH)))))))
| Xf9 -> Npos (XI (XO (XO (XI (XI (XI (XI XH)))))))
| Xfa -> Npos (XO (XI (XO (XI (XI (XI (XI XH)))))))
| Xfb -> Npos (XI (XI (XO (XI (XI (XI (XI XH)))))))
| Xfc -> Npos (XO (XO (XI (XI (XI (XI (XI XH)))))))
| Xfd -> Npos (XI (XO (XI (XI (XI (XI (XI XH)))))))
| Xfe -> Npos (XO (XI (XI (XI (XI (XI (XI XH)))))))
| Xff -> Npos (XI (XI (XI (XI (XI (XI (XI XH)))))))

(** val of_N : n -> byte option **)

let of_N = function
| N0 -> Some X00
| Npos p ->
  (match p with
   | XI p0 ->
     (match p0 with
      | XI p1 ->
        (match p1 with
         | XI p2 ->
           (match p2 with
            | XI p3 ->
              (match p3 with
               | XI p4 ->
                 (match p4 with
                  | XI p5 ->
                    (match p5 with
                     | XI p6 -> (match p6 with
                                 | XH -> Some Xff
                                 | _ -> None)
                     | XO p6 -> (match p6 with
                                 | XH -> Some Xbf
                                 | _ -> None)
                     | XH -> Some X7f)
                  | XO p5 ->
                    (match p5 with
                     | XI p6 -> (match p6 with
                                 | XH -> Some Xdf
                                 | _ -> None)
                     | XO p6 -> (match p6 with
                                 | XH -> Some X9f
                                 | _ -> None)
                     | XH -> Some X5f)
                  | XH -> Some X3f)
               | XO p4 ->
                 (match p4 with
                  | XI p5 ->
                    (match p5 with
                     | XI p6 -> (match p6 with
                                 | XH -> Some Xef
                                 | _ -> None)
                     | XO p6 -> (match p6 with
                                 | XH -> Some Xaf
                                 | _ -> None)
                     | XH -> Some X6f)
                  | XO p5 ->
                    (match p5 with
                     | XI p6 -> (match p6 with
                                 | XH -> Some Xcf
                                 | _ -> None)
                     | XO p6 -> (match p6 with
                                 | XH -> Some X8f
                                 | _ -> None)
                     | XH -> Some X4f)
                  | XH -> Some X2f)
               | XH -> Some X1f)
            | XO p3 ->
              (match p3 with
               | XI p4 ->
                 (match p4 with
                  | XI p5 ->
                    (match p5 with
                     | XI p6 -> (match p6 with
                                 | XH -> Some Xf7
                                 | _ -> None)
                     | XO p6 -> (match p6 with
                                 | XH -> Some Xb7
                                 | _ -> None)
                     | XH -> Some X77)
                  | XO p5 ->
                    (match p5 with
                     | XI p6 -> (match p6 with
                                 | XH -> Some Xd7
                                 | _ -> None)
                     | XO p6 -> (match p6 with
                                 | XH -> Some X97
                                 | _ -> None)
                     | XH -> Some X57)
                  | XH -> Some X37)
               | XO p4 ->
                 (match p4 with
                  | XI p5 ->
                    (match p5 with
                     | XI p6 -> (match p6 with
                                 | XH -> Some Xe7
                                 | _ -> None)
                     | XO p6 -> (match p6 with
                                 | XH -> Some Xa7
                                 | _ -> None)
                     | XH -> Some X67)
                  | XO p5 ->
                    (match p5 with
                     | XI p6 -> (match p6 with
                                 | XH -> Some Xc7
                                 | _ -> None)
                     | XO p6 -> (match p6 with
                                 | XH -> Some X87
                                 | _ -> None)
                     | XH -> Some X47)
                  | XH -> Some X27)
               | XH -> Some X17)
            | XH -> Some X0f)
         | XO p2 ->
           (match p2 with
            | XI p3 ->
              (match p3 with
               | XI p4 ->
                 (match p4 with
                  | XI p5 ->
                    (match p5 with
                     | XI p6 -> (match p6 with
                                 | XH -> Some Xfb
                                 | _ -> None)
                     | XO p6 -> (match p6 with
                                 | XH -> Some Xbb
                                 | _ -> None)
                     | XH -> Some X7b)
                  | XO p5 ->
                    (match p5 with
                     | XI p6 -> (match p6 with
                                 | XH -> Some Xdb
                                 | _ -> None)
                     | XO p6 -> (match p6 with
                                 | XH -> Some X9b
                                 | _ -> None)
                     | XH -> Some X5b)
                  | XH -> Some X3b)
               | XO p4 ->
                 (match p4 with
                  | XI p5 ->
                    (match p5 with
                     | XI p6 -> (match p6 with
                                 | XH -> Some Xeb
                                 | _ -> None)
                     | XO p6 -> (match p6 with
                                 | XH -> Some Xab
                                 | _ -> None)
                     | XH -> Some X6b)
                  | XO p5 ->
                    (match p5 with
                     | XI p6 -> (match p6 with
                                 | XH -> Some Xcb
                                 | _ -> None)
                     | XO p6 -> (match p6 with
                                 | XH -> Some X8b
                                 | _ -> None)
                     | XH -> Some X4b)
                  | XH -> Some X2b)
               | XH -> Some X1b)
            | XO p3 ->
              (match p3 with
               | XI p4 ->
                 (match p4 with
                  | XI p5 ->
                    (match p5 with
                     | XI p6 -> (match p6 with
                                 | XH -> Some Xf3
                                 | _ -> None)
                     | XO p6 -> (match p6 with
                                 | XH -> Some Xb3
                                 | _ -> None)
                     | XH -> Some X73)
                  | XO p5 ->
                    (match p5 with
                     | XI p6 -> (match p6 with
                                 | XH -> Some Xd3
                                 | _ -> None)
                     | XO p6 -> (match p6 with
                                 | XH -> Some X93
                                 | _ -> None)
                     | XH -> Some X53)
                  | XH -> Some X33)
               | XO p4 ->
                 (match p4 with
                  | XI p5 ->
                    (match p5 with
                     | XI p6 -> (match p6 with
                                 | XH -> Some Xe3
                                 | _ -> None)
                     | XO p6 -> (match p6 with
                                 | XH -> Some Xa3
                                 | _ -> None)
                     | XH -> Some X63)
                  | XO p5 ->
                    (match p5 with
                     | XI p6 -> (match p6 with
                                 | XH -> Some Xc3
                                 | _ -> None)
                     | XO p6 -> (match p6 with
                                 | XH -> Some X83
                                 | _ -> None)
                     | XH -> Some X43)
                  | XH -> Some X23)
               | XH -> Some X13)
            | XH -> Some X0b)
         | XH -> Some X07)
      | XO p1 ->
        (match p1 with
         | XI p2 ->
           (match p2 with
            | XI p3 ->
              (match p3 with
               | XI p4 ->
                 (match p4 with
                  | XI p5 ->
                    (match p5 with
                     | XI p6 -> (match p6 with
                                 | XH -> Some Xfd
                                 | _ -> None)
                     | XO p6 -> (match p6 with
                                 | XH -> Some Xbd
                                 | _ -> None)
                     | XH -> Some X7d)
                  | XO p5 ->
                    (match p5 with
                     | XI p6 -> (match p6 with
                                 | XH -> Some Xdd
                                 | _ -> None)
                     | XO p6 -> (match p6 with
                                 | XH -> Some X9d
                                 | _ -> None)
                     | XH -> Some X5d)
                  | XH -> Some X3d)
               | XO p4 ->
                 (match p4 with
                  | XI p5 ->
                    (match p5 with
                     | XI p6 -> (match p6 with
                                 | XH -> Some Xed
                                 | _ -> None)
                     | XO p6 -> (match p6 with
                                 | XH -> Some Xad
                                 | _ -> None)
                     | XH -> Some X6d)
                  | XO p5 ->
                    (match p5 with
                     | XI p6 -> (match p6 with
                                 | XH -> Some Xcd
                                 | _ -> None)
                     | XO p6 -> (match p6 with
                                 | XH -> Some X8d
                                 | _ -> None)
                     | XH -> Some X4d)
                  | XH -> Some X2d)
               | XH -> Some X1d)
            | XO p3 ->
              (match p3 with
               | XI p4 ->
                 (match p4 with
                  | XI p5 ->
                    (match p5 with
                     | XI p6 -> (match p6 with
                                 | XH -> Some Xf5
                                 | _ -> None)
                     | XO p6 -> (match p6 with
                                 | XH -> Some Xb5
                                 | _ -> None)
                     | XH -> Some X75)
                  | XO p5 ->
                    (match p5 with
                     | XI p6 -> (match p6 with
                                 | XH -> Some Xd5
                                 | _ -> None)
                     | XO p6 -> (match p6 with
                                 | XH -> Some X95
                                 | _ -> None)
                     | XH -> Some X55)
                  | XH -> Some X35)
               | XO p4 ->
                 (match p4 with
                  | XI p5 ->
                    (match p5 with
                     | XI p6 -> (match p6 with
                                 | XH -> Some Xe5
                                 | _ -> None)
                     | XO p6 -> (match p6 with
                                 | XH -> Some Xa5
                                 | _ -> None)
                     | XH -> Some X65)
                  | XO p5 ->
                    (match p5 with
                     | XI p6 -> (match p6 with
                                 | XH -> Some Xc5
                                 | _ -> None)
                     | XO p6 -> (match p6 with
                                 | XH -> Some X85
                                 | _ -> None)
                     | XH -> Some X45)
                  | XH -> Some X25)
               | XH -> Some X15)
            | XH -> Some X0d)
         | XO p2 ->
           (match p2 with
            | XI p3 ->
              (match p3 with
               | XI p4 ->
                 (match p4 with
                  | XI p5 ->
                    (match p5 with
                     | XI p6 -> (match p6 with
                                 | XH -> Some Xf9
                                 | _ -> None)
                     | XO p6 -> (match p6 with
                                 | XH -> Some Xb9
                                 | _ -> None)
                     | XH -> Some X79)
                  | XO p5 ->
                    (match p5 with
                     | XI p6 -> (match p6 with
                                 | XH -> Some Xd9
                                 | _ -> None)
                     | XO p6 -> (match p6 with
                                 | XH -> Some X99
                                 | _ -> None)
                     | XH -> Some X59)
                  | XH -> Some X39)
               | XO p4 ->
                 (match p4 with
                  | XI p5 ->
                    (match p5 with
                     | XI p6 -> (match p6 with
                                 | XH -> Some Xe9
                                 | _ -> None)
                     | XO p6 -> (match p6 with
                                 | XH -> Some Xa9
                                 | _ -> None)
                     | XH -> Some X69)
                  | XO p5 ->
                    (match p5 with
                     | XI p6 -> (match p6 with
                                 | XH -> Some Xc9
                                 | _ -> None)
                     | XO p6 -> (match p6 with
                                 | XH -> Some X89
                                 | _ -> None)
                     | XH -> Some X49)
                  | XH -> Some X29)
               | XH -> Some X19)
            | XO p3 ->
              (match p3 with
               | XI p4 ->
                 (match p4 with
                  | XI p5 ->
                    (match p5 with
                     | XI p6 -> (match p6 with
                                 | XH -> Some Xf1
                                 | _ -> None)
                     | XO p6 -> (match p6 with
                                 | XH -> Some Xb1
                                 | _ -> None)
                     | XH -> Some X71)
                  | XO p5 ->
                    (match p5 with
                     | XI p6 -> (match p6 with
                                 | XH -> Some Xd1
                                 | _ -> None)
                     | XO p6 -> (match p6 with
                                 | XH -> Some X91
                                 | _ -> None)
                     | XH -> Some X51)
                  | XH -> Some X31)
               | XO p4 ->
                 (match p4 with
                  | XI p5 ->
                    (match p5 with
                     | XI p6 -> (match p6 with
                                 | XH -> Some Xe1
                                 | _ -> None)
                     | XO p6 -> (match p6 with
                                 | XH -> Some Xa1
                                 | _ -> None)
                     | XH -> Some X61)
                  | XO p5 ->
                    (match p5 with
                     | XI p6 -> (match p6 with
                                 | XH -> Some Xc1
                                 | _ -> None)
                     | XO p6 -> (match p6 with
                                 | XH -> Some X81
                                 | _ -> None)
                     | XH -> Some X41)
                  | XH -> Some X21)
               | XH -> Some X11)
            | XH -> Some X09)
         | XH -> Some X05)
      | XH -> Some X03)
   | XO p0 ->
     (match p0 with
      | XI p1 ->
        (match p1 with
         | XI p2 ->
           (match p2 with
            | XI p3 ->
              (match p3 with
               | XI p4 ->
                 (match p4 with
                  | XI p5 ->
                    (match p5 with
                     | XI p6 -> (match p6 with
                                 | XH -> Some Xfe
                                 | _ -> None)
                     | XO p6 -> (match p6 with
                                 | XH -> Some Xbe
                                 | _ -> None)
                     | XH -> Some X7e)
                  | XO p5 ->
                    (match p5 with
                     | XI p6 -> (match p6 with
                                 | XH -> Some Xde
                                 | _ -> None)
                     | XO p6 -> (match p6 with
                                 | XH -> Some X9e
                                 | _ -> None)
                     | XH -> Some X5e)
                  | XH -> Some X3e)
               | XO p4 ->
                 (match p4 with
                  | XI p5 ->
                    (match p5 with
                     | XI p6 -> (match p6 with
                                 | XH -> Some Xee
                                 | _ -> None)
                     | XO p6 -> (match p6 with
                                 | XH -> Some Xae
                                 | _ -> None)
                     | XH -> Some X6e)
                  | XO p5 ->
                    (match p5 with
                     | XI p6 -> (match p6 with
                                 | XH -> Some Xce
                                 | _ -> None)
                     | XO p6 -> (match p6 with
                                 | XH -> Some X8e
                                 | _ -> None)
                     | XH -> Some X4e)
                  | XH -> Some X2e)
               | XH -> Some X1e)
            | XO p3 ->
              (match p3 with
               | XI p4 ->
                 (match p4 with
                  | XI p5 ->
                    (match p5 with
                     | XI p6 -> (match p6 with
                                 | XH -> Some Xf6
                                 | _ -> None)
                     | XO p6 -> (match p6 with
                                 | XH -> Some Xb6
                                 | _ -> None)
                     | XH -> Some X76)
                  | XO p5 ->
                    (match p5 with
                     | XI p6 -> (match p6 with
                                 | XH -> Some Xd6
                                 | _ -> None)
                     | XO p6 -> (match p6 with
                                 | XH -> Some X96
                                 | _ -> None)
                     | XH -> Some X56)
                  | XH -> Some X36)
               | XO p4 ->
                 (match p4 with
                  | XI p5 ->
                    (match p5 with
                     | XI p6 -> (match p6 with
                                 | XH -> Some Xe6
                                 | _ -> None)
                     | XO p6 -> (match p6 with
                                 | XH -> Some Xa6
                                 | _ -> None)
                     | XH -> Some X66)
                  | XO p5 ->
                    (match p5 with
                     | XI p6 -> (match p6 with
                                 | XH -> Some Xc6
                                 | _ -> None)
                     | XO p6 -> (match p6 with
                                 | XH -> Some X86
                                 | _ -> None)
                     | XH -> Some X46)
                  | XH -> Some X26)
               | XH -> Some X16)
            | XH -> Some X0e)
         | XO p2 ->
           (match p2 with
            | XI p3 ->
              (match p3 with
               | XI p4 ->
                 (match p4 with
                  | XI p5 ->
                    (match p5 with
                     | XI p6 -> (match p6 with
                                 | XH -> Some Xfa
                                 | _ -> None)
                     | XO p6 -> (match p6 with
                                 | XH -> Some Xba
                                 | _ -> None)
                     | XH -> Some X7a)
                  | XO p5 ->
                    (match p5 with
                     | XI p6 -> (match p6 with
                                 | XH -> Some Xda
                                 | _ -> None)
                     | XO p6 -> (match p6 with
                                 | XH -> Some X9a
                                 | _ -> None)
                     | XH -> Some X5a)
                  | XH -> Some X3a)
               | XO p4 ->
                 (match p4 with
                  | XI p5 ->
                    (match p5 with
                     | XI p6 -> (match p6 with
                                 | XH -> Some Xea
                                 | _ -> None)
                     | XO p6 -> (match p6 with
                                 | XH -> Some Xaa
                                 | _ -> None)
                     | XH -> Some X6a)
                  | XO p5 ->
                    (match p5 with
                     | XI p6 -> (match p6 with
                                 | XH -> Some Xca
                                 | _ -> None)
                     | XO p6 -> (match p6 with
                                 | XH -> Some X8a
                                 | _ -> None)
                     | XH -> Some X4a)
                  | XH -> Some X2a)
               | XH -> Some X1a)
            | XO p3 ->
              (match p3 with
               | XI p4 ->
                 (match p4 with
                  | XI p5 ->
                    (match p5 with
                     | XI p6 -> (match p6 with
                                 | XH -> Some Xf2
                                 | _ -> None)
                     | XO p6 -> (match p6 with
                                 | XH -> Some Xb2
                                 | _ -> None)
                     | XH -> Some X72)
                  | XO p5 ->
                    (match p5 with
                     | XI p6 -> (match p6 with
                                 | XH -> Some Xd2
                                 | _ -> None)
                     | XO p6 -> (match p6 with
                                 | XH -> Some X92
                                 | _ -> None)
                     | XH -> Some X52)
                  | XH -> Some X32)
               | XO p4 ->
                 (match p4 with
                  | XI p5 ->
                    (match p5 with
                     | XI p6 -> (match p6 with
                                 | XH -> Some Xe2
                                 | _ -> None)
                     | XO p6 -> (match p6 with
                                 | XH -> Some Xa2
                                 | _ -> None)
                     | XH -> Some X62)
                  | XO p5 ->
                    (match p5 with
                     | XI p6 -> (match p6 with
                                 | XH -> Some Xc2
                                 | _ -> None)
                     | XO p6 -> (match p6 with
                                 | XH -> Some X82
                                 | _ -> None)
                     | XH -> Some X42)
                  | XH -> Some X22)
               | XH -> Some X12)
            | XH -> Some X0a)
         | XH -> Some X06)
      | XO p1 ->
        (match p1 with
         | XI p2 ->
           (match p2 with
            | XI p3 ->
              (match p3 with
               | XI p4 ->
                 (match p4 with
                  | XI p5 ->
                    (match p5 with
                     | XI p6 -> (match p6 with
                                 | XH -> Some Xfc
                                 | _ -> None)
                     | XO p6 -> (match p6 with
                                 | XH -> Some Xbc
                                 | _ -> None)
                     | XH -> Some X7c)
                  | XO p5 ->
                    (match p5 with
                     | XI p6 -> (match p6 with
                                 | XH -> Some Xdc
                                 | _ -> None)
                     | XO p6 -> (match p6 with
                                 | XH -> Some X9c
                                 | _ -> None)
                     | XH -> Some X5c)
                  | XH -> Some X3c)
               | XO p4 ->
                 (match p4 with
                  | XI p5 ->
                    (match p5 with
                     | XI p6 -> (match p6 with
                                 | XH -> Some Xec
                                 | _ -> None)
                     | XO p6 -> (match p6 with
                                 | XH -> Some Xac
                                 | _ -> None)
                     | XH -> Some X6c)
                  | XO p5 ->
                    (match p5 with
                     | XI p6 -> (match p6 with
                                 | XH -> Some Xcc
                                 | _ -> None)
                     | XO p6 -> (match p6 with
                                 | XH -> Some X8c
                                 | _ -> None)
                     | XH -> Some X4c)
                  | XH -> Some X2c)
               | XH -> Some X1c)
            | XO p3 ->
              (match p3 with
               | XI p4 ->
                 (match p4 with
                  | XI p5 ->
                    (match p5 with
                     | XI p6 -> (match p6 with
                                 | XH -> Some Xf4
                                 | _ -> None)
                     | XO p6 -> (match p6 with
                                 | XH -> Some Xb4
                                 | _ -> None)
                     | XH -> Some X74)
                  | XO p5 ->
                    (match p5 with
                     | XI p6 -> (match p6 with
                                 | XH -> Some Xd4
                                 | _ -> None)
                     | XO p6 -> (match p6 with
                                 | XH -> Some X94
                                 | _ -> None)
                     | XH -> Some X54)
                  | XH -> Some X34)
               | XO p4 ->
                 (match p4 with
                  | XI p5 ->
                    (match p5 with
                     | XI p6 -> (match p6 with
                                 | XH -> Some Xe4
                                 | _ -> None)
                     | XO p6 -> (match p6 with
                                 | XH -> Some Xa4
                                 | _ -> None)
                     | XH -> Some X64)
                  | XO p5 ->
                    (match p5 with
                     | XI p6 -> (match p6 with
                                 | XH -> Some Xc4
                                 | _ -> None)
                     | XO p6 -> (match p6 with
                                 | XH -> Some X84
                                 | _ -> None)
                     | XH -> Some X44)
                  | XH -> Some X24)
               | XH -> Some X14)
            | XH -> Some X0c)
         | XO p2 ->
           (match p2 with
            | XI p3 ->
              (match p3 with
               | XI p4 ->
                 (match p4 with
                  | XI p5 ->
                    (match p5 with
                     | XI p6 -> (match p6 with
                                 | XH -> Some Xf8
                                 | _ -> None)
                     | XO p6 -> (match p6 with
                                 | XH -> Some Xb8
                                 | _ -> None)
                     | XH -> Some X78)
                  | XO p5 ->
                    (match p5 with
                     | XI p6 -> (match p6 with
                                 | XH -> Some Xd8
                                 | _ -> None)
                     | XO p6 -> (match p6 with
                                 | XH -> Some X98
                                 | _ -> None)
                     | XH -> Some X58)
                  | XH -> Some X38)
               | XO p4 ->
                 (match p4 with
                  | XI p5 ->
                    (match p5 with
                     | XI p6 -> (match p6 with
                                 | XH -> Some Xe8
                                 | _ -> None)
                     | XO p6 -> (match p6 with
                                 | XH -> Some Xa8
                                 | _ -> None)
                     | XH -> Some X68)
                  | XO p5 ->
                    (match p5 with
                     | XI p6 -> (match p6 with
                                 | XH -> Some Xc8
                                 | _ -> None)
                     | XO p6 -> (match p6 with
                                 | XH -> Some X88
                                 | _ -> None)
                     | XH -> Some X48)
                  | XH -> Some X28)
               | XH -> Some X18)
            | XO p3 ->
              (match p3 with
               | XI p4 ->
                 (match p4 with
                  | XI p5 ->
                    (match p5 with
                     | XI p6 -> (match p6 with
                                 | XH -> Some Xf0
                                 | _ -> None)
                     | XO p6 -> (match p6 with
                                 | XH -> Some Xb0
                                 | _ -> None)
                     | XH -> Some X70)
                  | XO p5 ->
                    (match p5 with
                     | XI p6 -> (match p6 with
                                 | XH -> Some Xd0
                                 | _ -> None)
                     | XO p6 -> (match p6 with
                                 | XH -> Some X90
                                 | _ -> None)
                     | XH -> Some X50)
                  | XH -> Some X30)
               | XO p4 ->
                 (match p4 with
                  | XI p5 ->
                    (match p5 with
                     | XI p6 -> (match p6 with
                                 | XH -> Some Xe0
                                 | _ -> None)
                     | XO p6 -> (match p6 with
                                 | XH -> Some Xa0
                                 | _ -> None)
                     | XH -> Some X60)
                  | XO p5 ->
                    (match p5 with
                     | XI p6 -> (match p6 with
                                 | XH -> Some Xc0
                                 | _ -> None)
                     | XO p6 -> (match p6 with
                                 | XH -> Some X80
                                 | _ -> None)
                     | XH -> Some X40)
                  | XH -> Some X20)
               | XH -> Some X10)
            | XH -> Some X08)
         | XH -> Some X04)
      | XH -> Some X02)
   | XH -> Some X01)

module Z =
 struct
  (** val double : z -> z **)

  let double = function
  | Z0 -> Z0
  | Zpos p -> Zpos (XO p)
  | Zneg p -> Zneg (XO p)

  (** val succ_double : z -> z **)

  let succ_double = function
  | Z0 -> Zpos XH
  | Zpos p -> Zpos (XI p)
  | Zneg p -> Zneg (Coq_Pos.pred_double p)

  (** val pred_double : z -> z **)

  let pred_double = function
  | Z0 -> Zneg XH
  | Zpos p -> Zpos (Coq_Pos.pred_double p)
  | Zneg p -> Zneg (XI p)

  (** val pos_sub : positive -> positive -> z **)

  let rec pos_sub x y =
    match x with
    | XI p ->
      (match y with
       | XI q -> double (pos_sub p q)
       | XO q -> succ_double (pos_sub p q)
       | XH -> Zpos (XO p))
    | XO p ->
      (match y with
       | XI q -> pred_double (pos_sub p q)
       | XO q -> double (pos_sub p q)
       | XH -> Zpos (Coq_Pos.pred_double p))
    | XH ->
      (match y with
       | XI q -> Zneg (XO q)
       | XO q -> Zneg (Coq_Pos.pred_double q)
       | XH -> Z0)

  (** val add : z -> z -> z **)

  let add x y =
    match x with
    | Z0 -> y
    | Zpos x' ->
      (match y with
       | Z0 -> x
       | Zpos y' -> Zpos (Coq_Pos.add x' y')
       | Zneg y' -> pos_sub x' y')
    | Zneg x' ->
      (match y with
       | Z0 -> x
       | Zpos y' -> pos_sub y' x'
       | Zneg y' -> Zneg (Coq_Pos.add x' y'))

  (** val opp : z -> z **)

  let opp = function
  | Z0 -> Z0
  | Zpos x0 -> Zneg x0
  | Zneg x0 -> Zpos x0

  (** val pred : z -> z **)

  let pred x =
    add x (Zneg XH)

  (** val sub : z -> z -> z **)

  let sub m n0 =
    add m (opp n0)

  (** val mul : z -> z -> z **)

  let mul x y =
    match x with
    | Z0 -> Z0
    | Zpos x' ->
      (match y with
       | Z0 -> Z0
       | Zpos y' -> Zpos (Coq_Pos.mul x' y')
       | Zneg y' -> Zneg (Coq_Pos.mul x' y'))
    | Zneg x' ->
      (match y with
       | Z0 -> Z0
       | Zpos y' -> Zneg (Coq_Pos.mul x' y')
       | Zneg y' -> Zpos (Coq_Pos.mul x' y'))

  (** val compare : z -> z -> comparison **)

  let compare x y =
    match x with
    | Z0 -> (match y with
             | Z0 -> Eq
             | Zpos _ -> Lt
             | Zneg _ -> Gt)
    | Zpos x' -> (match y with
                  | Zpos y' -> Coq_Pos.compare x' y'
                  | _ -> Gt)
    | Zneg x' ->
      (match y with
       | Zneg y' -> compOpp (Coq_Pos.compare x' y')
       | _ -> Lt)

  (** val leb : z -> z -> bool **)

  let leb x y =
    match compare x y with
    | Gt -> false
    | _ -> true

  (** val ltb : z -> z -> bool **)

  let ltb x y =
    match compare x y with
    | Lt -> true
    | _ -> false

  (** val eqb : z -> z -> bool **)

  let eqb x y =
    match x with
    | Z0 -> (match y with
             | Z0 -> true
             | _ -> false)
    | Zpos p -> (match y with
                 | Zpos q -> Coq_Pos.eqb p q
                 | _ -> false)
    | Zneg p -> (match y with
                 | Zneg q -> Coq_Pos.eqb p q
                 | _ -> false)

  (** val to_N : z -> n **)

  let to_N = function
  | Zpos p -> Npos p
  | _ -> N0

  (** val of_nat : nat -> z **)

  let of_nat = function
  | O -> Z0
  | S n1 -> Zpos (Coq_Pos.of_succ_nat n1)

  (** val of_N : n -> z **)

  let of_N = function
  | N0 -> Z0
  | Npos p -> Zpos p

  (** val pos_div_eucl : positive -> z -> z * z **)

  let rec pos_div_eucl a b =
    match a with
    | XI a' ->
      let (q, r) = pos_div_eucl a' b in
      let r' = add (mul (Zpos (XO XH)) r) (Zpos XH) in
      if ltb r' b
      then ((mul (Zpos (XO XH)) q), r')
      else ((add (mul (Zpos (XO XH)) q) (Zpos XH)), (sub r' b))
    | XO a' ->
      let (q, r) = pos_div_eucl a' b in
      let r' = mul (Zpos (XO XH)) r in
      if ltb r' b
      then ((mul (Zpos (XO XH)) q), r')
      else ((add (mul (Zpos (XO XH)) q) (Zpos XH)), (sub r' b))
    | XH -> if leb (Zpos (XO XH)) b then (Z0, (Zpos XH)) else ((Zpos XH), Z0)

  (** val div_eucl : z -> z -> z * z **)

  let div_eucl a b =
    match a with
    | Z0 -> (Z0, Z0)
    | Zpos a' ->
      (match b with
       | Z0 -> (Z0, a)
       | Zpos _ -> pos_div_eucl a' b
       | Zneg b' ->
         let (q, r) = pos_div_eucl a' (Zpos b') in
         (match r with
          | Z0 -> ((opp q), Z0)
          | _ -> ((opp (add q (Zpos XH))), (add b r))))
    | Zneg a' ->
      (match b with
       | Z0 -> (Z0, a)
       | Zpos _ ->
         let (q, r) = pos_div_eucl a' b in
         (match r with
          | Z0 -> ((opp q), Z0)
          | _ -> ((opp (add q (Zpos XH))), (sub b r)))
       | Zneg b' -> let (q, r) = pos_div_eucl a' (Zpos b') in (q, (opp r)))

  (** val modulo : z -> z -> z **)

  let modulo a b =
    let (_, r) = div_eucl a b in r

  (** val quotrem : z -> z -> z * z **)

  let quotrem a b =
    match a with
    | Z0 -> (Z0, Z0)
    | Zpos a0 ->
      (match b with
       | Z0 -> (Z0, a)
       | Zpos b0 ->
         let (q, r) = N.pos_div_eucl a0 (Npos b0) in ((of_N q), (of_N r))
       | Zneg b0 ->
         let (q, r) = N.pos_div_eucl a0 (Npos b0) in
         ((opp (of_N q)), (of_N r)))
    | Zneg a0 ->
      (match b with
       | Z0 -> (Z0, a)
       | Zpos b0 ->
         let (q, r) = N.pos_div_eucl a0 (Npos b0) in
         ((opp (of_N q)), (opp (of_N r)))
       | Zneg b0 ->
         let (q, r) = N.pos_div_eucl a0 (Npos b0) in
         ((of_N q), (opp (of_N r))))

  (** val quot : z -> z -> z **)

  let quot a b =
    fst (quotrem a b)

  (** val rem : z -> z -> z **)

  let rem a b =
    snd (quotrem a b)

  (** val odd : z -> bool **)

  let odd = function
  | Z0 -> false
  | Zpos p -> (match p with
               | XO _ -> false
               | _ -> true)
  | Zneg p -> (match p with
               | XO _ -> false
               | _ -> true)

  (** val testbit : z -> z -> bool **)

  let testbit a = function
  | Z0 -> odd a
  | Zpos p ->
    (match a with
     | Z0 -> false
     | Zpos a0 -> Coq_Pos.testbit a0 (Npos p)
     | Zneg a0 -> negb (N.testbit (Coq_Pos.pred_N a0) (Npos p)))
  | Zneg _ -> false

  (** val coq_lor : z -> z -> z **)

  let coq_lor a b =
    match a with
    | Z0 -> b
    | Zpos a0 ->
      (match b with
       | Z0 -> a
       | Zpos b0 -> Zpos (Coq_Pos.coq_lor a0 b0)
       | Zneg b0 -> Zneg (N.succ_pos (N.ldiff (Coq_Pos.pred_N b0) (Npos a0))))
    | Zneg a0 ->
      (match b with
       | Z0 -> a
       | Zpos b0 -> Zneg (N.succ_pos (N.ldiff (Coq_Pos.pred_N a0) (Npos b0)))
       | Zneg b0 ->
         Zneg
           (N.succ_pos (N.coq_land (Coq_Pos.pred_N a0) (Coq_Pos.pred_N b0))))

  (** val coq_land : z -> z -> z **)

  let coq_land a b =
    match a with
    | Z0 -> Z0
    | Zpos a0 ->
      (match b with
       | Z0 -> Z0
       | Zpos b0 -> of_N (Coq_Pos.coq_land a0 b0)
       | Zneg b0 -> of_N (N.ldiff (Npos a0) (Coq_Pos.pred_N b0)))
    | Zneg a0 ->
      (match b with
       | Z0 -> Z0
       | Zpos b0 -> of_N (N.ldiff (Npos b0) (Coq_Pos.pred_N a0))
       | Zneg b0 ->
         Zneg (N.succ_pos (N.coq_lor (Coq_Pos.pred_N a0) (Coq_Pos.pred_N b0))))

  (** val lnot : z -> z **)

  let lnot a =
    pred (opp a)
 end

type bytes = byte list

(** val byte_of_N : n -> byte **)

let byte_of_N n0 =
  match of_N n0 with
  | Some b -> b
  | None -> X00

(** val n_of_byte : byte -> n **)

let n_of_byte =
  to_N

type key = { k_code : z; k_mod : z }

(** val key_eqb : key -> key -> bool **)

let key_eqb a b =
  (&&) (Z.eqb a.k_code b.k_code) (Z.eqb a.k_mod b.k_mod)

(** val kShiftMask : z **)

let kShiftMask =
  Zpos XH

(** val kControlMask : z **)

let kControlMask =
  Zpos (XO (XO XH))

(** val k_shift : key -> bool **)

let k_shift k =
  Z.testbit k.k_mod Z0

(** val k_ctrl : key -> bool **)

let k_ctrl k =
  Z.testbit k.k_mod (Zpos (XO XH))

(** val k_alt : key -> bool **)

let k_alt k =
  Z.testbit k.k_mod (Zpos (XI XH))

(** val k_super : key -> bool **)

let k_super k =
  Z.testbit k.k_mod (Zpos (XO (XI (XO (XI XH)))))

(** val k_release : key -> bool **)

let k_release k =
  Z.testbit k.k_mod (Zpos (XO (XI (XI (XI XH)))))

(** val clear_shift : z -> z **)

let clear_shift m =
  Z.coq_land m (Z.lnot kShiftMask)

(** val shift_as_control : z -> z **)

let shift_as_control m =
  Z.coq_lor (clear_shift m) kControlMask

(** val xK_space : z **)

let xK_space =
  Zpos (XO (XO (XO (XO (XO XH)))))

(** val xK_0 : z **)

let xK_0 =
  Zpos (XO (XO (XO (XO (XI XH)))))

(** val xK_9 : z **)

let xK_9 =
  Zpos (XI (XO (XO (XI (XI XH)))))

(** val xK_KP_0 : z **)

let xK_KP_0 =
  Zpos (XO (XO (XO (XO (XI (XI (XO (XI (XI (XI (XI (XI (XI (XI (XI
    XH)))))))))))))))

(** val xK_KP_9 : z **)

let xK_KP_9 =
  Zpos (XI (XO (XO (XI (XI (XI (XO (XI (XI (XI (XI (XI (XI (XI (XI
    XH)))))))))))))))

(** val xK_BackSpace : z **)

let xK_BackSpace =
  Zpos (XO (XO (XO (XI (XO (XO (XO (XO (XI (XI (XI (XI (XI (XI (XI
    XH)))))))))))))))

(** val xK_Return : z **)

let xK_Return =
  Zpos (XI (XO (XI (XI (XO (XO (XO (XO (XI (XI (XI (XI (XI (XI (XI
    XH)))))))))))))))

type editor_action =
| EdConfirm
| EdToggleSelection
| EdCommitComment
| EdCommitRawInput
| EdCommitScriptText
| EdCommitComposition
| EdRevertLastEdit
| EdBackToPreviousInput
| EdBackToPreviousSyllable
| EdDeleteCandidate
| EdDeleteChar
| EdCancelComposition
| EdUnrecognised

type char_handler =
| CHDirectCommit
| CHAddToInput
| CHNone
| CHUnrecognised

type nav_action =
| NavRewind
| NavLeftByChar
| NavRightByChar
| NavLeftBySyllable
| NavRightBySyllable
| NavHome
| NavEnd
| NavUnrecognised

type sel_action =
| SelPreviousCandidate
| SelNextCandidate
| SelPreviousPage
| SelNextPage
| SelHome
| SelEnd
| SelUnrecognised

type 'a keymap = (key * 'a) list

(** val keymap_bind : 'a1 keymap -> key -> 'a1 -> 'a1 keymap **)

let rec keymap_bind m k a =
  match m with
  | [] -> (k, a) :: []
  | p :: r ->
    let (k', a') = p in
    if key_eqb k' k then (k, a) :: r else (k', a') :: (keymap_bind r k a)

(** val keymap_of_binds : ((z * z) * 'a1) list -> 'a1 keymap **)

let keymap_of_binds binds =
  fold_left (fun m b ->
    let (y, a) = b in
    let (c, md) = y in keymap_bind m { k_code = c; k_mod = md } a) binds []

(** val keymap_find : 'a1 keymap -> key -> 'a1 option **)

let rec keymap_find m k =
  match m with
  | [] -> None
  | p :: r ->
    let (k', a) = p in if key_eqb k' k then Some a else keymap_find r k

(** val int_of_size : n -> z **)

let int_of_size n0 =
  let m =
    Z.modulo (Z.of_N n0) (Zpos (XO (XO (XO (XO (XO (XO (XO (XO (XO (XO (XO
      (XO (XO (XO (XO (XO (XO (XO (XO (XO (XO (XO (XO (XO (XO (XO (XO (XO (XO
      (XO (XO (XO XH)))))))))))))))))))))))))))))))))
  in
  if Z.ltb m (Zpos (XO (XO (XO (XO (XO (XO (XO (XO (XO (XO (XO (XO (XO (XO
       (XO (XO (XO (XO (XO (XO (XO (XO (XO (XO (XO (XO (XO (XO (XO (XO (XO
       XH))))))))))))))))))))))))))))))))
  then m
  else Z.sub m (Zpos (XO (XO (XO (XO (XO (XO (XO (XO (XO (XO (XO (XO (XO (XO
         (XO (XO (XO (XO (XO (XO (XO (XO (XO (XO (XO (XO (XO (XO (XO (XO (XO
         (XO XH)))))))))))))))))))))))))))))))))

(** val size_of_int : z -> n **)

let size_of_int z0 =
  Z.to_N
    (Z.modulo z0 (Zpos (XO (XO (XO (XO (XO (XO (XO (XO (XO (XO (XO (XO (XO
      (XO (XO (XO (XO (XO (XO (XO (XO (XO (XO (XO (XO (XO (XO (XO (XO (XO (XO
      (XO (XO (XO (XO (XO (XO (XO (XO (XO (XO (XO (XO (XO (XO (XO (XO (XO (XO
      (XO (XO (XO (XO (XO (XO (XO (XO (XO (XO (XO (XO (XO (XO (XO
      XH))))))))))))))))))))))))))))))))))))))))))))))))))))))))))))))))))

(** val size_wrap : n -> n **)

let size_wrap n0 =
  N.modulo n0 (Npos (XO (XO (XO (XO (XO (XO (XO (XO (XO (XO (XO (XO (XO (XO
    (XO (XO (XO (XO (XO (XO (XO (XO (XO (XO (XO (XO (XO (XO (XO (XO (XO (XO
    (XO (XO (XO (XO (XO (XO (XO (XO (XO (XO (XO (XO (XO (XO (XO (XO (XO (XO
    (XO (XO (XO (XO (XO (XO (XO (XO (XO (XO (XO (XO (XO (XO
    XH)))))))))))))))))))))))))))))))))))))))))))))))))))))))))))))))))

(** val bytes_eqb : bytes -> bytes -> bool **)

let rec bytes_eqb a b =
  match a with
  | [] -> (match b with
           | [] -> true
           | _ :: _ -> false)
  | x :: a' ->
    (match b with
     | [] -> false
     | y :: b' -> (&&) (eqb0 x y) (bytes_eqb a' b'))

(** val mem_byte : byte -> bytes -> bool **)

let mem_byte b l =
  existsb (eqb0 b) l

(** val find_byte : byte -> bytes -> nat option **)

let rec find_byte b = function
| [] -> None
| x :: r ->
  if eqb0 x b then Some O else option_map (fun x0 -> S x0) (find_byte b r)

(** val common_prefix : bytes -> bytes -> nat **)

let rec common_prefix a b =
  match a with
  | [] -> O
  | x :: a' ->
    (match b with
     | [] -> O
     | y :: b' -> if eqb0 x y then S (common_prefix a' b') else O)

(** val substr_se : bytes -> nat -> nat -> bytes * bool **)

let substr_se s pos en =
  if Nat.ltb (length s) pos
  then ([], false)
  else if Nat.leb pos en
       then ((firstn (sub en pos) (skipn pos s)), true)
       else ((skipn pos s), true)

type tag =
| TAbc
| TRaw
| TPartial
| TPaging
| TPhony
| TPlaceholder
| TSelectedBeforeEditing
| TPunct
| TPunctNumber

(** val tag_eqb : tag -> tag -> bool **)

let tag_eqb a b =
  match a with
  | TAbc -> (match b with
             | TAbc -> true
             | _ -> false)
  | TRaw -> (match b with
             | TRaw -> true
             | _ -> false)
  | TPartial -> (match b with
                 | TPartial -> true
                 | _ -> false)
  | TPaging -> (match b with
                | TPaging -> true
                | _ -> false)
  | TPhony -> (match b with
               | TPhony -> true
               | _ -> false)
  | TPlaceholder -> (match b with
                     | TPlaceholder -> true
                     | _ -> false)
  | TSelectedBeforeEditing ->
    (match b with
     | TSelectedBeforeEditing -> true
     | _ -> false)
  | TPunct -> (match b with
               | TPunct -> true
               | _ -> false)
  | TPunctNumber -> (match b with
                     | TPunctNumber -> true
                     | _ -> false)

type tags = tag list

(** val has_tag : tag -> tags -> bool **)

let has_tag t l =
  existsb (tag_eqb t) l

(** val tag_insert : tag -> tags -> tags **)

let tag_insert t l =
  if has_tag t l then l else t :: l

(** val tag_erase : tag -> tags -> tags **)

let tag_erase t l =
  filter (fun x -> negb (tag_eqb t x)) l

(** val tags_union : tags -> tags -> tags **)

let tags_union a b =
  fold_right tag_insert a b

type cand = { c_start : nat; c_end : nat; c_text : bytes; c_comment : 
              bytes; c_preedit : bytes; c_type : bytes }

type seginfo = { si_start : nat; si_end : nat; si_tags : tags;
                 si_opts : (bytes * bool) list }

(** val ty_punct : bytes **)

let ty_punct =
  X70 :: (X75 :: (X6e :: (X63 :: (X74 :: []))))

(** val ty_raw : bytes **)

let ty_raw =
  X72 :: (X61 :: (X77 :: []))

(** val ty_thru : bytes **)

let ty_thru =
  X74 :: (X68 :: (X72 :: (X75 :: [])))

(** val byte_tab : byte **)

let byte_tab =
  X09

(** val byte_space : byte **)

let byte_space =
  X20

type menu = cand list

(** val menu_count : menu -> n **)

let menu_count m =
  N.of_nat (length m)

(** val menu_prepare : menu -> n -> n **)

let menu_prepare m requested =
  N.min requested (menu_count m)

(** val menu_at : menu -> n -> cand option **)

let menu_at m i =
  if N.leb (menu_count m) i then None else nth_error m (N.to_nat i)

(** val menu_empty : menu -> bool **)

let menu_empty = function
| [] -> true
| _ :: _ -> false

type page = { pg_last : bool; pg_cands : cand list }

(** val create_page : menu -> n -> n -> page option * bool **)

let create_page m ps pn =
  let t = menu_count m in
  let start = size_wrap (N.mul ps pn) in
  let end0 = size_wrap (N.add start ps) in
  if N.ltb t end0
  then if N.leb t start
       then (None, true)
       else ((Some { pg_last = true; pg_cands =
              (skipn (N.to_nat start) m) }), true)
  else if N.leb end0 start
       then (None, false)
       else ((Some { pg_last = (N.eqb end0 t); pg_cands =
              (firstn (N.to_nat (N.sub end0 start))
                (skipn (N.to_nat start) m)) }), true)

type status =
| SVoid
| SGuess
| SSelected
| SConfirmed

(** val status_rank : status -> nat **)

let status_rank = function
| SVoid -> O
| SGuess -> S O
| SSelected -> S (S O)
| SConfirmed -> S (S (S O))

(** val status_geb : status -> status -> bool **)

let status_geb a b =
  Nat.leb (status_rank b) (status_rank a)

type segment = { s_status : status; s_start : nat; s_end : nat;
                 s_length : nat; s_tags : tags; s_menu : menu option;
                 s_sel : n; s_prompt : bytes }

(** val new_segment : nat -> nat -> segment **)

let new_segment st en =
  { s_status = SVoid; s_start = st; s_end = en; s_length = (sub en st);
    s_tags = []; s_menu = None; s_sel = N0; s_prompt = [] }

(** val seg_with_status : segment -> status -> segment **)

let seg_with_status g x =
  { s_status = x; s_start = g.s_start; s_end = g.s_end; s_length =
    g.s_length; s_tags = g.s_tags; s_menu = g.s_menu; s_sel = g.s_sel;
    s_prompt = g.s_prompt }

(** val seg_with_end : segment -> nat -> segment **)

let seg_with_end g e =
  { s_status = g.s_status; s_start = g.s_start; s_end = e; s_length =
    g.s_length; s_tags = g.s_tags; s_menu = g.s_menu; s_sel = g.s_sel;
    s_prompt = g.s_prompt }

(** val seg_with_tags : segment -> tags -> segment **)

let seg_with_tags g t =
  { s_status = g.s_status; s_start = g.s_start; s_end = g.s_end; s_length =
    g.s_length; s_tags = t; s_menu = g.s_menu; s_sel = g.s_sel; s_prompt =
    g.s_prompt }

(** val seg_with_sel : segment -> n -> segment **)

let seg_with_sel g i =
  { s_status = g.s_status; s_start = g.s_start; s_end = g.s_end; s_length =
    g.s_length; s_tags = g.s_tags; s_menu = g.s_menu; s_sel = i; s_prompt =
    g.s_prompt }

(** val seg_clear : segment -> segment **)

let seg_clear g =
  { s_status = SVoid; s_start = g.s_start; s_end = g.s_end; s_length =
    g.s_length; s_tags = []; s_menu = None; s_sel = N0; s_prompt = [] }

(** val seg_info : (bytes * bool) list -> segment -> seginfo **)

let seg_info opts g =
  { si_start = g.s_start; si_end = g.s_end; si_tags = g.s_tags; si_opts =
    opts }

(** val cand_at : segment -> n -> cand option **)

let cand_at g i =
  match g.s_menu with
  | Some m -> menu_at m i
  | None -> None

(** val selected_cand : segment -> cand option **)

let selected_cand g =
  cand_at g g.s_sel

(** val seg_close : segment -> segment **)

let seg_close g =
  match selected_cand g with
  | Some c ->
    if Nat.ltb c.c_end g.s_end
    then seg_with_tags (seg_with_end g c.c_end) (tag_insert TPartial g.s_tags)
    else g
  | None -> g

(** val seg_reopen : segment -> nat -> segment * bool **)

let seg_reopen g caret =
  if negb (status_geb g.s_status SSelected)
  then (g, false)
  else let original_end = add g.s_start g.s_length in
       if Nat.eqb original_end caret
       then let g1 =
              if Nat.ltb g.s_end original_end
              then seg_with_tags (seg_with_end g original_end)
                     (tag_erase TPartial g.s_tags)
              else g
            in
            ((seg_with_status g1 SGuess), true)
       else ((seg_with_status g SVoid), true)

type segmentation = { sg_input : bytes; sg_segs : segment list }

(** val segs_fwd : segmentation -> segment list **)

let segs_fwd sg =
  rev sg.sg_segs

(** val sg_empty : segmentation -> bool **)

let sg_empty sg =
  match sg.sg_segs with
  | [] -> true
  | _ :: _ -> false

(** val sg_back : segmentation -> segment option **)

let sg_back sg =
  hd_error sg.sg_segs

(** val sg_with_segs : segmentation -> segment list -> segmentation **)

let sg_with_segs sg l =
  { sg_input = sg.sg_input; sg_segs = l }

(** val sg_set_back : segmentation -> segment -> segmentation **)

let sg_set_back sg g =
  match sg.sg_segs with
  | [] -> sg
  | _ :: r -> sg_with_segs sg (g :: r)

(** val sg_pop_back : segmentation -> segmentation **)

let sg_pop_back sg =
  sg_with_segs sg (tl sg.sg_segs)

(** val sg_push_back : segmentation -> segment -> segmentation **)

let sg_push_back sg g =
  sg_with_segs sg (g :: sg.sg_segs)

(** val cur_start : segmentation -> nat **)

let cur_start sg =
  match sg.sg_segs with
  | [] -> O
  | g :: _ -> g.s_start

(** val cur_end : segmentation -> nat **)

let cur_end sg =
  match sg.sg_segs with
  | [] -> O
  | g :: _ -> g.s_end

(** val cur_len : segmentation -> nat **)

let cur_len sg =
  match sg.sg_segs with
  | [] -> O
  | g :: _ -> sub g.s_end g.s_start

(** val forward : segmentation -> segmentation * bool **)

let forward sg =
  match sg.sg_segs with
  | [] -> (sg, false)
  | g :: _ ->
    if Nat.eqb g.s_start g.s_end
    then (sg, false)
    else ((sg_push_back sg (new_segment g.s_end g.s_end)), true)

(** val trim : segmentation -> segmentation * bool **)

let trim sg =
  match sg.sg_segs with
  | [] -> (sg, false)
  | g :: _ ->
    if Nat.eqb g.s_start g.s_end
    then ((sg_pop_back sg), true)
    else (sg, false)

(** val has_finished : segmentation -> bool **)

let has_finished sg =
  Nat.leb (length sg.sg_input) (cur_end sg)

(** val confirmed_pos_rev : segment list -> nat **)

let rec confirmed_pos_rev = function
| [] -> O
| g :: r ->
  if status_geb g.s_status SSelected then g.s_end else confirmed_pos_rev r

(** val confirmed_pos : segmentation -> nat **)

let confirmed_pos sg =
  confirmed_pos_rev sg.sg_segs

(** val dispose : segment list -> nat -> segment list * nat **)

let rec dispose l diff_pos =
  match l with
  | [] -> ([], O)
  | g :: r ->
    if Nat.ltb diff_pos g.s_end
    then let (l', n0) = dispose r diff_pos in (l', (S n0))
    else (l, O)

(** val reset_input : segmentation -> bytes -> segmentation **)

let reset_input sg new_input =
  let diff_pos = common_prefix sg.sg_input new_input in
  let (l, disposed) = dispose sg.sg_segs diff_pos in
  let sg1 = sg_with_segs sg l in
  let sg2 = if Nat.ltb O disposed then fst (forward sg1) else sg1 in
  { sg_input = new_input; sg_segs = sg2.sg_segs }

(** val add_segment : segmentation -> segment -> segmentation * bool **)

let add_segment sg g =
  if negb (Nat.eqb g.s_start (cur_start sg))
  then (sg, false)
  else (match sg.sg_segs with
        | [] -> ((sg_push_back sg g), true)
        | last0 :: r ->
          if Nat.ltb g.s_end last0.s_end
          then (sg, true)
          else if Nat.ltb last0.s_end g.s_end
               then ((sg_with_segs sg (g :: r)), true)
               else ((sg_with_segs sg
                       ((seg_with_tags last0
                          (tags_union last0.s_tags g.s_tags)) :: r)), true))

type err =
| ErrSubstr
| ErrNullDeref
| ErrBadRange
| ErrFuel
| ErrRecursion
| ErrDangling

type hrec = bytes * bool

type hist = hrec option

type context = { cx_input : bytes; cx_caret : nat; cx_comp : segmentation;
                 cx_opts : (bytes * bool) list; cx_err : err option;
                 cx_hist : hist }

(** val ctx_with_input : context -> bytes -> nat -> context **)

let ctx_with_input c i k =
  { cx_input = i; cx_caret = k; cx_comp = c.cx_comp; cx_opts = c.cx_opts;
    cx_err = c.cx_err; cx_hist = c.cx_hist }

(** val ctx_with_comp : context -> segmentation -> context **)

let ctx_with_comp c sg =
  { cx_input = c.cx_input; cx_caret = c.cx_caret; cx_comp = sg; cx_opts =
    c.cx_opts; cx_err = c.cx_err; cx_hist = c.cx_hist }

(** val ctx_with_opts : context -> (bytes * bool) list -> context **)

let ctx_with_opts c o =
  { cx_input = c.cx_input; cx_caret = c.cx_caret; cx_comp = c.cx_comp;
    cx_opts = o; cx_err = c.cx_err; cx_hist = c.cx_hist }

(** val ctx_with_hist : context -> hist -> context **)

let ctx_with_hist c h =
  { cx_input = c.cx_input; cx_caret = c.cx_caret; cx_comp = c.cx_comp;
    cx_opts = c.cx_opts; cx_err = c.cx_err; cx_hist = h }

(** val ctx_fail : context -> err -> context **)

let ctx_fail c e =
  { cx_input = c.cx_input; cx_caret = c.cx_caret; cx_comp = c.cx_comp;
    cx_opts = c.cx_opts; cx_err =
    (match c.cx_err with
     | Some x -> Some x
     | None -> Some e); cx_hist = c.cx_hist }

(** val ctx_check : context -> bool -> err -> context **)

let ctx_check c ok e =
  if ok then c else ctx_fail c e

(** val opt_auto_commit : bytes **)

let opt_auto_commit =
  X5f :: (X61 :: (X75 :: (X74 :: (X6f :: (X5f :: (X63 :: (X6f :: (X6d :: (X6d :: (X69 :: (X74 :: [])))))))))))

(** val opt_dumb : bytes **)

let opt_dumb =
  X64 :: (X75 :: (X6d :: (X62 :: [])))

(** val opt_soft_cursor : bytes **)

let opt_soft_cursor =
  X73 :: (X6f :: (X66 :: (X74 :: (X5f :: (X63 :: (X75 :: (X72 :: (X73 :: (X6f :: (X72 :: []))))))))))

(** val opt_vertical : bytes **)

let opt_vertical =
  X5f :: (X76 :: (X65 :: (X72 :: (X74 :: (X69 :: (X63 :: (X61 :: (X6c :: []))))))))

(** val opt_linear : bytes **)

let opt_linear =
  X5f :: (X6c :: (X69 :: (X6e :: (X65 :: (X61 :: (X72 :: []))))))

(** val opt_horizontal : bytes **)

let opt_horizontal =
  X5f :: (X68 :: (X6f :: (X72 :: (X69 :: (X7a :: (X6f :: (X6e :: (X74 :: (X61 :: (X6c :: []))))))))))

(** val opt_full_shape : bytes **)

let opt_full_shape =
  X66 :: (X75 :: (X6c :: (X6c :: (X5f :: (X73 :: (X68 :: (X61 :: (X70 :: (X65 :: [])))))))))

(** val opt_ascii_mode : bytes **)

let opt_ascii_mode =
  X61 :: (X73 :: (X63 :: (X69 :: (X69 :: (X5f :: (X6d :: (X6f :: (X64 :: (X65 :: [])))))))))

(** val opt_simplification : bytes **)

let opt_simplification =
  X73 :: (X69 :: (X6d :: (X70 :: (X6c :: (X69 :: (X66 :: (X69 :: (X63 :: (X61 :: (X74 :: (X69 :: (X6f :: (X6e :: [])))))))))))))

(** val opt_traditional : bytes **)

let opt_traditional =
  X74 :: (X72 :: (X61 :: (X64 :: (X69 :: (X74 :: (X69 :: (X6f :: (X6e :: (X61 :: (X6c :: []))))))))))

(** val opt_ascii_punct : bytes **)

let opt_ascii_punct =
  X61 :: (X73 :: (X63 :: (X69 :: (X69 :: (X5f :: (X70 :: (X75 :: (X6e :: (X63 :: (X74 :: []))))))))))

(** val opts_get : (bytes * bool) list -> bytes -> bool **)

let rec opts_get o name =
  match o with
  | [] -> false
  | p :: r ->
    let (n0, v) = p in if bytes_eqb n0 name then v else opts_get r name

(** val opts_set :
    (bytes * bool) list -> bytes -> bool -> (bytes * bool) list **)

let rec opts_set o name v =
  match o with
  | [] -> (name, v) :: []
  | p :: r ->
    let (n0, v') = p in
    if bytes_eqb n0 name
    then (n0, v) :: r
    else (n0, v') :: (opts_set r name v)

(** val get_option : context -> bytes -> bool **)

let get_option c name =
  opts_get c.cx_opts name

(** val is_composing : context -> bool **)

let is_composing c =
  (||) (negb (match c.cx_input with
              | [] -> true
              | _ :: _ -> false)) (negb (sg_empty c.cx_comp))

(** val has_menu : context -> bool **)

let has_menu c =
  match sg_back c.cx_comp with
  | Some g ->
    (match g.s_menu with
     | Some m -> negb (menu_empty m)
     | None -> false)
  | None -> false

(** val ctx_selected_cand : context -> cand option **)

let ctx_selected_cand c =
  match sg_back c.cx_comp with
  | Some g -> selected_cand g
  | None -> None

(** val comp_prompt : segmentation -> bytes **)

let comp_prompt sg =
  match sg_back sg with
  | Some g -> g.s_prompt
  | None -> []

(** val caret_symbol : bytes **)

let caret_symbol =
  Xe2 :: (X80 :: (Xb8 :: []))

type preedit = { pe_text : bytes; pe_caret : nat; pe_sel_start : nat;
                 pe_sel_end : nat; pe_ok : bool }

type pacc = { pa_text : bytes; pa_caret : nat option; pa_sel_start : 
              nat; pa_sel_end : nat option; pa_end : nat; pa_ok : bool }

(** val preedit_step :
    bytes -> bytes -> nat -> bool -> pacc -> segment -> pacc **)

let preedit_step comp_input full_input caret_pos is_last a g =
  let start = a.pa_end in
  let a0 =
    if Nat.eqb caret_pos start
    then { pa_text = a.pa_text; pa_caret = (Some (length a.pa_text));
           pa_sel_start = a.pa_sel_start; pa_sel_end = a.pa_sel_end; pa_end =
           a.pa_end; pa_ok = a.pa_ok }
    else a
  in
  let cand0 = selected_cand g in
  if negb is_last
  then (match cand0 with
        | Some c ->
          { pa_text = (app a0.pa_text c.c_text); pa_caret = a0.pa_caret;
            pa_sel_start = a0.pa_sel_start; pa_sel_end = a0.pa_sel_end;
            pa_end = c.c_end; pa_ok = a0.pa_ok }
        | None ->
          let en = g.s_end in
          if has_tag TPhony g.s_tags
          then { pa_text = a0.pa_text; pa_caret = a0.pa_caret; pa_sel_start =
                 a0.pa_sel_start; pa_sel_end = a0.pa_sel_end; pa_end = en;
                 pa_ok = a0.pa_ok }
          else let (t, ok) = substr_se comp_input start en in
               { pa_text = (app a0.pa_text t); pa_caret = a0.pa_caret;
               pa_sel_start = a0.pa_sel_start; pa_sel_end = a0.pa_sel_end;
               pa_end = en; pa_ok = ((&&) a0.pa_ok ok) })
  else let sel_start = length a0.pa_text in
       let a1 = { pa_text = a0.pa_text; pa_caret = a0.pa_caret;
         pa_sel_start = sel_start; pa_sel_end = None; pa_end = a0.pa_end;
         pa_ok = a0.pa_ok }
       in
       let a2 =
         match cand0 with
         | Some c ->
           (match c.c_preedit with
            | [] ->
              let en = g.s_end in
              let (t, ok) = substr_se comp_input start en in
              { pa_text = (app a1.pa_text t); pa_caret = a1.pa_caret;
              pa_sel_start = sel_start; pa_sel_end = None; pa_end = en;
              pa_ok = ((&&) a1.pa_ok ok) }
            | _ :: _ ->
              let en = c.c_end in
              (match find_byte byte_tab c.c_preedit with
               | Some p ->
                 let a2 = { pa_text =
                   (app a1.pa_text (firstn p c.c_preedit)); pa_caret =
                   a1.pa_caret; pa_sel_start = sel_start; pa_sel_end = None;
                   pa_end = en; pa_ok = a1.pa_ok }
                 in
                 if (&&) (Nat.eqb caret_pos en)
                      (Nat.eqb en (length full_input))
                 then { pa_text = (app a2.pa_text (skipn (S p) c.c_preedit));
                        pa_caret = (Some (add sel_start p)); pa_sel_start =
                        sel_start; pa_sel_end = (Some (add sel_start p));
                        pa_end = en; pa_ok = a2.pa_ok }
                 else a2
               | None ->
                 { pa_text = (app a1.pa_text c.c_preedit); pa_caret =
                   a1.pa_caret; pa_sel_start = sel_start; pa_sel_end = None;
                   pa_end = en; pa_ok = a1.pa_ok }))
         | None ->
           let en = g.s_end in
           let (t, ok) = substr_se comp_input start en in
           { pa_text = (app a1.pa_text t); pa_caret = a1.pa_caret;
           pa_sel_start = sel_start; pa_sel_end = None; pa_end = en; pa_ok =
           ((&&) a1.pa_ok ok) }
       in
       (match a2.pa_sel_end with
        | Some _ -> a2
        | None ->
          { pa_text = a2.pa_text; pa_caret = a2.pa_caret; pa_sel_start =
            a2.pa_sel_start; pa_sel_end = (Some (length a2.pa_text));
            pa_end = a2.pa_end; pa_ok = a2.pa_ok })

(** val preedit_loop :
    bytes -> bytes -> nat -> segment list -> pacc -> pacc **)

let rec preedit_loop comp_input full_input caret_pos segs a =
  match segs with
  | [] -> a
  | g :: rest ->
    let is_last = match rest with
                  | [] -> true
                  | _ :: _ -> false in
    preedit_loop comp_input full_input caret_pos rest
      (preedit_step comp_input full_input caret_pos is_last a g)

(** val comp_preedit : segmentation -> bytes -> nat -> bytes -> preedit **)

let comp_preedit sg full_input caret_pos caret =
  let comp_input = sg.sg_input in
  let a =
    preedit_loop comp_input full_input caret_pos (segs_fwd sg) { pa_text =
      []; pa_caret = None; pa_sel_start = O; pa_sel_end = (Some O); pa_end =
      O; pa_ok = true }
  in
  let a0 =
    if Nat.ltb a.pa_end (length comp_input)
    then { pa_text = (app a.pa_text (skipn a.pa_end comp_input)); pa_caret =
           a.pa_caret; pa_sel_start = a.pa_sel_start; pa_sel_end =
           a.pa_sel_end; pa_end = (length comp_input); pa_ok = a.pa_ok }
    else a
  in
  let cpos = match a0.pa_caret with
             | Some p -> p
             | None -> length a0.pa_text in
  let text =
    if Nat.ltb a0.pa_end (length full_input)
    then app a0.pa_text (skipn a0.pa_end full_input)
    else a0.pa_text
  in
  let sel_start = a0.pa_sel_start in
  let sel_end0 = match a0.pa_sel_end with
                 | Some e -> e
                 | None -> O in
  let prompt = app caret (comp_prompt sg) in
  (match prompt with
   | [] ->
     { pe_text = text; pe_caret = cpos; pe_sel_start = sel_start;
       pe_sel_end = sel_end0; pe_ok = a0.pa_ok }
   | _ :: _ ->
     { pe_text = (app (firstn cpos text) (app prompt (skipn cpos text)));
       pe_caret = cpos; pe_sel_start =
       (if Nat.ltb cpos sel_start
        then add sel_start (length prompt)
        else sel_start); pe_sel_end =
       (if Nat.ltb cpos sel_end0
        then add sel_end0 (length prompt)
        else sel_end0); pe_ok = a0.pa_ok })

(** val ctx_preedit : context -> preedit **)

let ctx_preedit c =
  comp_preedit c.cx_comp c.cx_input c.cx_caret
    (if get_option c opt_soft_cursor then caret_symbol else [])

(** val commit_text_loop :
    bytes -> segment list -> ((bytes * nat) * bool) -> (bytes * nat) * bool **)

let rec commit_text_loop comp_input segs acc =
  match segs with
  | [] -> acc
  | g :: rest ->
    let (p, ok) = acc in
    let (res, _) = p in
    let acc' =
      match selected_cand g with
      | Some c -> (((app res c.c_text), c.c_end), ok)
      | None ->
        if has_tag TPhony g.s_tags
        then ((res, g.s_end), ok)
        else let (t, ok') = substr_se comp_input g.s_start g.s_end in
             (((app res t), g.s_end), ((&&) ok ok'))
    in
    commit_text_loop comp_input rest acc'

(** val comp_commit_text : segmentation -> bytes * bool **)

let comp_commit_text sg =
  let (p, ok) = commit_text_loop sg.sg_input (segs_fwd sg) (([], O), true) in
  let (res, en) = p in
  ((if Nat.ltb en (length sg.sg_input)
    then app res (skipn en sg.sg_input)
    else res), ok)

(** val comp_confirmed_text : segmentation -> bytes **)

let comp_confirmed_text sg =
  fst
    (fst (commit_text_loop sg.sg_input (rev (tl sg.sg_segs)) (([], O), true)))

(** val ctx_commit_text : context -> bytes * bool **)

let ctx_commit_text c =
  if get_option c opt_dumb then ([], true) else comp_commit_text c.cx_comp

(** val erase_first_tab : bytes -> bytes **)

let rec erase_first_tab = function
| [] -> []
| x :: r -> if eqb0 x byte_tab then r else x :: (erase_first_tab r)

(** val script_text_loop :
    bytes -> segment list -> ((bytes * nat) * bool) -> (bytes * nat) * bool **)

let rec script_text_loop comp_input segs acc =
  match segs with
  | [] -> acc
  | g :: rest ->
    let (p, ok) = acc in
    let (res, en_prev) = p in
    let cand0 = selected_cand g in
    let en = match cand0 with
             | Some c -> c.c_end
             | None -> g.s_end in
    let acc' =
      match cand0 with
      | Some c ->
        if (&&) (negb (match c.c_text with
                       | [] -> true
                       | _ :: _ -> false)) (status_geb g.s_status SSelected)
        then (((app res c.c_text), en), ok)
        else (match c.c_preedit with
              | [] ->
                let (t, ok') = substr_se comp_input en_prev en in
                (((app res t), en), ((&&) ok ok'))
              | _ :: _ -> (((app res (erase_first_tab c.c_preedit)), en), ok))
      | None ->
        let (t, ok') = substr_se comp_input en_prev en in
        (((app res t), en), ((&&) ok ok'))
    in
    script_text_loop comp_input rest acc'

(** val comp_script_text : segmentation -> bytes * bool **)

let comp_script_text sg =
  let (p, ok) = script_text_loop sg.sg_input (segs_fwd sg) (([], O), true) in
  let (res, en) = p in
  ((if Nat.ltb en (length sg.sg_input)
    then app res (skipn en sg.sg_input)
    else res), ok)

(** val begin_editing_rev : segment list -> segment list **)

let rec begin_editing_rev l = match l with
| [] -> []
| g :: r ->
  (match g.s_status with
   | SSelected ->
     (seg_with_tags g (tag_insert TSelectedBeforeEditing g.s_tags)) :: r
   | SConfirmed -> l
   | _ -> g :: (begin_editing_rev r))

(** val begin_editing : context -> context **)

let begin_editing c =
  ctx_with_comp c
    (sg_with_segs c.cx_comp (begin_editing_rev c.cx_comp.sg_segs))

(** val drop_unselected : segment list -> segment list * bool **)

let rec drop_unselected l = match l with
| [] -> ([], false)
| g :: r ->
  if status_geb g.s_status SSelected
  then (l, false)
  else ((fst (drop_unselected r)), true)

(** val clear_non_confirmed : context -> context * bool **)

let clear_non_confirmed c =
  let (l, reverted) = drop_unselected c.cx_comp.sg_segs in
  if reverted
  then ((ctx_with_comp c (fst (forward (sg_with_segs c.cx_comp l)))), true)
  else (c, false)

(** val is_digit_byte : byte -> bool **)

let is_digit_byte b =
  let n0 = n_of_byte b in
  (&&) (N.leb (Npos (XO (XO (XO (XO (XI XH)))))) n0)
    (N.leb n0 (Npos (XI (XO (XO (XI (XI XH)))))))

(** val ends_with_digit : bytes -> bool **)

let ends_with_digit t = match t with
| [] -> false
| _ :: _ -> is_digit_byte (last t X00)

(** val hist_push_key : hist -> key -> hist **)

let hist_push_key h k =
  if Z.eqb k.k_mod Z0
  then if (||) (Z.eqb k.k_code xK_BackSpace) (Z.eqb k.k_code xK_Return)
       then None
       else if (&&) (Z.leb (Zpos (XO (XO (XO (XO (XO XH)))))) k.k_code)
                 (Z.leb k.k_code (Zpos (XO (XI (XI (XI (XI (XI XH))))))))
            then Some (ty_thru, (is_digit_byte (byte_of_N (Z.to_N k.k_code))))
            else h
  else h

type hacc = { ha_back : hist; ha_last : (bytes * nat) option; ha_end : 
              nat; ha_ok : bool; ha_live : bool }

(** val kMaxRecords : nat **)

let kMaxRecords =
  S (S (S (S (S (S (S (S (S (S (S (S (S (S (S (S (S (S (S (S
    O)))))))))))))))))))

(** val hacc_push : hacc -> bytes -> bytes -> hacc **)

let hacc_push a ty txt =
  { ha_back = (Some (ty, (ends_with_digit txt))); ha_last =
    (match a.ha_last with
     | Some p -> let (t, age) = p in Some (t, (S age))
     | None -> None); ha_end = a.ha_end; ha_ok = a.ha_ok; ha_live =
    a.ha_live }

(** val hist_step : bool -> bytes -> hacc -> segment -> hacc **)

let hist_step guard input a g =
  match selected_cand g with
  | Some cd ->
    let live =
      match a.ha_last with
      | Some p -> let (_, age) = p in Nat.ltb age kMaxRecords
      | None -> true
    in
    let same =
      match a.ha_last with
      | Some p -> let (t, _) = p in bytes_eqb t cd.c_type
      | None -> false
    in
    let a1 =
      if same
      then let back =
             match a.ha_last with
             | Some p ->
               let (_, n0) = p in
               (match n0 with
                | O ->
                  (match a.ha_back with
                   | Some h ->
                     let (t, d) = h in
                     Some (t,
                     (match cd.c_text with
                      | [] -> d
                      | _ :: _ -> ends_with_digit cd.c_text))
                   | None -> None)
                | S _ -> a.ha_back)
             | None -> a.ha_back
           in
           { ha_back = back; ha_last = a.ha_last; ha_end = a.ha_end; ha_ok =
           a.ha_ok; ha_live = ((&&) a.ha_live live) }
      else let a' = hacc_push a cd.c_type cd.c_text in
           { ha_back = a'.ha_back; ha_last = (Some (cd.c_type, O)); ha_end =
           a'.ha_end; ha_ok = a'.ha_ok; ha_live = ((&&) a.ha_live live) }
    in
    let lst = if status_geb g.s_status SConfirmed then None else a1.ha_last in
    { ha_back = a1.ha_back; ha_last = lst; ha_end = cd.c_end; ha_ok =
    a1.ha_ok; ha_live = a1.ha_live }
  | None ->
    let (t, ok) = substr_se input g.s_start g.s_end in
    let a' = hacc_push a ty_raw t in
    { ha_back = a'.ha_back; ha_last = (if guard then None else a'.ha_last);
    ha_end = g.s_end; ha_ok = ((&&) a.ha_ok ok); ha_live = a'.ha_live }

(** val hist_push_comp :
    bool -> hist -> segmentation -> bytes -> (hist * bool) * bool **)

let hist_push_comp guard h sg input =
  let a =
    fold_left (hist_step guard input) (segs_fwd sg) { ha_back = h; ha_last =
      None; ha_end = O; ha_ok = true; ha_live = true }
  in
  let a0 =
    if Nat.ltb a.ha_end (length input)
    then hacc_push a ty_raw (skipn a.ha_end input)
    else a
  in
  ((a0.ha_back, a0.ha_ok), a0.ha_live)

type proc_id =
| PSpeller
| PPunctuator
| PSelector
| PNavigator
| PEditor
| PKeyBinder

type segm_id =
| SgAbc
| SgPunct
| SgFallback

type trans_id =
| TrPunct
| TrMain

type pdef =
| PdValue of bytes
| PdList of bytes list
| PdMap of bytes option * bytes list option

type kb_when =
| KwPredicting
| KwPaging
| KwHasMenu
| KwComposing
| KwAlways

type kb_action =
| KaSend of key list
| KaToggle of bytes
| KaSet of bytes
| KaUnset of bytes
| KaSelect of bytes

type kbinding = { kb_accept : key; kb_whence : kb_when; kb_act : kb_action }

type config = { cf_fluid : bool; cf_alphabet : bytes; cf_delims : bytes;
                cf_initials : bytes; cf_finals : bytes; cf_use_space : 
                bool; cf_page_size : z; cf_select_keys : bytes;
                cf_page_down_cycle : bool; cf_del_checked : bool;
                cf_dlog : bool; cf_processors : proc_id list;
                cf_segmentors : segm_id list; cf_translators : trans_id list;
                cf_punct_half : (byte * pdef) list;
                cf_punct_full : (byte * pdef) list;
                cf_punct_use_space : bool; cf_digit_seps : bytes;
                cf_digit_sep_commit : bool; cf_bindings : kbinding list;
                cf_kb_guard : bool; cf_hist_guard : bool }

type state = { st_ctx : context; st_nav_input : bytes; st_spans : nat list;
               st_commit : bytes; st_odd : ((bool * byte) * bool) list;
               st_kb_last : z }

(** val st_with_ctx : state -> context -> state **)

let st_with_ctx s c =
  { st_ctx = c; st_nav_input = s.st_nav_input; st_spans = s.st_spans;
    st_commit = s.st_commit; st_odd = s.st_odd; st_kb_last = s.st_kb_last }

(** val abc_scan : config -> bytes -> bool -> bool -> nat **)

let rec abc_scan cfg l first expecting_initial =
  match l with
  | [] -> O
  | b :: r ->
    let is_letter = mem_byte b cfg.cf_alphabet in
    let is_delimiter = (&&) (negb first) (mem_byte b cfg.cf_delims) in
    if (&&) (negb is_letter) (negb is_delimiter)
    then O
    else let is_initial = mem_byte b cfg.cf_initials in
         let is_final = mem_byte b cfg.cf_finals in
         if (&&) ((&&) expecting_initial (negb is_initial))
              (negb is_delimiter)
         then O
         else S (abc_scan cfg r false ((||) is_final is_delimiter))

(** val abc_proceed : config -> segmentation -> segmentation **)

let abc_proceed cfg sg =
  let j = cur_start sg in
  let k = add j (abc_scan cfg (skipn j sg.sg_input) true true) in
  if Nat.ltb j k
  then fst (add_segment sg (seg_with_tags (new_segment j k) (TAbc :: [])))
  else sg

(** val fallback_proceed : segmentation -> segmentation **)

let fallback_proceed sg =
  if Nat.ltb O (cur_len sg)
  then sg
  else let k = cur_start sg in
       if Nat.eqb k (length sg.sg_input)
       then sg
       else let sg1 =
              match sg.sg_segs with
              | [] -> sg
              | g :: _ ->
                if Nat.eqb g.s_start g.s_end then sg_pop_back sg else sg
            in
            (match sg1.sg_segs with
             | [] ->
               fst
                 (add_segment (fst (forward sg1))
                   (seg_with_tags (new_segment k (S k)) (TRaw :: [])))
             | last0 :: r ->
               if has_tag TRaw last0.s_tags
               then sg_with_segs sg1
                      ((seg_with_tags (seg_clear (seg_with_end last0 (S k)))
                         (TRaw :: [])) :: r)
               else fst
                      (add_segment (fst (forward sg1))
                        (seg_with_tags (new_segment k (S k)) (TRaw :: []))))

(** val pd_assoc : (byte * pdef) list -> byte -> pdef option **)

let rec pd_assoc l b =
  match l with
  | [] -> None
  | p :: r -> let (k, d) = p in if eqb0 k b then Some d else pd_assoc r b

(** val punct_lookup :
    config -> (bytes * bool) list -> byte -> pdef option **)

let punct_lookup cfg opts b =
  pd_assoc
    (if opts_get opts opt_full_shape
     then cfg.cf_punct_full
     else cfg.cf_punct_half) b

(** val printable : byte -> bool **)

let printable b =
  let n0 = n_of_byte b in
  (&&) (N.leb (Npos (XO (XO (XO (XO (XO XH)))))) n0)
    (N.ltb n0 (Npos (XI (XI (XI (XI (XI (XI XH))))))))

(** val is_digit_separator : config -> byte -> bool **)

let is_digit_separator cfg b =
  mem_byte b cfg.cf_digit_seps

(** val is_after_number : hist -> bool **)

let is_after_number = function
| Some h0 ->
  let (ty, d) = h0 in
  (&&) d ((||) (bytes_eqb ty ty_thru) (bytes_eqb ty ty_raw))
| None -> false

(** val punct_proceed :
    config -> (bytes * bool) list -> hist -> segmentation ->
    segmentation * bool **)

let punct_proceed cfg opts h sg =
  let k = cur_start sg in
  (match nth_error sg.sg_input k with
   | Some ch ->
     if negb (printable ch)
     then (sg, true)
     else (match punct_lookup cfg opts ch with
           | Some _ ->
             let t =
               if (&&) ((&&) (Nat.eqb k O) (is_digit_separator cfg ch))
                    (is_after_number h)
               then TPunctNumber
               else TPunct
             in
             ((fst
                (add_segment sg
                  (seg_with_tags (new_segment k (S k)) (t :: [])))), false)
           | None -> (sg, true))
   | None -> (sg, false))

(** val segmentor_proceed :
    config -> (bytes * bool) list -> hist -> segm_id -> segmentation ->
    segmentation * bool **)

let segmentor_proceed cfg opts h i sg =
  match i with
  | SgAbc -> ((abc_proceed cfg sg), true)
  | SgPunct -> punct_proceed cfg opts h sg
  | SgFallback -> ((fallback_proceed sg), false)

(** val run_segmentors :
    config -> (bytes * bool) list -> hist -> segm_id list -> segmentation ->
    segmentation **)

let rec run_segmentors cfg opts h l sg =
  match l with
  | [] -> sg
  | i :: r ->
    let (sg1, cont) = segmentor_proceed cfg opts h i sg in
    if cont then run_segmentors cfg opts h r sg1 else sg1

(** val seg_round :
    config -> (bytes * bool) list -> hist -> segmentation -> segmentation **)

let seg_round cfg opts h sg =
  run_segmentors cfg opts h cfg.cf_segmentors sg

(** val calc_loop :
    config -> (bytes * bool) list -> hist -> nat -> nat -> segmentation ->
    segmentation * bool **)

let rec calc_loop cfg opts h fuel caret sg =
  if has_finished sg
  then (sg, true)
  else (match fuel with
        | O -> (sg, false)
        | S f ->
          let start_pos = cur_start sg in
          let sg2 = seg_round cfg opts h sg in
          if Nat.eqb start_pos (cur_end sg2)
          then (sg2, true)
          else if Nat.leb caret start_pos
               then (sg2, true)
               else calc_loop cfg opts h f caret
                      (if has_finished sg2 then sg2 else fst (forward sg2)))

(** val calc_segmentation :
    config -> (bytes * bool) list -> hist -> nat -> segmentation ->
    segmentation * bool **)

let calc_segmentation cfg opts h caret sg =
  let (sg1, ok) = calc_loop cfg opts h (S (length sg.sg_input)) caret sg in
  let sg2 =
    match sg1.sg_segs with
    | [] -> sg1
    | g :: _ -> if has_tag TPlaceholder g.s_tags then sg1 else fst (trim sg1)
  in
  let sg3 =
    match sg2.sg_segs with
    | [] -> sg2
    | g :: _ ->
      if status_geb g.s_status SSelected then fst (forward sg2) else sg2
  in
  (sg3, ok)

(** val translate_one :
    (bytes -> seginfo -> cand list) -> (bytes * bool) list -> bytes ->
    segment -> segment * bool **)

let translate_one translate opts inp g =
  if status_geb g.s_status SGuess
  then (g, true)
  else let (s, ok) = substr_se inp g.s_start g.s_end in
       ({ s_status = SGuess; s_start = g.s_start; s_end = g.s_end; s_length =
       g.s_length; s_tags = g.s_tags; s_menu = (Some
       (translate s (seg_info opts g))); s_sel = N0; s_prompt = g.s_prompt },
       ok)

(** val translate_list :
    (bytes -> seginfo -> cand list) -> (bytes * bool) list -> bytes ->
    segment list -> segment list * bool **)

let rec translate_list translate opts inp = function
| [] -> ([], true)
| g :: r ->
  let (g', ok1) = translate_one translate opts inp g in
  let (r', ok2) = translate_list translate opts inp r in
  ((g' :: r'), ((&&) ok1 ok2))

(** val translate_segs :
    (bytes -> seginfo -> cand list) -> (bytes * bool) list -> segmentation ->
    segmentation * bool **)

let translate_segs translate opts sg =
  let (l, ok) = translate_list translate opts sg.sg_input sg.sg_segs in
  ((sg_with_segs sg l), ok)

(** val compose :
    config -> (bytes -> seginfo -> cand list) -> context -> context **)

let compose cfg translate c =
  let active_input = firstn c.cx_caret c.cx_input in
  let sg = reset_input c.cx_comp active_input in
  let sg0 =
    if (&&) (Nat.ltb c.cx_caret (length c.cx_input))
         (Nat.eqb c.cx_caret (confirmed_pos sg))
    then reset_input sg c.cx_input
    else sg
  in
  let (sg1, okf) = calc_segmentation cfg c.cx_opts c.cx_hist c.cx_caret sg0 in
  let (sg2, oks) = translate_segs translate c.cx_opts sg1 in
  ctx_check (ctx_check (ctx_with_comp c sg2) okf ErrFuel) oks ErrSubstr

(** val push_input :
    config -> (bytes -> seginfo -> cand list) -> context -> byte -> context **)

let push_input cfg translate c ch =
  let inp = c.cx_input in
  if Nat.leb (length inp) c.cx_caret
  then compose cfg translate
         (ctx_with_input c (app inp (ch :: [])) (S (length inp)))
  else compose cfg translate
         (ctx_with_input c
           (app (firstn c.cx_caret inp) (ch :: (skipn c.cx_caret inp))) (S
           c.cx_caret))

(** val pop_input :
    config -> (bytes -> seginfo -> cand list) -> context -> nat ->
    context * bool **)

let pop_input cfg translate c len =
  if Nat.ltb c.cx_caret len
  then (c, false)
  else let k = sub c.cx_caret len in
       ((compose cfg translate
          (ctx_with_input c
            (app (firstn k c.cx_input) (skipn (add k len) c.cx_input)) k)),
       true)

(** val delete_input :
    config -> (bytes -> seginfo -> cand list) -> context -> nat ->
    context * bool **)

let delete_input cfg translate c len =
  if Nat.ltb (length c.cx_input) (add c.cx_caret len)
  then (c, false)
  else let k = c.cx_caret in
       ((compose cfg translate
          (ctx_with_input c
            (app (firstn k c.cx_input) (skipn (add k len) c.cx_input)) k)),
       true)

(** val clear :
    config -> (bytes -> seginfo -> cand list) -> context -> context **)

let clear cfg translate c =
  compose cfg translate { cx_input = []; cx_caret = O; cx_comp =
    (sg_with_segs c.cx_comp []); cx_opts = c.cx_opts; cx_err = c.cx_err;
    cx_hist = c.cx_hist }

(** val set_caret_pos :
    config -> (bytes -> seginfo -> cand list) -> context -> nat -> context **)

let set_caret_pos cfg translate c pos =
  compose cfg translate
    (ctx_with_input c c.cx_input
      (if Nat.ltb (length c.cx_input) pos then length c.cx_input else pos))

(** val set_input :
    config -> (bytes -> seginfo -> cand list) -> context -> bytes -> context **)

let set_input cfg translate c value =
  compose cfg translate (ctx_with_input c value (length value))

(** val reopen_previous_segment :
    config -> (bytes -> seginfo -> cand list) -> context -> context * bool **)

let reopen_previous_segment cfg translate c =
  let (sg, trimmed) = trim c.cx_comp in
  if trimmed
  then let sg' =
         match sg.sg_segs with
         | [] -> sg
         | g :: _ ->
           if status_geb g.s_status SSelected
           then sg_set_back sg (fst (seg_reopen g c.cx_caret))
           else sg
       in
       ((compose cfg translate (ctx_with_comp c sg')), true)
  else (c, false)

(** val clear_previous_segment :
    config -> (bytes -> seginfo -> cand list) -> context -> context * bool **)

let clear_previous_segment cfg translate c =
  match c.cx_comp.sg_segs with
  | [] -> (c, false)
  | g :: _ ->
    let wh = g.s_start in
    if Nat.leb (length c.cx_input) wh
    then (c, false)
    else ((set_input cfg translate c (firstn wh c.cx_input)), true)

(** val reopen_sel_rev : segment list -> nat -> segment list option **)

let rec reopen_sel_rev l caret =
  match l with
  | [] -> None
  | g :: r ->
    (match g.s_status with
     | SSelected ->
       if has_tag TSelectedBeforeEditing g.s_tags
       then None
       else Some ((fst (seg_reopen g caret)) :: r)
     | SConfirmed -> None
     | _ -> reopen_sel_rev r caret)

(** val reopen_previous_selection :
    config -> (bytes -> seginfo -> cand list) -> context -> context * bool **)

let reopen_previous_selection cfg translate c =
  match reopen_sel_rev c.cx_comp.sg_segs c.cx_caret with
  | Some l ->
    ((compose cfg translate (ctx_with_comp c (sg_with_segs c.cx_comp l))),
      true)
  | None -> (c, false)

(** val refresh_non_confirmed :
    config -> (bytes -> seginfo -> cand list) -> context -> context * bool **)

let refresh_non_confirmed cfg translate c =
  let (c1, reverted) = clear_non_confirmed c in
  if reverted then ((compose cfg translate c1), true) else (c, false)

(** val highlight :
    config -> (bytes -> seginfo -> cand list) -> context -> n ->
    context * bool **)

let highlight cfg translate c index =
  match c.cx_comp.sg_segs with
  | [] -> (c, false)
  | g :: _ ->
    (match g.s_menu with
     | Some m ->
       let requested = size_wrap (N.add index (Npos XH)) in
       let count =
         if N.eqb requested N0 then menu_count m else menu_prepare m requested
       in
       let new_index =
         if N.ltb N0 count then N.min (N.sub count (Npos XH)) index else N0
       in
       if N.eqb g.s_sel new_index
       then (c, false)
       else ((compose cfg translate
               (ctx_with_comp c
                 (sg_set_back c.cx_comp (seg_with_sel g new_index)))), true)
     | None -> (c, false))

(** val set_option :
    config -> (bytes -> seginfo -> cand list) -> context -> bytes -> bool ->
    context **)

let set_option cfg translate c name v =
  let c1 = ctx_with_opts c (opts_set c.cx_opts name v) in
  if is_composing c1 then fst (refresh_non_confirmed cfg translate c1) else c1

(** val shape_outside : byte -> bool **)

let shape_outside b =
  let n0 = n_of_byte b in
  (||) (N.ltb n0 (Npos (XO (XO (XO (XO (XO XH)))))))
    (N.ltb (Npos (XO (XI (XI (XI (XI (XI XH))))))) n0)

(** val shape_wide : byte -> bytes **)

let shape_wide b =
  let n0 = n_of_byte b in
  if N.eqb n0 (Npos (XO (XO (XO (XO (XO XH))))))
  then Xe3 :: (X80 :: (X80 :: []))
  else if (&&) (N.ltb (Npos (XO (XO (XO (XO (XO XH)))))) n0)
            (N.leb n0 (Npos (XO (XI (XI (XI (XI (XI XH))))))))
       then let ch = N.sub n0 (Npos (XO (XO (XO (XO (XO XH)))))) in
            Xef :: ((byte_of_N
                      (N.add (Npos (XO (XO (XI (XI (XI (XI (XO XH))))))))
                        (N.div ch (Npos (XO (XO (XO (XO (XO (XO XH)))))))))) :: (
            (byte_of_N
              (N.add (Npos (XO (XO (XO (XO (XO (XO (XO XH))))))))
                (N.modulo ch (Npos (XO (XO (XO (XO (XO (XO XH)))))))))) :: []))
       else b :: []

(** val format_text : context -> bytes -> bytes **)

let format_text c text =
  if negb (get_option c opt_full_shape)
  then text
  else if forallb shape_outside text then text else flat_map shape_wide text

(** val sink : state -> bytes -> state **)

let sink s text =
  { st_ctx = s.st_ctx; st_nav_input = s.st_nav_input; st_spans = s.st_spans;
    st_commit = (app s.st_commit text); st_odd = s.st_odd; st_kb_last =
    s.st_kb_last }

(** val commit :
    config -> (bytes -> seginfo -> cand list) -> state -> state * bool **)

let commit cfg translate s =
  let c = s.st_ctx in
  if negb (is_composing c)
  then (s, false)
  else let (p, live) =
         hist_push_comp cfg.cf_hist_guard c.cx_hist c.cx_comp c.cx_input
       in
       let (h, okh) = p in
       let c0 =
         ctx_check (ctx_check (ctx_with_hist c h) okh ErrSubstr) live
           ErrDangling
       in
       let (text, ok) = ctx_commit_text c0 in
       let s1 =
         sink (st_with_ctx s (ctx_check c0 ok ErrSubstr))
           (format_text c0 text)
       in
       ((st_with_ctx s1 (clear cfg translate s1.st_ctx)), true)

(** val on_select :
    config -> (bytes -> seginfo -> cand list) -> state -> state **)

let on_select cfg translate s =
  let c = s.st_ctx in
  let s' =
    match c.cx_comp.sg_segs with
    | [] -> st_with_ctx s (ctx_fail c ErrNullDeref)
    | g0 :: _ ->
      let g = seg_close g0 in
      if Nat.eqb g.s_end (length c.cx_input)
      then let c1 =
             ctx_with_comp c
               (sg_set_back c.cx_comp (seg_with_status g SConfirmed))
           in
           if get_option c1 opt_auto_commit
           then fst (commit cfg translate (st_with_ctx s c1))
           else st_with_ctx s (ctx_with_comp c1 (fst (forward c1.cx_comp)))
      else let reached_caret_pos = Nat.leb c.cx_caret g.s_end in
           let c1 = ctx_with_comp c (fst (forward (sg_set_back c.cx_comp g)))
           in
           if reached_caret_pos
           then st_with_ctx s
                  (set_caret_pos cfg translate c1 (length c1.cx_input))
           else st_with_ctx s (compose cfg translate c1)
  in
  { st_ctx = s'.st_ctx; st_nav_input = s'.st_nav_input; st_spans = [];
  st_commit = s'.st_commit; st_odd = s'.st_odd; st_kb_last = s'.st_kb_last }

(** val select :
    config -> (bytes -> seginfo -> cand list) -> state -> n -> state * bool **)

let select cfg translate s index =
  let c = s.st_ctx in
  (match c.cx_comp.sg_segs with
   | [] -> (s, false)
   | g :: _ ->
     (match cand_at g index with
      | Some _ ->
        let g' = seg_with_status (seg_with_sel g index) SSelected in
        ((on_select cfg translate
           (st_with_ctx s (ctx_with_comp c (sg_set_back c.cx_comp g')))),
        true)
      | None -> (s, false)))

(** val confirm_current_selection :
    config -> (bytes -> seginfo -> cand list) -> state -> state * bool **)

let confirm_current_selection cfg translate s =
  let c = s.st_ctx in
  (match c.cx_comp.sg_segs with
   | [] -> (s, false)
   | g :: _ ->
     let g' = seg_with_status g SSelected in
     let s1 = st_with_ctx s (ctx_with_comp c (sg_set_back c.cx_comp g')) in
     (match selected_cand g' with
      | Some _ -> ((on_select cfg translate s1), true)
      | None ->
        if Nat.eqb g'.s_end g'.s_start
        then (s1, false)
        else ((on_select cfg translate s1), true)))

(** val delete_candidate : config -> state -> n -> state * bool **)

let delete_candidate cfg s index =
  let c = s.st_ctx in
  (match c.cx_comp.sg_segs with
   | [] -> (s, false)
   | g :: _ ->
     if cfg.cf_del_checked
     then (match cand_at g index with
           | Some _ ->
             ((st_with_ctx s
                (ctx_with_comp c
                  (sg_set_back c.cx_comp (seg_with_sel g index)))), true)
           | None -> (s, false))
     else let g' = seg_with_sel g index in
          let c1 = ctx_with_comp c (sg_set_back c.cx_comp g') in
          let c2 =
            if cfg.cf_dlog
            then (match selected_cand g' with
                  | Some _ -> c1
                  | None -> ctx_fail c1 ErrNullDeref)
            else c1
          in
          ((st_with_ctx s c2), true))

(** val delete_current_selection : config -> state -> state * bool **)

let delete_current_selection cfg s =
  match s.st_ctx.cx_comp.sg_segs with
  | [] -> (s, false)
  | g :: _ -> delete_candidate cfg s g.s_sel

(** val byte_n : bytes -> nat -> n **)

let byte_n l i =
  n_of_byte (nth i l X00)

(** val utf8_next : bytes -> n * nat **)

let utf8_next l =
  let b0 = byte_n l O in
  if N.ltb b0 (Npos (XO (XO (XO (XO (XO (XO (XO XH))))))))
  then (b0, (S O))
  else if N.eqb (N.shiftr b0 (Npos (XI (XO XH)))) (Npos (XO (XI XH)))
       then ((N.add
               (N.coq_land (N.shiftl b0 (Npos (XO (XI XH)))) (Npos (XI (XI
                 (XI (XI (XI (XI (XI (XI (XI (XI XH))))))))))))
               (N.coq_land (byte_n l (S O)) (Npos (XI (XI (XI (XI (XI
                 XH)))))))), (S (S O)))
       else if N.eqb (N.shiftr b0 (Npos (XO (XO XH)))) (Npos (XO (XI (XI
                 XH))))
            then ((N.add
                    (N.add
                      (N.coq_land (N.shiftl b0 (Npos (XO (XO (XI XH)))))
                        (Npos (XI (XI (XI (XI (XI (XI (XI (XI (XI (XI (XI (XI
                        (XI (XI (XI XH)))))))))))))))))
                      (N.coq_land
                        (N.shiftl (byte_n l (S O)) (Npos (XO (XI XH)))) (Npos
                        (XI (XI (XI (XI (XI (XI (XI (XI (XI (XI (XI
                        XH))))))))))))))
                    (N.coq_land (byte_n l (S (S O))) (Npos (XI (XI (XI (XI
                      (XI XH)))))))), (S (S (S O))))
            else if N.eqb (N.shiftr b0 (Npos (XI XH))) (Npos (XO (XI (XI (XI
                      XH)))))
                 then ((N.add
                         (N.add
                           (N.add
                             (N.coq_land
                               (N.shiftl b0 (Npos (XO (XI (XO (XO XH))))))
                               (Npos (XI (XI (XI (XI (XI (XI (XI (XI (XI (XI
                               (XI (XI (XI (XI (XI (XI (XI (XI (XI (XI
                               XH))))))))))))))))))))))
                             (N.coq_land
                               (N.shiftl (byte_n l (S O)) (Npos (XO (XO (XI
                                 XH))))) (Npos (XI (XI (XI (XI (XI (XI (XI
                               (XI (XI (XI (XI (XI (XI (XI (XI (XI (XI
                               XH))))))))))))))))))))
                           (N.coq_land
                             (N.shiftl (byte_n l (S (S O))) (Npos (XO (XI
                               XH)))) (Npos (XI (XI (XI (XI (XI (XI (XI (XI
                             (XI (XI (XI XH))))))))))))))
                         (N.coq_land (byte_n l (S (S (S O)))) (Npos (XI (XI
                           (XI (XI (XI XH)))))))), (S (S (S (S O)))))
                 else (b0, (S O))

(** val label_half_shape : bytes **)

let label_half_shape =
  Xe3 :: (X80 :: (X94 :: (Xe5 :: (X8d :: (X8a :: (Xe8 :: (Xa7 :: (X92 :: (Xe3 :: (X80 :: (X95 :: [])))))))))))

(** val label_full_shape : bytes **)

let label_full_shape =
  Xe3 :: (X80 :: (X94 :: (Xe5 :: (X85 :: (Xa8 :: (Xe8 :: (Xa7 :: (X92 :: (Xe3 :: (X80 :: (X95 :: [])))))))))))

(** val in_range : n -> n -> n -> bool **)

let in_range ch lo hi =
  (&&) (N.leb lo ch) (N.leb ch hi)

(** val punct_comment : bytes -> bytes **)

let punct_comment punct =
  let (ch, used) = utf8_next punct in
  if negb (Nat.leb (length punct) used)
  then []
  else let is_ascii =
         (&&) (N.leb (Npos (XO (XO (XO (XO (XO XH)))))) ch)
           (N.ltb ch (Npos (XI (XI (XI (XI (XI (XI XH))))))))
       in
       let is_ideographic_space =
         N.eqb ch (Npos (XO (XO (XO (XO (XO (XO (XO (XO (XO (XO (XO (XO (XI
           XH))))))))))))))
       in
       let is_full_shape_ascii =
         in_range ch (Npos (XI (XO (XO (XO (XO (XO (XO (XO (XI (XI (XI (XI
           (XI (XI (XI XH)))))))))))))))) (Npos (XO (XI (XI (XI (XI (XO (XI
           (XO (XI (XI (XI (XI (XI (XI (XI XH))))))))))))))))
       in
       let is_kana =
         (||)
           ((||)
             ((||)
               ((||)
                 ((||)
                   ((||)
                     (in_range ch (Npos (XI (XO (XO (XO (XO (XI (XO (XI (XO
                       (XO (XO (XO (XI XH)))))))))))))) (Npos (XO (XO (XI (XI
                       (XI (XI (XI (XI (XO (XO (XO (XO (XI XH)))))))))))))))
                     (N.eqb ch (Npos (XI (XO (XO (XO (XO (XO (XO (XO (XO (XO
                       (XO (XO (XI XH))))))))))))))))
                   (N.eqb ch (Npos (XO (XI (XO (XO (XO (XO (XO (XO (XO (XO
                     (XO (XO (XI XH))))))))))))))))
                 (N.eqb ch (Npos (XO (XO (XI (XI (XO (XO (XO (XO (XO (XO (XO
                   (XO (XI XH))))))))))))))))
               (N.eqb ch (Npos (XI (XO (XI (XI (XO (XO (XO (XO (XO (XO (XO
                 (XO (XI XH))))))))))))))))
             (N.eqb ch (Npos (XI (XI (XO (XI (XI (XO (XO (XI (XO (XO (XO (XO
               (XI XH))))))))))))))))
           (N.eqb ch (Npos (XO (XO (XI (XI (XI (XO (XO (XI (XO (XO (XO (XO
             (XI XH)))))))))))))))
       in
       let is_half_shape_kana =
         in_range ch (Npos (XI (XO (XO (XO (XO (XI (XI (XO (XI (XI (XI (XI
           (XI (XI (XI XH)))))))))))))))) (Npos (XI (XI (XI (XI (XI (XO (XO
           (XI (XI (XI (XI (XI (XI (XI (XI XH))))))))))))))))
       in
       let is_hangul =
         in_range ch (Npos (XI (XO (XO (XO (XI (XI (XO (XO (XI (XO (XO (XO
           (XI XH)))))))))))))) (Npos (XO (XO (XI (XO (XO (XI (XI (XO (XI (XO
           (XO (XO (XI XH))))))))))))))
       in
       let is_half_shape_hangul =
         in_range ch (Npos (XO (XO (XO (XO (XO (XI (XO (XI (XI (XI (XI (XI
           (XI (XI (XI XH)))))))))))))))) (Npos (XO (XO (XI (XI (XI (XO (XI
           (XI (XI (XI (XI (XI (XI (XI (XI XH))))))))))))))))
       in
       let is_full_shape_narrow_symbol =
         (||)
           ((||)
             (N.eqb ch (Npos (XI (XI (XI (XI (XI (XO (XI (XO (XI (XI (XI (XI
               (XI (XI (XI XH)))))))))))))))))
             (N.eqb ch (Npos (XO (XO (XO (XO (XO (XI (XI (XO (XI (XI (XI (XI
               (XI (XI (XI XH))))))))))))))))))
           (in_range ch (Npos (XO (XO (XO (XO (XO (XI (XI (XI (XI (XI (XI (XI
             (XI (XI (XI XH)))))))))))))))) (Npos (XO (XI (XI (XO (XO (XI (XI
             (XI (XI (XI (XI (XI (XI (XI (XI XH)))))))))))))))))
       in
       let is_narrow_symbol =
         (||)
           ((||)
             ((||)
               ((||)
                 ((||)
                   ((||)
                     ((||)
                       (N.eqb ch (Npos (XO (XI (XO (XO (XO (XI (XO XH)))))))))
                       (N.eqb ch (Npos (XI (XI (XO (XO (XO (XI (XO XH))))))))))
                     (N.eqb ch (Npos (XI (XO (XI (XO (XO (XI (XO XH))))))))))
                   (N.eqb ch (Npos (XO (XI (XI (XO (XO (XI (XO XH))))))))))
                 (N.eqb ch (Npos (XO (XO (XI (XI (XO (XI (XO XH))))))))))
               (N.eqb ch (Npos (XI (XI (XI (XI (XO (XI (XO XH))))))))))
             (N.eqb ch (Npos (XI (XO (XI (XO (XO (XO (XO (XI (XI (XO (XO (XI
               (XO XH))))))))))))))))
           (N.eqb ch (Npos (XO (XI (XI (XO (XO (XO (XO (XI (XI (XO (XO (XI
             (XO XH)))))))))))))))
       in
       let is_half_shape_wide_symbol =
         in_range ch (Npos (XO (XO (XO (XI (XO (XI (XI (XI (XI (XI (XI (XI
           (XI (XI (XI XH)))))))))))))))) (Npos (XO (XI (XI (XI (XO (XI (XI
           (XI (XI (XI (XI (XI (XI (XI (XI XH))))))))))))))))
       in
       let is_wide_symbol =
         (||)
           ((||)
             ((||)
               (in_range ch (Npos (XO (XO (XO (XO (XI (XO (XO (XI (XI (XO (XO
                 (XO (XO XH)))))))))))))) (Npos (XI (XI (XO (XO (XI (XO (XO
                 (XI (XI (XO (XO (XO (XO XH)))))))))))))))
               (N.eqb ch (Npos (XO (XI (XO (XO (XO (XO (XO (XO (XI (XO (XI
                 (XO (XO XH))))))))))))))))
             (N.eqb ch (Npos (XO (XO (XO (XO (XO (XI (XO (XI (XI (XO (XI (XO
               (XO XH))))))))))))))))
           (N.eqb ch (Npos (XI (XI (XO (XI (XO (XO (XI (XI (XI (XO (XI (XO
             (XO XH)))))))))))))))
       in
       let is_half_shape =
         (||)
           ((||)
             ((||) ((||) is_ascii is_half_shape_kana) is_half_shape_hangul)
             is_narrow_symbol) is_half_shape_wide_symbol
       in
       let is_full_shape =
         (||)
           ((||)
             ((||)
               ((||) ((||) is_ideographic_space is_full_shape_ascii) is_kana)
               is_hangul) is_full_shape_narrow_symbol) is_wide_symbol
       in
       if is_half_shape
       then label_half_shape
       else if is_full_shape then label_full_shape else []

(** val punct_cand : bytes -> seginfo -> cand **)

let punct_cand punct seg =
  let one_key = Nat.eqb (sub seg.si_end seg.si_start) (S O) in
  { c_start = seg.si_start; c_end = seg.si_end; c_text = punct; c_comment =
  (punct_comment punct); c_preedit = (if one_key then punct else []);
  c_type = ty_punct }

(** val shape_format : (bytes * bool) list -> bytes -> bytes **)

let shape_format opts text =
  if negb (opts_get opts opt_full_shape)
  then text
  else if forallb shape_outside text then text else flat_map shape_wide text

(** val punct_translate : config -> bytes -> seginfo -> cand list **)

let punct_translate cfg input seg =
  if has_tag TPunctNumber seg.si_tags
  then (match input with
        | [] -> []
        | _ :: _ -> (punct_cand (shape_format seg.si_opts input) seg) :: [])
  else if negb (has_tag TPunct seg.si_tags)
       then []
       else (match input with
             | [] -> []
             | b :: l ->
               (match l with
                | [] ->
                  (match punct_lookup cfg seg.si_opts b with
                   | Some p ->
                     (match p with
                      | PdValue s -> (punct_cand s seg) :: []
                      | PdList l0 -> map (fun s -> punct_cand s seg) l0
                      | PdMap (commit0, pair) ->
                        (match commit0 with
                         | Some s -> (punct_cand s seg) :: []
                         | None ->
                           (match pair with
                            | Some l0 ->
                              if Nat.eqb (length l0) (S (S O))
                              then map (fun s -> punct_cand s seg) l0
                              else []
                            | None -> [])))
                   | None -> [])
                | _ :: _ -> []))

(** val cand_compare : cand -> cand -> z **)

let cand_compare a b =
  let k =
    int_of_size
      (size_wrap
        (N.sub
          (N.add (N.of_nat a.c_start) (Npos (XO (XO (XO (XO (XO (XO (XO (XO
            (XO (XO (XO (XO (XO (XO (XO (XO (XO (XO (XO (XO (XO (XO (XO (XO
            (XO (XO (XO (XO (XO (XO (XO (XO (XO (XO (XO (XO (XO (XO (XO (XO
            (XO (XO (XO (XO (XO (XO (XO (XO (XO (XO (XO (XO (XO (XO (XO (XO
            (XO (XO (XO (XO (XO (XO (XO (XO
            XH))))))))))))))))))))))))))))))))))))))))))))))))))))))))))))))))))
          (N.of_nat b.c_start)))
  in
  if negb (Z.eqb k Z0)
  then k
  else let k0 =
         int_of_size
           (size_wrap
             (N.sub
               (N.add (N.of_nat a.c_end) (Npos (XO (XO (XO (XO (XO (XO (XO
                 (XO (XO (XO (XO (XO (XO (XO (XO (XO (XO (XO (XO (XO (XO (XO
                 (XO (XO (XO (XO (XO (XO (XO (XO (XO (XO (XO (XO (XO (XO (XO
                 (XO (XO (XO (XO (XO (XO (XO (XO (XO (XO (XO (XO (XO (XO (XO
                 (XO (XO (XO (XO (XO (XO (XO (XO (XO (XO (XO (XO
                 XH))))))))))))))))))))))))))))))))))))))))))))))))))))))))))))))))))
               (N.of_nat b.c_end)))
       in
       if negb (Z.eqb k0 Z0) then Z.opp k0 else Z0

(** val elect : cand list list -> nat **)

let rec elect = function
| [] -> O
| l :: r ->
  (match l with
   | [] -> O
   | c1 :: _ ->
     (match r with
      | [] -> O
      | l1 :: _ ->
        (match l1 with
         | [] -> O
         | c2 :: _ -> if Z.leb (cand_compare c1 c2) Z0 then O else S (elect r))))

(** val take_at : nat -> cand list list -> (cand * cand list list) option **)

let rec take_at k = function
| [] -> None
| t :: r ->
  (match k with
   | O ->
     (match t with
      | [] -> None
      | c :: t' -> Some (c, (match t' with
                             | [] -> r
                             | _ :: _ -> t' :: r)))
   | S k' ->
     (match take_at k' r with
      | Some p -> let (c, r') = p in Some (c, (t :: r'))
      | None -> None))

(** val merge_loop : nat -> cand list list -> cand list **)

let rec merge_loop fuel ts =
  match fuel with
  | O -> []
  | S f ->
    (match take_at (elect ts) ts with
     | Some p -> let (c, ts') = p in c :: (merge_loop f ts')
     | None -> [])

(** val nonempty : 'a1 list -> bool **)

let nonempty = function
| [] -> false
| _ :: _ -> true

(** val total_len : cand list list -> nat **)

let total_len ts =
  fold_right (fun t n0 -> add (length t) n0) O ts

(** val merge_translations : cand list list -> cand list **)

let merge_translations ts =
  let ts0 = filter nonempty ts in merge_loop (total_len ts0) ts0

(** val translator_query :
    config -> (bytes -> seginfo -> cand list) -> trans_id -> bytes -> seginfo
    -> cand list **)

let translator_query cfg translate_main t input seg =
  match t with
  | TrPunct -> punct_translate cfg input seg
  | TrMain -> translate_main input seg

(** val all_translate :
    config -> (bytes -> seginfo -> cand list) -> bytes -> seginfo -> cand list **)

let all_translate cfg translate_main input seg =
  merge_translations
    (map (fun t -> translator_query cfg translate_main t input seg)
      cfg.cf_translators)

(** val express_editor_binds : ((z * z) * editor_action) list **)

let express_editor_binds =
  (((Zpos (XO (XO (XO (XO (XO XH)))))), Z0), EdConfirm) :: ((((Zpos (XO (XO
    (XO (XI (XO (XO (XO (XO (XI (XI (XI (XI (XI (XI (XI XH)))))))))))))))),
    Z0), EdRevertLastEdit) :: ((((Zpos (XO (XO (XO (XI (XO (XO (XO (XO (XI
    (XI (XI (XI (XI (XI (XI XH)))))))))))))))), (Zpos (XO (XO XH)))),
    EdBackToPreviousSyllable) :: ((((Zpos (XI (XO (XI (XI (XO (XO (XO (XO (XI
    (XI (XI (XI (XI (XI (XI XH)))))))))))))))), Z0),
    EdCommitRawInput) :: ((((Zpos (XI (XO (XI (XI (XO (XO (XO (XO (XI (XI (XI
    (XI (XI (XI (XI XH)))))))))))))))), (Zpos (XO (XO XH)))),
    EdCommitScriptText) :: ((((Zpos (XI (XO (XI (XI (XO (XO (XO (XO (XI (XI
    (XI (XI (XI (XI (XI XH)))))))))))))))), (Zpos (XI (XO XH)))),
    EdCommitComment) :: ((((Zpos (XI (XI (XI (XI (XI (XI (XI (XI (XI (XI (XI
    (XI (XI (XI (XI XH)))))))))))))))), Z0), EdDeleteChar) :: ((((Zpos (XI
    (XI (XI (XI (XI (XI (XI (XI (XI (XI (XI (XI (XI (XI (XI
    XH)))))))))))))))), (Zpos (XO (XO XH)))), EdDeleteCandidate) :: ((((Zpos
    (XI (XI (XO (XI (XI (XO (XO (XO (XI (XI (XI (XI (XI (XI (XI
    XH)))))))))))))))), Z0), EdCancelComposition) :: []))))))))

(** val fluid_editor_binds : ((z * z) * editor_action) list **)

let fluid_editor_binds =
  (((Zpos (XO (XO (XO (XO (XO XH)))))), Z0), EdConfirm) :: ((((Zpos (XO (XO
    (XO (XI (XO (XO (XO (XO (XI (XI (XI (XI (XI (XI (XI XH)))))))))))))))),
    Z0), EdBackToPreviousInput) :: ((((Zpos (XO (XO (XO (XI (XO (XO (XO (XO
    (XI (XI (XI (XI (XI (XI (XI XH)))))))))))))))), (Zpos (XO (XO XH)))),
    EdBackToPreviousSyllable) :: ((((Zpos (XI (XO (XI (XI (XO (XO (XO (XO (XI
    (XI (XI (XI (XI (XI (XI XH)))))))))))))))), Z0),
    EdCommitComposition) :: ((((Zpos (XI (XO (XI (XI (XO (XO (XO (XO (XI (XI
    (XI (XI (XI (XI (XI XH)))))))))))))))), (Zpos (XO (XO XH)))),
    EdCommitRawInput) :: ((((Zpos (XI (XO (XI (XI (XO (XO (XO (XO (XI (XI (XI
    (XI (XI (XI (XI XH)))))))))))))))), (Zpos XH)),
    EdCommitScriptText) :: ((((Zpos (XI (XO (XI (XI (XO (XO (XO (XO (XI (XI
    (XI (XI (XI (XI (XI XH)))))))))))))))), (Zpos (XI (XO XH)))),
    EdCommitComment) :: ((((Zpos (XI (XI (XI (XI (XI (XI (XI (XI (XI (XI (XI
    (XI (XI (XI (XI XH)))))))))))))))), Z0), EdDeleteChar) :: ((((Zpos (XI
    (XI (XI (XI (XI (XI (XI (XI (XI (XI (XI (XI (XI (XI (XI
    XH)))))))))))))))), (Zpos (XO (XO XH)))), EdDeleteCandidate) :: ((((Zpos
    (XI (XI (XO (XI (XI (XO (XO (XO (XI (XI (XI (XI (XI (XI (XI
    XH)))))))))))))))), Z0), EdCancelComposition) :: [])))))))))

(** val nav_horizontal_binds : ((z * z) * nav_action) list **)

let nav_horizontal_binds =
  (((Zpos (XI (XO (XO (XO (XI (XO (XI (XO (XI (XI (XI (XI (XI (XI (XI
    XH)))))))))))))))), Z0), NavRewind) :: ((((Zpos (XI (XO (XO (XO (XI (XO
    (XI (XO (XI (XI (XI (XI (XI (XI (XI XH)))))))))))))))), (Zpos (XO (XO
    XH)))), NavLeftBySyllable) :: ((((Zpos (XO (XI (XI (XO (XI (XO (XO (XI
    (XI (XI (XI (XI (XI (XI (XI XH)))))))))))))))), Z0),
    NavLeftByChar) :: ((((Zpos (XI (XI (XO (XO (XI (XO (XI (XO (XI (XI (XI
    (XI (XI (XI (XI XH)))))))))))))))), Z0), NavRightByChar) :: ((((Zpos (XI
    (XI (XO (XO (XI (XO (XI (XO (XI (XI (XI (XI (XI (XI (XI
    XH)))))))))))))))), (Zpos (XO (XO XH)))), NavRightBySyllable) :: ((((Zpos
    (XO (XO (XO (XI (XI (XO (XO (XI (XI (XI (XI (XI (XI (XI (XI
    XH)))))))))))))))), Z0), NavRightByChar) :: ((((Zpos (XO (XO (XO (XO (XI
    (XO (XI (XO (XI (XI (XI (XI (XI (XI (XI XH)))))))))))))))), Z0),
    NavHome) :: ((((Zpos (XI (XO (XI (XO (XI (XO (XO (XI (XI (XI (XI (XI (XI
    (XI (XI XH)))))))))))))))), Z0), NavHome) :: ((((Zpos (XI (XI (XI (XO (XI
    (XO (XI (XO (XI (XI (XI (XI (XI (XI (XI XH)))))))))))))))), Z0),
    NavEnd) :: ((((Zpos (XO (XO (XI (XI (XI (XO (XO (XI (XI (XI (XI (XI (XI
    (XI (XI XH)))))))))))))))), Z0), NavEnd) :: [])))))))))

(** val nav_vertical_binds : ((z * z) * nav_action) list **)

let nav_vertical_binds =
  (((Zpos (XO (XI (XO (XO (XI (XO (XI (XO (XI (XI (XI (XI (XI (XI (XI
    XH)))))))))))))))), Z0), NavRewind) :: ((((Zpos (XO (XI (XO (XO (XI (XO
    (XI (XO (XI (XI (XI (XI (XI (XI (XI XH)))))))))))))))), (Zpos (XO (XO
    XH)))), NavLeftBySyllable) :: ((((Zpos (XI (XI (XI (XO (XI (XO (XO (XI
    (XI (XI (XI (XI (XI (XI (XI XH)))))))))))))))), Z0),
    NavLeftByChar) :: ((((Zpos (XO (XO (XI (XO (XI (XO (XI (XO (XI (XI (XI
    (XI (XI (XI (XI XH)))))))))))))))), Z0), NavRightByChar) :: ((((Zpos (XO
    (XO (XI (XO (XI (XO (XI (XO (XI (XI (XI (XI (XI (XI (XI
    XH)))))))))))))))), (Zpos (XO (XO XH)))), NavRightBySyllable) :: ((((Zpos
    (XI (XO (XO (XI (XI (XO (XO (XI (XI (XI (XI (XI (XI (XI (XI
    XH)))))))))))))))), Z0), NavRightByChar) :: ((((Zpos (XO (XO (XO (XO (XI
    (XO (XI (XO (XI (XI (XI (XI (XI (XI (XI XH)))))))))))))))), Z0),
    NavHome) :: ((((Zpos (XI (XO (XI (XO (XI (XO (XO (XI (XI (XI (XI (XI (XI
    (XI (XI XH)))))))))))))))), Z0), NavHome) :: ((((Zpos (XI (XI (XI (XO (XI
    (XO (XI (XO (XI (XI (XI (XI (XI (XI (XI XH)))))))))))))))), Z0),
    NavEnd) :: ((((Zpos (XO (XO (XI (XI (XI (XO (XO (XI (XI (XI (XI (XI (XI
    (XI (XI XH)))))))))))))))), Z0), NavEnd) :: [])))))))))

(** val sel_hl_binds : ((z * z) * sel_action) list **)

let sel_hl_binds =
  (((Zpos (XI (XO (XO (XO (XI (XO (XI (XO (XI (XI (XI (XI (XI (XI (XI
    XH)))))))))))))))), Z0), SelPreviousCandidate) :: ((((Zpos (XO (XI (XI
    (XO (XI (XO (XO (XI (XI (XI (XI (XI (XI (XI (XI XH)))))))))))))))), Z0),
    SelPreviousCandidate) :: ((((Zpos (XI (XI (XO (XO (XI (XO (XI (XO (XI (XI
    (XI (XI (XI (XI (XI XH)))))))))))))))), Z0),
    SelNextCandidate) :: ((((Zpos (XO (XO (XO (XI (XI (XO (XO (XI (XI (XI (XI
    (XI (XI (XI (XI XH)))))))))))))))), Z0), SelNextCandidate) :: ((((Zpos
    (XO (XI (XO (XO (XI (XO (XI (XO (XI (XI (XI (XI (XI (XI (XI
    XH)))))))))))))))), Z0), SelPreviousPage) :: ((((Zpos (XI (XI (XI (XO (XI
    (XO (XO (XI (XI (XI (XI (XI (XI (XI (XI XH)))))))))))))))), Z0),
    SelPreviousPage) :: ((((Zpos (XO (XO (XI (XO (XI (XO (XI (XO (XI (XI (XI
    (XI (XI (XI (XI XH)))))))))))))))), Z0), SelNextPage) :: ((((Zpos (XI (XO
    (XO (XI (XI (XO (XO (XI (XI (XI (XI (XI (XI (XI (XI XH)))))))))))))))),
    Z0), SelNextPage) :: ((((Zpos (XI (XO (XI (XO (XI (XO (XI (XO (XI (XI (XI
    (XI (XI (XI (XI XH)))))))))))))))), Z0), SelPreviousPage) :: ((((Zpos (XO
    (XI (XO (XI (XI (XO (XO (XI (XI (XI (XI (XI (XI (XI (XI
    XH)))))))))))))))), Z0), SelPreviousPage) :: ((((Zpos (XO (XI (XI (XO (XI
    (XO (XI (XO (XI (XI (XI (XI (XI (XI (XI XH)))))))))))))))), Z0),
    SelNextPage) :: ((((Zpos (XI (XI (XO (XI (XI (XO (XO (XI (XI (XI (XI (XI
    (XI (XI (XI XH)))))))))))))))), Z0), SelNextPage) :: ((((Zpos (XO (XO (XO
    (XO (XI (XO (XI (XO (XI (XI (XI (XI (XI (XI (XI XH)))))))))))))))), Z0),
    SelHome) :: ((((Zpos (XI (XO (XI (XO (XI (XO (XO (XI (XI (XI (XI (XI (XI
    (XI (XI XH)))))))))))))))), Z0), SelHome) :: ((((Zpos (XI (XI (XI (XO (XI
    (XO (XI (XO (XI (XI (XI (XI (XI (XI (XI XH)))))))))))))))), Z0),
    SelEnd) :: ((((Zpos (XO (XO (XI (XI (XI (XO (XO (XI (XI (XI (XI (XI (XI
    (XI (XI XH)))))))))))))))), Z0), SelEnd) :: [])))))))))))))))

(** val sel_hs_binds : ((z * z) * sel_action) list **)

let sel_hs_binds =
  (((Zpos (XO (XI (XO (XO (XI (XO (XI (XO (XI (XI (XI (XI (XI (XI (XI
    XH)))))))))))))))), Z0), SelPreviousCandidate) :: ((((Zpos (XI (XI (XI
    (XO (XI (XO (XO (XI (XI (XI (XI (XI (XI (XI (XI XH)))))))))))))))), Z0),
    SelPreviousCandidate) :: ((((Zpos (XO (XO (XI (XO (XI (XO (XI (XO (XI (XI
    (XI (XI (XI (XI (XI XH)))))))))))))))), Z0),
    SelNextCandidate) :: ((((Zpos (XI (XO (XO (XI (XI (XO (XO (XI (XI (XI (XI
    (XI (XI (XI (XI XH)))))))))))))))), Z0), SelNextCandidate) :: ((((Zpos
    (XI (XO (XI (XO (XI (XO (XI (XO (XI (XI (XI (XI (XI (XI (XI
    XH)))))))))))))))), Z0), SelPreviousPage) :: ((((Zpos (XO (XI (XO (XI (XI
    (XO (XO (XI (XI (XI (XI (XI (XI (XI (XI XH)))))))))))))))), Z0),
    SelPreviousPage) :: ((((Zpos (XO (XI (XI (XO (XI (XO (XI (XO (XI (XI (XI
    (XI (XI (XI (XI XH)))))))))))))))), Z0), SelNextPage) :: ((((Zpos (XI (XI
    (XO (XI (XI (XO (XO (XI (XI (XI (XI (XI (XI (XI (XI XH)))))))))))))))),
    Z0), SelNextPage) :: ((((Zpos (XO (XO (XO (XO (XI (XO (XI (XO (XI (XI (XI
    (XI (XI (XI (XI XH)))))))))))))))), Z0), SelHome) :: ((((Zpos (XI (XO (XI
    (XO (XI (XO (XO (XI (XI (XI (XI (XI (XI (XI (XI XH)))))))))))))))), Z0),
    SelHome) :: ((((Zpos (XI (XI (XI (XO (XI (XO (XI (XO (XI (XI (XI (XI (XI
    (XI (XI XH)))))))))))))))), Z0), SelEnd) :: ((((Zpos (XO (XO (XI (XI (XI
    (XO (XO (XI (XI (XI (XI (XI (XI (XI (XI XH)))))))))))))))), Z0),
    SelEnd) :: [])))))))))))

(** val sel_vl_binds : ((z * z) * sel_action) list **)

let sel_vl_binds =
  (((Zpos (XO (XI (XO (XO (XI (XO (XI (XO (XI (XI (XI (XI (XI (XI (XI
    XH)))))))))))))))), Z0), SelPreviousCandidate) :: ((((Zpos (XI (XI (XI
    (XO (XI (XO (XO (XI (XI (XI (XI (XI (XI (XI (XI XH)))))))))))))))), Z0),
    SelPreviousCandidate) :: ((((Zpos (XO (XO (XI (XO (XI (XO (XI (XO (XI (XI
    (XI (XI (XI (XI (XI XH)))))))))))))))), Z0),
    SelNextCandidate) :: ((((Zpos (XI (XO (XO (XI (XI (XO (XO (XI (XI (XI (XI
    (XI (XI (XI (XI XH)))))))))))))))), Z0), SelNextCandidate) :: ((((Zpos
    (XI (XI (XO (XO (XI (XO (XI (XO (XI (XI (XI (XI (XI (XI (XI
    XH)))))))))))))))), Z0), SelPreviousPage) :: ((((Zpos (XO (XO (XO (XI (XI
    (XO (XO (XI (XI (XI (XI (XI (XI (XI (XI XH)))))))))))))))), Z0),
    SelPreviousPage) :: ((((Zpos (XI (XO (XO (XO (XI (XO (XI (XO (XI (XI (XI
    (XI (XI (XI (XI XH)))))))))))))))), Z0), SelNextPage) :: ((((Zpos (XO (XI
    (XI (XO (XI (XO (XO (XI (XI (XI (XI (XI (XI (XI (XI XH)))))))))))))))),
    Z0), SelNextPage) :: ((((Zpos (XI (XO (XI (XO (XI (XO (XI (XO (XI (XI (XI
    (XI (XI (XI (XI XH)))))))))))))))), Z0), SelPreviousPage) :: ((((Zpos (XO
    (XI (XO (XI (XI (XO (XO (XI (XI (XI (XI (XI (XI (XI (XI
    XH)))))))))))))))), Z0), SelPreviousPage) :: ((((Zpos (XO (XI (XI (XO (XI
    (XO (XI (XO (XI (XI (XI (XI (XI (XI (XI XH)))))))))))))))), Z0),
    SelNextPage) :: ((((Zpos (XI (XI (XO (XI (XI (XO (XO (XI (XI (XI (XI (XI
    (XI (XI (XI XH)))))))))))))))), Z0), SelNextPage) :: ((((Zpos (XO (XO (XO
    (XO (XI (XO (XI (XO (XI (XI (XI (XI (XI (XI (XI XH)))))))))))))))), Z0),
    SelHome) :: ((((Zpos (XI (XO (XI (XO (XI (XO (XO (XI (XI (XI (XI (XI (XI
    (XI (XI XH)))))))))))))))), Z0), SelHome) :: ((((Zpos (XI (XI (XI (XO (XI
    (XO (XI (XO (XI (XI (XI (XI (XI (XI (XI XH)))))))))))))))), Z0),
    SelEnd) :: ((((Zpos (XO (XO (XI (XI (XI (XO (XO (XI (XI (XI (XI (XI (XI
    (XI (XI XH)))))))))))))))), Z0), SelEnd) :: [])))))))))))))))

(** val sel_vs_binds : ((z * z) * sel_action) list **)

let sel_vs_binds =
  (((Zpos (XI (XI (XO (XO (XI (XO (XI (XO (XI (XI (XI (XI (XI (XI (XI
    XH)))))))))))))))), Z0), SelPreviousCandidate) :: ((((Zpos (XO (XO (XO
    (XI (XI (XO (XO (XI (XI (XI (XI (XI (XI (XI (XI XH)))))))))))))))), Z0),
    SelPreviousCandidate) :: ((((Zpos (XI (XO (XO (XO (XI (XO (XI (XO (XI (XI
    (XI (XI (XI (XI (XI XH)))))))))))))))), Z0),
    SelNextCandidate) :: ((((Zpos (XO (XI (XI (XO (XI (XO (XO (XI (XI (XI (XI
    (XI (XI (XI (XI XH)))))))))))))))), Z0), SelNextCandidate) :: ((((Zpos
    (XI (XO (XI (XO (XI (XO (XI (XO (XI (XI (XI (XI (XI (XI (XI
    XH)))))))))))))))), Z0), SelPreviousPage) :: ((((Zpos (XO (XI (XO (XI (XI
    (XO (XO (XI (XI (XI (XI (XI (XI (XI (XI XH)))))))))))))))), Z0),
    SelPreviousPage) :: ((((Zpos (XO (XI (XI (XO (XI (XO (XI (XO (XI (XI (XI
    (XI (XI (XI (XI XH)))))))))))))))), Z0), SelNextPage) :: ((((Zpos (XI (XI
    (XO (XI (XI (XO (XO (XI (XI (XI (XI (XI (XI (XI (XI XH)))))))))))))))),
    Z0), SelNextPage) :: ((((Zpos (XO (XO (XO (XO (XI (XO (XI (XO (XI (XI (XI
    (XI (XI (XI (XI XH)))))))))))))))), Z0), SelHome) :: ((((Zpos (XI (XO (XI
    (XO (XI (XO (XO (XI (XI (XI (XI (XI (XI (XI (XI XH)))))))))))))))), Z0),
    SelHome) :: ((((Zpos (XI (XI (XI (XO (XI (XO (XI (XO (XI (XI (XI (XI (XI
    (XI (XI XH)))))))))))))))), Z0), SelEnd) :: ((((Zpos (XO (XO (XI (XI (XI
    (XO (XO (XI (XI (XI (XI (XI (XI (XI (XI XH)))))))))))))))), Z0),
    SelEnd) :: [])))))))))))

(** val fluid_char_handler : char_handler **)

let fluid_char_handler =
  CHAddToInput

(** val express_char_handler : char_handler **)

let express_char_handler =
  CHDirectCommit

type presult =
| PRejected
| PAccepted
| PNoop

(** val presult_is_noop : presult -> bool **)

let presult_is_noop = function
| PNoop -> true
| _ -> false

(** val kbp_accept :
    (state -> 'a1 -> state * bool) -> 'a1 keymap -> state -> key ->
    state * bool **)

let kbp_accept run km s k =
  match keymap_find km k with
  | Some a -> run s a
  | None -> (s, false)

(** val kbp_process :
    (state -> 'a1 -> state * bool) -> 'a1 keymap -> bool -> state -> key ->
    state * presult **)

let kbp_process run km fallback_all s k =
  let (s1, ok1) = kbp_accept run km s k in
  if ok1
  then (s1, PAccepted)
  else if (||) (k_ctrl k) (k_alt k)
       then (s1, PNoop)
       else if (&&) (k_shift k) fallback_all
            then let (s2, ok2) =
                   kbp_accept run km s1 { k_code = k.k_code; k_mod =
                     (shift_as_control k.k_mod) }
                 in
                 if ok2
                 then (s2, PAccepted)
                 else let (s3, ok3) =
                        kbp_accept run km s2 { k_code = k.k_code; k_mod =
                          (clear_shift k.k_mod) }
                      in
                      if ok3 then (s3, PAccepted) else (s3, PNoop)
            else (s1, PNoop)

(** val spans_add_vertex : nat list -> nat -> nat list **)

let rec spans_add_vertex l v =
  match l with
  | [] -> v :: []
  | x :: r ->
    if Nat.ltb v x
    then v :: l
    else if Nat.eqb v x then l else x :: (spans_add_vertex r v)

(** val spans_add_span : nat list -> nat -> nat -> nat list **)

let spans_add_span l st en =
  spans_add_vertex (spans_add_vertex l st) en

(** val spans_previous_stop : nat list -> nat -> nat **)

let spans_previous_stop l caret =
  fold_left (fun acc x -> if Nat.ltb x caret then x else acc) l caret

(** val spans_next_stop : nat list -> nat -> nat **)

let rec spans_next_stop l caret =
  match l with
  | [] -> caret
  | x :: r -> if Nat.ltb caret x then x else spans_next_stop r caret

(** val spans_count : nat list -> nat **)

let spans_count l =
  sub (length l) (S O)

(** val spans_end : nat list -> nat **)

let spans_end l =
  last l O

(** val spans_has_vertex : nat list -> nat -> bool **)

let spans_has_vertex l v =
  existsb (Nat.eqb v) l

(** val on_ctx : state -> (context -> context) -> state **)

let on_ctx s f =
  st_with_ctx s (f s.st_ctx)

(** val on_ctx_b : state -> (context -> context * bool) -> state * bool **)

let on_ctx_b s f =
  let (c, b) = f s.st_ctx in ((st_with_ctx s c), b)

(** val expecting_an_initial : config -> context -> bool **)

let expecting_an_initial cfg c =
  let caret = c.cx_caret in
  if (||) (Nat.eqb caret O) (Nat.eqb caret (cur_start c.cx_comp))
  then true
  else let previous_char = nth (sub caret (S O)) c.cx_input X00 in
       (||) (mem_byte previous_char cfg.cf_finals)
         (negb (mem_byte previous_char cfg.cf_alphabet))

(** val speller_process :
    config -> (bytes -> seginfo -> cand list) -> state -> key ->
    state * presult **)

let speller_process cfg translate s k =
  if (||) ((||) ((||) (k_release k) (k_ctrl k)) (k_alt k)) (k_super k)
  then (s, PNoop)
  else let ch = k.k_code in
       if (||) (Z.ltb ch (Zpos (XO (XO (XO (XO (XO XH)))))))
            (Z.leb (Zpos (XI (XI (XI (XI (XI (XI XH))))))) ch)
       then (s, PNoop)
       else if (&&) (Z.eqb ch xK_space)
                 ((||) (negb cfg.cf_use_space) (k_shift k))
            then (s, PNoop)
            else let b = byte_of_N (Z.to_N ch) in
                 if (&&) (negb (mem_byte b cfg.cf_alphabet))
                      (negb (mem_byte b cfg.cf_delims))
                 then (s, PNoop)
                 else let is_initial = mem_byte b cfg.cf_initials in
                      if (&&) (negb is_initial)
                           (expecting_an_initial cfg s.st_ctx)
                      then (s, PNoop)
                      else ((on_ctx s (fun c ->
                              begin_editing (push_input cfg translate c b))),
                             PAccepted)

(** val is_linear_layout : context -> bool **)

let is_linear_layout c =
  (||) (get_option c opt_linear) (get_option c opt_horizontal)

(** val caret_at_end_of_input : context -> bool **)

let caret_at_end_of_input c =
  Nat.leb (length c.cx_input) c.cx_caret

(** val with_back : context -> (segment -> segment) -> context **)

let with_back c f =
  match c.cx_comp.sg_segs with
  | [] -> c
  | g :: _ -> ctx_with_comp c (sg_set_back c.cx_comp (f g))

(** val set_sel_paging : context -> z -> context **)

let set_sel_paging c index =
  with_back c (fun g ->
    seg_with_tags (seg_with_sel g (size_of_int index))
      (tag_insert TPaging g.s_tags))

(** val sel_previous_page : config -> context -> context * bool **)

let sel_previous_page cfg c =
  match c.cx_comp.sg_segs with
  | [] -> (c, false)
  | g :: _ ->
    let page_size = cfg.cf_page_size in
    let selected_index = int_of_size g.s_sel in
    let index =
      if Z.ltb selected_index page_size
      then Z0
      else Z.sub selected_index page_size
    in
    ((set_sel_paging c index), true)

(** val sel_next_page : config -> context -> context * bool **)

let sel_next_page cfg c =
  match c.cx_comp.sg_segs with
  | [] -> (c, false)
  | g :: _ ->
    (match g.s_menu with
     | Some m ->
       let page_size = cfg.cf_page_size in
       let index =
         int_of_size (size_wrap (N.add g.s_sel (size_of_int page_size)))
       in
       let page_start = Z.mul (Z.quot index page_size) page_size in
       let candidate_count =
         int_of_size
           (menu_prepare m (size_of_int (Z.add page_start page_size)))
       in
       if Z.leb candidate_count page_start
       then if cfg.cf_page_down_cycle
            then ((set_sel_paging c Z0), true)
            else (c, true)
       else if Z.leb candidate_count index
            then ((set_sel_paging c (Z.sub candidate_count (Zpos XH))), true)
            else ((set_sel_paging c index), true)
     | None -> (c, false))

(** val sel_previous_candidate : context -> context * bool **)

let sel_previous_candidate c =
  if (&&) (is_linear_layout c) (negb (caret_at_end_of_input c))
  then (c, false)
  else (match c.cx_comp.sg_segs with
        | [] -> (c, false)
        | g :: _ ->
          let index = int_of_size g.s_sel in
          if Z.leb index Z0
          then (c, (negb (is_linear_layout c)))
          else ((set_sel_paging c (Z.sub index (Zpos XH))), true))

(** val sel_next_candidate : context -> context * bool **)

let sel_next_candidate c =
  if (&&) (is_linear_layout c) (negb (caret_at_end_of_input c))
  then (c, false)
  else (match c.cx_comp.sg_segs with
        | [] -> (c, false)
        | g :: _ ->
          (match g.s_menu with
           | Some m ->
             let index = int_of_size (size_wrap (N.add g.s_sel (Npos XH))) in
             let candidate_count =
               int_of_size
                 (menu_prepare m (size_of_int (Z.add index (Zpos XH))))
             in
             if Z.leb candidate_count index
             then (c, true)
             else ((set_sel_paging c index), true)
           | None -> (c, false)))

(** val sel_home : context -> context * bool **)

let sel_home c =
  match c.cx_comp.sg_segs with
  | [] -> (c, false)
  | g :: _ ->
    if N.ltb N0 g.s_sel
    then ((with_back c (fun g0 -> seg_with_sel g0 N0)), true)
    else (c, false)

(** val sel_end : context -> context * bool **)

let sel_end c =
  if Nat.ltb c.cx_caret (length c.cx_input) then (c, false) else sel_home c

(** val run_sel_action : config -> state -> sel_action -> state * bool **)

let run_sel_action cfg s = function
| SelPreviousCandidate -> on_ctx_b s sel_previous_candidate
| SelNextCandidate -> on_ctx_b s sel_next_candidate
| SelPreviousPage -> on_ctx_b s (sel_previous_page cfg)
| SelNextPage -> on_ctx_b s (sel_next_page cfg)
| SelHome -> on_ctx_b s sel_home
| SelEnd -> on_ctx_b s sel_end
| SelUnrecognised -> (s, false)

(** val sel_keymap : context -> sel_action keymap **)

let sel_keymap c =
  keymap_of_binds
    (if get_option c opt_vertical
     then if is_linear_layout c then sel_vl_binds else sel_vs_binds
     else if is_linear_layout c then sel_hl_binds else sel_hs_binds)

(** val select_candidate_at :
    config -> (bytes -> seginfo -> cand list) -> state -> z -> state * bool **)

let select_candidate_at cfg translate s index =
  match s.st_ctx.cx_comp.sg_segs with
  | [] -> (s, false)
  | g :: _ ->
    let page_size = cfg.cf_page_size in
    if Z.leb page_size index
    then (s, false)
    else let selected_index = int_of_size g.s_sel in
         let page_start = Z.mul (Z.quot selected_index page_size) page_size in
         select cfg translate s (size_of_int (Z.add page_start index))

(** val select_key_index : config -> key -> z **)

let select_key_index cfg k =
  let ch = k.k_code in
  let select_keys = cfg.cf_select_keys in
  if (&&)
       ((&&)
         ((&&) (negb (match select_keys with
                      | [] -> true
                      | _ :: _ -> false)) (negb (k_ctrl k)))
         (Z.leb (Zpos (XO (XO (XO (XO (XO XH)))))) ch))
       (Z.ltb ch (Zpos (XI (XI (XI (XI (XI (XI XH))))))))
  then (match find_byte (byte_of_N (Z.to_N ch)) select_keys with
        | Some pos -> Z.of_nat pos
        | None -> Zneg XH)
  else if (&&) (Z.leb xK_0 ch) (Z.leb ch xK_9)
       then Z.modulo (Z.add (Z.sub ch xK_0) (Zpos (XI (XO (XO XH))))) (Zpos
              (XO (XI (XO XH))))
       else if (&&) (Z.leb xK_KP_0 ch) (Z.leb ch xK_KP_9)
            then Z.modulo (Z.add (Z.sub ch xK_KP_0) (Zpos (XI (XO (XO XH)))))
                   (Zpos (XO (XI (XO XH))))
            else Zneg XH

(** val selector_process :
    config -> (bytes -> seginfo -> cand list) -> state -> key ->
    state * presult **)

let selector_process cfg translate s k =
  if (||) ((||) (k_release k) (k_alt k)) (k_super k)
  then (s, PNoop)
  else let c = s.st_ctx in
       (match c.cx_comp.sg_segs with
        | [] -> (s, PNoop)
        | g :: _ ->
          if (||) (match g.s_menu with
                   | Some _ -> false
                   | None -> true) (has_tag TRaw g.s_tags)
          then (s, PNoop)
          else let (s1, r) =
                 kbp_process (run_sel_action cfg) (sel_keymap c) false s k
               in
               if negb (presult_is_noop r)
               then (s1, r)
               else let index = select_key_index cfg k in
                    if Z.leb Z0 index
                    then ((fst (select_candidate_at cfg translate s1 index)),
                           PAccepted)
                    else (s1, PNoop))

(** val begin_move : state -> state **)

let begin_move s =
  let c = begin_editing s.st_ctx in
  if (||) (negb (bytes_eqb s.st_nav_input c.cx_input))
       (Nat.ltb (spans_end s.st_spans) c.cx_caret)
  then { st_ctx = c; st_nav_input = c.cx_input; st_spans =
         (fold_left (fun sp g -> spans_add_span sp g.s_start g.s_end)
           (segs_fwd c.cx_comp) []); st_commit = s.st_commit; st_odd =
         s.st_odd; st_kb_last = s.st_kb_last }
  else st_with_ctx s c

(** val jump_left :
    config -> (bytes -> seginfo -> cand list) -> state -> nat -> state * bool **)

let jump_left cfg translate s start_pos =
  let c = s.st_ctx in
  let caret_pos = c.cx_caret in
  let stop0 = spans_previous_stop s.st_spans caret_pos in
  let stop = if Nat.ltb stop0 start_pos then length c.cx_input else stop0 in
  if negb (Nat.eqb stop caret_pos)
  then ((st_with_ctx s (set_caret_pos cfg translate c stop)), true)
  else (s, false)

(** val jump_right :
    config -> (bytes -> seginfo -> cand list) -> state -> nat -> state * bool **)

let jump_right cfg translate s start_pos =
  let c = s.st_ctx in
  let caret_pos =
    if Nat.eqb c.cx_caret (length c.cx_input) then start_pos else c.cx_caret
  in
  let stop = spans_next_stop s.st_spans caret_pos in
  if negb (Nat.eqb stop caret_pos)
  then ((st_with_ctx s (set_caret_pos cfg translate c stop)), true)
  else (s, false)

(** val move_left :
    config -> (bytes -> seginfo -> cand list) -> state -> state * bool **)

let move_left cfg translate s =
  let c = s.st_ctx in
  if Nat.eqb c.cx_caret O
  then (s, false)
  else ((st_with_ctx s (set_caret_pos cfg translate c (sub c.cx_caret (S O)))),
         true)

(** val move_right :
    config -> (bytes -> seginfo -> cand list) -> state -> state * bool **)

let move_right cfg translate s =
  let c = s.st_ctx in
  if Nat.leb (length c.cx_input) c.cx_caret
  then (s, false)
  else ((st_with_ctx s (set_caret_pos cfg translate c (S c.cx_caret))), true)

(** val go_home_pos : segment list -> nat -> nat **)

let rec go_home_pos l acc =
  match l with
  | [] -> acc
  | g :: r ->
    if status_geb g.s_status SSelected then acc else go_home_pos r g.s_start

(** val go_home :
    config -> (bytes -> seginfo -> cand list) -> state -> state * bool **)

let go_home cfg translate s =
  let c = s.st_ctx in
  let caret_pos = c.cx_caret in
  let confirmed =
    match c.cx_comp.sg_segs with
    | [] -> caret_pos
    | s0 :: l0 -> go_home_pos (s0 :: l0) caret_pos
  in
  if Nat.ltb confirmed caret_pos
  then ((st_with_ctx s (set_caret_pos cfg translate c confirmed)), true)
  else if negb (Nat.eqb caret_pos O)
       then ((st_with_ctx s (set_caret_pos cfg translate c O)), true)
       else (s, false)

(** val go_to_end :
    config -> (bytes -> seginfo -> cand list) -> state -> state * bool **)

let go_to_end cfg translate s =
  let c = s.st_ctx in
  let end_pos = length c.cx_input in
  if negb (Nat.eqb c.cx_caret end_pos)
  then ((st_with_ctx s (set_caret_pos cfg translate c end_pos)), true)
  else (s, false)

(** val or_else :
    (state * bool) -> (state -> state * bool) -> state * bool **)

let or_else r f =
  let (s, ok) = r in if ok then (s, true) else f s

(** val run_nav_action :
    config -> (bytes -> seginfo -> cand list) -> state -> nav_action ->
    state * bool **)

let run_nav_action cfg translate s = function
| NavRewind ->
  let s1 = begin_move s in
  let r =
    if (&&) (Nat.ltb (S O) (spans_count s1.st_spans))
         (spans_has_vertex s1.st_spans s1.st_ctx.cx_caret)
    then jump_left cfg translate s1 O
    else move_left cfg translate s1
  in
  ((fst (or_else r (go_to_end cfg translate))), true)
| NavLeftByChar ->
  let s1 = begin_move s in
  ((fst (or_else (move_left cfg translate s1) (go_to_end cfg translate))),
  true)
| NavRightByChar ->
  let s1 = begin_move s in
  ((fst (or_else (move_right cfg translate s1) (go_home cfg translate))),
  true)
| NavLeftBySyllable ->
  let s1 = begin_move s in
  let confirmed = confirmed_pos s1.st_ctx.cx_comp in
  ((fst
     (or_else (jump_left cfg translate s1 confirmed)
       (go_to_end cfg translate))), true)
| NavRightBySyllable ->
  let s1 = begin_move s in
  let confirmed = confirmed_pos s1.st_ctx.cx_comp in
  ((fst
     (or_else (jump_right cfg translate s1 confirmed)
       (go_to_end cfg translate))), true)
| NavHome -> let s1 = begin_move s in ((fst (go_home cfg translate s1)), true)
| NavEnd ->
  let s1 = begin_move s in ((fst (go_to_end cfg translate s1)), true)
| NavUnrecognised -> (s, false)

(** val navigator_process :
    config -> (bytes -> seginfo -> cand list) -> state -> key ->
    state * presult **)

let navigator_process cfg translate s k =
  if k_release k
  then (s, PNoop)
  else if negb (is_composing s.st_ctx)
       then (s, PNoop)
       else let km =
              keymap_of_binds
                (if get_option s.st_ctx opt_vertical
                 then nav_vertical_binds
                 else nav_horizontal_binds)
            in
            kbp_process (run_nav_action cfg translate) km true s k

(** val punct_is_translated : context -> tag -> bool **)

let punct_is_translated c t =
  match c.cx_comp.sg_segs with
  | [] -> false
  | g :: _ ->
    (&&) (has_tag t g.s_tags)
      (match selected_cand g with
       | Some cd -> bytes_eqb cd.c_type ty_punct
       | None -> false)

(** val is_after_digit_separator : context -> bool **)

let is_after_digit_separator c =
  match segs_fwd c.cx_comp with
  | [] -> false
  | g :: _ ->
    (&&) (has_tag TPunctNumber g.s_tags)
      (Nat.eqb g.s_length (length c.cx_input))

(** val odd_get : ((bool * byte) * bool) list -> bool -> byte -> bool **)

let rec odd_get l fs b =
  match l with
  | [] -> false
  | p :: r ->
    let (p0, v) = p in
    let (f, k) = p0 in
    if (&&) (eqb f fs) (eqb0 k b) then v else odd_get r fs b

(** val odd_set :
    ((bool * byte) * bool) list -> bool -> byte -> bool ->
    ((bool * byte) * bool) list **)

let rec odd_set l fs b v =
  match l with
  | [] -> ((fs, b), v) :: []
  | p :: r ->
    let (p0, v') = p in
    let (f, k) = p0 in
    if (&&) (eqb f fs) (eqb0 k b)
    then ((f, k), v) :: r
    else ((f, k), v') :: (odd_set r fs b v)

(** val alternate_punct : context -> byte -> pdef -> context * bool **)

let alternate_punct c b = function
| PdList _ ->
  (match c.cx_comp.sg_segs with
   | [] -> (c, false)
   | g :: _ ->
     if (&&) (negb (status_geb SVoid g.s_status)) (has_tag TPunct g.s_tags)
     then let (t, ok) = substr_se c.cx_input g.s_start g.s_end in
          let c0 = ctx_check c ok ErrSubstr in
          if bytes_eqb (b :: []) t
          then (match g.s_menu with
                | Some m ->
                  let count =
                    menu_prepare m (size_wrap (N.add g.s_sel (Npos (XO XH))))
                  in
                  if N.eqb count N0
                  then (c0, false)
                  else let g' =
                         seg_with_status
                           (seg_with_sel g
                             (N.modulo (size_wrap (N.add g.s_sel (Npos XH)))
                               count)) SGuess
                       in
                       ((ctx_with_comp c0 (sg_set_back c0.cx_comp g')), true)
                | None -> (c0, false))
          else (c0, false)
     else (c, false))
| _ -> (c, false)

(** val pair_punct :
    config -> (bytes -> seginfo -> cand list) -> state -> bool -> byte ->
    state * bool **)

let pair_punct cfg translate s fs b =
  let c = s.st_ctx in
  (match c.cx_comp.sg_segs with
   | [] -> (s, false)
   | g :: _ ->
     if (&&) (negb (status_geb SVoid g.s_status)) (has_tag TPunct g.s_tags)
     then (match g.s_menu with
           | Some m ->
             if N.ltb (menu_prepare m (Npos (XO XH))) (Npos (XO XH))
             then (s, false)
             else let odd0 = odd_get s.st_odd fs b in
                  let g' =
                    seg_with_sel g
                      (N.modulo
                        (size_wrap
                          (N.add g.s_sel (if odd0 then Npos XH else N0)))
                        (Npos (XO XH)))
                  in
                  let s1 = { st_ctx =
                    (ctx_with_comp c (sg_set_back c.cx_comp g'));
                    st_nav_input = s.st_nav_input; st_spans = s.st_spans;
                    st_commit = s.st_commit; st_odd =
                    (odd_set s.st_odd fs b (negb odd0)); st_kb_last =
                    s.st_kb_last }
                  in
                  ((fst (confirm_current_selection cfg translate s1)), true)
           | None -> (s, false))
     else (s, false))

(** val map_front : (segment -> segment) -> segment list -> segment list **)

let map_front f l =
  match rev l with
  | [] -> []
  | g :: r -> rev ((f g) :: r)

(** val reconvert_digit_separator :
    config -> (bytes -> seginfo -> cand list) -> context -> byte ->
    context * bool **)

let reconvert_digit_separator cfg translate c b =
  match cfg.cf_digit_seps with
  | [] -> (c, false)
  | _ :: _ ->
    if negb (bytes_eqb c.cx_input (b :: []))
    then (c, false)
    else (match segs_fwd c.cx_comp with
          | [] -> (c, false)
          | g0 :: _ ->
            if has_tag TPunctNumber g0.s_tags
            then let f = fun g ->
                   seg_with_status
                     (seg_with_tags g
                       (tag_insert TPunct (tag_erase TPunctNumber g.s_tags)))
                     SVoid
                 in
                 let c1 =
                   ctx_with_comp c
                     (sg_with_segs c.cx_comp (map_front f c.cx_comp.sg_segs))
                 in
                 ((fst (reopen_previous_segment cfg translate c1)), true)
            else (c, false))

(** val punctuator_process :
    config -> (bytes -> seginfo -> cand list) -> state -> key ->
    state * presult **)

let punctuator_process cfg translate s k =
  if (||) ((||) ((||) (k_release k) (k_ctrl k)) (k_alt k)) (k_super k)
  then (s, PNoop)
  else let ch = k.k_code in
       if (||) (Z.ltb ch (Zpos (XO (XO (XO (XO (XO XH)))))))
            (Z.leb (Zpos (XI (XI (XI (XI (XI (XI XH))))))) ch)
       then (s, PNoop)
       else let c = s.st_ctx in
            if get_option c opt_ascii_punct
            then (s, PNoop)
            else let b = byte_of_N (Z.to_N ch) in
                 if (&&) ((||) (is_digit_byte b) (Z.eqb ch xK_space))
                      (is_after_digit_separator c)
                 then ((fst
                         (commit cfg translate
                           (on_ctx s (fun c0 ->
                             push_input cfg translate c0 b)))), PAccepted)
                 else if (&&)
                           ((&&) (negb cfg.cf_punct_use_space)
                             (Z.eqb ch xK_space)) (is_composing c)
                      then (s, PNoop)
                      else if (&&)
                                ((&&) (is_digit_separator cfg b)
                                  (sg_empty c.cx_comp))
                                (is_after_number c.cx_hist)
                           then let s1 =
                                  on_ctx s (fun c0 ->
                                    push_input cfg translate c0 b)
                                in
                                if punct_is_translated s1.st_ctx TPunctNumber
                                then if cfg.cf_digit_sep_commit
                                     then ((fst (commit cfg translate s1)),
                                            PAccepted)
                                     else ((on_ctx s1 (fun c0 ->
                                             ctx_with_comp c0
                                               (fst (forward c0.cx_comp)))),
                                            PAccepted)
                                else (s1, PAccepted)
                           else let fs = get_option c opt_full_shape in
                                (match punct_lookup cfg c.cx_opts b with
                                 | Some d ->
                                   let (c1, alternated) =
                                     alternate_punct c b d
                                   in
                                   let s0 = st_with_ctx s c1 in
                                   if alternated
                                   then (s0, PAccepted)
                                   else let (c2, reconverted) =
                                          reconvert_digit_separator cfg
                                            translate c1 b
                                        in
                                        let s1 =
                                          if reconverted
                                          then st_with_ctx s0 c2
                                          else on_ctx s0 (fun c0 ->
                                                 push_input cfg translate c0 b)
                                        in
                                        let s2 =
                                          if punct_is_translated s1.st_ctx
                                               TPunct
                                          then (match d with
                                                | PdValue _ ->
                                                  fst
                                                    (confirm_current_selection
                                                      cfg translate s1)
                                                | PdList _ -> s1
                                                | PdMap (commit0, pair) ->
                                                  (match commit0 with
                                                   | Some _ ->
                                                     fst
                                                       (commit cfg translate
                                                         s1)
                                                   | None ->
                                                     (match pair with
                                                      | Some _ ->
                                                        fst
                                                          (pair_punct cfg
                                                            translate s1 fs b)
                                                      | None -> s1)))
                                          else s1
                                        in
                                        (s2, PAccepted)
                                 | None -> (s, PNoop))

(** val ed_revert_last_edit :
    config -> (bytes -> seginfo -> cand list) -> state -> state **)

let ed_revert_last_edit cfg translate s =
  fst
    (or_else (on_ctx_b s (reopen_previous_selection cfg translate))
      (fun s1 ->
      let (s2, ok) = on_ctx_b s1 (fun c -> pop_input cfg translate c (S O)) in
      if ok
      then on_ctx_b s2 (reopen_previous_segment cfg translate)
      else (s2, false)))

(** val run_editor_action :
    config -> (bytes -> seginfo -> cand list) -> state -> editor_action ->
    state * bool **)

let run_editor_action cfg translate s = function
| EdConfirm ->
  ((fst
     (or_else (confirm_current_selection cfg translate s)
       (commit cfg translate))), true)
| EdToggleSelection ->
  ((fst
     (or_else (on_ctx_b s (reopen_previous_segment cfg translate))
       (confirm_current_selection cfg translate))), true)
| EdCommitComment ->
  (match ctx_selected_cand s.st_ctx with
   | Some cd ->
     (match cd.c_comment with
      | [] -> (s, true)
      | _ :: _ -> ((on_ctx (sink s cd.c_comment) (clear cfg translate)), true))
   | None -> (s, true))
| EdCommitRawInput ->
  ((fst
     (commit cfg translate (on_ctx s (fun c -> fst (clear_non_confirmed c))))),
    true)
| EdCommitScriptText ->
  let (t, ok) = comp_script_text s.st_ctx.cx_comp in
  ((on_ctx (sink (on_ctx s (fun c -> ctx_check c ok ErrSubstr)) t)
     (clear cfg translate)), true)
| EdCommitComposition ->
  let (s1, ok) = confirm_current_selection cfg translate s in
  if (||) (negb ok) (negb (has_menu s1.st_ctx))
  then ((fst (commit cfg translate s1)), true)
  else (s1, true)
| EdBackToPreviousInput ->
  ((fst
     (or_else
       (or_else (on_ctx_b s (reopen_previous_segment cfg translate))
         (fun s1 -> on_ctx_b s1 (reopen_previous_selection cfg translate)))
       (fun s1 -> on_ctx_b s1 (fun c -> pop_input cfg translate c (S O))))),
    true)
| EdDeleteCandidate -> ((fst (delete_current_selection cfg s)), true)
| EdDeleteChar ->
  ((on_ctx s (fun c -> fst (delete_input cfg translate c (S O)))), true)
| EdCancelComposition ->
  let (s1, ok) = on_ctx_b s (clear_previous_segment cfg translate) in
  if ok then (s1, true) else ((on_ctx s1 (clear cfg translate)), true)
| EdUnrecognised -> (s, false)
| _ -> ((ed_revert_last_edit cfg translate s), true)

(** val editor_keymap : config -> editor_action keymap **)

let editor_keymap cfg =
  keymap_of_binds
    (if cfg.cf_fluid then fluid_editor_binds else express_editor_binds)

(** val editor_char_handler : config -> char_handler **)

let editor_char_handler cfg =
  if cfg.cf_fluid then fluid_char_handler else express_char_handler

(** val editor_process :
    config -> (bytes -> seginfo -> cand list) -> state -> key ->
    state * presult **)

let editor_process cfg translate s k =
  if k_release k
  then (s, PRejected)
  else let ch = k.k_code in
       let (s1, r) =
         if is_composing s.st_ctx
         then kbp_process (run_editor_action cfg translate)
                (editor_keymap cfg) true s k
         else (s, PNoop)
       in
       if negb (presult_is_noop r)
       then (s1, r)
       else if (&&)
                 ((&&)
                   ((&&) ((&&) (negb (k_ctrl k)) (negb (k_alt k)))
                     (negb (k_super k)))
                   (Z.ltb (Zpos (XO (XO (XO (XO (XO XH)))))) ch))
                 (Z.ltb ch (Zpos (XI (XI (XI (XI (XI (XI XH))))))))
            then (match editor_char_handler cfg with
                  | CHDirectCommit ->
                    ((fst (commit cfg translate s1)), PRejected)
                  | CHAddToInput ->
                    ((on_ctx s1 (fun c ->
                       begin_editing
                         (push_input cfg translate c (byte_of_N (Z.to_N ch))))),
                      PAccepted)
                  | _ -> (s1, PNoop))
            else (s1, PNoop)

(** val shape_process : state -> key -> state * presult **)

let shape_process s k =
  let c = s.st_ctx in
  if negb (get_option c opt_full_shape)
  then (s, PNoop)
  else if (||) ((||) ((||) (k_ctrl k) (k_alt k)) (k_super k)) (k_release k)
       then (s, PNoop)
       else let ch = k.k_code in
            if (||) (Z.ltb ch (Zpos (XO (XO (XO (XO (XO XH)))))))
                 (Z.ltb (Zpos (XO (XI (XI (XI (XI (XI XH))))))) ch)
            then (s, PNoop)
            else ((sink s (format_text c ((byte_of_N (Z.to_N ch)) :: []))),
                   PAccepted)

(** val kb_rank : kb_when -> nat **)

let kb_rank = function
| KwPredicting -> S O
| KwPaging -> S (S O)
| KwHasMenu -> S (S (S O))
| KwComposing -> S (S (S (S O)))
| KwAlways -> S (S (S (S (S O))))

(** val kb_insert : kbinding list -> kbinding -> kbinding list **)

let rec kb_insert v b =
  match v with
  | [] -> b :: []
  | x :: r ->
    if Nat.ltb (kb_rank x.kb_whence) (kb_rank b.kb_whence)
    then x :: (kb_insert r b)
    else b :: v

(** val kb_vector : config -> key -> kbinding list **)

let kb_vector cfg k =
  fold_left (fun v b -> if key_eqb b.kb_accept k then kb_insert v b else v)
    cfg.cf_bindings []

(** val kb_active : context -> kb_when -> bool **)

let kb_active c = function
| KwPredicting -> false
| KwPaging ->
  (match c.cx_comp.sg_segs with
   | [] -> false
   | g :: _ -> has_tag TPaging g.s_tags)
| KwHasMenu -> (&&) (has_menu c) (negb (get_option c opt_ascii_mode))
| KwComposing -> is_composing c
| KwAlways -> true

(** val reinterpret_paging_key :
    config -> (bytes -> seginfo -> cand list) -> state -> key -> state * bool **)

let reinterpret_paging_key cfg translate s k =
  if k_release k
  then (s, false)
  else let ch = if Z.eqb k.k_mod Z0 then k.k_code else Z0 in
       let lk = s.st_kb_last in
       let with_last = fun x v -> { st_ctx = x.st_ctx; st_nav_input =
         x.st_nav_input; st_spans = x.st_spans; st_commit = x.st_commit;
         st_odd = x.st_odd; st_kb_last = v }
       in
       if (&&) (Z.eqb ch (Zpos (XO (XI (XI (XI (XO XH)))))))
            ((||) (Z.eqb lk (Zpos (XO (XI (XI (XI (XO XH)))))))
              (Z.eqb lk (Zpos (XO (XO (XI (XI (XO XH))))))))
       then ((with_last s Z0), false)
       else if (&&)
                 ((&&) (Z.eqb lk (Zpos (XO (XI (XI (XI (XO XH)))))))
                   (Z.leb (Zpos (XI (XO (XO (XO (XO (XI XH))))))) ch))
                 (Z.leb ch (Zpos (XO (XI (XO (XI (XI (XI XH))))))))
            then let inp = s.st_ctx.cx_input in
                 (match inp with
                  | [] -> ((with_last s ch), false)
                  | _ :: _ ->
                    if eqb0 (last inp X00) X2e
                    then ((with_last s ch), false)
                    else ((with_last
                            (on_ctx s (fun c ->
                              push_input cfg translate c X2e)) ch), true))
            else ((with_last s ch), false)

(** val kb_perform_action :
    config -> (bytes -> seginfo -> cand list) -> state -> kb_action -> state **)

let kb_perform_action cfg translate s = function
| KaToggle o ->
  on_ctx s (fun c -> set_option cfg translate c o (negb (get_option c o)))
| KaSet o -> on_ctx s (fun c -> set_option cfg translate c o true)
| KaUnset o -> on_ctx s (fun c -> set_option cfg translate c o false)
| _ -> s

(** val key_binder_process :
    config -> (bytes -> seginfo -> cand list) -> (state -> key ->
    state * bool) option -> bool -> state -> key -> state * presult **)

let key_binder_process cfg translate replay red s k =
  if (||) red (match cfg.cf_bindings with
               | [] -> true
               | _ :: _ -> false)
  then (s, PNoop)
  else let (s1, reinterpreted) = reinterpret_paging_key cfg translate s k in
       if reinterpreted
       then (s1, PNoop)
       else (match find (fun b -> kb_active s1.st_ctx b.kb_whence)
                     (kb_vector cfg k) with
             | Some b ->
               (match b.kb_act with
                | KaSend keys ->
                  (match keys with
                   | [] -> (s1, PAccepted)
                   | _ :: _ ->
                     (match replay with
                      | Some f ->
                        ((fold_left (fun x tk -> fst (f x tk)) keys s1),
                          PAccepted)
                      | None ->
                        ((on_ctx s1 (fun c -> ctx_fail c ErrRecursion)),
                          PAccepted)))
                | x -> ((kb_perform_action cfg translate s1 x), PAccepted))
             | None -> (s1, PNoop))

(** val proc_of :
    config -> (bytes -> seginfo -> cand list) -> (state -> key ->
    state * presult) -> proc_id -> state -> key -> state * presult **)

let proc_of cfg translate kb = function
| PSpeller -> speller_process cfg translate
| PPunctuator -> punctuator_process cfg translate
| PSelector -> selector_process cfg translate
| PNavigator -> navigator_process cfg translate
| PEditor -> editor_process cfg translate
| PKeyBinder -> kb

(** val processors :
    config -> (bytes -> seginfo -> cand list) -> (state -> key ->
    state * presult) -> (state -> key -> state * presult) list **)

let processors cfg translate kb =
  map (proc_of cfg translate kb) cfg.cf_processors

(** val run_processors :
    (state -> key -> state * presult) list -> state -> key -> state * presult **)

let rec run_processors ps s k =
  match ps with
  | [] -> (s, PNoop)
  | p :: r ->
    let (s1, ret0) = p s k in
    (match ret0 with
     | PNoop -> run_processors r s1 k
     | x -> (s1, x))

(** val process_key_gen :
    config -> (bytes -> seginfo -> cand list) -> (state -> key ->
    state * presult) -> state -> key -> state * bool **)

let process_key_gen cfg translate kb s k =
  let (s1, ret0) = run_processors (processors cfg translate kb) s k in
  (match ret0 with
   | PAccepted -> (s1, true)
   | _ ->
     let s2 = on_ctx s1 (fun c -> ctx_with_hist c (hist_push_key c.cx_hist k))
     in
     let (s3, ret2) = shape_process s2 k in
     (match ret2 with
      | PAccepted -> (s3, true)
      | _ -> (s3, false)))

(** val process_key_n :
    config -> (bytes -> seginfo -> cand list) -> nat -> bool -> state -> key
    -> state * bool **)

let rec process_key_n cfg translate fuel red s k =
  process_key_gen cfg translate
    (key_binder_process cfg translate
      (match fuel with
       | O -> None
       | S f -> Some (process_key_n cfg translate f cfg.cf_kb_guard)) red) s k

(** val kb_fuel : nat **)

let kb_fuel =
  S (S (S (S (S (S (S (S (S (S (S (S (S (S (S (S (S (S (S (S (S (S (S (S (S
    (S (S (S (S (S (S (S (S (S (S (S (S (S (S (S (S (S (S (S (S (S (S (S (S
    (S (S (S (S (S (S (S (S (S (S (S (S (S (S (S
    O)))))))))))))))))))))))))))))))))))))))))))))))))))))))))))))))

(** val process_key :
    config -> (bytes -> seginfo -> cand list) -> state -> key -> state * bool **)

let process_key cfg translate s k =
  process_key_n cfg translate kb_fuel false s k

type op =
| OpKey of z * z
| OpSetInput of bytes
| OpSetCaret of n
| OpSelect of n
| OpSelectPage of n
| OpHighlight of n
| OpHighlightPage of n
| OpDelete of n
| OpDeletePage of n
| OpChangePage of bool
| OpCommit
| OpClear
| OpGetCommit
| OpGetContext
| OpGetInput
| OpGetCaret
| OpGetStatus
| OpSetOption of bytes * bool

type menu_obs = { mo_page_size : z; mo_page_no : z; mo_last : bool;
                  mo_hl : z; mo_cands : cand list; mo_select_keys : bytes }

type view = { v_commit : bytes; v_input : bytes; v_caret : nat;
              v_composing : bool; v_preedit : preedit option;
              v_preview : bytes; v_has_menu : bool; v_sel : n option;
              v_menu : menu_obs option; v_flags : bool list;
              v_back_end : nat option; v_confirmed : bytes }

type ret =
| RNone
| RBool of bool
| RCommit of bytes option

type obs =
| ObsCrash of err
| Obs of ret * view

(** val init_state : config -> state **)

let init_state cfg =
  { st_ctx = { cx_input = []; cx_caret = O; cx_comp = { sg_input = [];
    sg_segs = [] }; cx_opts = ((opt_auto_commit, (negb cfg.cf_fluid)) :: []);
    cx_err = None; cx_hist = None }; st_nav_input = []; st_spans = [];
    st_commit = []; st_odd = []; st_kb_last = Z0 }

(** val menu_view : config -> context -> menu_obs option * bool **)

let menu_view cfg c =
  if negb (has_menu c)
  then (None, true)
  else (match c.cx_comp.sg_segs with
        | [] -> (None, true)
        | g :: _ ->
          (match g.s_menu with
           | Some m ->
             let page_size = cfg.cf_page_size in
             let selected_index = int_of_size g.s_sel in
             let page_no = Z.quot selected_index page_size in
             let (pg, ok) =
               create_page m (size_of_int page_size) (size_of_int page_no)
             in
             (match pg with
              | Some p ->
                ((Some { mo_page_size = page_size; mo_page_no = page_no;
                  mo_last = p.pg_last; mo_hl =
                  (Z.rem selected_index page_size); mo_cands = p.pg_cands;
                  mo_select_keys = cfg.cf_select_keys }), ok)
              | None -> (None, ok))
           | None -> (None, true)))

(** val view_of : config -> state -> view * err option **)

let view_of cfg s =
  let c = s.st_ctx in
  let composing = is_composing c in
  let pe = ctx_preedit c in
  let (preview, ok2) = ctx_commit_text c in
  let (mv, ok3) = menu_view cfg c in
  ({ v_commit = s.st_commit; v_input = c.cx_input; v_caret = c.cx_caret;
  v_composing = composing; v_preedit = (if composing then Some pe else None);
  v_preview = (if composing then preview else []); v_has_menu = (has_menu c);
  v_sel = (match c.cx_comp.sg_segs with
           | [] -> None
           | g :: _ -> Some g.s_sel); v_menu = mv; v_flags =
  ((get_option c opt_ascii_mode) :: ((get_option c opt_full_shape) :: (
  (get_option c opt_simplification) :: ((get_option c opt_traditional) :: (
  (get_option c opt_ascii_punct) :: []))))); v_back_end =
  (match c.cx_comp.sg_segs with
   | [] -> None
   | g :: _ -> Some g.s_end); v_confirmed =
  (comp_confirmed_text c.cx_comp) },
  (if (&&) composing (negb ((&&) pe.pe_ok ok2))
   then Some ErrSubstr
   else if negb ok3 then Some ErrBadRange else None))

(** val on_current_page :
    config -> state -> n -> (state -> n -> state * bool) -> state * bool **)

let on_current_page cfg s index verb =
  let c = s.st_ctx in
  if negb (has_menu c)
  then (s, false)
  else let page_size = size_of_int cfg.cf_page_size in
       if N.leb page_size index
       then (s, false)
       else (match c.cx_comp.sg_segs with
             | [] -> (s, false)
             | g :: _ ->
               let page_start = N.mul (N.div g.s_sel page_size) page_size in
               verb s (size_wrap (N.add page_start index)))

(** val do_highlight :
    config -> (bytes -> seginfo -> cand list) -> state -> n -> state * bool **)

let do_highlight cfg translate s i =
  let (c, b) = highlight cfg translate s.st_ctx i in ((st_with_ctx s c), b)

(** val change_page :
    config -> (bytes -> seginfo -> cand list) -> state -> bool -> state * bool **)

let change_page cfg translate s backward =
  let c = s.st_ctx in
  if negb (has_menu c)
  then (s, false)
  else let page_size = size_of_int cfg.cf_page_size in
       (match c.cx_comp.sg_segs with
        | [] -> (s, false)
        | g :: _ ->
          let current_index = g.s_sel in
          let index =
            if backward
            then if N.leb current_index page_size
                 then N0
                 else N.sub current_index page_size
            else size_wrap (N.add current_index page_size)
          in
          let c1 =
            ctx_with_comp c
              (sg_set_back c.cx_comp
                (seg_with_tags g (tag_insert TPaging g.s_tags)))
          in
          do_highlight cfg translate (st_with_ctx s c1) index)

(** val exec :
    config -> (bytes -> seginfo -> cand list) -> state -> op -> state * ret **)

let exec cfg translate s = function
| OpKey (code, mask0) ->
  let (s1, b) = process_key cfg translate s { k_code = code; k_mod = mask0 }
  in
  (s1, (RBool b))
| OpSetInput t ->
  ((st_with_ctx s (set_input cfg translate s.st_ctx t)), (RBool true))
| OpSetCaret n0 ->
  let len = length s.st_ctx.cx_input in
  let pos = if N.ltb (N.of_nat len) n0 then len else N.to_nat n0 in
  ((st_with_ctx s (set_caret_pos cfg translate s.st_ctx pos)), RNone)
| OpSelect i -> let (s1, b) = select cfg translate s i in (s1, (RBool b))
| OpSelectPage i ->
  let (s1, b) = on_current_page cfg s i (select cfg translate) in
  (s1, (RBool b))
| OpHighlight i ->
  let (s1, b) = do_highlight cfg translate s i in (s1, (RBool b))
| OpHighlightPage i ->
  let (s1, b) = on_current_page cfg s i (do_highlight cfg translate) in
  (s1, (RBool b))
| OpDelete i -> let (s1, b) = delete_candidate cfg s i in (s1, (RBool b))
| OpDeletePage i ->
  let (s1, b) = on_current_page cfg s i (delete_candidate cfg) in
  (s1, (RBool b))
| OpChangePage backward ->
  let (s1, b) = change_page cfg translate s backward in (s1, (RBool b))
| OpCommit ->
  let s1 = fst (commit cfg translate s) in
  (s1, (RBool (negb (match s1.st_commit with
                     | [] -> true
                     | _ :: _ -> false))))
| OpClear -> ((st_with_ctx s (clear cfg translate s.st_ctx)), RNone)
| OpGetCommit ->
  (match s.st_commit with
   | [] -> (s, (RCommit None))
   | b :: l ->
     ({ st_ctx = s.st_ctx; st_nav_input = s.st_nav_input; st_spans =
       s.st_spans; st_commit = []; st_odd = s.st_odd; st_kb_last =
       s.st_kb_last }, (RCommit (Some (b :: l)))))
| OpSetOption (name, v) ->
  ((st_with_ctx s (set_option cfg translate s.st_ctx name v)), RNone)
| _ -> (s, RNone)

(** val step :
    config -> (bytes -> seginfo -> cand list) -> state -> op -> state * obs **)

let step cfg translate s o =
  match s.st_ctx.cx_err with
  | Some e -> (s, (ObsCrash e))
  | None ->
    let (s1, r) = exec cfg translate s o in
    let (v, ve) = view_of cfg s1 in
    let s2 =
      match ve with
      | Some e -> st_with_ctx s1 (ctx_fail s1.st_ctx e)
      | None -> s1
    in
    (match s2.st_ctx.cx_err with
     | Some e -> (s2, (ObsCrash e))
     | None -> (s2, (Obs (r, v))))

type delete_guard =
| DeleteChecked
| DeleteUnchecked
| DeleteUnrecognised

(** val delete_candidate_guard : delete_guard **)

let delete_candidate_guard =
  DeleteChecked

type hist_guard =
| HistGuarded
| HistUnguarded
| HistUnrecognised

(** val commit_history_guard : hist_guard **)

let commit_history_guard =
  HistGuarded

type redirect_guard =
| RedirectGuarded
| RedirectUnguarded
| RedirectUnrecognised

(** val key_binder_redirect_guard : redirect_guard **)

let key_binder_redirect_guard =
  RedirectGuarded

(** val oracle_ch : byte -> n -> bytes **)

let oracle_ch b j =
  let n0 = n_of_byte b in
  (match N.modulo (N.add n0 j) (Npos (XO (XO XH))) with
   | N0 ->
     (byte_of_N
       (N.add (Npos (XI (XO (XO (XO (XO (XO XH)))))))
         (N.modulo n0 (Npos (XO (XI (XO (XI XH)))))))) :: []
   | Npos p ->
     (match p with
      | XI _ ->
        Xf0 :: (X9f :: (X98 :: ((byte_of_N
                                  (N.add (Npos (XO (XO (XO (XO (XO (XO (XO
                                    XH))))))))
                                    (N.modulo n0 (Npos (XO (XO (XO (XO (XO
                                      (XO XH)))))))))) :: [])))
      | XO p0 ->
        (match p0 with
         | XH ->
           Xe4 :: ((byte_of_N
                     (N.add (Npos (XO (XO (XO (XI (XI (XI (XO XH))))))))
                       (N.modulo
                         (N.div n0 (Npos (XO (XO (XO (XO (XO (XO XH))))))))
                         (Npos (XO (XO XH)))))) :: ((byte_of_N
                                                      (N.add (Npos (XO (XO
                                                        (XO (XO (XO (XO (XO
                                                        XH))))))))
                                                        (N.modulo n0 (Npos
                                                          (XO (XO (XO (XO (XO
                                                          (XO XH)))))))))) :: []))
         | _ ->
           Xf0 :: (X9f :: (X98 :: ((byte_of_N
                                     (N.add (Npos (XO (XO (XO (XO (XO (XO (XO
                                       XH))))))))
                                       (N.modulo n0 (Npos (XO (XO (XO (XO (XO
                                         (XO XH)))))))))) :: []))))
      | XH ->
        Xc3 :: ((byte_of_N
                  (N.add (Npos (XO (XO (XO (XO (XO (XI (XO XH))))))))
                    (N.modulo n0 (Npos (XO (XO (XO (XO (XO XH))))))))) :: [])))

(** val join_spaces : bytes -> bytes **)

let rec join_spaces = function
| [] -> []
| x :: r ->
  (match r with
   | [] -> x :: []
   | _ :: _ -> x :: (byte_space :: (join_spaces r)))

(** val ty_oracle : bytes **)

let ty_oracle =
  X6f :: (X72 :: (X61 :: (X63 :: (X6c :: (X65 :: [])))))

(** val oracle_cand : bytes -> nat -> nat -> n -> cand **)

let oracle_cand input start l j =
  let pre = firstn l input in
  { c_start = start; c_end = (add start l); c_text =
  (flat_map (fun b -> oracle_ch b j) pre); c_comment =
  (if N.eqb (N.modulo j (Npos (XI XH))) (Npos XH)
   then X7e :: ((byte_of_N
                  (N.add (Npos (XO (XO (XO (XO (XI XH))))))
                    (N.modulo (N.of_nat l) (Npos (XO (XI (XO XH))))))) :: [])
   else []); c_preedit =
  (if N.eqb j N0
   then join_spaces pre
   else if N.eqb j (Npos XH)
        then let h = Nat.div (add l (S O)) (S (S O)) in
             app (firstn h pre)
               (app (byte_tab :: []) (app (skipn h pre) (X7c :: [])))
        else []); c_type = ty_oracle }

(** val n_range : nat -> n -> n list **)

let rec n_range k from =
  match k with
  | O -> []
  | S k' -> from :: (n_range k' (N.add from (Npos XH)))

(** val opt_verif_short : bytes **)

let opt_verif_short =
  X76 :: (X65 :: (X72 :: (X69 :: (X66 :: (X5f :: (X73 :: (X68 :: (X6f :: (X72 :: (X74 :: []))))))))))

(** val oracle_translate_full : bytes -> seginfo -> cand list **)

let oracle_translate_full input seg =
  match input with
  | [] -> []
  | c0 :: _ ->
    let n0 = length input in
    let special_u = eqb0 c0 X75 in
    let special_v = eqb0 c0 X76 in
    if eqb0 c0 X78
    then []
    else let lens =
           if (||) special_u special_v
           then n0 :: []
           else app (n0 :: [])
                  (app
                    (if Nat.leb (S (S O)) n0 then (sub n0 (S O)) :: [] else [])
                    (app
                      (if Nat.leb (S (S (S O))) n0
                       then (sub n0 (S (S O))) :: []
                       else [])
                      (if Nat.leb (S (S (S (S O)))) n0
                       then (S O) :: []
                       else [])))
         in
         flat_map (fun l ->
           let b = n_of_byte (nth (sub l (S O)) input X00) in
           let cnt =
             if special_u
             then Npos XH
             else if special_v
                  then Npos (XO XH)
                  else if Nat.eqb l n0
                       then N.add (Npos (XI XH))
                              (N.modulo b (Npos (XO (XO (XO XH)))))
                       else N.add (Npos XH) (N.modulo b (Npos (XI XH)))
           in
           map (oracle_cand input seg.si_start l) (n_range (N.to_nat cnt) N0))
           lens

(** val oracle_translate : bytes -> seginfo -> cand list **)

let oracle_translate input seg =
  let l = oracle_translate_full input seg in
  if opts_get seg.si_opts opt_verif_short
  then firstn (Nat.div (add (length l) (S O)) (S (S O))) l
  else l

(** val lower_alphabet : bytes **)

let lower_alphabet =
  X7a :: (X79 :: (X78 :: (X77 :: (X76 :: (X75 :: (X74 :: (X73 :: (X72 :: (X71 :: (X70 :: (X6f :: (X6e :: (X6d :: (X6c :: (X6b :: (X6a :: (X69 :: (X68 :: (X67 :: (X66 :: (X65 :: (X64 :: (X63 :: (X62 :: (X61 :: [])))))))))))))))))))))))))

(** val delete_checked_in_source : bool **)

let delete_checked_in_source =
  match delete_candidate_guard with
  | DeleteChecked -> true
  | _ -> false

(** val hist_guard_in_source : bool **)

let hist_guard_in_source =
  match commit_history_guard with
  | HistGuarded -> true
  | _ -> false

(** val kb_guard_in_source : bool **)

let kb_guard_in_source =
  match key_binder_redirect_guard with
  | RedirectGuarded -> true
  | _ -> false

(** val default_digit_seps : bytes **)

let default_digit_seps =
  X2c :: (X2e :: (X3a :: (X27 :: [])))

(** val synth_cfg_gen : bool -> bool -> bool -> bool -> bool -> config **)

let synth_cfg_gen fluid dlog del_checked kb_guard hist_guard0 =
  { cf_fluid = fluid; cf_alphabet = lower_alphabet; cf_delims =
    (X20 :: (X27 :: [])); cf_initials = lower_alphabet; cf_finals = [];
    cf_use_space = false; cf_page_size = (Zpos (XI (XO XH)));
    cf_select_keys = []; cf_page_down_cycle = false; cf_del_checked =
    del_checked; cf_dlog = dlog; cf_processors =
    (PSpeller :: (PSelector :: (PNavigator :: (PEditor :: []))));
    cf_segmentors = (SgAbc :: (SgFallback :: [])); cf_translators =
    (TrMain :: []); cf_punct_half = []; cf_punct_full = [];
    cf_punct_use_space = false; cf_digit_seps = default_digit_seps;
    cf_digit_sep_commit = false; cf_bindings = []; cf_kb_guard = kb_guard;
    cf_hist_guard = hist_guard0 }

(** val synth_cfg_with : bool -> bool -> bool -> config **)

let synth_cfg_with fluid dlog del_checked =
  synth_cfg_gen fluid dlog del_checked kb_guard_in_source hist_guard_in_source

(** val synth_cfg : bool -> bool -> config **)

let synth_cfg fluid dlog =
  synth_cfg_with fluid dlog delete_checked_in_source

(** val synth_half_shape : (byte * pdef) list **)

let synth_half_shape =
  (X2c, (PdValue (Xef :: (Xbc :: (X8c :: []))))) :: ((X2e, (PdList
    ((Xe3 :: (X80 :: (X82 :: []))) :: ((Xef :: (Xbc :: (X8e :: []))) :: ((X2e :: []) :: []))))) :: ((X3b,
    (PdMap ((Some (Xef :: (Xbc :: (X9b :: [])))), None))) :: ((X22, (PdMap
    (None, (Some
    ((Xe2 :: (X80 :: (X9c :: []))) :: ((Xe2 :: (X80 :: (X9d :: []))) :: [])))))) :: ((X27,
    (PdMap (None, (Some
    ((Xe2 :: (X80 :: (X98 :: []))) :: ((Xe2 :: (X80 :: (X99 :: []))) :: [])))))) :: ((X2f,
    (PdList
    ((Xe3 :: (X80 :: (X81 :: []))) :: ((X2f :: []) :: ((Xc3 :: (Xb7 :: [])) :: []))))) :: ((X3a,
    (PdValue (Xef :: (Xbc :: (X9a :: []))))) :: ((X21, (PdValue
    (X21 :: []))) :: ((X24, (PdList
    ((Xef :: (Xbf :: (Xa5 :: []))) :: ((X24 :: []) :: ((Xe2 :: (X82 :: (Xac :: []))) :: ((Xc2 :: (Xa2 :: [])) :: [])))))) :: ((X7e,
    (PdList
    ((X7e :: (X7e :: [])) :: ((Xef :: (Xbd :: (X9e :: []))) :: [])))) :: ((X23,
    (PdList [])) :: ((X25, (PdMap (None, (Some
    ((X25 :: []) :: []))))) :: ((X5e, (PdMap ((Some
    (Xe2 :: (X80 :: (Xa6 :: (Xe2 :: (X80 :: (Xa6 :: []))))))), (Some
    ((X61 :: []) :: ((X62 :: []) :: [])))))) :: ((X40, (PdMap (None,
    None))) :: [])))))))))))))

(** val synth_full_shape : (byte * pdef) list **)

let synth_full_shape =
  (X2c, (PdValue (Xef :: (Xbc :: (X8c :: []))))) :: ((X2e, (PdValue
    (Xef :: (Xbc :: (X8e :: []))))) :: ((X3b, (PdList
    ((Xef :: (Xbc :: (X9b :: []))) :: ((X3b :: []) :: [])))) :: ((X22, (PdMap
    (None, (Some
    ((Xef :: (Xbc :: (X82 :: []))) :: ((Xef :: (Xbc :: (X82 :: []))) :: [])))))) :: ((X20,
    (PdMap ((Some (Xe3 :: (X80 :: (X80 :: [])))), None))) :: ((X2f, (PdValue
    (Xef :: (Xbc :: (X8f :: []))))) :: ((X3c, (PdList
    ((Xe3 :: (X80 :: (X8a :: []))) :: ((Xe3 :: (X80 :: (X88 :: []))) :: [])))) :: []))))))

(** val synth_punct_cfg_gen :
    bool -> bool -> bool -> bool -> bool -> config **)

let synth_punct_cfg_gen fluid dlog del_checked kb_guard hist_guard0 =
  { cf_fluid = fluid; cf_alphabet = lower_alphabet; cf_delims =
    (X20 :: (X27 :: [])); cf_initials = lower_alphabet; cf_finals = [];
    cf_use_space = false; cf_page_size = (Zpos (XI (XO XH)));
    cf_select_keys = []; cf_page_down_cycle = false; cf_del_checked =
    del_checked; cf_dlog = dlog; cf_processors =
    (PSpeller :: (PPunctuator :: (PSelector :: (PNavigator :: (PEditor :: [])))));
    cf_segmentors = (SgAbc :: (SgPunct :: (SgFallback :: [])));
    cf_translators = (TrPunct :: (TrMain :: [])); cf_punct_half =
    synth_half_shape; cf_punct_full = synth_full_shape; cf_punct_use_space =
    fluid; cf_digit_seps =
    (if fluid then X2e :: (X3a :: []) else default_digit_seps);
    cf_digit_sep_commit = fluid; cf_bindings = []; cf_kb_guard = kb_guard;
    cf_hist_guard = hist_guard0 }

(** val synth_punct_cfg : bool -> bool -> config **)

let synth_punct_cfg fluid dlog =
  synth_punct_cfg_gen fluid dlog delete_checked_in_source kb_guard_in_source
    hist_guard_in_source

(** val synth_bindings : kbinding list **)

let synth_bindings =
  { kb_accept = { k_code = (Zpos (XO (XO (XO (XO (XI (XI XH))))))); k_mod =
    (Zpos (XO (XO XH))) }; kb_whence = KwComposing; kb_act = (KaSend
    ({ k_code = (Zpos (XO (XI (XO (XO (XI (XO (XI (XO (XI (XI (XI (XI (XI (XI
    (XI XH)))))))))))))))); k_mod = Z0 } :: [])) } :: ({ kb_accept =
    { k_code = (Zpos (XO (XI (XI (XI (XO (XI XH))))))); k_mod = (Zpos (XO (XO
    XH))) }; kb_whence = KwComposing; kb_act = (KaSend ({ k_code = (Zpos (XO
    (XO (XI (XO (XI (XO (XI (XO (XI (XI (XI (XI (XI (XI (XI
    XH)))))))))))))))); k_mod = Z0 } :: [])) } :: ({ kb_accept = { k_code =
    (Zpos (XO (XI (XO (XO (XO (XI XH))))))); k_mod = (Zpos (XO (XO XH))) };
    kb_whence = KwComposing; kb_act = (KaSend ({ k_code = (Zpos (XI (XO (XO
    (XO (XI (XO (XI (XO (XI (XI (XI (XI (XI (XI (XI XH))))))))))))))));
    k_mod = Z0 } :: [])) } :: ({ kb_accept = { k_code = (Zpos (XO (XI (XI (XO
    (XO (XI XH))))))); k_mod = (Zpos (XO (XO XH))) }; kb_whence =
    KwComposing; kb_act = (KaSend ({ k_code = (Zpos (XI (XI (XO (XO (XI (XO
    (XI (XO (XI (XI (XI (XI (XI (XI (XI XH)))))))))))))))); k_mod =
    Z0 } :: [])) } :: ({ kb_accept = { k_code = (Zpos (XO (XO (XO (XI (XO (XI
    XH))))))); k_mod = (Zpos (XO (XO XH))) }; kb_whence = KwComposing;
    kb_act = (KaSend ({ k_code = (Zpos (XO (XO (XO (XI (XO (XO (XO (XO (XI
    (XI (XI (XI (XI (XI (XI XH)))))))))))))))); k_mod =
    Z0 } :: [])) } :: ({ kb_accept = { k_code = (Zpos (XI (XI (XI (XO (XO (XI
    XH))))))); k_mod = (Zpos (XO (XO XH))) }; kb_whence = KwComposing;
    kb_act = (KaSend ({ k_code = (Zpos (XI (XI (XO (XI (XI (XO (XO (XO (XI
    (XI (XI (XI (XI (XI (XI XH)))))))))))))))); k_mod =
    Z0 } :: [])) } :: ({ kb_accept = { k_code = (Zpos (XI (XO (XO (XI (XO (XO
    (XO (XO (XI (XI (XI (XI (XI (XI (XI XH)))))))))))))))); k_mod = (Zpos
    XH) }; kb_whence = KwComposing; kb_act = (KaSend ({ k_code = (Zpos (XI
    (XO (XO (XO (XI (XO (XI (XO (XI (XI (XI (XI (XI (XI (XI
    XH)))))))))))))))); k_mod = (Zpos XH) } :: [])) } :: ({ kb_accept =
    { k_code = (Zpos (XI (XO (XO (XI (XO (XO (XO (XO (XI (XI (XI (XI (XI (XI
    (XI XH)))))))))))))))); k_mod = Z0 }; kb_whence = KwComposing; kb_act =
    (KaSend ({ k_code = (Zpos (XI (XI (XO (XO (XI (XO (XI (XO (XI (XI (XI (XI
    (XI (XI (XI XH)))))))))))))))); k_mod = (Zpos
    XH) } :: [])) } :: ({ kb_accept = { k_code = (Zpos (XI (XO (XI (XI (XO
    XH)))))); k_mod = Z0 }; kb_whence = KwPaging; kb_act = (KaSend
    ({ k_code = (Zpos (XI (XO (XI (XO (XI (XO (XI (XO (XI (XI (XI (XI (XI (XI
    (XI XH)))))))))))))))); k_mod = Z0 } :: [])) } :: ({ kb_accept =
    { k_code = (Zpos (XI (XO (XI (XI (XI XH)))))); k_mod = Z0 }; kb_whence =
    KwHasMenu; kb_act = (KaSend ({ k_code = (Zpos (XO (XI (XI (XO (XI (XO (XI
    (XO (XI (XI (XI (XI (XI (XI (XI XH)))))))))))))))); k_mod =
    Z0 } :: [])) } :: ({ kb_accept = { k_code = (Zpos (XO (XO (XI (XI (XO
    XH)))))); k_mod = Z0 }; kb_whence = KwPaging; kb_act = (KaSend
    ({ k_code = (Zpos (XI (XO (XI (XO (XI (XO (XI (XO (XI (XI (XI (XI (XI (XI
    (XI XH)))))))))))))))); k_mod = Z0 } :: [])) } :: ({ kb_accept =
    { k_code = (Zpos (XO (XI (XI (XI (XO XH)))))); k_mod = Z0 }; kb_whence =
    KwHasMenu; kb_act = (KaSend ({ k_code = (Zpos (XO (XI (XI (XO (XI (XO (XI
    (XO (XI (XI (XI (XI (XI (XI (XI XH)))))))))))))))); k_mod =
    Z0 } :: [])) } :: ({ kb_accept = { k_code = (Zpos (XO (XO (XI (XO (XI
    XH)))))); k_mod = (Zpos (XI (XO XH))) }; kb_whence = KwAlways; kb_act =
    (KaToggle
    (X66 :: (X75 :: (X6c :: (X6c :: (X5f :: (X73 :: (X68 :: (X61 :: (X70 :: (X65 :: []))))))))))) } :: ({ kb_accept =
    { k_code = (Zpos (XO (XI (XI (XI (XO XH)))))); k_mod = (Zpos (XO (XO
    XH))) }; kb_whence = KwAlways; kb_act = (KaToggle
    (X61 :: (X73 :: (X63 :: (X69 :: (X69 :: (X5f :: (X70 :: (X75 :: (X6e :: (X63 :: (X74 :: [])))))))))))) } :: ({ kb_accept =
    { k_code = (Zpos (XO (XI (XO (XO (XI XH)))))); k_mod = (Zpos (XI (XO
    XH))) }; kb_whence = KwAlways; kb_act = (KaSet
    (X61 :: (X73 :: (X63 :: (X69 :: (X69 :: (X5f :: (X70 :: (X75 :: (X6e :: (X63 :: (X74 :: [])))))))))))) } :: ({ kb_accept =
    { k_code = (Zpos (XI (XI (XO (XO (XI XH)))))); k_mod = (Zpos (XI (XO
    XH))) }; kb_whence = KwAlways; kb_act = (KaUnset
    (X61 :: (X73 :: (X63 :: (X69 :: (X69 :: (X5f :: (X70 :: (X75 :: (X6e :: (X63 :: (X74 :: [])))))))))))) } :: ({ kb_accept =
    { k_code = (Zpos (XI (XI (XO (XO (XI (XI XH))))))); k_mod = (Zpos (XO (XO
    XH))) }; kb_whence = KwAlways; kb_act = (KaSend ({ k_code = (Zpos (XI (XI
    (XO (XO (XI (XI XH))))))); k_mod = (Zpos (XO (XO
    XH))) } :: [])) } :: ({ kb_accept = { k_code = (Zpos (XI (XO (XO (XO (XO
    (XI XH))))))); k_mod = (Zpos (XO (XO XH))) }; kb_whence = KwAlways;
    kb_act = (KaSend ({ k_code = (Zpos (XI (XO (XI (XO (XO (XI XH)))))));
    k_mod = (Zpos (XO (XO XH))) } :: [])) } :: ({ kb_accept = { k_code =
    (Zpos (XI (XO (XI (XO (XO (XI XH))))))); k_mod = (Zpos (XO (XO XH))) };
    kb_whence = KwAlways; kb_act = (KaSend ({ k_code = (Zpos (XI (XO (XO (XO
    (XO (XI XH))))))); k_mod = (Zpos (XO (XO
    XH))) } :: [])) } :: ({ kb_accept = { k_code = (Zpos (XI (XI (XO (XO (XO
    (XI XH))))))); k_mod = (Zpos (XO (XO XH))) }; kb_whence = KwAlways;
    kb_act = (KaSend ({ k_code = (Zpos (XI (XO (XO (XO (XO (XI XH)))))));
    k_mod = Z0 } :: ({ k_code = (Zpos (XO (XI (XO (XO (XO (XI XH)))))));
    k_mod = Z0 } :: ({ k_code = (Zpos (XO (XO (XI (XO (XO (XI XH)))))));
    k_mod = (Zpos (XO (XO XH))) } :: ({ k_code = (Zpos (XI (XI (XO (XO (XO
    (XI XH))))))); k_mod = Z0 } :: []))))) } :: ({ kb_accept = { k_code =
    (Zpos (XO (XO (XI (XO (XO (XI XH))))))); k_mod = (Zpos (XO (XO XH))) };
    kb_whence = KwComposing; kb_act = (KaSend ({ k_code = (Zpos (XO (XO (XO
    (XI (XI (XI XH))))))); k_mod = Z0 } :: [])) } :: ({ kb_accept =
    { k_code = (Zpos (XI (XI (XO (XI (XO (XI XH))))))); k_mod = (Zpos (XO (XO
    XH))) }; kb_whence = KwAlways; kb_act = (KaSend ({ k_code = (Zpos (XI (XO
    (XO (XI (XI (XI XH))))))); k_mod = Z0 } :: [])) } :: ({ kb_accept =
    { k_code = (Zpos (XI (XI (XO (XI (XO (XI XH))))))); k_mod = (Zpos (XO (XO
    XH))) }; kb_whence = KwComposing; kb_act = (KaSend ({ k_code = (Zpos (XI
    (XI (XI (XO (XI (XO (XI (XO (XI (XI (XI (XI (XI (XI (XI
    XH)))))))))))))))); k_mod = Z0 } :: ({ k_code = (Zpos (XO (XO (XO (XI (XO
    (XO (XO (XO (XI (XI (XI (XI (XI (XI (XI XH)))))))))))))))); k_mod =
    Z0 } :: []))) } :: ({ kb_accept = { k_code = (Zpos (XI (XI (XO (XI (XO
    (XI XH))))))); k_mod = (Zpos (XO (XO XH))) }; kb_whence = KwComposing;
    kb_act = (KaSend ({ k_code = (Zpos (XO (XI (XO (XI (XI (XI XH)))))));
    k_mod = Z0 } :: [])) } :: ({ kb_accept = { k_code = (Zpos (XI (XI (XO (XI
    (XI (XO XH))))))); k_mod = Z0 }; kb_whence = KwHasMenu; kb_act = (KaSend
    ({ k_code = (Zpos (XO (XI (XI (XO (XI (XO (XI (XO (XI (XI (XI (XI (XI (XI
    (XI XH)))))))))))))))); k_mod = Z0 } :: ({ k_code = (Zpos (XO (XO (XI (XO
    (XI (XO (XI (XO (XI (XI (XI (XI (XI (XI (XI XH)))))))))))))))); k_mod =
    Z0 } :: []))) } :: ({ kb_accept = { k_code = (Zpos (XI (XI (XI (XO (XI
    (XI XH))))))); k_mod = (Zpos (XO (XO XH))) }; kb_whence = KwComposing;
    kb_act = (KaToggle
    (X76 :: (X65 :: (X72 :: (X69 :: (X66 :: (X5f :: (X73 :: (X68 :: (X6f :: (X72 :: (X74 :: [])))))))))))) } :: ({ kb_accept =
    { k_code = (Zpos (XI (XO (XO (XO (XI (XI XH))))))); k_mod = (Zpos (XO (XO
    XH))) }; kb_whence = KwAlways; kb_act = (KaSend ({ k_code = (Zpos (XO (XO
    (XI (XI (XO XH)))))); k_mod = Z0 } :: [])) } :: ({ kb_accept = { k_code =
    (Zpos (XO (XI (XO (XI (XO (XI XH))))))); k_mod = (Zpos (XO (XO XH))) };
    kb_whence = KwComposing; kb_act = (KaSend ({ k_code = (Zpos (XI (XI (XO
    (XO (XI (XI XH))))))); k_mod = (Zpos (XO (XO XH))) } :: ({ k_code = (Zpos
    (XO (XI (XI (XI (XO XH)))))); k_mod = Z0 } :: ({ k_code = (Zpos (XI (XI
    (XO (XI (XO (XI XH))))))); k_mod = (Zpos (XO (XO
    XH))) } :: [])))) } :: [])))))))))))))))))))))))))))

(** val synth_kb_cfg_gen : bool -> bool -> bool -> bool -> bool -> config **)

let synth_kb_cfg_gen fluid dlog del_checked kb_guard hist_guard0 =
  { cf_fluid = fluid; cf_alphabet = lower_alphabet; cf_delims =
    (X20 :: (X27 :: [])); cf_initials = lower_alphabet; cf_finals = [];
    cf_use_space = false; cf_page_size = (Zpos (XI (XO XH)));
    cf_select_keys = []; cf_page_down_cycle = false; cf_del_checked =
    del_checked; cf_dlog = dlog; cf_processors =
    (PKeyBinder :: (PSpeller :: (PPunctuator :: (PSelector :: (PNavigator :: (PEditor :: []))))));
    cf_segmentors = (SgAbc :: (SgPunct :: (SgFallback :: [])));
    cf_translators = (TrPunct :: (TrMain :: [])); cf_punct_half =
    synth_half_shape; cf_punct_full = synth_full_shape; cf_punct_use_space =
    fluid; cf_digit_seps =
    (if fluid then X2e :: (X3a :: []) else default_digit_seps);
    cf_digit_sep_commit = fluid; cf_bindings = synth_bindings; cf_kb_guard =
    kb_guard; cf_hist_guard = hist_guard0 }

(** val synth_kb_cfg : bool -> bool -> config **)

let synth_kb_cfg fluid dlog =
  synth_kb_cfg_gen fluid dlog delete_checked_in_source kb_guard_in_source
    hist_guard_in_source

(** val synth_translate : config -> bytes -> seginfo -> cand list **)

let synth_translate cfg =
  all_translate cfg oracle_translate

type buf = { b_text : bytes; b_caret : nat }

type ekey =
| EkLetter of byte
| EkBackSpace
| EkDelete
| EkLeft
| EkRight
| EkHome
| EkEnd
| EkEscape

(** val buf_empty : buf **)

let buf_empty =
  { b_text = []; b_caret = O }

(** val buf_step : buf -> ekey -> buf **)

let buf_step b k =
  let t = b.b_text in
  let c = b.b_caret in
  (match k with
   | EkLetter ch ->
     { b_text = (app (firstn c t) (ch :: (skipn c t))); b_caret = (S c) }
   | EkBackSpace ->
     if Nat.eqb c O
     then b
     else { b_text = (app (firstn (sub c (S O)) t) (skipn c t)); b_caret =
            (sub c (S O)) }
   | EkDelete ->
     if Nat.ltb c (length t)
     then { b_text = (app (firstn c t) (skipn (S c) t)); b_caret = c }
     else b
   | EkLeft ->
     if Nat.eqb c O
     then { b_text = t; b_caret = (length t) }
     else { b_text = t; b_caret = (sub c (S O)) }
   | EkRight ->
     if Nat.leb (length t) c
     then { b_text = t; b_caret = O }
     else { b_text = t; b_caret = (S c) }
   | EkHome -> { b_text = t; b_caret = O }
   | EkEnd -> { b_text = t; b_caret = (length t) }
   | EkEscape -> buf_empty)

(** val ekey_is_letter : ekey -> bool **)

let ekey_is_letter = function
| EkLetter _ -> true
| _ -> false

(** val buf_nonempty : buf -> bool **)

let buf_nonempty b =
  match b.b_text with
  | [] -> false
  | _ :: _ -> true

(** val handled_spec : buf -> ekey -> bool **)

let handled_spec b k =
  (||) (buf_nonempty b) (ekey_is_letter k)

(** val is_cont_byte : byte -> bool **)

let is_cont_byte b =
  let n0 = n_of_byte b in
  (&&) (N.leb (Npos (XO (XO (XO (XO (XO (XO (XO XH)))))))) n0)
    (N.ltb n0 (Npos (XO (XO (XO (XO (XO (XO (XI XH)))))))))

(** val starts_clean : bytes -> bool **)

let starts_clean = function
| [] -> true
| b :: _ -> negb (is_cont_byte b)

(** val char_boundary : bytes -> nat -> bool **)

let char_boundary t p =
  (&&) (Nat.leb p (length t)) (starts_clean (skipn p t))

(** val wf_preeditb : preedit -> bool **)

let wf_preeditb p =
  (&&)
    ((&&) (Nat.leb p.pe_sel_start p.pe_sel_end)
      (Nat.leb p.pe_sel_end (length p.pe_text)))
    (Nat.leb p.pe_caret (length p.pe_text))

(** val wf_preedit_utf8b : preedit -> bool **)

let wf_preedit_utf8b p =
  (&&)
    ((&&) (char_boundary p.pe_text p.pe_sel_start)
      (char_boundary p.pe_text p.pe_sel_end))
    (char_boundary p.pe_text p.pe_caret)

(** val wf_menub : menu_obs -> n option -> bool **)

let wf_menub m sel =
  let n0 = Z.of_nat (length m.mo_cands) in
  (&&)
    ((&&)
      ((&&) ((&&) (Z.leb Z0 m.mo_hl) (Z.ltb m.mo_hl n0))
        (Z.leb n0 m.mo_page_size)) (Z.leb Z0 m.mo_page_no))
    (match sel with
     | Some i ->
       Z.eqb (Z.add (Z.mul m.mo_page_no m.mo_page_size) m.mo_hl) (Z.of_N i)
     | None -> false)

(** val wf_viewb : view -> bool **)

let wf_viewb v =
  (&&)
    ((&&)
      ((&&) (Nat.leb v.v_caret (length v.v_input))
        ((||) v.v_composing
          ((&&)
            ((&&) (match v.v_input with
                   | [] -> true
                   | _ :: _ -> false)
              (match v.v_preedit with
               | Some _ -> false
               | None -> true))
            (match v.v_menu with
             | Some _ -> false
             | None -> true))))
      (match v.v_preedit with
       | Some p -> wf_preeditb p
       | None -> true))
    (match v.v_menu with
     | Some m -> wf_menub m v.v_sel
     | None -> true)

(** val wf_view_utf8b : view -> bool **)

let wf_view_utf8b v =
  match v.v_preedit with
  | Some p -> wf_preedit_utf8b p
  | None -> true
