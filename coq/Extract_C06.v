(** Extraction of the C06 model (ExtrOcamlBasic only). *)
From Coq Require Extraction.
From Coq Require ExtrOcamlBasic.
From RimeV Require Import Base.Bytes Dict.Vocab Dict.TableIx Dict.MFile Gen.Layout.
Extraction "c06_model.ml" byte_of_N N_of_byte compile enumerate query_phrases rev_lookup code_ids
  table_build bytes_needed bytes_fixed estimate current_layout current_facts flat1.
