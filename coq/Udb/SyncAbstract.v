(** C17 (stretch) – convergence of repeated Synchronize, abstractly.

    For one fixed key, installation [i] holds a magnitude [ms_i] (-1 = entry absent) and its
    published snapshot holds [ts_i] (-1 = no snapshot or entry absent).  Synchronize of [i]
    with directory listing [order] sets both to  max (ms_i, ts_j for j in order).
    After a round in which everybody synchronises (any order, any repetitions) followed by a
    second such round, with listings that contain every installation, all [ms_i] are equal. *)
From Coq Require Import List ZArith Lia Bool Arith.
From RimeV Require Import Udb.Manager Udb.ManagerProofs.
Import ListNotations.
Local Open Scope Z_scope.

Definition maxl (base : Z) (l : list Z) : Z := fold_left Z.max l base.

Lemma maxl_ge_base l : forall b, b <= maxl b l.
Proof. induction l as [|x l IH]; intro b; cbn; [lia|]. specialize (IH (Z.max b x)). unfold maxl in IH. lia. Qed.

Lemma maxl_mono_base l : forall b b', b <= b' -> maxl b l <= maxl b' l.
Proof. induction l as [|x l IH]; intros b b' H; cbn; [exact H|]. apply IH. lia. Qed.

Lemma maxl_ge_in l : forall b x, In x l -> x <= maxl b l.
Proof.
  induction l as [|y l IH]; intros b x H; [contradiction|]. cbn. destruct H as [->|H].
  - pose proof (maxl_ge_base l (Z.max b x)). unfold maxl in *. lia.
  - now apply IH.
Qed.

Lemma maxl_attained l : forall b, maxl b l = b \/ In (maxl b l) l.
Proof.
  induction l as [|y l IH]; intro b; [now left|]. cbn. destruct (IH (Z.max b y)) as [E|E].
  - unfold maxl in *. rewrite E. destruct (Z.max_spec b y) as [[_ ->]|[_ ->]]; [right; now left | now left].
  - right. now right.
Qed.

Definition astate := (list Z * list Z)%type.

Definition astep (st : astate) (io : nat * list nat) : astate :=
  let m := maxl (nth (fst io) (fst st) (-1)) (map (fun j => nth j (snd st) (-1)) (snd io)) in
  (set_nth (fst io) m (fst st), set_nth (fst io) m (snd st)).

Definition arun (ios : list (nat * list nat)) (st : astate) : astate := fold_left astep ios st.

Lemma length_set_nth {A} (l : list A) : forall i x, length (set_nth i x l) = length l.
Proof. induction l as [|a l IH]; intros [|i] x; cbn; try reflexivity. now rewrite IH. Qed.

(** [N] installations; snapshots never exceed their owner's dictionary *)
Definition ainv (N : nat) (st : astate) : Prop :=
  length (fst st) = N /\ length (snd st) = N /\ forall j, (j < N)%nat -> nth j (snd st) (-1) <= nth j (fst st) (-1).

Lemma nth_set_nth_Z (l : list Z) i j x :
  nth j (set_nth i x l) (-1) = if Nat.eqb i j && Nat.ltb i (length l) then x else nth j l (-1).
Proof. apply nth_set_nth. Qed.

Lemma astep_facts N st io : ainv N st ->
  let st' := astep st io in
  ainv N st' /\
  (forall j, nth j (fst st) (-1) <= nth j (fst st') (-1)) /\
  (forall j, (j < N)%nat -> nth j (snd st) (-1) <= nth j (snd st') (-1)).
Proof.
  intros (L1 & L2 & I). destruct st as [ms ts]. destruct io as [i order]. cbn [fst snd] in *.
  cbn zeta. unfold astep. cbn [fst snd].
  set (m := maxl (nth i ms (-1)) (map (fun j => nth j ts (-1)) order)).
  assert (Hm : nth i ms (-1) <= m) by apply maxl_ge_base.
  split; [|split].
  - unfold ainv. cbn [fst snd]. split; [now rewrite length_set_nth|]. split; [now rewrite length_set_nth|].
    intros j Hj. rewrite !nth_set_nth_Z, L1, L2.
    destruct (Nat.eqb i j && Nat.ltb i N); [lia | now apply I].
  - intro j. cbn [fst]. rewrite nth_set_nth_Z. destruct (Nat.eqb i j) eqn:E; cbn [andb]; [|lia].
    apply Nat.eqb_eq in E. subst j. destruct (Nat.ltb i (length ms)); lia.
  - intros j Hj. cbn [snd]. rewrite nth_set_nth_Z. destruct (Nat.eqb i j) eqn:E; cbn [andb]; [|lia].
    apply Nat.eqb_eq in E. subst j. destruct (Nat.ltb i (length ts)); [|lia]. specialize (I i Hj). lia.
Qed.

Lemma arun_facts N ios : forall st, ainv N st ->
  ainv N (arun ios st) /\
  (forall j, nth j (fst st) (-1) <= nth j (fst (arun ios st)) (-1)) /\
  (forall j, (j < N)%nat -> nth j (snd st) (-1) <= nth j (snd (arun ios st)) (-1)).
Proof.
  induction ios as [|io ios IH]; intros st H; [cbn; repeat split; try apply H; intros; lia|].
  cbn [arun fold_left]. destruct (astep_facts N st io H) as (H1 & M1 & T1).
  destruct (IH _ H1) as (H2 & M2 & T2). fold (arun ios (astep st io)).
  split; [exact H2|]. split; [intro j; specialize (M1 j); specialize (M2 j); lia|].
  intros j Hj. specialize (T1 j Hj). specialize (T2 j Hj). lia.
Qed.

(** every magnitude that ever appears is one of the initial dictionary magnitudes (or -1) *)
Definition bounded (N : nat) (ms0 : list Z) (st : astate) : Prop :=
  forall j, (j < N)%nat ->
    (nth j (fst st) (-1) = -1 \/ exists a, (a < N)%nat /\ nth j (fst st) (-1) <= nth a ms0 (-1)) /\
    (nth j (snd st) (-1) = -1 \/ exists a, (a < N)%nat /\ nth j (snd st) (-1) <= nth a ms0 (-1)).

Definition orders_ok (N : nat) (ios : list (nat * list nat)) : Prop :=
  forall io, In io ios -> (fst io < N)%nat /\ (forall j, (j < N)%nat -> In j (snd io)) /\ (forall j, In j (snd io) -> (j < N)%nat).

Definition covers (N : nat) (ios : list (nat * list nat)) : Prop :=
  forall i, (i < N)%nat -> exists order, In (i, order) ios.

Lemma astep_bounded N ms0 st io : ainv N st -> bounded N ms0 st ->
  (forall j, In j (snd io) -> (j < N)%nat) -> (fst io < N)%nat -> bounded N ms0 (astep st io).
Proof.
  intros (L1 & L2 & I) B Ho Hi. destruct st as [ms ts]. destruct io as [i order]. cbn [fst snd] in *.
  unfold astep. cbn [fst snd].
  set (m := maxl (nth i ms (-1)) (map (fun j => nth j ts (-1)) order)).
  assert (Bm : m = -1 \/ exists a, (a < N)%nat /\ m <= nth a ms0 (-1)).
  { subst m. destruct (maxl_attained (map (fun j => nth j ts (-1)) order) (nth i ms (-1))) as [E|E].
    - rewrite E. apply (B i Hi).
    - apply in_map_iff in E. destruct E as (j & E & Hj). rewrite <- E. apply (B j (Ho j Hj)). }
  intros j Hj. cbn [fst snd]. rewrite !nth_set_nth_Z, L1, L2.
  destruct (Nat.eqb i j && Nat.ltb i N); [split; exact Bm | apply (B j Hj)].
Qed.

Lemma arun_bounded N ms0 ios : forall st, ainv N st -> bounded N ms0 st -> orders_ok N ios -> bounded N ms0 (arun ios st).
Proof.
  induction ios as [|io ios IH]; intros st H B Ho; [exact B|].
  cbn [arun fold_left]. fold (arun ios (astep st io)).
  destruct (Ho io (or_introl eq_refl)) as (Hi & _ & Hj).
  apply IH; [apply (astep_facts N st io H) | now apply astep_bounded | intros io' Hin; apply Ho; now right].
Qed.

(** after a covering round every snapshot is at least its owner's initial magnitude *)
Lemma arun_publishes N ios : forall st, ainv N st ->
  forall i, (i < N)%nat -> (exists order, In (i, order) ios) ->
  nth i (fst st) (-1) <= nth i (snd (arun ios st)) (-1).
Proof.
  induction ios as [|io ios IH]; intros st H i Hi [order Hin]; [contradiction|].
  cbn [arun fold_left]. fold (arun ios (astep st io)).
  destruct (astep_facts N st io H) as (H1 & M1 & T1).
  destruct Hin as [->|Hin].
  - destruct (arun_facts N ios _ H1) as (_ & _ & T2). specialize (T2 i Hi).
    assert (E : nth i (fst st) (-1) <= nth i (snd (astep st (i, order))) (-1)).
    { destruct H as (L1 & L2 & _). destruct st as [ms ts]. unfold astep. cbn [fst snd] in *.
      rewrite nth_set_nth_Z, Nat.eqb_refl, L2. apply Nat.ltb_lt in Hi. rewrite Hi. cbn [andb]. apply maxl_ge_base. }
    lia.
  - specialize (IH _ H1 i Hi (ex_intro _ order Hin)). specialize (M1 i). lia.
Qed.

(** in a round with complete listings, whoever synchronises reaches every published snapshot *)
Lemma arun_collects N ios : forall st, ainv N st -> orders_ok N ios ->
  forall i, (i < N)%nat -> (exists order, In (i, order) ios) ->
  forall j, (j < N)%nat -> nth j (snd st) (-1) <= nth i (fst (arun ios st)) (-1).
Proof.
  induction ios as [|io ios IH]; intros st H Ho i Hi [order Hin] j Hj; [contradiction|].
  cbn [arun fold_left]. fold (arun ios (astep st io)).
  destruct (astep_facts N st io H) as (H1 & M1 & T1).
  assert (Ho' : orders_ok N ios) by (intros io' Hin'; apply Ho; now right).
  destruct Hin as [->|Hin].
  - destruct (arun_facts N ios _ H1) as (_ & M2 & _). specialize (M2 i).
    destruct (Ho (i, order) (or_introl eq_refl)) as (_ & Hall & _). cbn [snd] in Hall.
    assert (E : nth j (snd st) (-1) <= nth i (fst (astep st (i, order))) (-1)).
    { destruct H as (L1 & L2 & _). destruct st as [ms ts]. unfold astep. cbn [fst snd] in *.
      rewrite nth_set_nth_Z, Nat.eqb_refl, L1. apply Nat.ltb_lt in Hi. rewrite Hi. cbn [andb].
      apply maxl_ge_in. apply in_map_iff. exists j. split; [reflexivity | now apply Hall]. }
    lia.
  - specialize (IH _ H1 Ho' i Hi (ex_intro _ order Hin) j Hj). specialize (T1 j Hj). lia.
Qed.

(** two covering rounds with complete listings, from a state without snapshots: all equal *)
Theorem two_rounds_converge N ms0 p q :
  length ms0 = N -> (forall j, (j < N)%nat -> -1 <= nth j ms0 (-1)) ->
  orders_ok N p -> orders_ok N q -> covers N p -> covers N q ->
  let st := arun q (arun p (ms0, repeat (-1) N)) in
  forall i i', (i < N)%nat -> (i' < N)%nat -> nth i (fst st) (-1) = nth i' (fst st) (-1).
Proof.
  intros L Hge Op Oq Cp Cq. cbn zeta.
  set (st0 := (ms0, repeat (-1) N)).
  assert (I0 : ainv N st0).
  { split; [exact L|]. split; [apply repeat_length|]. intros j Hj. unfold st0. cbn [fst snd].
    rewrite nth_repeat. now apply Hge. }
  assert (B0 : bounded N ms0 st0).
  { intros j Hj. unfold st0. cbn [fst snd]. split; [right; exists j; split; [exact Hj|lia] | left; apply nth_repeat]. }
  destruct (arun_facts N p st0 I0) as (I1 & _ & _).
  pose proof (arun_bounded N ms0 p st0 I0 B0 Op) as B1.
  destruct (arun_facts N q _ I1) as (I2 & _ & _).
  pose proof (arun_bounded N ms0 q _ I1 B1 Oq) as B2.
  assert (Low : forall i a, (i < N)%nat -> (a < N)%nat -> nth a ms0 (-1) <= nth i (fst (arun q (arun p st0))) (-1)).
  { intros i a Hi Ha.
    pose proof (arun_publishes N p st0 I0 a Ha (Cp a Ha)) as P1. unfold st0 at 1 in P1. cbn [fst] in P1.
    pose proof (arun_collects N q _ I1 Oq i Hi (Cq i Hi) a Ha) as P2. lia. }
  assert (Le : forall i i', (i < N)%nat -> (i' < N)%nat ->
               nth i (fst (arun q (arun p st0))) (-1) <= nth i' (fst (arun q (arun p st0))) (-1)).
  { intros i i' Hi Hi'. destruct (B2 i Hi) as [[E|(a & Ha & E)] _].
    - rewrite E. pose proof (Low i' i Hi' Hi). specialize (Hge i Hi). lia.
    - pose proof (Low i' a Hi' Ha). lia. }
  intros i i' Hi Hi'. pose proof (Le i i' Hi Hi'). pose proof (Le i' i Hi' Hi). lia.
Qed.
