(** C17 – [UserDbValue] and its text codec (src/rime/dict/user_db.cc:17-51).

    [commits] is a C [int] (a [Z]; every value produced by [stoi] is inside
    the int range), [tick] a [uint64_t] (an [N]), [dee] a [double].  The
    double never influences keys, commit counts or ticks; it is carried as an
    abstract type [D] with the operations the code applies to it ([dee_ops]);
    no definition or theorem looks inside it, so nothing depends on rounding.

    [stoi]/[stoul] are ported with the prefix semantics of strtol/strtoul
    (leading isspace bytes skipped, optional sign, longest digit run, trailing
    garbage ignored, "no digits" and "out of range" throw; strtoul negates a
    '-' value modulo 2^64).  [None] stands for "throws", which [Unpack] turns
    into [return false] keeping the fields assigned so far.

    Model file: definitions only. *)
From Coq Require Import List NArith ZArith Bool.
From Coq.Strings Require Import Byte.
From RimeV Require Import Base.Bytes.
Import ListNotations.

(** * bytes: equality, memcmp order, character classes *)

Fixpoint bytes_eqb (a b : bytes) : bool :=
  match a, b with
  | [], [] => true
  | x :: a', y :: b' => Byte.eqb x y && bytes_eqb a' b'
  | _, _ => false
  end.

(** [std::string::compare] / LevelDB's bytewise comparator: unsigned bytes,
    a proper prefix sorts first. *)
Fixpoint bytes_ltb (a b : bytes) : bool :=
  match a, b with
  | _, [] => false
  | [], _ :: _ => true
  | x :: a', y :: b' =>
      if N.ltb (Byte.to_N x) (Byte.to_N y) then true
      else if N.ltb (Byte.to_N y) (Byte.to_N x) then false
      else bytes_ltb a' b'
  end.

(** [isspace] in the "C" locale (what [boost::is_space()] / strtol use here). *)
Definition is_space (b : byte) : bool :=
  match b with x09 | x0a | x0b | x0c | x0d | x20 => true | _ => false end.

Definition is_digit (b : byte) : bool :=
  match b with x30 | x31 | x32 | x33 | x34 | x35 | x36 | x37 | x38 | x39 => true | _ => false end.

Definition digit_val (b : byte) : N := (Byte.to_N b - 48)%N.
Definition digit_byte (d : N) : byte := byte_of_N (48 + d)%N.

(** * decimal printing ([operator<<] of int / unsigned long, [std::to_string]) *)

Fixpoint dec_digits (fuel : nat) (n : N) : bytes :=
  match fuel with
  | O => []
  | S f => if (n <? 10)%N then [digit_byte n] else dec_digits f (n / 10)%N ++ [digit_byte (n mod 10)%N]
  end.

Definition print_N (n : N) : bytes := dec_digits (S (N.to_nat (N.log2 n))) n.

Definition print_Z (z : Z) : bytes :=
  if (z <? 0)%Z then x2d :: print_N (Z.abs_N z) else print_N (Z.abs_N z).

(** * strtol / strtoul prefix parsing, base 10 *)

Fixpoint drop_ws (s : bytes) : bytes :=
  match s with
  | b :: r => if is_space b then drop_ws r else s
  | [] => []
  end.

Definition take_sign (s : bytes) : bool * bytes :=
  match s with
  | x2d :: r => (true, r)    (* '-' *)
  | x2b :: r => (false, r)   (* '+' *)
  | _ => (false, s)
  end.

(** value of the longest leading digit run; [seen] = at least one digit *)
Fixpoint digits_acc (acc : N) (seen : bool) (s : bytes) : N * bool :=
  match s with
  | b :: r => if is_digit b then digits_acc (acc * 10 + digit_val b)%N true r else (acc, seen)
  | [] => (acc, seen)
  end.

(** (negative?, magnitude); [None] = no conversion could be performed *)
Definition parse_int (s : bytes) : option (bool * N) :=
  let (neg, r) := take_sign (drop_ws s) in
  let (v, seen) := digits_acc 0%N false r in
  if seen then Some (neg, v) else None.

Definition INT_MIN : Z := (-2147483648)%Z.
Definition INT_MAX : Z := 2147483647%Z.
Definition ULONG_MAX : N := 18446744073709551615%N.

(** [std::stoi]: throws on no conversion and on a value outside [int]. *)
Definition stoi (s : bytes) : option Z :=
  match parse_int s with
  | None => None
  | Some (neg, v) =>
      let z := if neg then (- Z.of_N v)%Z else Z.of_N v in
      if (INT_MIN <=? z)%Z && (z <=? INT_MAX)%Z then Some z else None
  end.

(** [std::stoul] (64-bit unsigned long): the magnitude must fit; "-v" yields 2^64 - v. *)
Definition stoul (s : bytes) : option N :=
  match parse_int s with
  | None => None
  | Some (neg, v) =>
      if (v <=? ULONG_MAX)%N
      then Some (if neg then ((ULONG_MAX + 1 - v) mod (ULONG_MAX + 1))%N else v)
      else None
  end.

(** * [boost::split(.., is_any_of(sep))] with token_compress_off: n separators give n+1 tokens *)

Fixpoint split_on (sep : byte -> bool) (s : bytes) : list bytes :=
  match s with
  | [] => [[]]
  | b :: r =>
      if sep b then [] :: split_on sep r
      else match split_on sep r with
           | h :: t => (b :: h) :: t
           | [] => [[b]]
           end
  end.

(** [s.find(c)]: text before / after the first occurrence *)
Fixpoint cut_at (c : byte) (s : bytes) : option (bytes * bytes) :=
  match s with
  | [] => None
  | b :: r =>
      if Byte.eqb b c then Some ([], r)
      else match cut_at c r with
           | Some (k, v) => Some (b :: k, v)
           | None => None
           end
  end.

(** * the abstract [double] *)

Record dee_ops := {
  D : Type;
  d_zero : D;                       (* 0.0 *)
  d_parse : bytes -> option D;      (* (std::min)(10000.0, std::stod(v)); None = stod throws *)
  d_print : D -> bytes;             (* ostream << double *)
  d_decay : D -> N -> N -> D;       (* d_decay da t ta = algo::formula_d(0, (double)t, da, (double)ta) *)
  d_max : D -> D -> D;              (* (std::max)(a, b) *)
  d_of_commits : Z -> D;            (* (commits + 1) / 1e8   (table_db.cc) *)
}.

Section Value.
  Variable O : dee_ops.

  Record value := { commits : Z; dee : D O; tick : N }.

  (** default member initialisers: commits = 0, dee = 0.0, tick = 0 *)
  Definition value0 : value := {| commits := 0; dee := d_zero O; tick := 0 |}.

  Definition set_commits (v : value) (c : Z) := {| commits := c; dee := dee v; tick := tick v |}.
  Definition set_dee (v : value) (d : D O) := {| commits := commits v; dee := d; tick := tick v |}.
  Definition set_tick (v : value) (t : N) := {| commits := commits v; dee := dee v; tick := t |}.

  Definition k_c : bytes := [x63].   (* "c" *)
  Definition k_d : bytes := [x64].   (* "d" *)
  Definition k_t : bytes := [x74].   (* "t" *)
  Definition is_sp (b : byte) : bool := Byte.eqb b x20.

  (** "c=" << commits << " d=" << dee << " t=" << tick *)
  Definition pack (v : value) : bytes :=
    [x63; x3d] ++ print_Z (commits v) ++ [x20; x64; x3d] ++ d_print O (dee v)
    ++ [x20; x74; x3d] ++ print_N (tick v).

  (** one "k=v" item; [None] = an exception was thrown by stoi/stod/stoul *)
  Definition unpack_item (v : value) (item : bytes) : option value :=
    match cut_at x3d item with
    | None => Some v
    | Some (k, x) =>
        if bytes_eqb k k_c then option_map (set_commits v) (stoi x)
        else if bytes_eqb k k_d then option_map (set_dee v) (d_parse O x)
        else if bytes_eqb k k_t then option_map (set_tick v) (stoul x)
        else Some v
    end.

  Fixpoint unpack_items (v : value) (items : list bytes) : value * bool :=
    match items with
    | [] => (v, true)
    | it :: r =>
        match unpack_item v it with
        | Some v' => unpack_items v' r
        | None => (v, false)
        end
    end.

  (** [v.Unpack(s)] on an object currently holding [v]: new contents and return value *)
  Definition unpack_into (v : value) (s : bytes) : value * bool :=
    unpack_items v (split_on is_sp s).

  (** [UserDbValue v(s)] / [UserDbValue o; o.Unpack(s)] *)
  Definition unpack (s : bytes) : value := fst (unpack_into value0 s).
  Definition unpack_ok (s : bytes) : bool := snd (unpack_into value0 s).
End Value.

Arguments commits {O} _.
Arguments dee {O} _.
Arguments tick {O} _.

(** * the erased instance used by the extracted model runner

    [D := unit]: the correspondence compares keys, commit counts and ticks
    only.  What is kept of [stod] is whether it throws (that decides whether a
    later "t=" item is still read): optional isspace prefix, optional sign,
    then a decimal mantissa with at least one digit, or inf/nan in any case.
    (Out-of-range doubles – stod throws on ERANGE – are outside the generated
    domain.) *)
Definition lower (b : byte) : byte :=
  let n := Byte.to_N b in
  if (65 <=? n)%N && (n <=? 90)%N then byte_of_N (n + 32)%N else b.

Definition starts_with_ci (p s : bytes) : bool :=
  bytes_eqb p (map lower (firstn (length p) s)).

(** [stod] also throws (std::out_of_range) when strtod reports ERANGE: the value overflows, or it is
    so small that the result is zero or a subnormal number - texts that librime writes itself when a
    decayed weight underflows.  What is kept of that: the decimal order of magnitude of the leading
    non-zero digit; a value is taken as out of range when that is beyond +-308.  (The exact
    borders - DBL_MAX = 1.797e308, DBL_MIN = 2.225e-308 - lie inside the decade; the generated
    values stay clear of those two decades.) *)
Fixpoint span_digits (s : bytes) : bytes * bytes :=
  match s with
  | b :: r => if is_digit b then let (d, t) := span_digits r in (b :: d, t) else ([], s)
  | [] => ([], [])
  end.
Fixpoint drop_zeros (s : bytes) : bytes :=
  match s with b :: r => if Byte.eqb b x30 then drop_zeros r else s | [] => [] end.
Definition digits_to_Z (d : bytes) : Z := fold_left (fun a b => (a * 10 + Z.of_N (digit_val b))%Z) d 0%Z.
Definition dec_magnitude (s : bytes) : option Z :=
  let (ip, r1) := span_digits s in
  let (fp, r2) := match r1 with
                  | b :: r => if Byte.eqb b x2e then span_digits r else ([], r1)
                  | [] => ([], [])
                  end in
  let ex := match r2 with
            | b :: r =>
                if Byte.eqb (lower b) x65 then
                  let (neg, r') := take_sign r in
                  let (ed, _) := span_digits r' in
                  match ed with [] => 0%Z | _ => if neg then (- digits_to_Z ed)%Z else digits_to_Z ed end
                else 0%Z
            | [] => 0%Z
            end in
  match drop_zeros ip with
  | _ :: _ as ipz => Some (Z.of_nat (length ipz) - 1 + ex)%Z
  | [] => match drop_zeros fp with
          | [] => None
          | _ :: _ as fz => Some (- Z.of_nat (length fp - length fz) - 1 + ex)%Z
          end
  end.
Definition stod_in_range (s : bytes) : bool :=
  match dec_magnitude s with
  | None => true
  | Some e => ((-308 <=? e) && (e <=? 308))%Z
  end.

Definition stod_ok (s : bytes) : bool :=
  let (_, r) := take_sign (drop_ws s) in
  match r with
  | b :: r' =>
      if is_digit b then stod_in_range r
      else if Byte.eqb b x2e then match r' with c :: _ => is_digit c && stod_in_range r | [] => false end
      else starts_with_ci [x69; x6e; x66] r || starts_with_ci [x6e; x61; x6e] r
  | [] => false
  end.

Definition erased_ops : dee_ops := {|
  D := unit;
  d_zero := tt;
  d_parse := fun s => if stod_ok s then Some tt else None;
  d_print := fun _ => [x30];
  d_decay := fun d _ _ => d;
  d_max := fun d _ => d;
  d_of_commits := fun _ => tt;
|}.
