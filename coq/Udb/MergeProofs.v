(** C17 – theorems about [UserDbMerger] and [UserDbImporter] over arbitrary
    dictionaries (induction over the entry lists). *)
From Coq Require Import List NArith ZArith Bool Lia.
From Coq.Strings Require Import Byte.
From RimeV Require Import Base.Bytes Udb.Value Udb.ValueProofs Udb.Merge.
Import ListNotations.

(** * maps *)

Definition keys (m : amap) : list bytes := map fst m.

Lemma find_none_iff k m : find k m = None <-> ~ In k (keys m).
Proof.
  induction m as [|[k' v] m IH]; cbn [find keys map In fst]; [tauto|].
  destruct (bytes_eqb k k') eqn:E.
  - apply bytes_eqb_eq in E. subst. split; [discriminate | intro H; exfalso; apply H; now left].
  - apply bytes_eqb_neq in E. rewrite IH. unfold keys. split; intro H; [intros [C|C]; [congruence|contradiction] | tauto].
Qed.

Lemma find_some_in k v m : find k m = Some v -> In (k, v) m.
Proof.
  induction m as [|[k' v'] m IH]; cbn [find]; [discriminate|].
  destruct (bytes_eqb k k') eqn:E.
  - apply bytes_eqb_eq in E. intro H. injection H as ->. subst. now left.
  - intro H. right. now apply IH.
Qed.

Lemma in_find_nodup k v m : NoDup (keys m) -> In (k, v) m -> find k m = Some v.
Proof.
  induction m as [|[k' v'] m IH]; intros ND H; [contradiction|].
  cbn [keys map] in ND. inversion ND as [|? ? Hn ND']; subst. cbn [find].
  destruct H as [H|H].
  - injection H as -> ->. now rewrite bytes_eqb_refl.
  - destruct (bytes_eqb k k') eqn:E.
    + apply bytes_eqb_eq in E. subst. exfalso. apply Hn. change k' with (fst (k', v)). now apply in_map.
    + now apply IH.
Qed.

Lemma keys_replace k v m : keys (replace k v m) = keys m.
Proof.
  induction m as [|[k' v'] m IH]; [reflexivity|]. cbn [replace].
  destruct (bytes_eqb k k'); cbn [keys map]; [reflexivity|]. f_equal. exact IH.
Qed.

Lemma find_replace_same k v m : find k m <> None -> find k (replace k v m) = Some v.
Proof.
  induction m as [|[k' v'] m IH]; cbn [find replace]; [congruence|].
  destruct (bytes_eqb k k') eqn:E; cbn [find]; rewrite E; [reflexivity | exact IH].
Qed.

Lemma find_replace_other k k' v m : k' <> k -> find k' (replace k v m) = find k' m.
Proof.
  intro N. induction m as [|[k1 v1] m IH]; [reflexivity|]. cbn [replace].
  destruct (bytes_eqb k k1) eqn:E; cbn [find]; [|now rewrite IH].
  apply bytes_eqb_eq in E. subst k1. apply bytes_eqb_neq in N. now rewrite N.
Qed.

Lemma find_insert_same k v m : find k m = None -> find k (insert k v m) = Some v.
Proof.
  induction m as [|[k1 v1] m IH]; cbn [find insert]; intro H.
  - now rewrite bytes_eqb_refl.
  - destruct (bytes_eqb k k1) eqn:E; [discriminate|].
    destruct (bytes_ltb k k1); cbn [find]; [now rewrite bytes_eqb_refl | rewrite E; now apply IH].
Qed.

Lemma find_insert_other k k' v m : k' <> k -> find k' (insert k v m) = find k' m.
Proof.
  intro N. induction m as [|[k1 v1] m IH]; cbn [insert find].
  - apply bytes_eqb_neq in N. now rewrite N.
  - destruct (bytes_ltb k k1); cbn [find]; [|now rewrite IH].
    apply bytes_eqb_neq in N. now rewrite N.
Qed.

Lemma in_keys_insert k' k v m : In k' (keys (insert k v m)) <-> k' = k \/ In k' (keys m).
Proof.
  induction m as [|[k1 v1] m IH]; cbn [insert keys map In fst]; [intuition congruence|].
  destruct (bytes_ltb k k1); cbn [keys map In fst]; [intuition congruence|].
  unfold keys in IH. rewrite IH. intuition congruence.
Qed.

Lemma nodup_insert k v m : ~ In k (keys m) -> NoDup (keys m) -> NoDup (keys (insert k v m)).
Proof.
  induction m as [|[k1 v1] m IH]; cbn [insert keys map]; intros Hn ND.
  - constructor; [intros []|constructor].
  - destruct (bytes_ltb k k1); cbn [keys map].
    + constructor; [exact Hn | exact ND].
    + inversion ND as [|? ? Hn1 ND1]; subst. constructor.
      * intro C. apply in_keys_insert in C. destruct C as [C|C]; [subst; apply Hn; now left | contradiction].
      * apply IH; [intro C; apply Hn; now right | exact ND1].
Qed.

Lemma mem_true_iff k m : mem k m = true <-> find k m <> None.
Proof. unfold mem. destruct (find k m); split; congruence. Qed.

Lemma find_upd_same k v m : find k (upd k v m) = Some v.
Proof.
  unfold upd. destruct (mem k m) eqn:E.
  - apply find_replace_same. now apply mem_true_iff.
  - apply find_insert_same. unfold mem in E. destruct (find k m); [discriminate | reflexivity].
Qed.

Lemma find_upd_other k k' v m : k' <> k -> find k' (upd k v m) = find k' m.
Proof.
  intro N. unfold upd. destruct (mem k m); [now apply find_replace_other | now apply find_insert_other].
Qed.

Lemma nodup_upd k v m : NoDup (keys m) -> NoDup (keys (upd k v m)).
Proof.
  intro ND. unfold upd. destruct (mem k m) eqn:E.
  - now rewrite keys_replace.
  - apply nodup_insert; [|exact ND]. apply find_none_iff. unfold mem in E. destruct (find k m); [discriminate|reflexivity].
Qed.

Lemma keys_upd_present k v m : find k m <> None -> keys (upd k v m) = keys m.
Proof.
  intro H. unfold upd. apply mem_true_iff in H. rewrite H. apply keys_replace.
Qed.

Lemma in_keys_upd k' k v m : In k' (keys (upd k v m)) <-> k' = k \/ In k' (keys m).
Proof.
  unfold upd. destruct (mem k m) eqn:E.
  - rewrite keys_replace. split; [tauto|]. intros [->|H]; [|exact H].
    apply mem_true_iff in E. destruct (find k m) eqn:F; [|congruence].
    apply find_some_in in F. change k with (fst (k, b)). now apply in_map.
  - apply in_keys_insert.
Qed.

Lemma nodup_filter_keys (f : bytes * bytes -> bool) m : NoDup (keys m) -> NoDup (keys (filter f m)).
Proof.
  induction m as [|kv m IH]; intro ND; [constructor|].
  cbn [keys map] in ND. inversion ND as [|? ? Hn ND']; subst. cbn [filter].
  destruct (f kv); [|now apply IH]. cbn [keys map]. constructor; [|now apply IH].
  intro C. apply Hn. unfold keys in *. apply in_map_iff in C. destruct C as (x & Hx & Hin).
  apply filter_In in Hin. apply in_map_iff. exists x. tauto.
Qed.

(** the metadata keys are pairwise different *)
Lemma mk_tick_neq_user_id : mk_tick <> mk_user_id. Proof. discriminate. Qed.

Section MergeProofs.
  Variable O : dee_ops.
  Hypothesis dee_ok : dee_print_ok O.

  Notation merger := merger.

  Definition puts (g : Z) (m : merger) (l : amap) : merger :=
    fold_left (fun m kv => fst (m_put O g m (fst kv) (snd kv))) l m.
  Definition metas (m : merger) (l : amap) : merger :=
    fold_left (fun m kv => m_meta_put m (fst kv) (snd kv)) l m.

  (** the tick a snapshot's metadata carries into the merger (0 when there is none) *)
  Definition tick_step (t : N) (kv : bytes * bytes) : N :=
    if bytes_eqb (fst kv) mk_tick then match stoul (snd kv) with Some t' => t' | None => t end else t.
  Definition snapshot_tick (src : db) : N := fold_left tick_step (meta src) 0%N.

  Lemma puts_cons g m k v l : puts g m ((k, v) :: l) = puts g (fst (m_put O g m k v)) l.
  Proof. reflexivity. Qed.
  Lemma metas_cons m k v l : metas m ((k, v) :: l) = metas (m_meta_put m k v) l.
  Proof. reflexivity. Qed.

  Lemma merge_run_unfold inits g uid src dst :
    merge_run O inits g uid src dst = m_close g uid (puts g (metas (mk_merger inits dst) (meta src)) (query_all (data src))).
  Proof. reflexivity. Qed.

  (** ** what the folds keep *)

  Lemma metas_spec l : forall m,
    m_db (metas m l) = m_db m /\ our_tick (metas m l) = our_tick m /\
    merged_entries (metas m l) = merged_entries m /\ m_uninit (metas m l) = m_uninit m /\
    their_tick (metas m l) = fold_left tick_step l (their_tick m) /\
    (max_tick m = N.max (our_tick m) (their_tick m) -> max_tick (metas m l) = N.max (our_tick m) (their_tick (metas m l))).
  Proof.
    induction l as [|[k v] l IH]; intro m; [cbn; tauto|]. rewrite metas_cons. cbn [fold_left].
    destruct (IH (m_meta_put m k v)) as (A & B & C & D & E & F).
    assert (S : their_tick (m_meta_put m k v) = tick_step (their_tick m) (k, v) /\ m_db (m_meta_put m k v) = m_db m
                /\ our_tick (m_meta_put m k v) = our_tick m /\ merged_entries (m_meta_put m k v) = merged_entries m
                /\ m_uninit (m_meta_put m k v) = m_uninit m
                /\ (max_tick m = N.max (our_tick m) (their_tick m) ->
                    max_tick (m_meta_put m k v) = N.max (our_tick m) (their_tick (m_meta_put m k v)))).
    { unfold m_meta_put, tick_step. cbn [fst snd]. destruct (bytes_eqb k mk_tick); [destruct (stoul v)|]; cbn; tauto. }
    destruct S as (S1 & S2 & S3 & S4 & S5 & S6).
    rewrite A, B, C, D, E, S1, S2, S3, S4, S5. repeat split; try reflexivity.
    intro H. rewrite F; [now rewrite S3, E, S1 | rewrite S3; apply S6, H].
  Qed.

  Lemma put_spec g m k v :
    let m' := fst (m_put O g m k v) in
    data (m_db m') = upd k (pack O (merge_value O (our_tick m) (their_tick m) (max_tick m) (find k (data (m_db m))) v)) (data (m_db m))
    /\ meta (m_db m') = meta (m_db m) /\ our_tick m' = our_tick m /\ their_tick m' = their_tick m /\ max_tick m' = max_tick m
    /\ merged_entries m' = Some (rd g (merged_entries m) + 1)%Z.
  Proof. cbn. tauto. Qed.

  Lemma puts_spec g l : forall m,
    meta (m_db (puts g m l)) = meta (m_db m) /\ our_tick (puts g m l) = our_tick m /\
    their_tick (puts g m l) = their_tick m /\ max_tick (puts g m l) = max_tick m.
  Proof.
    induction l as [|[k v] l IH]; intro m; [cbn; tauto|]. rewrite puts_cons. destruct (IH (fst (m_put O g m k v))) as (A & B & C & D).
    cbn in *. tauto.
  Qed.

  Lemma puts_find_notin g l : forall m k, ~ In k (keys l) ->
    find k (data (m_db (puts g m l))) = find k (data (m_db m)).
  Proof.
    induction l as [|[k1 v1] l IH]; intros m k H; [reflexivity|].
    rewrite puts_cons.
    rewrite IH; [|intro C; apply H; now right].
    cbn. apply find_upd_other. intro C. apply H. now left.
  Qed.

  Lemma puts_find_in g l : forall m k v, NoDup (keys l) -> In (k, v) l ->
    find k (data (m_db (puts g m l))) =
    Some (pack O (merge_value O (our_tick m) (their_tick m) (max_tick m) (find k (data (m_db m))) v)).
  Proof.
    induction l as [|[k1 v1] l IH]; intros m k v ND H; [contradiction|].
    cbn [keys map] in ND. inversion ND as [|? ? Hn ND']; subst.
    rewrite puts_cons.
    destruct H as [H|H].
    - injection H as -> ->. rewrite puts_find_notin by exact Hn. cbn. apply find_upd_same.
    - assert (Nk : k <> k1).
      { intro C. subst. apply Hn. change k1 with (fst (k1, v)). now apply in_map. }
      rewrite (IH _ k v ND' H). cbn [m_put fst our_tick their_tick max_tick m_db data data_update].
      now rewrite find_upd_other.
  Qed.

  Lemma puts_keeps g l : forall m k, find k (data (m_db m)) <> None \/ In k (keys l) ->
    find k (data (m_db (puts g m l))) <> None.
  Proof.
    induction l as [|[k1 v1] l IH]; intros m k H.
    - destruct H as [H|[]]. exact H.
    - rewrite puts_cons. apply IH.
      destruct (bytes_eqb k k1) eqn:E.
      + apply bytes_eqb_eq in E. subst. left. cbn. rewrite find_upd_same. discriminate.
      + apply bytes_eqb_neq in E. destruct H as [H|[H|H]].
        * left. cbn. now rewrite find_upd_other.
        * cbn in H. congruence.
        * now right.
  Qed.

  Lemma puts_keys_subset g l : forall m k, In k (keys (data (m_db (puts g m l)))) ->
    In k (keys (data (m_db m))) \/ In k (keys l).
  Proof.
    induction l as [|[k1 v1] l IH]; intros m k H; [now left|].
    rewrite puts_cons in H.
    apply IH in H. destruct H as [H|H]; [|right; now right].
    cbn in H. apply in_keys_upd in H. destruct H as [->|H]; [right; now left | now left].
  Qed.

  Lemma puts_merged g l : forall m, l <> [] ->
    merged_entries (puts g m l) = Some (rd g (merged_entries m) + Z.of_nat (length l))%Z.
  Proof.
    induction l as [|[k1 v1] l IH]; intros m H; [contradiction|].
    rewrite puts_cons.
    destruct l as [|kv l'].
    - cbn. f_equal.
    - rewrite IH by discriminate. cbn [m_put fst merged_entries rd]. f_equal. cbn [length]. lia.
  Qed.

  Lemma close_data g uid m : data (m_db (m_close g uid m)) = data (m_db m).
  Proof. unfold m_close. destruct (_ =? _)%Z; reflexivity. Qed.

  (** ** the ticks of a fresh merger *)

  Lemma get_tick_count_range d : (get_tick_count d <= ULONG_MAX)%N.
  Proof.
    unfold get_tick_count. destruct (find mk_tick (meta d)) as [t|]; [|unfold ULONG_MAX; lia].
    destruct (stoul t) eqn:E; [now apply stoul_range in E | unfold ULONG_MAX; lia].
  Qed.

  Lemma tick_fold_range l : forall t, (t <= ULONG_MAX)%N -> (fold_left tick_step l t <= ULONG_MAX)%N.
  Proof.
    induction l as [|[k v] l IH]; intros t H; [exact H|]. cbn [fold_left]. apply IH.
    unfold tick_step. cbn [fst snd]. destruct (bytes_eqb k mk_tick); [|exact H].
    destruct (stoul v) eqn:E; [now apply stoul_range in E | exact H].
  Qed.

  Lemma snapshot_tick_range src : (snapshot_tick src <= ULONG_MAX)%N.
  Proof. apply tick_fold_range. unfold ULONG_MAX. lia. Qed.

  (** the merger after the metadata phase *)
  Lemma after_metas inits src dst :
    let m := metas (mk_merger inits dst) (meta src) in
    m_db m = dst /\ our_tick m = get_tick_count dst /\ their_tick m = snapshot_tick src /\
    max_tick m = N.max (get_tick_count dst) (snapshot_tick src) /\
    merged_entries m = (if inits then Some 0%Z else None) /\ m_uninit m = false.
  Proof.
    cbn zeta. destruct (metas_spec (meta src) (mk_merger inits dst)) as (A & B & C & D & E & F).
    cbn in A, B, C, D, E. repeat split; try assumption.
    rewrite F; [now rewrite E | cbn; lia].
  Qed.

  (** ** merge: keys are kept *)

  Theorem merge_keeps_our_keys inits g uid src dst k :
    find k (data dst) <> None -> find k (data (merge_db O inits g uid src dst)) <> None.
  Proof.
    intro H. unfold merge_db. rewrite merge_run_unfold, close_data. apply puts_keeps. left.
    destruct (after_metas inits src dst) as (A & _). cbn zeta in A. now rewrite A.
  Qed.

  Theorem merge_keeps_their_keys inits g uid src dst k :
    In k (keys (query_all (data src))) -> find k (data (merge_db O inits g uid src dst)) <> None.
  Proof.
    intro H. unfold merge_db. rewrite merge_run_unfold, close_data. apply puts_keeps. now right.
  Qed.

  Theorem merge_invents_no_key inits g uid src dst k :
    In k (keys (data (merge_db O inits g uid src dst))) ->
    In k (keys (data dst)) \/ In k (keys (query_all (data src))).
  Proof.
    unfold merge_db. rewrite merge_run_unfold, close_data. intro H. apply puts_keys_subset in H.
    destruct (after_metas inits src dst) as (A & _). cbn zeta in A. now rewrite A in H.
  Qed.

  (** ** merge: the value of a merged entry *)

  (** our commit count for [k] (0 when we do not have the entry) *)
  Definition our_commits (dst : db) (k : bytes) : Z :=
    match find k (data dst) with Some s => commits (unpack O s) | None => 0%Z end.

  (** the sign rule of [Put]: theirs wins only when strictly larger in magnitude *)
  Definition merged_commits (co cv : Z) : Z := if (Z.abs co <? Z.abs cv)%Z then cv else co.

  Lemma merge_value_obs our their mx ours v : (mx <= ULONG_MAX)%N ->
    let r := merge_value O our their mx ours v in
    commits r = merged_commits (match ours with Some s => commits (unpack O s) | None => 0%Z end) (commits (unpack O v))
    /\ tick r = mx /\ value_ok O r.
  Proof.
    intro Hmx. cbv zeta. unfold merge_value. cbv zeta.
    set (o0 := match ours with Some s => unpack O s | None => value0 O end).
    assert (Ho0 : commits o0 = match ours with Some s => commits (unpack O s) | None => 0%Z end)
      by (subst o0; destruct ours; reflexivity).
    assert (R0 : value_ok O o0) by (subst o0; destruct ours; [apply unpack_ok_range | apply value0_ok]).
    assert (Rv : value_ok O (unpack O v)) by apply unpack_ok_range.
    destruct R0 as [[R1 R2] R3]. destruct Rv as [[R4 R5] R6].
    unfold merged_commits. rewrite <- Ho0. unfold value_ok, int_range.
    destruct (tick (unpack O v) <? their)%N; destruct (tick o0 <? our)%N; cbn [commits tick dee set_dee set_commits];
      destruct (Z.abs (commits o0) <? Z.abs (commits (unpack O v)))%Z; cbn [commits tick dee set_dee set_commits];
      repeat split; try reflexivity; assumption.
  Qed.

  Lemma max_tick_range dst src : (N.max (get_tick_count dst) (snapshot_tick src) <= ULONG_MAX)%N.
  Proof. pose proof (get_tick_count_range dst). pose proof (snapshot_tick_range src). lia. Qed.

  Theorem merge_entry inits g uid src dst k v :
    NoDup (keys (data src)) -> In (k, v) (query_all (data src)) ->
    exists s, find k (data (merge_db O inits g uid src dst)) = Some s
      /\ commits (unpack O s) = merged_commits (our_commits dst k) (commits (unpack O v))
      /\ tick (unpack O s) = N.max (get_tick_count dst) (snapshot_tick src).
  Proof.
    intros ND H. unfold merge_db. rewrite merge_run_unfold, close_data.
    destruct (after_metas inits src dst) as (A & B & C & D & _). cbn zeta in A, B, C, D.
    rewrite (puts_find_in g _ _ k v (nodup_filter_keys _ _ ND) H). rewrite A, B, C, D.
    eexists. split; [reflexivity|].
    destruct (merge_value_obs (get_tick_count dst) (snapshot_tick src) _ (find k (data dst)) v (max_tick_range dst src)) as (E1 & E2 & E3).
    cbn zeta in E1, E2, E3.
    destruct (unpack_pack_commits O _ dee_ok E3) as [P1 P2].
    rewrite P1, P2, E1, E2. split; reflexivity.
  Qed.

  Theorem merge_untouched inits g uid src dst k :
    ~ In k (keys (query_all (data src))) ->
    find k (data (merge_db O inits g uid src dst)) = find k (data dst).
  Proof.
    intro H. unfold merge_db. rewrite merge_run_unfold, close_data, puts_find_notin by exact H.
    destruct (after_metas inits src dst) as (A & _). cbn zeta in A. now rewrite A.
  Qed.

  Lemma merged_commits_abs co cv : Z.abs (merged_commits co cv) = Z.max (Z.abs co) (Z.abs cv).
  Proof. unfold merged_commits. destruct (Z.abs co <? Z.abs cv)%Z eqn:E; [apply Z.ltb_lt in E | apply Z.ltb_ge in E]; lia. Qed.

  (** ** merge: the tick *)

  Lemma tick_after_close g uid m : (max_tick m <= ULONG_MAX)%N -> (rd g (merged_entries m) =? 0)%Z = false ->
    get_tick_count (m_db (m_close g uid m)) = max_tick m.
  Proof.
    intros Hr H. unfold m_close. rewrite H. cbn [m_db]. unfold get_tick_count. cbn [meta meta_update].
    rewrite find_upd_other by exact mk_tick_neq_user_id. rewrite find_upd_same. now rewrite stoul_print_N.
  Qed.

  Theorem merge_tick_max g uid src dst :
    query_all (data src) <> [] ->
    get_tick_count (merge_db O true g uid src dst) = N.max (get_tick_count dst) (snapshot_tick src).
  Proof.
    intro H. unfold merge_db. rewrite merge_run_unfold.
    destruct (after_metas true src dst) as (A & B & C & D & E & F). cbn zeta in *.
    destruct (puts_spec g (query_all (data src)) (metas (mk_merger true dst) (meta src))) as (P1 & P2 & P3 & P4).
    rewrite tick_after_close.
    - now rewrite P4, D.
    - rewrite P4, D. apply max_tick_range.
    - rewrite (puts_merged g _ _ H), E. cbn [rd]. apply Z.eqb_neq. destruct (query_all (data src)); [contradiction|]. cbn [length]. lia.
  Qed.

  (** nothing to put: the whole dictionary, metadata included, stays as it was *)
  Theorem merge_empty_snapshot_noop g uid src dst :
    query_all (data src) = [] -> merge_db O true g uid src dst = dst.
  Proof.
    intro H. unfold merge_db. rewrite merge_run_unfold, H. cbn [puts fold_left].
    destruct (after_metas true src dst) as (A & B & C & D & E & F). cbn zeta in *.
    unfold m_close. rewrite E. cbn [rd Z.eqb m_db]. exact A.
  Qed.

  (** ** merge: no uninitialised member is read when the constructor initialises the counter *)

  Lemma puts_init g g' l : forall m, merged_entries m <> None ->
    puts g m l = puts g' m l /\ m_uninit (puts g m l) = m_uninit m /\ merged_entries (puts g m l) <> None.
  Proof.
    induction l as [|[k v] l IH]; intros m H; [tauto|].
    rewrite !puts_cons.
    destruct (merged_entries m) as [z|] eqn:E; [|congruence].
    assert (S1 : fst (m_put O g m k v) = fst (m_put O g' m k v)) by (unfold m_put; rewrite E; reflexivity).
    rewrite <- S1. destruct (IH (fst (m_put O g m k v))) as (A & B & C); [cbn; discriminate|].
    repeat split; [exact A | | exact C]. rewrite B. cbn. rewrite E. cbn. now rewrite orb_false_r.
  Qed.

  Theorem merge_reads_initialised g g' uid src dst :
    m_uninit (merge_run O true g uid src dst) = false /\
    merge_run O true g uid src dst = merge_run O true g' uid src dst.
  Proof.
    rewrite !merge_run_unfold.
    destruct (after_metas true src dst) as (A & B & C & D & E & F). cbn zeta in *.
    destruct (puts_init g g' (query_all (data src)) (metas (mk_merger true dst) (meta src))) as (P1 & P2 & P3);
      [rewrite E; discriminate|].
    rewrite <- P1. set (m := puts g _ _) in *.
    destruct (merged_entries m) as [z|] eqn:Em; [|congruence].
    unfold m_close. rewrite Em. cbn [rd is_none]. rewrite P2, F. cbn [orb].
    split; [destruct (z =? 0)%Z; reflexivity | reflexivity].
  Qed.

  (** ** merge: idempotence on (key, commits, tick) *)

  Definition obs (m : amap) : list (bytes * Z * N) := map (entry_obs O) m.

  Lemma obs_find k m1 : forall m2, obs m1 = obs m2 ->
    option_map (fun s => (commits (unpack O s), tick (unpack O s))) (find k m1) =
    option_map (fun s => (commits (unpack O s), tick (unpack O s))) (find k m2).
  Proof.
    induction m1 as [|[k1 v1] m1 IH]; intros [|[k2 v2] m2] H; try discriminate; [reflexivity|].
    cbn [obs map] in H. injection H as H1 H2 H3 H4. cbn in H1. subst k2. cbn [find].
    destruct (bytes_eqb k k1); [cbn; cbn in H2, H3; congruence | now apply IH].
  Qed.

  Lemma obs_upd_same k v m s : find k m = Some s ->
    commits (unpack O v) = commits (unpack O s) -> tick (unpack O v) = tick (unpack O s) ->
    obs (upd k v m) = obs m.
  Proof.
    intros F Hc Ht. unfold upd, mem. rewrite F.
    induction m as [|[k1 v1] m IH]; [discriminate|]. cbn [find] in F. cbn [replace].
    destruct (bytes_eqb k k1) eqn:E.
    - injection F as ->. cbn [obs map]. f_equal. unfold entry_obs. cbn [fst snd]. now rewrite Hc, Ht.
    - cbn [obs map]. f_equal. now apply IH.
  Qed.

  Lemma puts_obs_stable g l : forall m (ref : amap),
    NoDup (keys l) -> obs (data (m_db m)) = obs ref ->
    (forall k v, In (k, v) l -> exists s, find k ref = Some s
        /\ Z.abs (commits (unpack O v)) <= Z.abs (commits (unpack O s)) /\ tick (unpack O s) = max_tick m)%Z ->
    (max_tick m <= ULONG_MAX)%N ->
    obs (data (m_db (puts g m l))) = obs ref.
  Proof.
    induction l as [|[k1 v1] l IH]; intros m ref ND Hobs Hall Hmx; [exact Hobs|].
    cbn [keys map] in ND. inversion ND as [|? ? Hn ND']; subst.
    rewrite puts_cons.
    apply IH; [exact ND' | | | exact Hmx].
    - destruct (Hall k1 v1 (or_introl eq_refl)) as (s & Fs & Hc & Ht).
      pose proof (obs_find k1 _ _ Hobs) as Hf. rewrite Fs in Hf. cbn [option_map] in Hf.
      destruct (find k1 (data (m_db m))) as [s0|] eqn:F0; [|discriminate]. cbn [option_map] in Hf. injection Hf as Hc0 Ht0.
      cbn [m_put fst m_db data data_update]. rewrite <- Hobs.
      destruct (merge_value_obs (our_tick m) (their_tick m) (max_tick m) (find k1 (data (m_db m))) v1 Hmx) as (E1 & E2 & E3).
      cbn zeta in E1, E2, E3. destruct (unpack_pack_commits O _ dee_ok E3) as [P1 P2].
      apply (obs_upd_same _ _ _ s0 F0).
      + rewrite P1, E1, F0. unfold merged_commits.
        destruct (Z.abs (commits (unpack O s0)) <? Z.abs (commits (unpack O v1)))%Z eqn:E; [|reflexivity].
        apply Z.ltb_lt in E. lia.
      + rewrite P2, E2. congruence.
    - intros k v H. apply Hall. now right.
  Qed.

  Theorem merge_idempotent g uid src dst :
    NoDup (keys (data src)) ->
    let r1 := merge_db O true g uid src dst in
    let r2 := merge_db O true g uid src r1 in
    dump O r2 = dump O r1 /\ get_tick_count r2 = get_tick_count r1.
  Proof.
    intro ND. cbn zeta.
    destruct (query_all (data src)) as [|kv0 l0] eqn:El.
    - rewrite !(merge_empty_snapshot_noop g uid src) by exact El. now split.
    - assert (Hne : query_all (data src) <> []) by (rewrite El; discriminate).
      set (r1 := merge_db O true g uid src dst).
      assert (T1 : get_tick_count r1 = N.max (get_tick_count dst) (snapshot_tick src)) by (apply merge_tick_max; exact Hne).
      assert (T2 : get_tick_count (merge_db O true g uid src r1) = N.max (get_tick_count r1) (snapshot_tick src))
        by (apply merge_tick_max; exact Hne).
      split; [|rewrite T2, T1; lia].
      unfold dump. change (map (entry_obs O)) with obs.
      unfold merge_db at 1. rewrite merge_run_unfold, close_data.
      destruct (after_metas true src r1) as (A & B & C & D & _). cbn zeta in A, B, C, D.
      apply puts_obs_stable.
      + apply nodup_filter_keys, ND.
      + now rewrite A.
      + intros k v H. destruct (merge_entry true g uid src dst k v ND H) as (s & Fs & Hc & Ht).
        exists s. fold r1 in Fs. split; [exact Fs|]. split.
        * rewrite Hc, merged_commits_abs. lia.
        * rewrite Ht, D, T1. lia.
      + rewrite D. apply max_tick_range.
  Qed.

  (** * UserDbImporter::Put *)

  Definition imported_commits (co cv : Z) : Z :=
    if (0 <? cv)%Z then Z.max co cv else if (cv <? 0)%Z then Z.min cv (- Z.abs co) else co.

  Theorem import_put_entry d k v :
    exists s, find k (data (imp_put O d k v)) = Some s
      /\ commits (unpack O s) = imported_commits (our_commits d k) (commits (unpack O v))
      /\ tick (unpack O s) = match find k (data d) with Some s0 => tick (unpack O s0) | None => 0%N end.
  Proof.
    unfold imp_put. cbn [data data_update]. rewrite find_upd_same. eexists. split; [reflexivity|].
    set (X := import_value O (find k (data d)) v).
    assert (HX : commits X = imported_commits (our_commits d k) (commits (unpack O v))
                 /\ tick X = match find k (data d) with Some s0 => tick (unpack O s0) | None => 0%N end
                 /\ value_ok O X).
    { subst X. unfold import_value, our_commits, imported_commits.
      set (o := match find k (data d) with Some s => unpack O s | None => value0 O end).
      assert (Ro : value_ok O o) by (subst o; destruct (find k (data d)); [apply unpack_ok_range | apply value0_ok]).
      assert (Rv : value_ok O (unpack O v)) by apply unpack_ok_range.
      assert (Co : match find k (data d) with Some s => commits (unpack O s) | None => 0%Z end = commits o)
        by (subst o; destruct (find k (data d)); reflexivity).
      assert (To : match find k (data d) with Some s0 => tick (unpack O s0) | None => 0%N end = tick o)
        by (subst o; destruct (find k (data d)); reflexivity).
      rewrite Co, To. destruct Ro as [Ro1 Ro2]. destruct Rv as [Rv1 Rv2].
      unfold value_ok, int_range, INT_MIN, INT_MAX in *.
      destruct (0 <? commits (unpack O v))%Z eqn:E1; [|destruct (commits (unpack O v) <? 0)%Z eqn:E2];
        cbn [commits tick set_commits]; (split; [reflexivity | split; [reflexivity | split; [lia | exact Ro2]]]). }
    destruct HX as (H1 & H2 & H3).
    destruct (unpack_pack_commits O X dee_ok H3) as [P1 P2]. rewrite P1, P2. now split.
  Qed.

  Theorem import_put_other d k v k' : k' <> k -> find k' (data (imp_put O d k v)) = find k' (data d).
  Proof. intro N. unfold imp_put. cbn [data data_update]. now apply find_upd_other. Qed.
End MergeProofs.
