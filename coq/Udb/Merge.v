(** C17 – the user db as a pair of maps, [DbSource]/[DbSink] pumping,
    [UserDbMerger] and [UserDbImporter]
    (src/rime/dict/user_db.cc:171-263, db_utils.cc, level_db.cc).

    A db is what LevelDb/TextDb present through the [Db] interface: a metadata
    map and a data map from byte strings to byte strings, iterated in memcmp
    order.  [upd] keeps a key-sorted list sorted; the laws the proofs use
    ([find_upd_same], [find_upd_other], keys stay duplicate-free) hold for
    every list, so no sortedness invariant is needed.

    [UserDbMerger::merged_entries_] is an [option Z]: [None] = never written.
    Whether the constructor (or a default member initialiser) writes it is the
    parameter [inits], instantiated in Properties_C17.v by the fact the
    translator gen/udb_inits.py extracts from the current source
    (Gen/Inits.v).  A read of [None] yields the storage's previous content
    [g] (a parameter of the run – the harness constructs the real merger over
    storage pre-filled with [g]) and raises the sticky flag [m_uninit].

    Model file: definitions only. *)
From Coq Require Import List NArith ZArith Bool.
From Coq.Strings Require Import Byte.
From RimeV Require Import Base.Bytes Udb.Value.
Import ListNotations.

(** * maps *)

Definition amap := list (bytes * bytes).

Fixpoint find (k : bytes) (m : amap) : option bytes :=
  match m with
  | [] => None
  | (k', v) :: r => if bytes_eqb k k' then Some v else find k r
  end.

Definition mem (k : bytes) (m : amap) : bool :=
  match find k m with Some _ => true | None => false end.

Fixpoint replace (k v : bytes) (m : amap) : amap :=
  match m with
  | [] => []
  | (k', v') :: r => if bytes_eqb k k' then (k', v) :: r else (k', v') :: replace k v r
  end.

Fixpoint insert (k v : bytes) (m : amap) : amap :=
  match m with
  | [] => [(k, v)]
  | (k', v') :: r => if bytes_ltb k k' then (k, v) :: m else (k', v') :: insert k v r
  end.

(** [Db::Update] / [std::map::operator[]=] / LevelDB Put *)
Definition upd (k v : bytes) (m : amap) : amap :=
  if mem k m then replace k v m else insert k v m.

Record db := { meta : amap; data : amap }.

Definition empty_db : db := {| meta := []; data := [] |}.
Definition meta_update (k v : bytes) (d : db) : db := {| meta := upd k v (meta d); data := data d |}.
Definition data_update (k v : bytes) (d : db) : db := {| meta := meta d; data := upd k v (data d) |}.

(** [LevelDb::QueryAll]: a cursor over the whole store positioned by
    [Jump(" ")], i.e. the data records whose key is not below " " (the
    metadata records live below, under the prefix byte 0x01). *)
Definition sp : bytes := [x20].
Definition query_all (m : amap) : amap := filter (fun kv => negb (bytes_ltb (fst kv) sp)) m.

(** metadata keys *)
Definition mk_tick : bytes := [x2f; x74; x69; x63; x6b].                               (* "/tick" *)
Definition mk_user_id : bytes := [x2f; x75; x73; x65; x72; x5f; x69; x64].             (* "/user_id" *)
Definition mk_db_name : bytes := [x2f; x64; x62; x5f; x6e; x61; x6d; x65].             (* "/db_name" *)
Definition mk_db_type : bytes := [x2f; x64; x62; x5f; x74; x79; x70; x65].             (* "/db_type" *)
Definition mk_rime_version : bytes :=
  [x2f; x72; x69; x6d; x65; x5f; x76; x65; x72; x73; x69; x6f; x6e].                   (* "/rime_version" *)
Definition s_userdb : bytes := [x75; x73; x65; x72; x64; x62].                         (* "userdb" *)

(** [get_tick_count]: the "/tick" metadata through stoul; 1 when absent or unparsable *)
Definition get_tick_count (d : db) : N :=
  match find mk_tick (meta d) with
  | Some t => match stoul t with Some n => n | None => 1%N end
  | None => 1%N
  end.

Section Merge.
  Variable O : dee_ops.
  Notation value := (value O).

  (** * UserDbMerger *)

  Record merger := {
    m_db : db;
    our_tick : N;
    their_tick : N;
    max_tick : N;
    merged_entries : option Z;
    m_uninit : bool;          (* an uninitialised member has been read *)
  }.

  (** constructor body: our_tick_, their_tick_, max_tick_ assigned; merged_entries_
      only if [inits] says so *)
  Definition mk_merger (inits : bool) (d : db) : merger :=
    let t := get_tick_count d in
    {| m_db := d; our_tick := t; their_tick := 0; max_tick := t;
       merged_entries := if inits then Some 0%Z else None; m_uninit := false |}.

  Definition rd (g : Z) (o : option Z) : Z := match o with Some z => z | None => g end.
  Definition is_none (o : option Z) : bool := match o with Some _ => false | None => true end.

  (** [MetaPut]: "/tick" sets their_tick_ and max_tick_ (an unparsable tick is swallowed) *)
  Definition m_meta_put (m : merger) (k v : bytes) : merger :=
    if bytes_eqb k mk_tick then
      match stoul v with
      | Some t =>
          {| m_db := m_db m; our_tick := our_tick m; their_tick := t; max_tick := N.max (our_tick m) t;
             merged_entries := merged_entries m; m_uninit := m_uninit m |}
      | None => m
      end
    else m.

  (** the value written by [Put] given our stored value (if any) and theirs *)
  Definition merge_value (our their mx : N) (ours : option bytes) (theirs : bytes) : value :=
    let v := unpack O theirs in
    let v := if (tick v <? their)%N then set_dee O v (d_decay O (dee v) their (tick v)) else v in
    let o := match ours with Some s => unpack O s | None => value0 O end in
    let o := if (tick o <? our)%N then set_dee O o (d_decay O (dee o) our (tick o)) else o in
    let o := if (Z.abs (commits o) <? Z.abs (commits v))%Z then set_commits O o (commits v) else o in
    {| commits := commits o; dee := d_max O (dee o) (dee v); tick := mx |}.

  (** [Put]: returns [db_->Update(..) && ++merged_entries_] *)
  Definition m_put (g : Z) (m : merger) (k v : bytes) : merger * bool :=
    let o := merge_value (our_tick m) (their_tick m) (max_tick m) (find k (data (m_db m))) v in
    let n := (rd g (merged_entries m) + 1)%Z in
    ({| m_db := data_update k (pack O o) (m_db m); our_tick := our_tick m; their_tick := their_tick m;
        max_tick := max_tick m; merged_entries := Some n;
        m_uninit := m_uninit m || is_none (merged_entries m) |},
     negb (n =? 0)%Z).

  (** [CloseMerge] (also run by the destructor); [uid] = Service's deployer.user_id *)
  Definition m_close (g : Z) (uid : bytes) (m : merger) : merger :=
    let u := m_uninit m || is_none (merged_entries m) in
    if (rd g (merged_entries m) =? 0)%Z then
      {| m_db := m_db m; our_tick := our_tick m; their_tick := their_tick m; max_tick := max_tick m;
         merged_entries := merged_entries m; m_uninit := u |}
    else
      {| m_db := meta_update mk_user_id uid (meta_update mk_tick (print_N (max_tick m)) (m_db m));
         our_tick := our_tick m; their_tick := their_tick m; max_tick := max_tick m;
         merged_entries := Some 0%Z; m_uninit := u |}.

  (** [Source::Dump] from a [DbSource] on [src] into the merger, then [CloseMerge]:
      metadata records first, then the data records of [QueryAll]. *)
  Definition merge_run (inits : bool) (g : Z) (uid : bytes) (src dst : db) : merger :=
    let m := mk_merger inits dst in
    let m := fold_left (fun m kv => m_meta_put m (fst kv) (snd kv)) (meta src) m in
    let m := fold_left (fun m kv => fst (m_put g m (fst kv) (snd kv))) (query_all (data src)) m in
    m_close g uid m.

  (** the number [Source::Dump] returns: accepted metadata records plus the [Put]s that
      returned true *)
  Definition merge_count (inits : bool) (g : Z) (src dst : db) : nat :=
    let m := mk_merger inits dst in
    let m := fold_left (fun m kv => m_meta_put m (fst kv) (snd kv)) (meta src) m in
    snd (fold_left (fun (mn : merger * nat) kv =>
                      let (m', ok) := m_put g (fst mn) (fst kv) (snd kv) in
                      (m', if ok then S (snd mn) else snd mn))
                   (query_all (data src)) (m, length (meta src))).

  Definition merge_db (inits : bool) (g : Z) (uid : bytes) (src dst : db) : db :=
    m_db (merge_run inits g uid src dst).

  (** * UserDbImporter::Put *)

  Definition import_value (ours : option bytes) (theirs : bytes) : value :=
    let v := unpack O theirs in
    let o := match ours with Some s => unpack O s | None => value0 O end in
    if (0 <? commits v)%Z then
      {| commits := Z.max (commits o) (commits v); dee := d_max O (dee o) (dee v); tick := tick o |}
    else if (commits v <? 0)%Z then
      set_commits O o (Z.min (commits v) (- Z.abs (commits o)))
    else o.

  Definition imp_put (d : db) (k v : bytes) : db :=
    data_update k (pack O (import_value (find k (data d)) v)) d.

  (** * DbSink *)
  Definition sink_meta_put (d : db) (k v : bytes) : db := meta_update k v d.
  Definition sink_put (d : db) (k v : bytes) : db := data_update k v d.

  (** * observations: (key, commits, tick) of every data record *)
  Definition entry_obs (kv : bytes * bytes) : bytes * Z * N :=
    let v := unpack O (snd kv) in (fst kv, commits v, tick v).
  Definition dump (d : db) : list (bytes * Z * N) := map entry_obs (data d).
End Merge.

