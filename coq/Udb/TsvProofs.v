(** C17 – the TSV snapshot codec round-trips well-formed records:
    reading what [TsvWriter] wrote with the userdb formatter feeds the sink
    exactly the metadata and data records that were written. *)
From Coq Require Import List NArith ZArith Bool Lia.
From Coq.Strings Require Import Byte.
From RimeV Require Import Base.Bytes Udb.Value Udb.ValueProofs Udb.Merge Udb.MergeProofs Udb.Tsv.
Import ListNotations.

(** * well-formedness (boolean, so that examples compute) *)

Definition no_tab_lf (s : bytes) : bool := forallb (fun b => negb (is_tab b) && negb (is_lf b)) s.
Definition ends_nonspace (s : bytes) : bool :=
  match last_byte s with Some b => negb (is_space b) | None => false end.

(** a stored value: no TAB/LF, non-empty, last byte not isspace (every [Pack] output is) *)
Definition wf_value (v : bytes) : bool := no_tab_lf v && ends_nonspace v.

(** the code part of a key: starts with a byte >= 0x20 other than '#', ends with a blank *)
Definition wf_code (c : bytes) : bool :=
  match c with
  | b :: _ => negb (Byte.eqb b HASH) && (32 <=? Byte.to_N b)%N
  | [] => false
  end && no_tab_lf c && match last_byte c with Some x20 => true | _ => false end.

Definition wf_text (t : bytes) : bool := negb (is_empty t) && no_tab_lf t.

(** key ::= code TAB text *)
Definition wf_key (k : bytes) : bool :=
  match split_on is_tab k with
  | [c; t] => wf_code c && wf_text t
  | _ => false
  end.

Definition wf_rec (kv : bytes * bytes) : bool := wf_key (fst kv) && wf_value (snd kv).
Definition wf_meta_rec (kv : bytes * bytes) : bool := no_tab_lf (fst kv) && wf_value (snd kv).

(** * string lemmas *)

Lemma is_tab_true b : is_tab b = true -> b = TAB.
Proof. apply Byte.byte_dec_bl. Qed.

Lemma join_tab_cons2 x y r : join_tab (x :: y :: r) = x ++ TAB :: join_tab (y :: r).
Proof. reflexivity. Qed.

Lemma join_split_tab s : join_tab (split_on is_tab s) = s.
Proof.
  induction s as [|b r IH]; [reflexivity|]. cbn [split_on].
  destruct (is_tab b) eqn:E.
  - apply is_tab_true in E. subst b.
    destruct (split_on is_tab r) as [|h t] eqn:S; [now apply split_on_nonempty in S|].
    rewrite join_tab_cons2, IH. reflexivity.
  - destruct (split_on is_tab r) as [|h t] eqn:S; [now apply split_on_nonempty in S|].
    destruct t as [|h2 t2].
    + cbn [join_tab] in *. now rewrite IH.
    + rewrite join_tab_cons2 in *. cbn [app]. now rewrite IH.
Qed.

Lemma split_pieces_clean sep s : Forall (Forall (fun b => sep b = false)) (split_on sep s).
Proof.
  induction s as [|b r IH]; [repeat constructor|]. cbn [split_on].
  destruct (sep b) eqn:E.
  - constructor; [constructor | exact IH].
  - destruct (split_on sep r) as [|h t]; [repeat constructor; exact E|].
    inversion IH as [|? ? H1 H2]; subst. constructor; [constructor; assumption | exact H2].
Qed.

Lemma no_tab_lf_spec s : no_tab_lf s = true ->
  Forall (fun b => is_tab b = false) s /\ Forall (fun b => is_lf b = false) s.
Proof.
  unfold no_tab_lf. rewrite forallb_forall. intro H. split; apply Forall_forall; intros b Hb;
    specialize (H b Hb); apply andb_true_iff in H; destruct H as [H1 H2];
    [now apply negb_true_iff in H1 | now apply negb_true_iff in H2].
Qed.

Lemma trim_right_id s : ends_nonspace s = true -> trim_right s = s.
Proof.
  unfold ends_nonspace. induction s as [|b r IH]; [discriminate|].
  cbn [last_byte trim_right]. destruct r as [|c r'].
  - intro H. apply negb_true_iff in H. cbn [trim_right]. now rewrite H.
  - intro H. rewrite (IH H). reflexivity.
Qed.

Lemma ends_nonspace_app a s : ends_nonspace s = true -> ends_nonspace (a ++ s) = true.
Proof.
  unfold ends_nonspace. intro H. induction a as [|b a IH]; [exact H|].
  cbn [app last_byte]. destruct (a ++ s) eqn:E; [|exact IH].
  cbn in IH. discriminate.
Qed.

Lemma lines_of_app a rest : Forall (fun b => is_lf b = false) a ->
  lines_of (a ++ LF :: rest) = a :: lines_of rest.
Proof.
  induction a as [|b a IH]; intro H; [reflexivity|].
  inversion H as [|? ? Hb Ha]; subst. cbn [app lines_of]. rewrite Hb, (IH Ha). reflexivity.
Qed.

Lemma wf_value_spec v : wf_value v = true ->
  Forall (fun b => is_tab b = false) v /\ Forall (fun b => is_lf b = false) v /\ ends_nonspace v = true.
Proof.
  unfold wf_value. intro H. apply andb_true_iff in H. destruct H as [H1 H2].
  destruct (no_tab_lf_spec _ H1). tauto.
Qed.

(** a well-formed key is [code ++ TAB :: text] with clean parts *)
Lemma wf_key_spec k : wf_key k = true ->
  exists c t, k = c ++ TAB :: t /\ split_on is_tab k = [c; t] /\ wf_code c = true /\ wf_text t = true.
Proof.
  unfold wf_key. intro H. pose proof (join_split_tab k) as J.
  destruct (split_on is_tab k) as [|c [|t [|x r]]] eqn:S; try discriminate.
  apply andb_true_iff in H. destruct H as [Hc Ht]. exists c, t. cbn [join_tab] in J. now rewrite <- J.
Qed.

Lemma wf_code_spec c : wf_code c = true ->
  exists b r, c = b :: r /\ Byte.eqb b HASH = false /\ (32 <= Byte.to_N b)%N /\
  Forall (fun b => is_tab b = false) c /\ Forall (fun b => is_lf b = false) c /\ last_byte c = Some x20.
Proof.
  unfold wf_code. intro H. apply andb_true_iff in H. destruct H as [H H3]. apply andb_true_iff in H. destruct H as [H1 H2].
  destruct c as [|b r]; [discriminate|]. apply andb_true_iff in H1. destruct H1 as [H1a H1b].
  apply negb_true_iff in H1a. apply N.leb_le in H1b. destruct (no_tab_lf_spec _ H2) as [T L].
  exists b, r. repeat split; try assumption.
  destruct (last_byte (b :: r)) as [x|]; [|discriminate]. destruct x; try discriminate. reflexivity.
Qed.

Lemma wf_text_spec t : wf_text t = true ->
  t <> [] /\ Forall (fun b => is_tab b = false) t /\ Forall (fun b => is_lf b = false) t.
Proof.
  unfold wf_text. intro H. apply andb_true_iff in H. destruct H as [H1 H2].
  destruct (no_tab_lf_spec _ H2). split; [destruct t; [discriminate|discriminate]|tauto].
Qed.

(** keys the writer accepts are the ones [QueryAll] iterates: not below " " *)
Lemma wf_key_not_below_sp k : wf_key k = true -> bytes_ltb k sp = false.
Proof.
  intro H. destruct (wf_key_spec _ H) as (c & t & -> & _ & Hc & _).
  destruct (wf_code_spec _ Hc) as (b & r & -> & _ & Hb & _).
  cbn [app bytes_ltb sp]. change (Byte.to_N x20) with 32%N.
  destruct (Byte.to_N b <? 32)%N eqn:E1; [apply N.ltb_lt in E1; lia|].
  destruct (32 <? Byte.to_N b)%N; [reflexivity|]. destruct (r ++ TAB :: t); reflexivity.
Qed.

(** * one written line read back *)

Section RoundTrip.
  Variable S : Type.
  Variable s_meta_put : S -> bytes -> bytes -> S * bool.
  Variable s_put : S -> bytes -> bytes -> S * bool.

  Notation rstate := (rstate S).
  Notation read_line := (read_line S userdb_parser s_meta_put s_put).

  Definition feed_meta (st : rstate) (kv : bytes * bytes) : rstate :=
    {| r_sink := fst (s_meta_put (r_sink st) (fst kv) (snd kv)); r_comment := r_comment st; r_count := r_count st |}.

  Definition feed_data (st : rstate) (kv : bytes * bytes) : rstate :=
    let (s', ok) := s_put (r_sink st) (fst kv) (snd kv) in
    {| r_sink := s'; r_comment := r_comment st; r_count := if ok then Datatypes.S (r_count st) else r_count st |}.

  Definition meta_content (kv : bytes * bytes) : bytes := HASH :: x40 :: fst kv ++ TAB :: snd kv.

  Lemma meta_line_content kv : meta_line kv = meta_content kv ++ [LF].
  Proof. unfold meta_line, meta_content. cbn [app]. now rewrite <- app_assoc. Qed.

  Lemma read_meta_line st kv : r_comment st = true -> wf_meta_rec kv = true ->
    read_line st (meta_content kv) = feed_meta st kv.
  Proof.
    destruct kv as [k v]. unfold wf_meta_rec. cbn [fst snd]. intros Hc H.
    apply andb_true_iff in H. destruct H as [Hk Hv].
    destruct (no_tab_lf_spec _ Hk) as [Tk _]. destruct (wf_value_spec _ Hv) as (Tv & _ & Ev).
    unfold read_line, meta_content. cbn [fst snd].
    rewrite trim_right_id.
    2:{ replace (HASH :: x40 :: k ++ TAB :: v) with ((HASH :: x40 :: k ++ [TAB]) ++ v)
          by (cbn [app]; now rewrite <- app_assoc).
        now apply ends_nonspace_app. }
    rewrite Hc. cbn [andb]. change (Byte.eqb HASH HASH) with true. cbv iota.
    rewrite split_on_app by (assumption || reflexivity).
    rewrite split_on_none by exact Tv. unfold feed_meta. cbn [fst snd]. now rewrite Hc.
  Qed.

  Definition data_content (kv : bytes * bytes) : bytes :=
    match split_on is_tab (fst kv) with
    | [c; t] => c ++ TAB :: t ++ TAB :: snd kv
    | _ => []
    end.

  Lemma data_line_content kv : wf_rec kv = true ->
    data_line userdb_formatter kv = data_content kv ++ [LF] /\
    Forall (fun b => is_lf b = false) (data_content kv).
  Proof.
    destruct kv as [k v]. unfold wf_rec. cbn [fst snd]. intro H.
    apply andb_true_iff in H. destruct H as [Hk Hv].
    destruct (wf_key_spec _ Hk) as (c & t & Ek & Sk & Hc & Ht).
    destruct (wf_code_spec _ Hc) as (b & r & Ec & _ & _ & _ & Lc & _).
    destruct (wf_text_spec _ Ht) as (Nt & _ & Lt).
    destruct (wf_value_spec _ Hv) as (_ & Lv & _).
    unfold data_line, data_content, userdb_formatter. cbn [fst snd]. rewrite Sk.
    assert (is_empty c = false) as -> by (subst c; reflexivity).
    assert (is_empty t = false) as -> by (destruct t; [contradiction|reflexivity]).
    cbn [orb join_tab]. split.
    - now rewrite <- !app_assoc.
    - apply Forall_app. split; [exact Lc|]. constructor; [reflexivity|].
      apply Forall_app. split; [exact Lt|]. constructor; [reflexivity|exact Lv].
  Qed.

  Lemma read_data_line st kv : wf_rec kv = true -> read_line st (data_content kv) = feed_data st kv.
  Proof.
    destruct kv as [k v]. unfold wf_rec. cbn [fst snd]. intro H.
    apply andb_true_iff in H. destruct H as [Hk Hv].
    destruct (wf_key_spec _ Hk) as (c & t & Ek & Sk & Hc & Ht).
    destruct (wf_code_spec _ Hc) as (b & r & Ec & Hb & _ & Tc & _ & Lastc).
    destruct (wf_text_spec _ Ht) as (Nt & Tt & _).
    destruct (wf_value_spec _ Hv) as (Tv & _ & Ev).
    unfold read_line, data_content, feed_data. cbn [fst snd]. rewrite Sk.
    rewrite trim_right_id.
    2:{ replace (c ++ TAB :: t ++ TAB :: v) with ((c ++ TAB :: t ++ [TAB]) ++ v)
          by (rewrite <- !app_assoc; cbn [app]; now rewrite <- app_assoc).
        now apply ends_nonspace_app. }
    rewrite Ec. cbn [app]. rewrite Hb, andb_false_r.
    change (b :: r ++ TAB :: t ++ TAB :: v) with ((b :: r) ++ TAB :: t ++ TAB :: v). rewrite <- Ec.
    rewrite split_on_app by (assumption || reflexivity).
    rewrite split_on_app by (assumption || reflexivity).
    rewrite split_on_none by exact Tv.
    unfold userdb_parser.
    assert (is_empty c = false) as -> by (subst c; reflexivity).
    assert (is_empty t = false) as -> by (destruct t; [contradiction|reflexivity]).
    cbn [orb]. rewrite Lastc. rewrite <- Ek. reflexivity.
  Qed.

  (** * a whole written file read back *)

  Lemma read_metas metas : forall st rest, r_comment st = true -> forallb wf_meta_rec metas = true ->
    fold_left read_line (lines_of (concat (map meta_line metas) ++ rest)) st =
    fold_left read_line (lines_of rest) (fold_left feed_meta metas st).
  Proof.
    induction metas as [|kv metas IH]; intros st rest Hc H; [reflexivity|].
    cbn [forallb] in H. apply andb_true_iff in H. destruct H as [H1 H2].
    cbn [map concat]. rewrite meta_line_content, <- !app_assoc. cbn [app].
    rewrite lines_of_app.
    2:{ destruct kv as [k v]. unfold wf_meta_rec in H1. cbn [fst snd] in H1. apply andb_true_iff in H1. destruct H1 as [Hk Hv].
        destruct (no_tab_lf_spec _ Hk) as [_ Lk]. destruct (wf_value_spec _ Hv) as (_ & Lv & _).
        unfold meta_content. cbn [fst snd]. constructor; [reflexivity|]. constructor; [reflexivity|].
        apply Forall_app. split; [exact Lk|]. constructor; [reflexivity|exact Lv]. }
    cbn [fold_left]. rewrite read_meta_line by assumption. apply IH; [exact Hc | exact H2].
  Qed.

  Lemma read_datas l : forall st, forallb wf_rec l = true ->
    fold_left read_line (lines_of (concat (map (data_line userdb_formatter) l))) st = fold_left feed_data l st.
  Proof.
    induction l as [|kv l IH]; intros st H; [reflexivity|].
    cbn [forallb] in H. apply andb_true_iff in H. destruct H as [H1 H2].
    cbn [map concat]. destruct (data_line_content kv H1) as [E L]. rewrite E, <- app_assoc. cbn [app].
    rewrite lines_of_app by exact L. cbn [fold_left]. rewrite read_data_line by exact H1. now apply IH.
  Qed.

  Lemma feed_meta_comment metas : forall st, r_comment (fold_left feed_meta metas st) = r_comment st.
  Proof. induction metas as [|kv m IH]; intro st; [reflexivity|]. cbn [fold_left]. now rewrite IH. Qed.

  (** an ordinary comment line ("# text", not "# no comment") changes nothing *)
  Lemma read_plain_comment st raw body : r_comment st = true ->
    trim_right raw = HASH :: x20 :: body -> bytes_eqb (HASH :: x20 :: body) (s_no_comment) = false ->
    read_line st raw = st.
  Proof.
    intros Hc Ht Hn. unfold read_line. rewrite Ht, Hc. cbn [andb]. change (Byte.eqb HASH HASH) with true. cbv iota.
    now rewrite Hn.
  Qed.

  (** reading a file made of a plain comment line, metadata lines and data lines *)
  Theorem read_written_file descr_raw body metas l st :
    r_comment st = true ->
    Forall (fun b => is_lf b = false) descr_raw ->
    trim_right descr_raw = HASH :: x20 :: body -> bytes_eqb (HASH :: x20 :: body) s_no_comment = false ->
    forallb wf_meta_rec metas = true -> forallb wf_rec l = true ->
    fold_left read_line
      (lines_of ((descr_raw ++ [LF]) ++ concat (map meta_line metas) ++ concat (map (data_line userdb_formatter) l))) st
    = fold_left feed_data l (fold_left feed_meta metas st).
  Proof.
    intros Hc Hl Ht Hn Hm Hd. rewrite <- app_assoc. cbn [app]. rewrite lines_of_app by exact Hl.
    cbn [fold_left]. rewrite (read_plain_comment st descr_raw body Hc Ht Hn).
    rewrite read_metas by assumption. apply read_datas. exact Hd.
  Qed.
End RoundTrip.

(** * the table format used by text export / import: one line written, then parsed *)

Lemma trim_right_snoc_blank s : trim_right (s ++ [x20]) = trim_right s.
Proof.
  induction s as [|b r IH]; [reflexivity|]. cbn [app trim_right]. now rewrite IH.
Qed.

Section TableLine.
  Variable O : dee_ops.

  (** the code of a key as export writes it: [core] without surrounding isspace bytes,
      followed by the one blank that ends every code *)
  Definition tidy (core : bytes) : Prop := core <> [] /\ drop_ws core = core /\ trim_right core = core.

  Theorem export_import_line core text v :
    tidy core -> text <> [] -> Forall (fun b => is_tab b = false) core -> Forall (fun b => is_tab b = false) text ->
    (0 <= commits (unpack O v))%Z ->
    let k := (core ++ [x20]) ++ TAB :: text in
    let c := commits (unpack O v) in
    table_formatter O k v = Some [text; core; print_Z c] /\
    table_parser O [text; core; print_Z c] = Some (k, pack O {| commits := c; dee := d_of_commits O c; tick := 0 |}).
  Proof.
    intros (Hne & Hd & Ht) Htext Tc Tt Hc. cbn zeta.
    assert (Sk : split_on is_tab ((core ++ [x20]) ++ TAB :: text) = [core ++ [x20]; text]).
    { rewrite split_on_app; [|apply Forall_app; split; [exact Tc | repeat constructor] | reflexivity].
      now rewrite split_on_none. }
    assert (Tr : trim (core ++ [x20]) = core).
    { unfold trim. destruct core as [|b r]; [contradiction|]. cbn [app] in *. cbn [drop_ws] in *.
      destruct (is_space b) eqn:E.
      - exfalso. clear -Hd E. assert (L : length (drop_ws r) <= length r).
        { clear. induction r as [|x r IH]; [reflexivity|]. cbn [drop_ws]. destruct (is_space x); cbn [length]; lia. }
        rewrite Hd in L. cbn [length] in L. lia.
      - change (b :: r ++ [x20]) with ((b :: r) ++ [x20]). rewrite trim_right_snoc_blank. exact Ht. }
    split.
    - unfold table_formatter. rewrite Sk.
      assert (is_empty (core ++ [x20]) = false) as -> by (destruct core; reflexivity).
      assert (is_empty text = false) as -> by (destruct text; [contradiction|reflexivity]).
      cbn [orb]. apply Z.ltb_ge in Hc. rewrite Hc, Tr. reflexivity.
    - unfold table_parser.
      assert (is_empty text = false) as -> by (destruct text; [contradiction|reflexivity]).
      assert (is_empty core = false) as -> by (destruct core; [contradiction|reflexivity]).
      cbn [orb].
      assert (is_empty (print_Z (commits (unpack O v))) = false) as ->.
      { pose proof (print_Z_nonempty (commits (unpack O v))). destruct (print_Z _); [contradiction|reflexivity]. }
      rewrite stoi_print_Z by apply unpack_ok_range.
      assert (trim core = core) as -> by (unfold trim; now rewrite Hd).
      rewrite <- app_assoc. reflexivity.
  Qed.
End TableLine.

(** * reading a written file, generic in parser, formatter and sink *)

Lemma trim_right_keeps2 a b r : is_space a = false -> is_space b = false ->
  exists r', trim_right (a :: b :: r) = a :: b :: r'.
Proof.
  intros Ha Hb. change (trim_right (a :: b :: r)) with
    (match trim_right (b :: r) with [] => if is_space a then [] else [a] | r' => a :: r' end).
  change (trim_right (b :: r)) with (match trim_right r with [] => if is_space b then [] else [b] | r' => b :: r' end).
  destruct (trim_right r) as [|x r'']; [rewrite Hb; now exists [] | now exists (x :: r'')].
Qed.

Lemma ends_nonspace_clean s : s <> [] -> Forall (fun b => is_space b = false) s -> ends_nonspace s = true.
Proof.
  unfold ends_nonspace. induction s as [|b r IH]; intros Hn H; [contradiction|].
  inversion H as [|? ? Hb Hr]; subst. cbn [last_byte]. destruct r as [|c r']; [now rewrite Hb|].
  apply IH; [discriminate | exact Hr].
Qed.

Definition no_lf (s : bytes) : bool := forallb (fun b => negb (is_lf b)) s.

Lemma no_lf_spec s : no_lf s = true -> Forall (fun b => is_lf b = false) s.
Proof.
  unfold no_lf. rewrite forallb_forall. intro H. apply Forall_forall. intros b Hb. specialize (H b Hb).
  now apply negb_true_iff in H.
Qed.

Section ReadGeneric.
  Variable S : Type.
  Variable parser : list bytes -> option (bytes * bytes).
  Variable s_meta_put : S -> bytes -> bytes -> S * bool.
  Variable s_put : S -> bytes -> bytes -> S * bool.
  Variable fmt : bytes -> bytes -> option (list bytes).
  Variable step : rstate S -> bytes * bytes -> rstate S.

  Notation read_line := (read_line S parser s_meta_put s_put).

  (** the sink ignores metadata (UserDbImporter::MetaPut) *)
  Hypothesis meta_ignored : forall s k v, fst (s_meta_put s k v) = s.

  Lemma read_meta_ignored st r : r_comment st = true -> read_line st (HASH :: x40 :: r) = st.
  Proof.
    intro Hc. destruct (trim_right_keeps2 HASH x40 r eq_refl eq_refl) as [r' E].
    unfold read_line. rewrite E, Hc. cbn [andb]. change (Byte.eqb HASH HASH) with true. cbv iota.
    destruct (split_on is_tab r') as [|k [|v [|x y]]]; try reflexivity.
    rewrite meta_ignored. destruct st as [s0 c0 n0]. cbn in *. now subst.
  Qed.

  Lemma read_metas_ignored metas : forall st rest, r_comment st = true ->
    forallb (fun kv => no_lf (fst kv) && no_lf (snd kv)) metas = true ->
    fold_left read_line (lines_of (concat (map meta_line metas) ++ rest)) st = fold_left read_line (lines_of rest) st.
  Proof.
    induction metas as [|[k v] metas IH]; intros st rest Hc H; [reflexivity|].
    cbn [forallb fst snd] in H. apply andb_true_iff in H. destruct H as [H1 H2].
    apply andb_true_iff in H1. destruct H1 as [Lk Lv]. apply no_lf_spec in Lk, Lv.
    cbn [map concat]. rewrite meta_line_content, <- !app_assoc. cbn [app].
    rewrite lines_of_app.
    2:{ unfold meta_content. cbn [fst snd]. constructor; [reflexivity|]. constructor; [reflexivity|].
        apply Forall_app. split; [exact Lk|]. constructor; [reflexivity | exact Lv]. }
    unfold meta_content. cbn [fst snd].
    cbn [fold_left]. rewrite read_meta_ignored by exact Hc. now apply IH.
  Qed.

  (** a record is either skipped by the formatter, or written as one LF-free line that the reader
      turns into [step] *)
  Definition line_ok (kv : bytes * bytes) : Prop :=
    (data_line fmt kv = [] /\ forall st, step st kv = st) \/
    (exists c, data_line fmt kv = c ++ [LF] /\ Forall (fun b => is_lf b = false) c /\ forall st, read_line st c = step st kv).

  Lemma read_datas_gen l : Forall line_ok l -> forall st,
    fold_left read_line (lines_of (concat (map (data_line fmt) l))) st = fold_left step l st.
  Proof.
    induction 1 as [|kv l Hk Hl IH]; intro st; [reflexivity|].
    cbn [map concat fold_left]. destruct Hk as [[E Hs]|(c & E & Lc & Hr)].
    - rewrite E, Hs. cbn [app]. apply IH.
    - rewrite E, <- app_assoc. cbn [app]. rewrite lines_of_app by exact Lc. cbn [fold_left]. rewrite Hr. apply IH.
  Qed.

  Theorem read_file_gen descr_raw body metas l st :
    r_comment st = true ->
    Forall (fun b => is_lf b = false) descr_raw ->
    trim_right descr_raw = HASH :: x20 :: body -> bytes_eqb (HASH :: x20 :: body) s_no_comment = false ->
    forallb (fun kv => no_lf (fst kv) && no_lf (snd kv)) metas = true -> Forall line_ok l ->
    fold_left read_line (lines_of ((descr_raw ++ [LF]) ++ concat (map meta_line metas) ++ concat (map (data_line fmt) l))) st
    = fold_left step l st.
  Proof.
    intros Hc Hl Ht Hn Hm Hd. rewrite <- app_assoc. cbn [app]. rewrite lines_of_app by exact Hl.
    cbn [fold_left].
    assert (E : read_line st descr_raw = st).
    { unfold read_line. rewrite Ht, Hc. cbn [andb]. change (Byte.eqb HASH HASH) with true. cbv iota. now rewrite Hn. }
    rewrite E, read_metas_ignored by assumption. now apply read_datas_gen.
  Qed.
End ReadGeneric.

(** * the table format: what Export writes, Import reads *)

Definition starts_with_hash (s : bytes) : bool := match s with b :: _ => Byte.eqb b HASH | [] => false end.

(** keys that survive text export: code = core ++ " " with a tidy core, text not starting with '#' *)
Definition wf_export_key (k : bytes) : bool :=
  match split_on is_tab k with
  | [code; text] =>
      let core := removelast code in
      bytes_eqb (core ++ [x20]) code && negb (is_empty core) && bytes_eqb (drop_ws core) core
      && bytes_eqb (trim_right core) core && no_lf core && wf_text text && negb (starts_with_hash text)
  | _ => false
  end.

Lemma wf_export_key_spec k : wf_export_key k = true ->
  exists core text, k = (core ++ [x20]) ++ TAB :: text /\ tidy core /\ text <> [] /\
    Forall (fun b => is_tab b = false) core /\ Forall (fun b => is_tab b = false) text /\
    Forall (fun b => is_lf b = false) core /\ Forall (fun b => is_lf b = false) text /\ starts_with_hash text = false.
Proof.
  unfold wf_export_key. intro H. pose proof (join_split_tab k) as J. pose proof (split_pieces_clean is_tab k) as P.
  destruct (split_on is_tab k) as [|code [|text [|x r]]] eqn:Sk; try discriminate.
  apply andb_true_iff in H. destruct H as [H A7]. apply andb_true_iff in H. destruct H as [H A6].
  apply andb_true_iff in H. destruct H as [H A5]. apply andb_true_iff in H. destruct H as [H A4].
  apply andb_true_iff in H. destruct H as [H A3]. apply andb_true_iff in H. destruct H as [A1 A2].
  apply bytes_eqb_eq in A1, A3, A4. apply negb_true_iff in A2, A7.
  destruct (wf_text_spec _ A6) as (Nt & Tt & Lt).
  pose proof (Forall_inv P) as Pc. cbn beta in Pc.
  exists (removelast code), text. cbn [join_tab] in J. rewrite A1.
  split; [now symmetry|]. split; [|split; [exact Nt|]].
  - split; [|split; assumption]. destruct (removelast code); [discriminate A2 | discriminate].
  - split; [rewrite <- A1 in Pc; apply Forall_app in Pc; apply Pc|].
    split; [exact Tt|]. split; [now apply no_lf_spec|]. split; [exact Lt | exact A7].
Qed.

Section TableFile.
  Variable O : dee_ops.

  Definition imp_sink_meta (d : db) (k v : bytes) : db * bool := (d, true).
  Definition imp_sink_put (d : db) (k v : bytes) : db * bool := (imp_put O d k v, true).

  (** what one exported record does to the importing dictionary *)
  Definition exported_value (v : bytes) : bytes :=
    let c := commits (unpack O v) in pack O {| commits := c; dee := d_of_commits O c; tick := 0 |}.

  Definition import_step (st : rstate db) (kv : bytes * bytes) : rstate db :=
    if (commits (unpack O (snd kv)) <? 0)%Z then st
    else {| r_sink := imp_put O (r_sink st) (fst kv) (exported_value (snd kv));
            r_comment := r_comment st; r_count := Datatypes.S (r_count st) |}.

  Lemma table_line_ok kv : wf_export_key (fst kv) = true ->
    line_ok db (table_parser O) imp_sink_meta imp_sink_put (table_formatter O) import_step kv.
  Proof.
    destruct kv as [k v]. cbn [fst]. intro H.
    destruct (wf_export_key_spec _ H) as (core & text & Ek & Ty & Nt & Tc & Tt & Lc & Lt & Hh).
    destruct (commits (unpack O v) <? 0)%Z eqn:Ec.
    - left. split; [|intro st; unfold import_step; cbn [snd]; now rewrite Ec].
      unfold data_line, table_formatter. cbn [fst snd]. subst k.
      rewrite split_on_app; [|apply Forall_app; split; [exact Tc | repeat constructor] | reflexivity].
      rewrite split_on_none by exact Tt.
      assert (is_empty (core ++ [x20]) = false) as -> by (destruct core; reflexivity).
      assert (is_empty text = false) as -> by (destruct text; [contradiction|reflexivity]).
      cbn [orb]. now rewrite Ec.
    - right. apply Z.ltb_ge in Ec.
      destruct (export_import_line O core text v Ty Nt Tc Tt Ec) as [F P]. cbn zeta in F, P. rewrite <- Ek in F, P.
      set (c := commits (unpack O v)) in *.
      exists (text ++ TAB :: core ++ TAB :: print_Z c).
      assert (Cl : Forall (fun b => is_space b = false) (print_Z c))
        by (eapply Forall_impl; [|apply print_Z_clean]; intros b [Hb _]; exact Hb).
      assert (Tz : Forall (fun b => is_tab b = false) (print_Z c))
        by (eapply Forall_impl; [|exact Cl]; intros b Hb; destruct b; try reflexivity; discriminate Hb).
      assert (Lz : Forall (fun b => is_lf b = false) (print_Z c))
        by (eapply Forall_impl; [|exact Cl]; intros b Hb; destruct b; try reflexivity; discriminate Hb).
      split; [|split].
      + unfold data_line. cbn [fst snd]. rewrite F. cbn [join_tab]. now rewrite <- !app_assoc.
      + apply Forall_app. split; [exact Lt|]. constructor; [reflexivity|].
        apply Forall_app. split; [exact Lc|]. constructor; [reflexivity|exact Lz].
      + intro st. unfold read_line.
        rewrite trim_right_id.
        2:{ replace (text ++ TAB :: core ++ TAB :: print_Z c) with ((text ++ TAB :: core ++ [TAB]) ++ print_Z c)
              by (rewrite <- !app_assoc; cbn [app]; now rewrite <- app_assoc).
            apply ends_nonspace_app, ends_nonspace_clean; [apply print_Z_nonempty | exact Cl]. }
        destruct text as [|b tr]; [contradiction|]. cbn [starts_with_hash] in Hh. cbn [app]. rewrite Hh, andb_false_r.
        change (b :: tr ++ TAB :: core ++ TAB :: print_Z c) with ((b :: tr) ++ TAB :: core ++ TAB :: print_Z c).
        rewrite split_on_app by (assumption || reflexivity).
        rewrite split_on_app by (assumption || reflexivity).
        rewrite split_on_none by exact Tz.
        match goal with |- match ?t with _ => _ end = _ => replace t with (Some (k, pack O {| commits := c; dee := d_of_commits O c; tick := 0 |})) by (symmetry; exact P) end.
        unfold import_step, imp_sink_put, exported_value. cbn [fst snd]. fold c.
        apply Z.ltb_ge in Ec. now rewrite Ec.
  Qed.
End TableFile.
