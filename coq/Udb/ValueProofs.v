(** C17 – facts about the value codec: byte-string equality, decimal
    print/parse round trips, [unpack (pack v)] keeps commits and tick. *)
From Coq Require Import List NArith ZArith Bool Lia.
From Coq.Strings Require Import Byte.
From RimeV Require Import Base.Bytes Udb.Value.
Import ListNotations.

(** * byte strings *)

Lemma byte_eqb_refl b : Byte.eqb b b = true.
Proof. now apply Byte.byte_dec_lb. Qed.

Lemma bytes_eqb_eq a b : bytes_eqb a b = true <-> a = b.
Proof.
  revert b. induction a as [|x a IH]; intros [|y b]; cbn [bytes_eqb]; split; intro H;
    try reflexivity; try discriminate.
  - apply andb_true_iff in H. destruct H as [H1 H2]. apply Byte.byte_dec_bl in H1. apply IH in H2. now subst.
  - injection H as -> ->. apply andb_true_iff. split; [apply byte_eqb_refl | now apply IH].
Qed.

Lemma bytes_eqb_refl a : bytes_eqb a a = true.
Proof. now apply bytes_eqb_eq. Qed.

Lemma bytes_eqb_neq a b : bytes_eqb a b = false <-> a <> b.
Proof.
  split; intro H.
  - intro E. apply bytes_eqb_eq in E. congruence.
  - destruct (bytes_eqb a b) eqn:E; [|reflexivity]. apply bytes_eqb_eq in E. contradiction.
Qed.

Lemma bytes_eqb_sym a b : bytes_eqb a b = bytes_eqb b a.
Proof.
  destruct (bytes_eqb a b) eqn:E.
  - apply bytes_eqb_eq in E. subst. symmetry. apply bytes_eqb_refl.
  - symmetry. apply bytes_eqb_neq. apply bytes_eqb_neq in E. congruence.
Qed.

(** * decimal digits *)

Lemma digit_byte_spec d : (d < 10)%N ->
  is_digit (digit_byte d) = true /\ digit_val (digit_byte d) = d /\ is_sp (digit_byte d) = false
  /\ is_space (digit_byte d) = false /\ Byte.eqb (digit_byte d) x3d = false /\ Byte.eqb (digit_byte d) x09 = false
  /\ Byte.eqb (digit_byte d) x0a = false /\ digit_byte d <> x2d /\ digit_byte d <> x2b.
Proof.
  intro H.
  assert (C : (d = 0 \/ d = 1 \/ d = 2 \/ d = 3 \/ d = 4 \/ d = 5 \/ d = 6 \/ d = 7 \/ d = 8 \/ d = 9)%N) by lia.
  repeat (destruct C as [-> | C]); try subst d; vm_compute; repeat split; discriminate.
Qed.

Definition all_digits (s : bytes) : Prop := Forall (fun b => is_digit b = true) s.

Lemma digits_acc_app acc seen s r :
  all_digits s ->
  digits_acc acc seen (s ++ r) =
  digits_acc (fold_left (fun a b => a * 10 + digit_val b)%N s acc) (seen || negb (match s with [] => true | _ => false end)) r.
Proof.
  revert acc seen. induction s as [|b s IH]; intros acc seen H.
  - cbn. now rewrite orb_false_r.
  - inversion H as [|? ? Hb Hs]; subst. cbn [app digits_acc fold_left]. rewrite Hb.
    rewrite (IH _ _ Hs). cbn. destruct s; cbn; now rewrite ?orb_true_r.
Qed.

Lemma dec_digits_spec f : forall n, (n < 2 ^ N.of_nat (S f))%N ->
  all_digits (dec_digits (S f) n) /\ dec_digits (S f) n <> [] /\
  forall acc, fold_left (fun a b => a * 10 + digit_val b)%N (dec_digits (S f) n) acc = (acc * 10 ^ N.of_nat (length (dec_digits (S f) n)) + n)%N.
Proof.
  induction f as [|f IH]; intros n H.
  - assert (E : (n < 10)%N) by (change (2 ^ N.of_nat 1)%N with 2%N in H; lia).
    cbn [dec_digits]. apply N.ltb_lt in E. rewrite E. apply N.ltb_lt in E.
    destruct (digit_byte_spec n E) as (D1 & D2 & _).
    repeat split.
    + constructor; [exact D1 | constructor].
    + discriminate.
    + intro acc. cbn [fold_left length]. rewrite D2. change (N.of_nat 1) with 1%N. rewrite N.pow_1_r. reflexivity.
  - remember (S f) as f1 eqn:Ef. cbn [dec_digits]. destruct (n <? 10)%N eqn:E.
    + apply N.ltb_lt in E. destruct (digit_byte_spec n E) as (D1 & D2 & _).
      repeat split.
      * constructor; [exact D1 | constructor].
      * discriminate.
      * intro acc. cbn [fold_left length]. rewrite D2. change (N.of_nat 1) with 1%N. rewrite N.pow_1_r. reflexivity.
    + apply N.ltb_ge in E.
      assert (Hq : (n / 10 < 2 ^ N.of_nat f1)%N).
      { rewrite Nat2N.inj_succ, N.pow_succ_r' in H.
        apply N.div_lt_upper_bound; [lia|]. lia. }
      destruct (IH _ Hq) as (A1 & A2 & A3).
      assert (Hm : (n mod 10 < 10)%N) by (apply N.mod_lt; lia).
      destruct (digit_byte_spec _ Hm) as (D1 & D2 & _).
      repeat split.
      * apply Forall_app. split; [exact A1 | constructor; [exact D1 | constructor]].
      * intro C. apply app_eq_nil in C. destruct C as [_ C]. discriminate.
      * intro acc. rewrite fold_left_app. cbn [fold_left]. rewrite A3, D2.
        rewrite app_length. cbn [length]. rewrite Nat.add_1_r, Nat2N.inj_succ, N.pow_succ_r'.
        pose proof (N.div_mod n 10). lia.
Qed.

Lemma print_N_bound n : (n < 2 ^ N.of_nat (S (N.to_nat (N.log2 n))))%N.
Proof.
  rewrite Nat2N.inj_succ, N2Nat.id.
  destruct n as [|p]; [cbn; lia|]. apply N.log2_spec. lia.
Qed.

Lemma print_N_digits n : all_digits (print_N n) /\ print_N n <> [].
Proof. destruct (dec_digits_spec _ _ (print_N_bound n)) as (A & B & _). now split. Qed.

Lemma print_N_value n : fold_left (fun a b => a * 10 + digit_val b)%N (print_N n) 0%N = n.
Proof. destruct (dec_digits_spec _ _ (print_N_bound n)) as (_ & _ & C). unfold print_N. rewrite C. lia. Qed.

Lemma digits_acc_print_N n : digits_acc 0 false (print_N n) = (n, true).
Proof.
  destruct (print_N_digits n) as [A B].
  rewrite <- (app_nil_r (print_N n)). rewrite (digits_acc_app _ _ _ _ A). cbn [digits_acc].
  rewrite print_N_value. destruct (print_N n); [contradiction|reflexivity].
Qed.

Lemma all_digits_first_not_space_sign s : all_digits s -> s <> [] ->
  drop_ws s = s /\ take_sign s = (false, s).
Proof.
  intros A B. destruct s as [|b s]; [contradiction|]. inversion A as [|? ? Hb _]; subst.
  destruct b; try discriminate Hb; now split.
Qed.

Lemma parse_int_print_N n : parse_int (print_N n) = Some (false, n).
Proof.
  destruct (print_N_digits n) as [A B]. unfold parse_int.
  destruct (all_digits_first_not_space_sign _ A B) as [-> ->].
  now rewrite digits_acc_print_N.
Qed.

Lemma stoul_print_N n : (n <= ULONG_MAX)%N -> stoul (print_N n) = Some n.
Proof.
  intro H. unfold stoul. rewrite parse_int_print_N.
  apply N.leb_le in H. now rewrite H.
Qed.

Definition int_range (z : Z) : Prop := (INT_MIN <= z <= INT_MAX)%Z.

Lemma parse_int_print_Z z :
  parse_int (print_Z z) = Some ((z <? 0)%Z, Z.abs_N z).
Proof.
  unfold print_Z. destruct (z <? 0)%Z eqn:E.
  - unfold parse_int. cbn [drop_ws is_space take_sign].
    now rewrite digits_acc_print_N.
  - apply parse_int_print_N.
Qed.

Lemma stoi_print_Z z : int_range z -> stoi (print_Z z) = Some z.
Proof.
  intros [H1 H2]. unfold stoi. rewrite parse_int_print_Z.
  assert (E : (if (z <? 0)%Z then (- Z.of_N (Z.abs_N z))%Z else Z.of_N (Z.abs_N z)) = z).
  { destruct (z <? 0)%Z eqn:E; rewrite N2Z.inj_abs_N; [apply Z.ltb_lt in E | apply Z.ltb_ge in E]; lia. }
  rewrite E.
  apply Z.leb_le in H1, H2. now rewrite H1, H2.
Qed.

(** every value [stoi] returns is an [int] *)
Lemma stoi_range s z : stoi s = Some z -> int_range z.
Proof.
  unfold stoi. destruct (parse_int s) as [[neg v]|]; [|discriminate].
  destruct (_ && _) eqn:E; [|discriminate]. intro H. injection H as <-.
  apply andb_true_iff in E. destruct E as [E1 E2]. apply Z.leb_le in E1, E2. now split.
Qed.

Lemma stoul_range s n : stoul s = Some n -> (n <= ULONG_MAX)%N.
Proof.
  unfold stoul. destruct (parse_int s) as [[neg v]|]; [|discriminate].
  destruct (v <=? ULONG_MAX)%N eqn:E; [|discriminate]. apply N.leb_le in E.
  intro H.
  assert (Hn : n = if neg then ((ULONG_MAX + 1 - v) mod (ULONG_MAX + 1))%N else v) by congruence.
  clear H. destruct neg; subst n; [|exact E].
  assert (Hm : ((ULONG_MAX + 1 - v) mod (ULONG_MAX + 1) < ULONG_MAX + 1)%N) by (apply N.mod_lt; discriminate).
  lia.
Qed.

(** printed numbers contain no blank, TAB, LF or '=' *)
Definition clean (s : bytes) : Prop :=
  Forall (fun b => is_space b = false /\ Byte.eqb b x3d = false) s.

Lemma all_digits_clean s : all_digits s -> clean s.
Proof.
  apply Forall_impl. intros b H. destruct b; try discriminate H; now split.
Qed.

Lemma print_N_clean n : clean (print_N n).
Proof. apply all_digits_clean, print_N_digits. Qed.

Lemma print_Z_clean z : clean (print_Z z).
Proof.
  unfold print_Z. destruct (z <? 0)%Z; [constructor; [now split|]|]; apply print_N_clean.
Qed.

Lemma print_N_nonempty n : print_N n <> [].
Proof. apply print_N_digits. Qed.

Lemma print_Z_nonempty z : print_Z z <> [].
Proof. unfold print_Z. destruct (z <? 0)%Z; [discriminate | apply print_N_nonempty]. Qed.

(** * split *)

Lemma split_on_none sep s : Forall (fun b => sep b = false) s -> split_on sep s = [s].
Proof.
  induction s as [|b s IH]; intro H; [reflexivity|].
  inversion H as [|? ? Hb Hs]; subst. cbn [split_on]. rewrite Hb, (IH Hs). reflexivity.
Qed.

Lemma split_on_app sep a c rest :
  Forall (fun b => sep b = false) a -> sep c = true ->
  split_on sep (a ++ c :: rest) = a :: split_on sep rest.
Proof.
  intros Ha Hc. induction a as [|b a IH]; cbn [app split_on].
  - now rewrite Hc.
  - inversion Ha as [|? ? Hb Hs]; subst. rewrite Hb, (IH Hs). reflexivity.
Qed.

Lemma split_on_nonempty sep s : split_on sep s <> [].
Proof. destruct s as [|b s]; cbn; [discriminate|]. destruct (sep b); [discriminate|]. destruct (split_on sep s); discriminate. Qed.

(** * unpack after pack *)

Section RoundTrip.
  Variable O : dee_ops.

  (** what the theorems need of [operator<<(double)] and [stod]: the printed text has no
      blank and parses again (not necessarily to the same double) *)
  Definition dee_print_ok : Prop :=
    forall d, Forall (fun b => is_sp b = false) (d_print O d) /\ d_parse O (d_print O d) <> None.

  Definition value_ok (v : value O) : Prop := int_range (commits v) /\ (tick v <= ULONG_MAX)%N.

  Lemma clean_no_sp s : clean s -> Forall (fun b => is_sp b = false) s.
  Proof. apply Forall_impl. intros b [H _]. destruct b; try discriminate H; reflexivity. Qed.

  Lemma unpack_item_c v x : unpack_item O v (x63 :: x3d :: x) = option_map (set_commits O v) (stoi x).
  Proof. reflexivity. Qed.
  Lemma unpack_item_d v x : unpack_item O v (x64 :: x3d :: x) = option_map (set_dee O v) (d_parse O x).
  Proof. reflexivity. Qed.
  Lemma unpack_item_t v x : unpack_item O v (x74 :: x3d :: x) = option_map (set_tick O v) (stoul x).
  Proof. reflexivity. Qed.

  Lemma unpack_pack (v : value O) : dee_print_ok -> value_ok v ->
    exists d, unpack_into O (value0 O) (pack O v) = ({| commits := commits v; dee := d; tick := tick v |}, true).
  Proof.
    intros HO [Hc Ht]. destruct (HO (dee v)) as [Hd1 Hd2].
    unfold unpack_into, pack.
    assert (S1 : split_on is_sp ([x63; x3d] ++ print_Z (commits v) ++ [x20; x64; x3d] ++ d_print O (dee v) ++ [x20; x74; x3d] ++ print_N (tick v))
                 = [[x63; x3d] ++ print_Z (commits v); [x64; x3d] ++ d_print O (dee v); [x74; x3d] ++ print_N (tick v)]).
    { replace ([x63; x3d] ++ print_Z (commits v) ++ [x20; x64; x3d] ++ d_print O (dee v) ++ [x20; x74; x3d] ++ print_N (tick v))
        with (([x63; x3d] ++ print_Z (commits v)) ++ x20 :: (([x64; x3d] ++ d_print O (dee v)) ++ x20 :: ([x74; x3d] ++ print_N (tick v))))
        by (rewrite <- !app_assoc; reflexivity).
      rewrite split_on_app; [|repeat constructor; apply clean_no_sp, print_Z_clean | reflexivity].
      rewrite split_on_app; [|repeat constructor; exact Hd1 | reflexivity].
      rewrite split_on_none; [reflexivity|]. repeat constructor. apply clean_no_sp, print_N_clean. }
    rewrite S1. cbn [unpack_items app].
    rewrite unpack_item_c, (stoi_print_Z _ Hc). cbn [option_map].
    rewrite unpack_item_d.
    destruct (d_parse O (d_print O (dee v))) as [d'|] eqn:Ed; [|contradiction]. cbn [option_map].
    rewrite unpack_item_t, (stoul_print_N _ Ht). cbn [option_map].
    exists d'. reflexivity.
  Qed.

  Lemma unpack_pack_commits (v : value O) : dee_print_ok -> value_ok v ->
    commits (unpack O (pack O v)) = commits v /\ tick (unpack O (pack O v)) = tick v.
  Proof.
    intros HO Hv. destruct (unpack_pack v HO Hv) as [d E]. unfold unpack. rewrite E. now split.
  Qed.

  (** whatever is stored, the unpacked commit count is an [int] and the tick a [uint64] *)
  Lemma unpack_items_ok items : forall v, value_ok v -> value_ok (fst (unpack_items O v items)).
  Proof.
    induction items as [|it r IH]; intros v Hv; [exact Hv|].
    cbn [unpack_items]. destruct (unpack_item O v it) as [v'|] eqn:E; [|exact Hv].
    apply IH. unfold unpack_item in E.
    destruct (cut_at x3d it) as [[k x]|]; [|injection E as <-; exact Hv].
    destruct Hv as [Hc Ht].
    destruct (bytes_eqb k k_c).
    { destruct (stoi x) as [c|] eqn:Ec; [|discriminate]. injection E as <-. split; [apply (stoi_range _ _ Ec) | exact Ht]. }
    destruct (bytes_eqb k k_d).
    { destruct (d_parse O x); [|discriminate]. injection E as <-. split; assumption. }
    destruct (bytes_eqb k k_t).
    { destruct (stoul x) as [t|] eqn:Et; [|discriminate]. injection E as <-. split; [exact Hc | apply (stoul_range _ _ Et)]. }
    injection E as <-. split; assumption.
  Qed.

  Lemma value0_ok : value_ok (value0 O).
  Proof. split; [unfold int_range, INT_MIN, INT_MAX; cbn; lia | cbn; unfold ULONG_MAX; lia]. Qed.

  Lemma unpack_ok_range s : value_ok (unpack O s).
  Proof. apply unpack_items_ok, value0_ok. Qed.
End RoundTrip.
