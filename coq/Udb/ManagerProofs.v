(** C17 – snapshots round-trip; backup then restore into an empty
    dictionary reproduces keys and commit counts; over every history of sync
    operations no dictionary loses an entry or lowers a commit magnitude. *)
From Coq Require Import List NArith ZArith Bool Lia.
From Coq.Strings Require Import Byte.
From RimeV Require Import Base.Bytes Udb.Value Udb.ValueProofs Udb.Merge Udb.MergeProofs Udb.Tsv Udb.TsvProofs Udb.Manager.
Import ListNotations.

(** * folding updates into a map *)

Definition upd_all (l m : amap) : amap := fold_left (fun m kv => upd (fst kv) (snd kv) m) l m.

Lemma upd_all_find l : forall m k, NoDup (keys l) ->
  find k (upd_all l m) = match find k l with Some v => Some v | None => find k m end.
Proof.
  induction l as [|[k1 v1] l IH]; intros m k ND; [reflexivity|].
  cbn [keys map] in ND. inversion ND as [|? ? Hn ND']; subst.
  cbn [upd_all fold_left fst snd find]. fold (upd_all l (upd k1 v1 m)). rewrite (IH _ _ ND').
  destruct (bytes_eqb k k1) eqn:E.
  - apply bytes_eqb_eq in E. subst k1. apply find_none_iff in Hn. rewrite Hn. apply find_upd_same.
  - apply bytes_eqb_neq in E. destruct (find k l); [reflexivity|]. now apply find_upd_other.
Qed.

Lemma upd_all_nodup l : forall m, NoDup (keys m) -> NoDup (keys (upd_all l m)).
Proof.
  induction l as [|[k1 v1] l IH]; intros m ND; [exact ND|].
  cbn [upd_all fold_left]. apply IH. now apply nodup_upd.
Qed.

(** * well-formed dictionaries *)

Definition wf_db (d : db) : Prop :=
  NoDup (keys (data d)) /\ forallb wf_rec (data d) = true /\
  NoDup (keys (meta d)) /\ forallb wf_meta_rec (meta d) = true.

Lemma query_all_wf m : forallb wf_rec m = true -> query_all m = m.
Proof.
  induction m as [|kv m IH]; intro H; [reflexivity|].
  cbn [forallb] in H. apply andb_true_iff in H. destruct H as [H1 H2].
  cbn [query_all filter]. unfold wf_rec in H1. apply andb_true_iff in H1. destruct H1 as [Hk _].
  rewrite (wf_key_not_below_sp _ Hk). cbn [negb]. f_equal. now apply IH.
Qed.

Section ManagerProofs.
  Variable O : dee_ops.
  Hypothesis dee_ok : dee_print_ok O.
  Variable inits : bool.
  Variable g : Z.
  Variable ver : bytes.

  Notation um_backup := (um_backup ver).
  Notation um_restore := (um_restore O inits g ver).
  Notation um_sync := (um_sync O inits g ver).
  Notation um_import := (um_import O ver).
  Notation step := (step O inits g ver).
  Notation run := (run O inits g ver).

  (** * the snapshot codec over dbs *)

  Definition db_mput (d : db) (k v : bytes) : db * bool := (sink_meta_put d k v, true).
  Definition db_put (d : db) (k v : bytes) : db * bool := (sink_put d k v, true).

  Lemma feed_db metas l : forall (st : rstate db),
    r_sink (fold_left (feed_data db db_put) l (fold_left (feed_meta db db_mput) metas st)) =
    {| meta := upd_all metas (meta (r_sink st)); data := upd_all l (data (r_sink st)) |}.
  Proof.
    induction metas as [|[k v] metas IH]; intro st.
    - cbn [fold_left upd_all]. revert st. induction l as [|[k v] l IHl]; intro st.
      + cbn. now destruct (r_sink st).
      + cbn [fold_left]. rewrite IHl. unfold feed_data, db_put. cbn [fst snd r_sink sink_put data_update meta data upd_all fold_left].
        reflexivity.
    - cbn [fold_left]. rewrite IH. unfold feed_meta, db_mput. cbn [fst snd r_sink sink_meta_put meta_update meta data upd_all fold_left].
      reflexivity.
  Qed.

  Theorem uniform_restore_backup d d0 :
    forallb wf_meta_rec (meta d) = true -> forallb wf_rec (query_all (data d)) = true ->
    uniform_restore (uniform_backup d) d0 =
    {| meta := upd_all (meta d) (meta d0); data := upd_all (query_all (data d)) (data d0) |}.
  Proof.
    intros Hm Hd. unfold uniform_restore, uniform_backup, tsv_write, tsv_read.
    change (description_line s_descr_userdb) with ((HASH :: x20 :: s_descr_userdb) ++ [LF]).
    change (fun (d1 : db) (k v : bytes) => (sink_meta_put d1 k v, true)) with db_mput.
    change (fun (d1 : db) (k v : bytes) => (sink_put d1 k v, true)) with db_put.
    rewrite (read_written_file db db_mput db_put (HASH :: x20 :: s_descr_userdb) s_descr_userdb);
      try assumption; try reflexivity.
    - now rewrite feed_db.
    - vm_compute. repeat constructor.
  Qed.

  (** backup, then restore into an empty store: every well-formed record comes back *)
  Theorem uniform_roundtrip d : wf_db d ->
    let r := uniform_restore (uniform_backup d) empty_db in
    (forall k, find k (data r) = find k (data d)) /\ (forall k, find k (meta r) = find k (meta d)).
  Proof.
    intros (N1 & W1 & N2 & W2). cbn zeta.
    rewrite uniform_restore_backup; [|exact W2 | now rewrite query_all_wf].
    rewrite query_all_wf by exact W1. cbn [meta data empty_db].
    split; intro k; rewrite upd_all_find by assumption; destruct (find k _); reflexivity.
  Qed.

  (** * UserDictManager: backup on one installation, restore into an empty dictionary on another *)

  Lemma merged_commits_zero c : merged_commits 0 c = c.
  Proof. unfold merged_commits. cbn [Z.abs]. destruct (0 <? Z.abs c)%Z eqn:E; [reflexivity|]. apply Z.ltb_ge in E. lia. Qed.

  Lemma data_create_metadata uid name d : data (create_metadata ver uid name d) = data d.
  Proof. reflexivity. Qed.

  Lemma data_open_rw uid name d : data (open_rw ver uid name d) = data d.
  Proof. unfold open_rw. destruct (find mk_db_name (meta d)); reflexivity. Qed.

  Theorem backup_restore_into_empty uidA uidB d dest :
    wf_db d -> get_user_id d = uidA -> is_user_db d = true ->
    find mk_db_name (meta d) = Some dict_name -> data dest = [] ->
    let snap := snd (um_backup uidA dict_name d) in
    let res := um_restore uidB dict_name snap dest in
    snd res = RestoreOk /\
    forall k, match find k (data d) with
              | Some v => exists s, find k (data (fst res)) = Some s /\ commits (unpack O s) = commits (unpack O v)
              | None => find k (data (fst res)) = None
              end.
  Proof.
    intros (N1 & W1 & N2 & W2) Hu Ht Hn He. cbn zeta.
    unfold Manager.um_backup. rewrite Hu, bytes_eqb_refl. cbn [snd].
    unfold Manager.um_restore.
    rewrite uniform_restore_backup; [|exact W2 | now rewrite query_all_wf].
    rewrite query_all_wf by exact W1.
    set (T0 := create_metadata ver uidB s_dot_temp empty_db).
    set (temp := {| meta := upd_all (meta d) (meta T0); data := upd_all (data d) (data T0) |}).
    assert (Fm : forall k, find k (meta temp) = match find k (meta d) with Some v => Some v | None => find k (meta T0) end)
      by (intro k; apply upd_all_find; exact N2).
    assert (Fd : forall k, find k (data temp) = find k (data d)).
    { intro k. subst temp. cbn [data]. rewrite upd_all_find by exact N1. destruct (find k (data d)); reflexivity. }
    assert (U : is_user_db temp = true).
    { unfold is_user_db in *. rewrite Fm. destruct (find mk_db_type (meta d)); [exact Ht|discriminate]. }
    assert (Nm : get_db_name temp = dict_name).
    { unfold get_db_name. rewrite Fm, Hn. reflexivity. }
    rewrite U, Nm. cbn [negb is_empty dict_name]. rewrite bytes_eqb_refl. cbn [negb snd fst].
    split; [reflexivity|]. intro k.
    assert (NDt : NoDup (keys (data temp))) by (apply upd_all_nodup; constructor).
    destruct (find k (data d)) as [v|] eqn:F.
    - assert (Hin : In (k, v) (query_all (data temp))).
      { unfold query_all. apply filter_In. split; [apply find_some_in; now rewrite Fd|].
        cbn [fst]. apply find_some_in in F. rewrite forallb_forall in W1. specialize (W1 _ F).
        unfold wf_rec in W1. apply andb_true_iff in W1. destruct W1 as [Wk _]. cbn [fst] in Wk.
        now rewrite (wf_key_not_below_sp _ Wk). }
      destruct (merge_entry O dee_ok inits g uidB temp (open_rw ver uidB dict_name dest) k v NDt Hin) as (s & Fs & Hc & _).
      exists s. split; [exact Fs|]. rewrite Hc. unfold our_commits. rewrite data_open_rw, He. cbn [find].
      apply merged_commits_zero.
    - rewrite merge_untouched.
      + rewrite data_open_rw, He. reflexivity.
      + intro C. unfold keys in C. apply in_map_iff in C. destruct C as ([k' v'] & E1 & E2). cbn [fst] in E1. subst k'.
        apply filter_In in E2. destruct E2 as [E2 _].
        apply (in_find_nodup _ _ _ NDt) in E2. rewrite Fd, F in E2. discriminate.
  Qed.

  (** * text export, then import (whole files) *)

  Definition wf_export_rec (kv : bytes * bytes) : bool := wf_export_key (fst kv).

  Definition nonneg (kv : bytes * bytes) : bool := negb (commits (unpack O (snd kv)) <? 0)%Z.

  (** the records an export file carries into the importer *)
  Definition exported (m : amap) : amap :=
    map (fun kv => (fst kv, exported_value O (snd kv))) (filter nonneg m).

  Definition imports (l : amap) (d : db) : db := fold_left (fun d kv => imp_put O d (fst kv) (snd kv)) l d.

  Lemma import_steps l : forall st,
    r_sink (fold_left (import_step O) l st) = imports (exported l) (r_sink st) /\
    r_count (fold_left (import_step O) l st) = (r_count st + length (exported l))%nat.
  Proof.
    induction l as [|[k v] l IH]; intro st; [cbn; split; [reflexivity|lia]|].
    cbn [fold_left]. destruct (IH (import_step O st (k, v))) as [A B]. rewrite A, B.
    unfold import_step, exported, nonneg. cbn [fst snd filter].
    destruct (commits (unpack O v) <? 0)%Z; cbn [negb map imports fold_left fst snd r_sink r_count length]; split; try reflexivity; lia.
  Qed.

  Lemma keys_exported m : keys (exported m) = keys (filter nonneg m).
  Proof. unfold exported, keys. rewrite map_map. reflexivity. Qed.

  Lemma imports_meta l : forall d, meta (imports l d) = meta d.
  Proof. induction l as [|kv l IH]; intro d; [reflexivity|]. cbn [imports fold_left]. fold (imports l (imp_put O d (fst kv) (snd kv))). now rewrite IH. Qed.

  Lemma imports_notin l : forall d k, ~ In k (keys l) -> find k (data (imports l d)) = find k (data d).
  Proof.
    induction l as [|[k1 v1] l IH]; intros d k H; [reflexivity|].
    cbn [imports fold_left fst snd]. fold (imports l (imp_put O d k1 v1)).
    rewrite IH by (intro C; apply H; now right). apply import_put_other. intro C. apply H. now left.
  Qed.

  Lemma imports_in l : forall d k v, NoDup (keys l) -> In (k, v) l ->
    exists s, find k (data (imports l d)) = Some s
      /\ commits (unpack O s) = imported_commits (our_commits O d k) (commits (unpack O v))
      /\ tick (unpack O s) = match find k (data d) with Some s0 => tick (unpack O s0) | None => 0%N end.
  Proof.
    induction l as [|[k1 v1] l IH]; intros d k v ND H; [contradiction|].
    cbn [keys map] in ND. inversion ND as [|? ? Hn ND']; subst.
    cbn [imports fold_left fst snd]. fold (imports l (imp_put O d k1 v1)).
    destruct H as [H|H].
    - injection H as -> ->. rewrite imports_notin by exact Hn. apply import_put_entry. exact dee_ok.
    - assert (Nk : k <> k1) by (intro C; subst; apply Hn; change k1 with (fst (k1, v)); now apply in_map).
      destruct (IH (imp_put O d k1 v1) k v ND' H) as (s & Fs & Cs & Ts). exists s. split; [exact Fs|].
      unfold our_commits in *. rewrite import_put_other in Cs, Ts by exact Nk. now split.
  Qed.

  Lemma exported_value_commits v : commits (unpack O (exported_value O v)) = commits (unpack O v).
  Proof.
    unfold exported_value.
    refine (proj1 (unpack_pack_commits O {| commits := commits (unpack O v); dee := d_of_commits O (commits (unpack O v)); tick := 0 |} dee_ok _)).
    split; cbn [commits tick]; [apply unpack_ok_range | unfold ULONG_MAX; lia].
  Qed.

  Lemma um_export_file d : is_user_db d = true ->
    um_export O d = Some (tsv_write s_descr_export (table_formatter O) (meta d) (query_all (data d)),
                          tsv_write_count (table_formatter O) (query_all (data d))).
  Proof. intro H. unfold um_export. now rewrite H. Qed.

  (** Export of a well-formed dictionary whose keys survive the table format, then Import into
      any user dictionary: metadata untouched; every non-deleted entry is imported under the
      import rule with the importer's own tick kept (0 for a new entry); deleted entries
      (negative count) are not exported; comments and "#@" lines change nothing. *)
  Theorem export_import_file uid d d0 :
    wf_db d -> forallb wf_export_rec (data d) = true -> is_user_db d = true ->
    is_user_db (open_rw ver uid dict_name d0) = true ->
    exists f n, um_export O d = Some (f, n) /\
      let res := um_import uid dict_name f d0 in
      snd res = Some (length (filter nonneg (data d))) /\
      meta (fst res) = meta (open_rw ver uid dict_name d0) /\
      forall k, match find k (data d) with
                | Some v =>
                    if (commits (unpack O v) <? 0)%Z then find k (data (fst res)) = find k (data d0)
                    else exists s, find k (data (fst res)) = Some s
                           /\ commits (unpack O s) = imported_commits (our_commits O d0 k) (commits (unpack O v))
                           /\ tick (unpack O s) = match find k (data d0) with Some s0 => tick (unpack O s0) | None => 0%N end
                | None => find k (data (fst res)) = find k (data d0)
                end.
  Proof.
    intros (N1 & W1 & N2 & W2) We Hu Hu0.
    eexists. eexists. split; [apply um_export_file; exact Hu|]. cbn zeta.
    unfold Manager.um_import. rewrite Hu0. cbn [fst snd].
    rewrite query_all_wf by exact W1.
    unfold tsv_write, tsv_read.
    change (description_line s_descr_export) with ((HASH :: x20 :: s_descr_export) ++ [LF]).
    change (fun (d1 : db) (_ _ : bytes) => (d1, true)) with imp_sink_meta.
    change (fun (d1 : db) (k v : bytes) => (imp_put O d1 k v, true)) with (imp_sink_put O).
    rewrite (read_file_gen db (table_parser O) imp_sink_meta (imp_sink_put O) (table_formatter O) (import_step O)
               (fun s k v => eq_refl) (HASH :: x20 :: s_descr_export) s_descr_export).
    2: reflexivity.
    2: vm_compute; repeat constructor.
    2: reflexivity.
    2: reflexivity.
    2:{ apply forallb_forall. intros [k v] Hin. rewrite forallb_forall in W2. specialize (W2 _ Hin).
        unfold wf_meta_rec in W2. cbn [fst snd] in *. apply andb_true_iff in W2. destruct W2 as [Wk Wv].
        destruct (no_tab_lf_spec _ Wk) as [_ Lk]. destruct (wf_value_spec _ Wv) as (_ & Lv & _).
        apply andb_true_iff. split; unfold no_lf; apply forallb_forall; intros b Hb;
          [rewrite Forall_forall in Lk; now rewrite (Lk b Hb) | rewrite Forall_forall in Lv; now rewrite (Lv b Hb)]. }
    2:{ apply Forall_forall. intros kv Hin. apply table_line_ok. rewrite forallb_forall in We. exact (We _ Hin). }
    destruct (import_steps (data d) {| r_sink := open_rw ver uid dict_name d0; r_comment := true; r_count := 0 |}) as [A B].
    rewrite A, B. cbn [r_sink r_count]. split; [|split].
    - f_equal. unfold exported. now rewrite map_length.
    - apply imports_meta.
    - intro k.
      assert (NDe : NoDup (keys (exported (data d)))) by (rewrite keys_exported; apply nodup_filter_keys, N1).
      assert (D0 : forall k', find k' (data (open_rw ver uid dict_name d0)) = find k' (data d0)) by (intro; now rewrite data_open_rw).
      destruct (find k (data d)) as [v|] eqn:F.
      + destruct (commits (unpack O v) <? 0)%Z eqn:Ec.
        * rewrite imports_notin, D0; [reflexivity|]. rewrite keys_exported. intro C. unfold keys in C. apply in_map_iff in C.
          destruct C as ([k' v'] & E1 & E2). cbn [fst] in E1. subst k'. apply filter_In in E2. destruct E2 as [E2 E3].
          apply (in_find_nodup _ _ _ N1) in E2. rewrite F in E2. injection E2 as ->. unfold nonneg in E3. cbn [snd] in E3. now rewrite Ec in E3.
        * assert (Hin : In (k, exported_value O v) (exported (data d))).
          { unfold exported. apply in_map_iff. exists (k, v). split; [reflexivity|]. apply filter_In.
            split; [now apply find_some_in | unfold nonneg; cbn [snd]; now rewrite Ec]. }
          destruct (imports_in _ (open_rw ver uid dict_name d0) k _ NDe Hin) as (s & Fs & Cs & Ts).
          exists s. split; [exact Fs|]. unfold our_commits in *. rewrite D0 in Cs, Ts. rewrite exported_value_commits in Cs. now split.
      + rewrite imports_notin, D0; [reflexivity|]. rewrite keys_exported. intro C. unfold keys in C. apply in_map_iff in C.
        destruct C as ([k' v'] & E1 & E2). cbn [fst] in E1. subst k'. apply filter_In in E2. destruct E2 as [E2 _].
        apply (in_find_nodup _ _ _ N1) in E2. rewrite F in E2. discriminate.
  Qed.

  (** into an empty dictionary: exactly the non-deleted entries, each with its commit count *)
  Corollary export_import_into_empty uid d d0 :
    wf_db d -> forallb wf_export_rec (data d) = true -> is_user_db d = true ->
    is_user_db (open_rw ver uid dict_name d0) = true -> data d0 = [] ->
    exists f n, um_export O d = Some (f, n) /\
      forall k, match find k (data d) with
                | Some v =>
                    if (commits (unpack O v) <? 0)%Z then find k (data (fst (um_import uid dict_name f d0))) = None
                    else exists s, find k (data (fst (um_import uid dict_name f d0))) = Some s
                           /\ commits (unpack O s) = commits (unpack O v) /\ tick (unpack O s) = 0%N
                | None => find k (data (fst (um_import uid dict_name f d0))) = None
                end.
  Proof.
    intros W We Hu Hu0 He. destruct (export_import_file uid d d0 W We Hu Hu0) as (f & n & E & _ & _ & H).
    exists f, n. split; [exact E|]. intro k. specialize (H k).
    destruct (find k (data d)) as [v|]; [|now rewrite He in H].
    destruct (commits (unpack O v) <? 0)%Z eqn:Ec; [now rewrite He in H|].
    destruct H as (s & Fs & Cs & Ts). exists s. split; [exact Fs|]. unfold our_commits in Cs. rewrite He in Cs, Ts. cbn [find] in Cs, Ts.
    split; [|exact Ts]. rewrite Cs. unfold imported_commits. apply Z.ltb_ge in Ec.
    destruct (0 <? commits (unpack O v))%Z eqn:E1; [apply Z.ltb_lt in E1; lia|].
    destruct (commits (unpack O v) <? 0)%Z eqn:E2; [apply Z.ltb_lt in E2; lia|]. apply Z.ltb_ge in E1. lia.
  Qed.

  (** * histories: no operation of the sync family removes an entry or lowers a magnitude *)

  Definition mag_le (m1 m2 : amap) : Prop :=
    forall k s1, find k m1 = Some s1 ->
    exists s2, find k m2 = Some s2 /\ (Z.abs (commits (unpack O s1)) <= Z.abs (commits (unpack O s2)))%Z.

  Lemma mag_le_refl m : mag_le m m.
  Proof. intros k s H. exists s. split; [exact H|lia]. Qed.

  Lemma mag_le_trans m1 m2 m3 : mag_le m1 m2 -> mag_le m2 m3 -> mag_le m1 m3.
  Proof.
    intros H1 H2 k s F. destruct (H1 _ _ F) as (s2 & F2 & L2). destruct (H2 _ _ F2) as (s3 & F3 & L3).
    exists s3. split; [exact F3|lia].
  Qed.

  Lemma put_mag_le (m : merger) k v : (max_tick m <= ULONG_MAX)%N ->
    mag_le (data (m_db m)) (data (m_db (fst (m_put O g m k v)))).
  Proof.
    intros Hmx k' s F. cbn [m_put fst m_db data data_update].
    destruct (bytes_eqb k' k) eqn:E.
    - apply bytes_eqb_eq in E. subst k'. rewrite find_upd_same. eexists. split; [reflexivity|].
      destruct (merge_value_obs O (our_tick m) (their_tick m) (max_tick m) (find k (data (m_db m))) v Hmx) as (E1 & E2 & E3).
      cbn zeta in E1, E2, E3. destruct (unpack_pack_commits O _ dee_ok E3) as [P1 _].
      rewrite P1, E1, F, merged_commits_abs. lia.
    - apply bytes_eqb_neq in E. rewrite find_upd_other by exact E. exists s. split; [exact F|lia].
  Qed.

  Lemma puts_mag_le l : forall (m : merger), (max_tick m <= ULONG_MAX)%N ->
    mag_le (data (m_db m)) (data (m_db (puts O g m l))).
  Proof.
    induction l as [|[k v] l IH]; intros m H; [apply mag_le_refl|].
    rewrite puts_cons. eapply mag_le_trans; [apply (put_mag_le m k v H)|]. apply IH. exact H.
  Qed.

  Theorem merge_mag_le uid src dst : mag_le (data dst) (data (merge_db O inits g uid src dst)).
  Proof.
    unfold merge_db. rewrite merge_run_unfold, close_data.
    destruct (after_metas inits src dst) as (A & B & C & D & _). cbn zeta in A, D.
    rewrite <- A at 1. apply puts_mag_le. rewrite D. apply max_tick_range.
  Qed.

  Lemma restore_mag_le uid name f dest : mag_le (data dest) (data (fst (um_restore uid name f dest))).
  Proof.
    unfold Manager.um_restore.
    destruct (negb (is_user_db _)); [apply mag_le_refl|].
    destruct (is_empty _); [apply mag_le_refl|].
    destruct (negb (bytes_eqb _ _)); [apply mag_le_refl|]. cbn [fst].
    rewrite <- (data_open_rw uid name dest) at 1. apply merge_mag_le.
  Qed.

  Lemma backup_data uid name d : data (fst (um_backup uid name d)) = data d.
  Proof.
    unfold Manager.um_backup. destruct (bytes_eqb _ _); cbn [fst]; [reflexivity|].
    now rewrite data_create_metadata, data_open_rw.
  Qed.

  Lemma restores_mag_le uid name snaps : forall d,
    mag_le (data d) (data (fold_left (fun d f => fst (um_restore uid name f d)) snaps d)).
  Proof.
    induction snaps as [|f snaps IH]; intro d; [apply mag_le_refl|].
    cbn [fold_left]. eapply mag_le_trans; [apply restore_mag_le | apply IH].
  Qed.

  Lemma sync_mag_le uid name snaps d : mag_le (data d) (data (fst (um_sync uid name snaps d))).
  Proof. unfold Manager.um_sync. rewrite backup_data. apply restores_mag_le. Qed.

  (** the operations of the sync family (import may resurrect a deleted entry with a smaller
      count; a direct UniformRestore overwrites) *)
  Definition sync_op (o : op) : bool :=
    match o with OImport _ _ | OURestore _ _ => false | _ => true end.

  Lemma nth_set_nth {A} (l : list A) : forall i j x dflt,
    nth j (set_nth i x l) dflt = if Nat.eqb i j && Nat.ltb i (length l) then x else nth j l dflt.
  Proof.
    induction l as [|a l IH]; intros i j x dflt.
    - replace (Nat.ltb i (length (@nil A))) with false by (symmetry; apply Nat.ltb_ge; cbn; lia).
      rewrite andb_false_r. destruct i; reflexivity.
    - destruct i as [|i]; destruct j as [|j]; cbn [set_nth nth length]; try reflexivity.
      rewrite IH. reflexivity.
  Qed.

  Lemma get_set_db w i d j :
    get_db (set_db w i d) j = if Nat.eqb i j && Nat.ltb i (length (w_dbs w)) then d else get_db w j.
  Proof. unfold get_db, set_db. cbn [w_dbs]. apply nth_set_nth. Qed.

  Lemma set_db_mag_le w i d j : mag_le (data (get_db w i)) (data d) ->
    mag_le (data (get_db w j)) (data (get_db (set_db w i d) j)).
  Proof.
    intro H. rewrite get_set_db. destruct (Nat.eqb i j) eqn:E; cbn [andb]; [|apply mag_le_refl].
    apply Nat.eqb_eq in E. subst j. destruct (Nat.ltb i _); [exact H | apply mag_le_refl].
  Qed.

  Lemma step_mag_le w o j : sync_op o = true ->
    mag_le (data (get_db w j)) (data (get_db (step w o) j)).
  Proof.
    intro Hs. unfold Manager.step. destruct o as [i|i x|i s|i order|i s|i s|i x|i s|i s|i|i x]; try discriminate Hs; cbn [step_ret].
    - (* backup *)
      destruct (um_backup (uid_of i) dict_name (get_db w i)) as [d f] eqn:E. cbn [fst].
      change (get_db (set_snap (set_db w i d) i f) j) with (get_db (set_db w i d) j).
      apply set_db_mag_le. replace d with (fst (um_backup (uid_of i) dict_name (get_db w i))) by now rewrite E.
      rewrite backup_data. apply mag_le_refl.
    - (* restore *)
      destruct (nth x (w_snaps w) None) as [f|]; [|apply mag_le_refl].
      destruct (um_restore (uid_of i) dict_name f (get_db w i)) as [d r] eqn:E. cbn [fst].
      apply set_db_mag_le. replace d with (fst (um_restore (uid_of i) dict_name f (get_db w i))) by now rewrite E.
      apply restore_mag_le.
    - (* restore from file *)
      destruct (nth s (w_files w) None) as [f|]; [|apply mag_le_refl].
      destruct (um_restore (uid_of i) dict_name f (get_db w i)) as [d r] eqn:E. cbn [fst].
      apply set_db_mag_le. replace d with (fst (um_restore (uid_of i) dict_name f (get_db w i))) by now rewrite E.
      apply restore_mag_le.
    - (* sync *)
      destruct (um_sync (uid_of i) dict_name (snaps_in_order w order) (get_db w i)) as [d f] eqn:E. cbn [fst].
      change (get_db (set_snap (set_db w i d) i f) j) with (get_db (set_db w i d) j).
      apply set_db_mag_le. replace d with (fst (um_sync (uid_of i) dict_name (snaps_in_order w order) (get_db w i))) by now rewrite E.
      apply sync_mag_le.
    - (* export *)
      destruct (um_export O (get_db w i)) as [[f n]|]; apply mag_le_refl.
    - (* merge *)
      cbn [fst]. apply set_db_mag_le. apply merge_mag_le.
    - (* direct backup *)
      apply mag_le_refl.
    - (* foreign /user_id: metadata only *)
      cbn [fst]. apply set_db_mag_le. apply mag_le_refl.
    - (* a scratch db left behind: no dictionary changes *)
      destruct (nth x (w_snaps w) None); apply mag_le_refl.
  Qed.

  Theorem history_never_loses ops : forall w j, forallb sync_op ops = true ->
    mag_le (data (get_db w j)) (data (get_db (run ops w) j)).
  Proof.
    induction ops as [|o ops IH]; intros w j H; [apply mag_le_refl|].
    cbn [forallb] in H. apply andb_true_iff in H. destruct H as [H1 H2].
    unfold Manager.run. cbn [fold_left]. eapply mag_le_trans; [apply (step_mag_le w o j H1)|]. apply IH. exact H2.
  Qed.
End ManagerProofs.
