(** C17 – snapshots and the sync operations built on them:
    [UserDbHelper::UniformBackup/UniformRestore] (user_db.cc:118-148),
    [UserDictManager::Backup/Restore/Export/Import/Synchronize]
    (lever/user_dict_manager.cc), and a small world of installations that
    exchange snapshots through a shared sync directory.

    Model file: definitions only. *)
From Coq Require Import List NArith ZArith Bool.
From Coq.Strings Require Import Byte.
From RimeV Require Import Base.Bytes Udb.Value Udb.Merge Udb.Tsv.
Import ListNotations.

Definition s_descr_userdb : bytes :=      (* "Rime user dictionary" *)
  [x52; x69; x6d; x65; x20; x75; x73; x65; x72; x20; x64; x69; x63; x74; x69; x6f; x6e; x61; x72; x79].
Definition s_descr_export : bytes :=      (* "Rime user dictionary export" *)
  s_descr_userdb ++ [x20; x65; x78; x70; x6f; x72; x74].
Definition s_unknown : bytes := [x75; x6e; x6b; x6e; x6f; x77; x6e].          (* "unknown" *)
Definition s_dot_userdb : bytes := [x2e; x75; x73; x65; x72; x64; x62].       (* ".userdb" *)
Definition s_dot_temp : bytes := [x2e; x74; x65; x6d; x70].                   (* ".temp" *)

Definition starts_with (p s : bytes) : bool := bytes_eqb p (firstn (length p) s).

(** [boost::find_last(name, pat)]: offset of the last occurrence *)
Fixpoint find_last_pos (pat s : bytes) (i : nat) (best : option nat) : option nat :=
  match s with
  | [] => best
  | _ :: r => find_last_pos pat r (S i) (if starts_with pat s then Some i else best)
  end.

(** [UserDbHelper::GetDbName] on the "/db_name" value: remove ".userdb.*" *)
Definition strip_userdb (name : bytes) : bytes :=
  match find_last_pos s_dot_userdb name 0 None with
  | Some i => firstn i name
  | None => name
  end.

Definition get_user_id (d : db) : bytes :=
  match find mk_user_id (meta d) with Some u => u | None => s_unknown end.
Definition is_user_db (d : db) : bool :=
  match find mk_db_type (meta d) with Some t => bytes_eqb t s_userdb | None => false end.
Definition get_db_name (d : db) : bytes :=
  match find mk_db_name (meta d) with Some n => strip_userdb n | None => [] end.

Section Manager.
  Variable O : dee_ops.
  Variable inits : bool.      (* does UserDbMerger's constructor initialise merged_entries_ *)
  Variable g : Z.             (* previous content of the merger's storage *)
  Variable ver : bytes.       (* RIME_VERSION *)

  (** [UserDbWrapper<LevelDb>::CreateMetadata] *)
  Definition create_metadata (uid name : bytes) (d : db) : db :=
    meta_update mk_user_id uid
      (meta_update mk_db_type s_userdb
         (meta_update mk_rime_version ver
            (meta_update mk_db_name name d))).

  (** [LevelDb::Open]: metadata is created when "/db_name" is missing *)
  Definition open_rw (uid name : bytes) (d : db) : db :=
    match find mk_db_name (meta d) with
    | Some _ => d
    | None => create_metadata uid name d
    end.

  (** * snapshots *)

  Definition uniform_backup (d : db) : bytes :=
    tsv_write s_descr_userdb userdb_formatter (meta d) (query_all (data d)).

  Definition uniform_restore (file : bytes) (d : db) : db :=
    r_sink (tsv_read db userdb_parser
                     (fun d k v => (sink_meta_put d k v, true))
                     (fun d k v => (sink_put d k v, true)) file d).

  (** * UserDictManager *)

  (** [Backup]: returns the db (its metadata is recreated when the user id differs)
      and the snapshot written to <sync_dir>/<user_id>/<name>.userdb.txt *)
  Definition um_backup (uid name : bytes) (d : db) : db * bytes :=
    let d1 := if bytes_eqb (get_user_id d) uid then d
              else create_metadata uid name (open_rw uid name d) in
    (d1, uniform_backup d1).

  Inductive restore_result := RestoreOk | RestoreFailed | RestoreOtherDb.

  (** [Restore]: the snapshot is loaded into a fresh ".temp" userdb, which is then merged
      into the dictionary named by the snapshot's "/db_name" *)
  Definition um_restore (uid name : bytes) (file : bytes) (dest : db) : db * restore_result :=
    let temp := uniform_restore file (create_metadata uid s_dot_temp empty_db) in
    if negb (is_user_db temp) then (dest, RestoreFailed)
    else
      let n := get_db_name temp in
      if is_empty n then (dest, RestoreFailed)
      else if negb (bytes_eqb n name) then (dest, RestoreOtherDb)
      else (merge_db O inits g uid temp (open_rw uid name dest), RestoreOk).

  (** [Export]: [None] = returned -1 and wrote nothing *)
  Definition um_export (d : db) : option (bytes * nat) :=
    if is_user_db d then
      Some (tsv_write s_descr_export (table_formatter O) (meta d) (query_all (data d)),
            tsv_write_count (table_formatter O) (query_all (data d)))
    else None.

  (** [Import]: the db after the call and the returned count ([None] = -1) *)
  Definition um_import (uid name : bytes) (file : bytes) (d : db) : db * option nat :=
    let d1 := open_rw uid name d in
    if is_user_db d1 then
      let st := tsv_read db (table_parser O)
                         (fun d k v => (d, true))
                         (fun d k v => (imp_put O d k v, true)) file d1 in
      (r_sink st, Some (r_count st))
    else (d1, None).

  (** [Synchronize]: merge every snapshot found (in directory order), then back up *)
  Definition um_sync (uid name : bytes) (snaps : list bytes) (d : db) : db * bytes :=
    um_backup uid name (fold_left (fun d f => fst (um_restore uid name f d)) snaps d).

  (** [Synchronize]'s return value: every snapshot merged (the final Backup cannot fail here) *)
  Definition um_sync_ok (uid name : bytes) (snaps : list bytes) (d : db) : bool :=
    snd (fold_left (fun (db_ok : db * bool) f =>
                      let (d', r) := um_restore uid name f (fst db_ok) in
                      (d', snd db_ok && match r with RestoreOk => true | _ => false end))
                   snaps (d, true)).

  (** * a world of installations *)

  Record world := {
    w_dbs : list db;                    (* installation i owns w_dbs[i] *)
    w_snaps : list (option bytes);      (* <sync_dir>/<uid i>/<name>.userdb.txt *)
    w_files : list (option bytes);      (* text files used by export / import / direct backup *)
  }.

  Inductive op :=
  | OBackup (i : nat)
  | ORestore (i j : nat)                (* installation i merges the snapshot published by j *)
  | ORestoreFile (i s : nat)            (* installation i merges text file s as a snapshot *)
  | OSync (i : nat) (order : list nat)  (* [order]: the sync directory's iteration order *)
  | OExport (i s : nat)
  | OImport (i s : nat)
  | OMerge (i j : nat)                  (* UserDbMerger(db i) << DbSource(db j), no snapshot in between *)
  | OUBackup (i s : nat)                (* UserDbHelper(db i).UniformBackup(file s) *)
  | OURestore (i s : nat)               (* UserDbHelper(db i).UniformRestore(file s) *)
  | OForeign (i : nat)
  | OLeftover (i j : nat).              (* a Restore of j's snapshot by installation i was killed after filling its scratch db:
                                           <user dir>/.temp.userdb stays behind; Restore removes an existing scratch db first,
                                           so nothing else changes *)                 (* the user db of installation i now carries another installation's /user_id ("zz"): a db
                                           copied in, or the installation id changed - the next Backup re-creates the metadata *)

  Definition uid_of (i : nat) : bytes := x75 :: print_N (N.of_nat i).           (* "u<i>" *)
  Definition dict_name : bytes := [x64; x69; x63; x74].                          (* "dict" *)

  Fixpoint set_nth {A} (i : nat) (x : A) (l : list A) : list A :=
    match l with
    | [] => []
    | a :: r => match i with 0%nat => x :: r | S i' => a :: set_nth i' x r end
    end.

  Definition get_db (w : world) (i : nat) : db := nth i (w_dbs w) empty_db.
  Definition set_db (w : world) (i : nat) (d : db) : world :=
    {| w_dbs := set_nth i d (w_dbs w); w_snaps := w_snaps w; w_files := w_files w |}.
  Definition set_snap (w : world) (i : nat) (f : bytes) : world :=
    {| w_dbs := w_dbs w; w_snaps := set_nth i (Some f) (w_snaps w); w_files := w_files w |}.
  Definition set_file (w : world) (s : nat) (f : bytes) : world :=
    {| w_dbs := w_dbs w; w_snaps := w_snaps w; w_files := set_nth s (Some f) (w_files w) |}.

  Definition snaps_in_order (w : world) (order : list nat) : list bytes :=
    flat_map (fun j => match nth j (w_snaps w) None with Some f => [f] | None => [] end) order.

  Definition restore_code (r : restore_result) : Z :=
    match r with RestoreOk => 1 | RestoreFailed => 0 | RestoreOtherDb => -3 end%Z.
  Definition NOFILE : Z := (-2)%Z.

  (** one operation: the new world and what the call returned (bool as 0/1, counts, -1) *)
  Definition step_ret (w : world) (o : op) : world * Z :=
    match o with
    | OBackup i =>
        let (d, f) := um_backup (uid_of i) dict_name (get_db w i) in
        (set_snap (set_db w i d) i f, 1%Z)
    | ORestore i j =>
        match nth j (w_snaps w) None with
        | Some f =>
            let (d, r) := um_restore (uid_of i) dict_name f (get_db w i) in
            (set_db w i d, restore_code r)
        | None => (w, NOFILE)
        end
    | ORestoreFile i s =>
        match nth s (w_files w) None with
        | Some f =>
            let (d, r) := um_restore (uid_of i) dict_name f (get_db w i) in
            (set_db w i d, restore_code r)
        | None => (w, NOFILE)
        end
    | OSync i order =>
        let snaps := snaps_in_order w order in
        let (d, f) := um_sync (uid_of i) dict_name snaps (get_db w i) in
        (set_snap (set_db w i d) i f, if um_sync_ok (uid_of i) dict_name snaps (get_db w i) then 1%Z else 0%Z)
    | OExport i s =>
        match um_export (get_db w i) with
        | Some (f, n) => (set_file w s f, Z.of_nat n)
        | None => (w, (-1)%Z)
        end
    | OImport i s =>
        match nth s (w_files w) None with
        | Some f =>
            let (d, n) := um_import (uid_of i) dict_name f (get_db w i) in
            (set_db w i d, match n with Some k => Z.of_nat k | None => (-1)%Z end)
        | None => (w, NOFILE)
        end
    | OMerge i j =>
        (set_db w i (merge_db O inits g (uid_of i) (get_db w j) (get_db w i)),
         Z.of_nat (merge_count O inits g (get_db w j) (get_db w i)))
    | OUBackup i s => (set_file w s (uniform_backup (get_db w i)), 1%Z)
    | OURestore i s =>
        match nth s (w_files w) None with
        | Some f => (set_db w i (uniform_restore f (get_db w i)), 1%Z)
        | None => (w, NOFILE)
        end
    | OForeign i => (set_db w i (meta_update mk_user_id [x7a; x7a] (get_db w i)), 1%Z)
    | OLeftover i j => match nth j (w_snaps w) None with Some _ => (w, 1%Z) | None => (w, NOFILE) end
    end.

  Definition step (w : world) (o : op) : world := fst (step_ret w o).

  Definition run (ops : list op) (w : world) : world := fold_left step ops w.
End Manager.
