(** C17 (stretch) – Synchronize between N installations converges on keys and commit
    magnitudes after two covering rounds (concrete model, linked to Udb/SyncAbstract.v). *)
From Coq Require Import List NArith ZArith Bool Lia Arith.
From Coq.Strings Require Import Byte.
From RimeV Require Import Base.Bytes Udb.Value Udb.ValueProofs Udb.Merge Udb.MergeProofs Udb.Tsv Udb.TsvProofs
  Udb.Manager Udb.ManagerProofs Udb.SyncAbstract.
Import ListNotations.

(** * small map facts *)

Lemma forallb_replace (P : bytes * bytes -> bool) k v m :
  (forall k', bytes_eqb k k' = true -> P (k', v) = true) -> forallb P m = true ->
  forallb P (replace k v m) = true.
Proof.
  intros Hk H. induction m as [|[k1 v1] m IH]; [reflexivity|].
  cbn [forallb] in H. apply andb_true_iff in H. destruct H as [H1 H2]. cbn [replace].
  destruct (bytes_eqb k k1) eqn:E; cbn [forallb].
  - now rewrite (Hk k1 E), H2.
  - rewrite H1. cbn [andb]. now apply IH.
Qed.

Lemma forallb_insert (P : bytes * bytes -> bool) k v m :
  P (k, v) = true -> forallb P m = true -> forallb P (insert k v m) = true.
Proof.
  intros Hp H. induction m as [|[k1 v1] m IH]; cbn [insert forallb]; [now rewrite Hp|].
  cbn [forallb] in H. apply andb_true_iff in H. destruct H as [H1 H2].
  destruct (bytes_ltb k k1); cbn [forallb]; [now rewrite Hp, H1, H2 | now rewrite H1, IH].
Qed.

Lemma forallb_upd (P : bytes * bytes -> bool) k v m :
  P (k, v) = true -> forallb P m = true -> forallb P (upd k v m) = true.
Proof.
  intros Hp H. unfold upd. destruct (mem k m); [|now apply forallb_insert].
  apply forallb_replace; [|exact H].
  intros k' E. apply bytes_eqb_eq in E. now subst k'.
Qed.

Lemma map_set_nth {A B} (f : A -> B) (l : list A) : forall i x, map f (set_nth i x l) = set_nth i (f x) (map f l).
Proof. induction l as [|a l IH]; intros [|i] x; cbn; try reflexivity. now rewrite IH. Qed.

Lemma map_repeat' {A B} (f : A -> B) x n : map f (repeat x n) = repeat (f x) n.
Proof. induction n as [|n IH]; cbn; [reflexivity | now rewrite IH]. Qed.

Section SyncProofs.
  Variable O : dee_ops.
  (** a printed double contains no isspace byte at all and parses again *)
  Hypothesis dee_clean : forall d, Forall (fun b => is_space b = false) (d_print O d) /\ d_parse O (d_print O d) <> None.
  Variable inits : bool.
  Variable g : Z.
  Variable ver : bytes.

  Lemma dee_ok : dee_print_ok O.
  Proof.
    intro d. destruct (dee_clean d) as [A B]. split; [|exact B].
    eapply Forall_impl; [|exact A]. intros b Hb. destruct b; try reflexivity; discriminate Hb.
  Qed.

  Notation um_backup := (um_backup ver).
  Notation um_restore := (um_restore O inits g ver).
  Notation um_sync := (um_sync O inits g ver).
  Notation step := (step O inits g ver).
  Notation run := (run O inits g ver).

  (** magnitude of the entry [k] in [d]; -1 when absent *)
  Definition mg (d : db) (k : bytes) : Z :=
    match find k (data d) with Some s => Z.abs (commits (unpack O s)) | None => (-1)%Z end.

  Lemma mg_ge d k : (-1 <= mg d k)%Z.
  Proof. unfold mg. destruct (find k (data d)); lia. Qed.

  (** a dictionary whose snapshot can be merged by others *)
  Definition good_src (d : db) : Prop :=
    wf_db d /\ is_user_db d = true /\ find mk_db_name (meta d) = Some dict_name.
  Definition good (i : nat) (d : db) : Prop := good_src d /\ get_user_id d = uid_of i.

  (** * every packed value is a well-formed stored value *)

  Definition ntl (b : byte) : bool := negb (is_tab b) && negb (is_lf b).

  Lemma space_free_ntl s : Forall (fun b => is_space b = false) s -> Forall (fun b => ntl b = true) s.
  Proof. apply Forall_impl. intros b Hb. destruct b; try reflexivity; discriminate Hb. Qed.

  Lemma pack_wf (v : value O) : wf_value (pack O v) = true.
  Proof.
    destruct (dee_clean (dee v)) as [Dc _].
    assert (Cz : Forall (fun b => is_space b = false) (print_Z (commits v)))
      by (eapply Forall_impl; [|apply print_Z_clean]; intros b [Hb _]; exact Hb).
    assert (Cn : Forall (fun b => is_space b = false) (print_N (tick v)))
      by (eapply Forall_impl; [|apply print_N_clean]; intros b [Hb _]; exact Hb).
    unfold wf_value, pack. apply andb_true_iff. split.
    - unfold no_tab_lf. apply forallb_forall. apply Forall_forall.
      change (fun b => negb (is_tab b) && negb (is_lf b) = true) with (fun b => ntl b = true).
      repeat (apply Forall_app; split); try (repeat constructor); now apply space_free_ntl.
    - rewrite !app_assoc. apply ends_nonspace_app, ends_nonspace_clean; [apply print_N_nonempty | exact Cn].
  Qed.

  (** * the merger keeps dictionaries well-formed *)

  Lemma puts_wf l : forall (m : merger),
    NoDup (keys (data (m_db m))) -> forallb wf_rec (data (m_db m)) = true ->
    (forall kv, In kv l -> wf_key (fst kv) = true) ->
    NoDup (keys (data (m_db (puts O g m l)))) /\ forallb wf_rec (data (m_db (puts O g m l))) = true.
  Proof.
    induction l as [|[k v] l IH]; intros m ND W Hl; [now split|].
    rewrite puts_cons. destruct (put_spec O g m k v) as (Pd & _). cbn zeta in Pd.
    pose proof (Hl (k, v) (or_introl eq_refl)) as Hk. cbn [fst] in Hk.
    apply IH.
    - rewrite Pd. now apply nodup_upd.
    - rewrite Pd. apply forallb_upd; [|exact W]. unfold wf_rec. cbn [fst snd]. now rewrite Hk, pack_wf.
    - intros kv Hin. apply Hl. now right.
  Qed.

  Lemma uid_wf i : wf_value (uid_of i) = true.
  Proof.
    unfold uid_of, wf_value.
    assert (Cn : Forall (fun b => is_space b = false) (print_N (N.of_nat i)))
      by (eapply Forall_impl; [|apply print_N_clean]; intros b [Hb _]; exact Hb).
    apply andb_true_iff. split.
    - unfold no_tab_lf. apply forallb_forall. apply Forall_forall.
      change (fun b => negb (is_tab b) && negb (is_lf b) = true) with (fun b => ntl b = true).
      constructor; [reflexivity | now apply space_free_ntl].
    - change (x75 :: print_N (N.of_nat i)) with ([x75] ++ print_N (N.of_nat i)).
      apply ends_nonspace_app, ends_nonspace_clean; [apply print_N_nonempty | exact Cn].
  Qed.

  Lemma printN_wf n : wf_value (print_N n) = true.
  Proof.
    assert (Cn : Forall (fun b => is_space b = false) (print_N n))
      by (eapply Forall_impl; [|apply print_N_clean]; intros b [Hb _]; exact Hb).
    unfold wf_value. apply andb_true_iff. split.
    - unfold no_tab_lf. apply forallb_forall. apply Forall_forall.
      change (fun b => negb (is_tab b) && negb (is_lf b) = true) with (fun b => ntl b = true). now apply space_free_ntl.
    - apply ends_nonspace_clean; [apply print_N_nonempty | exact Cn].
  Qed.

  Lemma merge_good i src dst :
    good i dst -> (forall kv, In kv (query_all (data src)) -> wf_key (fst kv) = true) ->
    good i (merge_db O inits g (uid_of i) src dst).
  Proof.
    intros [((N1 & W1 & N2 & W2) & Hu & Hn) Hid] Hs.
    unfold merge_db. rewrite merge_run_unfold.
    destruct (after_metas inits src dst) as (A & B & C & D & E & F). cbn zeta in A.
    set (m1 := metas (mk_merger inits dst) (meta src)) in *.
    destruct (puts_wf (query_all (data src)) m1) as [ND' W']; [now rewrite A | now rewrite A | exact Hs|].
    destruct (puts_spec O g (query_all (data src)) m1) as (P1 & _).
    set (m2 := puts O g m1 (query_all (data src))) in *.
    assert (Mm : meta (m_db m2) = meta dst) by (rewrite P1, A; reflexivity).
    unfold m_close. destruct (rd g (merged_entries m2) =? 0)%Z; cbn [m_db].
    - unfold good, good_src, wf_db, is_user_db, get_user_id. rewrite Mm. repeat split; assumption.
    - unfold good, good_src, wf_db, is_user_db, get_user_id. cbn [meta data meta_update]. rewrite Mm.
      repeat split; try assumption.
      + now apply nodup_upd, nodup_upd.
      + apply forallb_upd; [unfold wf_meta_rec; cbn [fst snd]; now rewrite uid_wf|].
        apply forallb_upd; [unfold wf_meta_rec; cbn [fst snd]; now rewrite printN_wf | exact W2].
      + rewrite !find_upd_other by discriminate. exact Hu.
      + rewrite !find_upd_other by discriminate. exact Hn.
      + now rewrite find_upd_same.
  Qed.

  (** * Restore of a snapshot taken from a good dictionary *)

  Lemma restore_of_snapshot uid src dest : good_src src ->
    exists temp, NoDup (keys (data temp)) /\ (forall k, find k (data temp) = find k (data src)) /\
      um_restore uid dict_name (uniform_backup src) dest =
        (merge_db O inits g uid temp (open_rw ver uid dict_name dest), RestoreOk).
  Proof.
    intros ((N1 & W1 & N2 & W2) & Hu & Hn).
    unfold Manager.um_restore.
    rewrite uniform_restore_backup; [|exact W2 | now rewrite query_all_wf].
    rewrite query_all_wf by exact W1.
    set (T0 := create_metadata ver uid s_dot_temp empty_db).
    set (temp := {| meta := upd_all (meta src) (meta T0); data := upd_all (data src) (data T0) |}).
    assert (Fm : forall k, find k (meta temp) = match find k (meta src) with Some v => Some v | None => find k (meta T0) end)
      by (intro k; apply upd_all_find; exact N2).
    assert (Fd : forall k, find k (data temp) = find k (data src)).
    { intro k. subst temp. cbn [data]. rewrite upd_all_find by exact N1. destruct (find k (data src)); reflexivity. }
    assert (U : is_user_db temp = true).
    { unfold is_user_db in *. rewrite Fm. destruct (find mk_db_type (meta src)); [exact Hu|discriminate]. }
    assert (Nm : get_db_name temp = dict_name) by (unfold get_db_name; rewrite Fm, Hn; reflexivity).
    exists temp. split; [apply upd_all_nodup; constructor|]. split; [exact Fd|].
    rewrite U, Nm. cbn [negb is_empty dict_name]. rewrite bytes_eqb_refl. reflexivity.
  Qed.

  Lemma temp_query src temp : wf_db src -> NoDup (keys (data temp)) ->
    (forall k, find k (data temp) = find k (data src)) ->
    (forall k v, find k (data src) = Some v -> In (k, v) (query_all (data temp))) /\
    (forall kv, In kv (query_all (data temp)) -> wf_key (fst kv) = true /\ find (fst kv) (data src) = Some (snd kv)).
  Proof.
    intros (N1 & W1 & _) NDt Fd. split.
    - intros k v F. unfold query_all. apply filter_In. split; [apply find_some_in; now rewrite Fd|].
      cbn [fst]. apply find_some_in in F. rewrite forallb_forall in W1. specialize (W1 _ F).
      unfold wf_rec in W1. apply andb_true_iff in W1. destruct W1 as [Wk _]. cbn [fst] in Wk.
      now rewrite (wf_key_not_below_sp _ Wk).
    - intros [k v] Hin. apply filter_In in Hin. destruct Hin as [Hin _]. cbn [fst snd].
      apply (in_find_nodup _ _ _ NDt) in Hin. rewrite Fd in Hin. split; [|exact Hin].
      apply find_some_in in Hin. rewrite forallb_forall in W1. specialize (W1 _ Hin).
      unfold wf_rec in W1. apply andb_true_iff in W1. apply W1.
  Qed.

  Lemma open_rw_good i d : good i d -> open_rw ver (uid_of i) dict_name d = d.
  Proof. intros [(_ & _ & Hn) _]. unfold open_rw. now rewrite Hn. Qed.

  Theorem restore_law i src dest : good_src src -> good i dest ->
    let r := fst (um_restore (uid_of i) dict_name (uniform_backup src) dest) in
    good i r /\ forall k, mg r k = Z.max (mg dest k) (mg src k).
  Proof.
    intros Gs Gd. cbn zeta.
    destruct (restore_of_snapshot (uid_of i) src dest Gs) as (temp & NDt & Fd & E).
    rewrite E. cbn [fst]. rewrite (open_rw_good i dest Gd).
    destruct (temp_query src temp (proj1 Gs) NDt Fd) as [Q1 Q2].
    split.
    - apply merge_good; [exact Gd|]. intros kv Hin. apply (Q2 kv Hin).
    - intro k. unfold mg at 1 3. destruct (find k (data src)) as [v|] eqn:F.
      + destruct (merge_entry O dee_ok inits g (uid_of i) temp dest k v NDt (Q1 k v F)) as (s & Fs & Cs & _).
        rewrite Fs, Cs, merged_commits_abs. unfold our_commits, mg.
        destruct (find k (data dest)); cbn [Z.abs]; lia.
      + rewrite merge_untouched.
        * pose proof (mg_ge dest k). unfold mg in *. destruct (find k (data dest)); lia.
        * intro C. unfold keys in C. apply in_map_iff in C. destruct C as (kv & E1 & E2).
          destruct (Q2 kv E2) as [_ F2]. rewrite E1, F in F2. discriminate.
  Qed.
  (** * Synchronize: merge every listed snapshot, then publish *)

  Lemma restores_law i : forall (srcs : list db) dest, Forall good_src srcs -> good i dest ->
    let r := fold_left (fun d f => fst (um_restore (uid_of i) dict_name f d)) (map uniform_backup srcs) dest in
    good i r /\ forall k, mg r k = maxl (mg dest k) (map (fun s => mg s k) srcs).
  Proof.
    induction srcs as [|a srcs IH]; intros dest Hs Gd; cbn zeta.
    - split; [exact Gd | reflexivity].
    - inversion Hs as [|? ? H1 H2]; subst. cbn [map fold_left].
      destruct (restore_law i a dest H1 Gd) as [G1 M1]. cbn zeta in G1, M1.
      destruct (IH _ H2 G1) as [G2 M2]. cbn zeta in G2, M2. split; [exact G2|].
      intro k. rewrite M2, M1. reflexivity.
  Qed.

  Lemma sync_law i (srcs : list db) d : Forall good_src srcs -> good i d ->
    exists r, um_sync (uid_of i) dict_name (map uniform_backup srcs) d = (r, uniform_backup r) /\
      good i r /\ forall k, mg r k = maxl (mg d k) (map (fun s => mg s k) srcs).
  Proof.
    intros Hs Gd. destruct (restores_law i srcs d Hs Gd) as [G M]. cbn zeta in G, M.
    eexists. split; [|split; [exact G | exact M]].
    unfold Manager.um_sync, Manager.um_backup. destruct G as [_ Hid]. rewrite Hid, bytes_eqb_refl. reflexivity.
  Qed.

  (** * the world, with the dictionaries the published snapshots were taken from *)

  Definition snap_rel (f : option bytes) (s : option db) : Prop :=
    match f, s with
    | None, None => True
    | Some f, Some s => f = uniform_backup s /\ good_src s
    | _, _ => False
    end.

  Definition winv (N : nat) (w : world) (ss : list (option db)) : Prop :=
    length (w_dbs w) = N /\ length (w_snaps w) = N /\ length ss = N /\
    (forall i, (i < N)%nat -> good i (get_db w i)) /\
    (forall j, (j < N)%nat -> snap_rel (nth j (w_snaps w) None) (nth j ss None)).

  Definition sel {A} (l : list (option A)) (order : list nat) : list A :=
    flat_map (fun j => match nth j l None with Some x => [x] | None => [] end) order.

  Lemma sel_snaps N w ss order : winv N w ss -> (forall j, In j order -> (j < N)%nat) ->
    snaps_in_order w order = map uniform_backup (sel ss order) /\ Forall good_src (sel ss order).
  Proof.
    intros (_ & _ & _ & _ & R) Ho. unfold snaps_in_order, sel.
    induction order as [|j order IH]; [split; [reflexivity|constructor]|].
    cbn [flat_map]. destruct IH as [E F]; [intros j' Hj'; apply Ho; now right|].
    specialize (R j (Ho j (or_introl eq_refl))). unfold snap_rel in R.
    destruct (nth j (w_snaps w) None) as [f|]; destruct (nth j ss None) as [s0|]; try contradiction.
    - destruct R as [-> Gs]. cbn [app map]. rewrite E. split; [reflexivity | now constructor].
    - cbn [app]. now split.
  Qed.

  Definition tsv (k : bytes) (o : option db) : Z := match o with Some s => mg s k | None => (-1)%Z end.

  Definition abs (k : bytes) (w : world) (ss : list (option db)) : astate :=
    (map (fun d => mg d k) (w_dbs w), map (tsv k) ss).

  Lemma nth_ms k w i : nth i (map (fun d => mg d k) (w_dbs w)) (-1)%Z = mg (get_db w i) k.
  Proof. unfold get_db. change (-1)%Z with (mg empty_db k). apply (map_nth (fun d => mg d k)). Qed.

  Lemma nth_ts k ss j : nth j (map (tsv k) ss) (-1)%Z = tsv k (nth j ss None).
  Proof. change (-1)%Z with (tsv k None). apply map_nth. Qed.

  Lemma maxl_sel k ss order : forall b, (-1 <= b)%Z ->
    maxl b (map (fun s => mg s k) (sel ss order)) = maxl b (map (fun j => nth j (map (tsv k) ss) (-1)%Z) order).
  Proof.
    induction order as [|j order IH]; intros b Hb; [reflexivity|].
    unfold sel. cbn [flat_map map]. fold (sel ss order). rewrite nth_ts.
    destruct (nth j ss None) as [s0|]; cbn [app map tsv].
    - unfold maxl. cbn [fold_left]. apply IH. lia.
    - unfold maxl at 2. cbn [fold_left]. replace (Z.max b (-1)) with b by lia. now apply IH.
  Qed.

  Lemma sync_step N w ss i order : winv N w ss -> (i < N)%nat -> (forall j, In j order -> (j < N)%nat) ->
    let w' := step w (OSync i order) in
    let ss' := set_nth i (Some (get_db w' i)) ss in
    winv N w' ss' /\ forall k, abs k w' ss' = astep (abs k w ss) (i, order).
  Proof.
    intros W Hi Ho. destruct (sel_snaps N w ss order W Ho) as [Es Gs].
    destruct W as (L1 & L2 & L3 & G & R).
    destruct (sync_law i (sel ss order) (get_db w i) Gs (G i Hi)) as (r & Er & Gr & Mr).
    cbn zeta. unfold Manager.step. cbn [step_ret]. rewrite Es, Er. cbn [fst].
    set (w1 := set_snap (set_db w i r) i (uniform_backup r)).
    assert (Gd : forall i', get_db w1 i' = if Nat.eqb i i' && Nat.ltb i N then r else get_db w i').
    { intro i'. change (get_db w1 i') with (get_db (set_db w i r) i'). rewrite get_set_db, L1. reflexivity. }
    assert (Gi : get_db w1 i = r).
    { rewrite Gd, Nat.eqb_refl. apply Nat.ltb_lt in Hi. now rewrite Hi. }
    rewrite Gi. split.
    - split; [unfold w1; cbn [w_dbs set_snap set_db]; now rewrite length_set_nth|].
      split; [unfold w1; cbn [w_snaps set_snap set_db]; now rewrite length_set_nth|].
      split; [now rewrite length_set_nth|]. split.
      + intros i' Hi'. rewrite Gd. destruct (Nat.eqb i i') eqn:E; cbn [andb]; [|now apply G].
        apply Nat.eqb_eq in E. subst i'. destruct (Nat.ltb i N); [exact Gr | now apply G].
      + intros j Hj. unfold w1. cbn [w_snaps set_snap set_db]. rewrite !nth_set_nth, L2, L3.
        destruct (Nat.eqb i j && Nat.ltb i N); [|now apply R]. cbn [snap_rel]. split; [reflexivity | apply Gr].
    - intro k. unfold abs, astep, w1. cbn [fst snd w_dbs set_snap set_db]. rewrite !map_set_nth. cbn [tsv].
      rewrite nth_ms, Mr, (maxl_sel k ss order _ (mg_ge _ _)). reflexivity.
  Qed.

  (** * rounds of Synchronize *)

  Definition sync_ops (ios : list (nat * list nat)) : list op := map (fun io => OSync (fst io) (snd io)) ios.

  Fixpoint wrun (ios : list (nat * list nat)) (w : world) (ss : list (option db)) : world * list (option db) :=
    match ios with
    | [] => (w, ss)
    | io :: r =>
        let w' := step w (OSync (fst io) (snd io)) in
        wrun r w' (set_nth (fst io) (Some (get_db w' (fst io))) ss)
    end.

  Lemma wrun_spec N ios : forall w ss, winv N w ss -> orders_ok N ios ->
    winv N (fst (wrun ios w ss)) (snd (wrun ios w ss)) /\
    fst (wrun ios w ss) = run (sync_ops ios) w /\
    forall k, abs k (fst (wrun ios w ss)) (snd (wrun ios w ss)) = arun ios (abs k w ss).
  Proof.
    induction ios as [|[i order] ios IH]; intros w ss W Ho; [cbn; tauto|].
    destruct (Ho (i, order) (or_introl eq_refl)) as (Hi & _ & Hj). cbn [fst snd] in Hi, Hj.
    destruct (sync_step N w ss i order W Hi Hj) as [W1 A1]. cbn zeta in W1, A1.
    cbn [wrun fst snd]. destruct (IH _ _ W1) as (W2 & E2 & A2); [intros io Hin; apply Ho; now right|].
    split; [exact W2|]. split.
    - rewrite E2. reflexivity.
    - intro k. rewrite A2, A1. reflexivity.
  Qed.

  (** Two rounds of Synchronize – in each round every installation synchronises at least once,
      in any order and with any repetitions, the sync directory listing everybody – starting
      from good dictionaries and no published snapshot: afterwards all installations have the
      same keys, each with the same commit magnitude. *)
  Theorem sync_two_rounds_converge N w p q :
    length (w_dbs w) = N -> w_snaps w = repeat None N ->
    (forall i, (i < N)%nat -> good i (get_db w i)) ->
    orders_ok N p -> orders_ok N q -> covers N p -> covers N q ->
    let w' := run (sync_ops p ++ sync_ops q) w in
    forall i i' k, (i < N)%nat -> (i' < N)%nat -> mg (get_db w' i) k = mg (get_db w' i') k.
  Proof.
    intros L Sn G Op Oq Cp Cq. cbn zeta. intros i i' k Hi Hi'.
    assert (W0 : winv N w (repeat None N)).
    { split; [exact L|]. split; [rewrite Sn; apply repeat_length|]. split; [apply repeat_length|].
      split; [exact G|]. intros j Hj. rewrite Sn, !nth_repeat. exact I. }
    assert (Opq : orders_ok N (p ++ q)).
    { intros io Hin. apply in_app_or in Hin. destruct Hin; [now apply Op | now apply Oq]. }
    destruct (wrun_spec N (p ++ q) w (repeat None N) W0 Opq) as (_ & E & A).
    unfold sync_ops in *. rewrite map_app in E. rewrite <- E. rewrite <- !nth_ms.
    specialize (A k). unfold abs in A at 1. apply (f_equal fst) in A. cbn [fst] in A. rewrite A.
    unfold arun. rewrite fold_left_app. unfold abs. cbn [w_dbs]. rewrite map_repeat'. cbn [tsv].
    apply (two_rounds_converge N (map (fun d => mg d k) (w_dbs w)) p q); try assumption.
    - now rewrite map_length.
    - intros j _. rewrite nth_ms. apply mg_ge.
  Qed.
End SyncProofs.
