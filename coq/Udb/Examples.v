(** C17 – concrete dictionaries used as non-vacuity witnesses (all facts by computation). *)
From Coq Require Import List NArith ZArith Bool Lia.
From Coq.Strings Require Import Byte.
From RimeV Require Import Base.Bytes Udb.Value Udb.ValueProofs Udb.Merge Udb.MergeProofs Udb.Tsv Udb.TsvProofs
  Udb.Manager Udb.ManagerProofs Udb.SyncAbstract Udb.SyncProofs.
Import ListNotations.

Definition ex_k1 : bytes := [x61; x20; x09; x41].                    (* "a <TAB>A" *)
Definition ex_k2 : bytes := [x62; x20; x09; x42].                    (* "b <TAB>B" *)
Definition ex_k3 : bytes := [x63; x20; x09; xe4; xb8; xad].          (* "c <TAB>" U+4E2D *)
Definition ex_v_3_3 : bytes := [x63; x3d; x33; x20; x64; x3d; x30; x20; x74; x3d; x33].          (* "c=3 d=0 t=3" *)
Definition ex_v_1_1 : bytes := [x63; x3d; x31; x20; x64; x3d; x30; x20; x74; x3d; x31].          (* "c=1 d=0 t=1" *)
Definition ex_v_m5_4 : bytes := [x63; x3d; x2d; x35; x20; x64; x3d; x30; x20; x74; x3d; x34].    (* "c=-5 d=0 t=4" *)
Definition ex_v_m1_2 : bytes := [x63; x3d; x2d; x31; x20; x64; x3d; x30; x20; x74; x3d; x32].    (* "c=-1 d=0 t=2" *)
Definition ex_10 : bytes := [x31; x30].
Definition ex_20 : bytes := [x32; x30].
Definition ex_100 : bytes := [x31; x30; x30].
Definition ex_u0 : bytes := [x75; x30].
Definition ex_u1 : bytes := [x75; x31].
Definition ex_ver : bytes := [x31].                                   (* stands for RIME_VERSION *)

Definition ex_meta (tick uid : bytes) : amap :=
  [(mk_db_name, dict_name); (mk_db_type, s_userdb); (mk_tick, tick); (mk_user_id, uid)].

(** ours: tick 10, a -> 3, b -> 1;  theirs: tick 20, a -> -5, c -> -1 *)
Definition ex_ours : db := {| meta := ex_meta ex_10 ex_u0; data := [(ex_k1, ex_v_3_3); (ex_k2, ex_v_1_1)] |}.
Definition ex_theirs : db := {| meta := ex_meta ex_20 ex_u1; data := [(ex_k1, ex_v_m5_4); (ex_k3, ex_v_m1_2)] |}.
(** a snapshot without entries but with a larger tick *)
Definition ex_empty_100 : db := {| meta := ex_meta ex_100 ex_u1; data := [] |}.

Lemma erased_print_ok : dee_print_ok erased_ops.
Proof. intro d. split; [repeat constructor | discriminate]. Qed.

Lemma ex_theirs_wf : wf_db ex_theirs.
Proof.
  repeat split; try reflexivity.
  - repeat constructor; cbn; intuition discriminate.
  - repeat constructor; cbn; intuition discriminate.
Qed.

Lemma ex_theirs_nodup : NoDup (keys (data ex_theirs)).
Proof. apply ex_theirs_wf. Qed.

Lemma ex_theirs_nonempty : query_all (data ex_theirs) <> [].
Proof. discriminate. Qed.

(** the merge of the example: a -> -5 (larger magnitude wins, with its sign), b kept,
    c added, every merged entry stamped with tick 20 = max 10 20 *)
Lemma ex_merge_result :
  dump erased_ops (merge_db erased_ops true 0 ex_u0 ex_theirs ex_ours) =
    [(ex_k1, (-5)%Z, 20%N); (ex_k2, 1%Z, 1%N); (ex_k3, (-1)%Z, 20%N)]
  /\ get_tick_count (merge_db erased_ops true 0 ex_u0 ex_theirs ex_ours) = 20%N.
Proof. vm_compute. split; reflexivity. Qed.

(** backup on u1, restore into an empty dictionary of u0: keys and counts come back *)
Lemma ex_roundtrip_result :
  let snap := snd (um_backup ex_ver ex_u1 dict_name ex_theirs) in
  let res := um_restore erased_ops true 0 ex_ver ex_u0 dict_name snap (create_metadata ex_ver ex_u0 dict_name empty_db) in
  map (fun e => (fst (fst e), snd (fst e))) (dump erased_ops (fst res)) = [(ex_k1, (-5)%Z); (ex_k3, (-1)%Z)].
Proof. vm_compute. reflexivity. Qed.

Lemma ex_roundtrip_hyps :
  get_user_id ex_theirs = ex_u1 /\ is_user_db ex_theirs = true /\ find mk_db_name (meta ex_theirs) = Some dict_name.
Proof. vm_compute. repeat split; reflexivity. Qed.

(** the unconditional tick statement fails on the empty snapshot *)
Lemma ex_empty_snapshot_tick :
  get_tick_count (merge_db erased_ops true 0 ex_u0 ex_empty_100 ex_ours) = 10%N /\
  N.max (get_tick_count ex_ours) (snapshot_tick ex_empty_100) = 100%N.
Proof. vm_compute. split; reflexivity. Qed.

(** a merger whose counter is not initialised and whose storage held -1: the single Put
    reports failure, CloseMerge sees 0 and leaves the tick at 10 although an entry was merged *)
Definition ex_one : db := {| meta := ex_meta ex_20 ex_u1; data := [(ex_k1, ex_v_m5_4)] |}.
Lemma ex_uninitialised_counter :
  get_tick_count (merge_db erased_ops false (-1) ex_u0 ex_one ex_ours) = 10%N /\
  m_uninit (merge_run erased_ops false (-1) ex_u0 ex_one ex_ours) = true /\
  get_tick_count (merge_db erased_ops false 0 ex_u0 ex_one ex_ours) = 20%N.
Proof. vm_compute. repeat split; reflexivity. Qed.

(** import rule on concrete counts *)
Lemma ex_import_rule :
  imported_commits 3 5 = 5%Z /\ imported_commits (-5) 2 = 2%Z /\ imported_commits 3 (-1) = (-3)%Z /\
  imported_commits 2 (-7) = (-7)%Z /\ imported_commits 4 0 = 4%Z.
Proof. vm_compute. repeat split; reflexivity. Qed.

(** export writes "A<TAB>a<TAB>3" for the entry a -> 3 and import parses it back *)
Lemma ex_export_line :
  tidy [x61] /\ (0 <= commits (unpack erased_ops ex_v_3_3))%Z /\
  table_formatter erased_ops ex_k1 ex_v_3_3 = Some [[x41]; [x61]; [x33]] /\
  option_map fst (table_parser erased_ops [[x41]; [x61]; [x33]]) = Some ex_k1.
Proof. repeat split; try discriminate; vm_compute; congruence. Qed.

(** * Synchronize between three installations *)

Definition ex_u2 : bytes := [x75; x32].
Definition ex_v_m3_3 : bytes := [x63; x3d; x2d; x33; x20; x64; x3d; x30; x20; x74; x3d; x33].   (* "c=-3 d=0 t=3" *)

(** u0: a -> 3;  u1: a -> -5, b -> 1;  u2: c -> -1;  no snapshot published yet *)
Definition ex_world : world := {|
  w_dbs := [ {| meta := ex_meta ex_10 ex_u0; data := [(ex_k1, ex_v_3_3)] |};
             {| meta := ex_meta ex_20 ex_u1; data := [(ex_k1, ex_v_m5_4); (ex_k2, ex_v_1_1)] |};
             {| meta := ex_meta ex_10 ex_u2; data := [(ex_k3, ex_v_m1_2)] |} ];
  w_snaps := [None; None; None]; w_files := [] |}.

Definition ex_all : list nat := [0; 1; 2]%nat.     (* the sync directory lists every installation *)

(** (key, |commits|) of every entry *)
Definition mags (O : dee_ops) (d : db) : list (bytes * Z) :=
  map (fun e => (fst (fst e), Z.abs (snd (fst e)))) (dump O d).

Definition ex_run (ops : list op) (w : world) : world := run erased_ops true 0 ex_ver ops w.

(** every installation synchronises twice, but back to back: u0 never sees what u1 and u2 have *)
Lemma ex_sync_twice_any_order :
  let w := ex_run [OSync 0 ex_all; OSync 0 ex_all; OSync 1 ex_all; OSync 1 ex_all; OSync 2 ex_all; OSync 2 ex_all] ex_world in
  mags erased_ops (get_db w 0) = [(ex_k1, 3%Z)] /\
  mags erased_ops (get_db w 2) = [(ex_k1, 5%Z); (ex_k2, 1%Z); (ex_k3, 1%Z)].
Proof. vm_compute. split; reflexivity. Qed.

(** two rounds (each installation once per round, the rounds in different orders): all agree *)
Lemma ex_sync_two_rounds :
  let w := ex_run [OSync 0 ex_all; OSync 1 ex_all; OSync 2 ex_all; OSync 2 ex_all; OSync 0 ex_all; OSync 1 ex_all] ex_world in
  mags erased_ops (get_db w 0) = [(ex_k1, 5%Z); (ex_k2, 1%Z); (ex_k3, 1%Z)] /\
  mags erased_ops (get_db w 1) = mags erased_ops (get_db w 0) /\ mags erased_ops (get_db w 2) = mags erased_ops (get_db w 0).
Proof. vm_compute. repeat split; reflexivity. Qed.

(** a tie of magnitudes with opposite signs never converges in sign: each side keeps its own *)
Definition ex_world_tie : world := {|
  w_dbs := [ {| meta := ex_meta ex_10 ex_u0; data := [(ex_k1, ex_v_3_3)] |};
             {| meta := ex_meta ex_20 ex_u1; data := [(ex_k1, ex_v_m3_3)] |} ];
  w_snaps := [None; None]; w_files := [] |}.

Lemma ex_sync_sign_tie :
  let w := ex_run [OSync 0 [0; 1]%nat; OSync 1 [0; 1]%nat; OSync 0 [0; 1]%nat; OSync 1 [0; 1]%nat; OSync 0 [0; 1]%nat; OSync 1 [0; 1]%nat]
                  ex_world_tie in
  map (fun e => snd (fst e)) (dump erased_ops (get_db w 0)) = [3%Z] /\
  map (fun e => snd (fst e)) (dump erased_ops (get_db w 1)) = [(-3)%Z] /\
  mags erased_ops (get_db w 0) = mags erased_ops (get_db w 1).
Proof. vm_compute. repeat split; reflexivity. Qed.

(** * whole-file export / import *)

Lemma ex_ours_wf : wf_db ex_ours /\ forallb wf_export_rec (data ex_ours) = true /\ is_user_db ex_ours = true.
Proof.
  split; [|split; reflexivity]. repeat split; try reflexivity; repeat constructor; cbn; intuition discriminate.
Qed.

(** ours exported (a -> 3, b -> 1); their dictionary (a -> -5, c -> -1) imports the file:
    the positive count resurrects the deleted a (max (-5) 3 = 3, its tick 4 kept), b is new
    with tick 0, c is untouched *)
Lemma ex_export_import_result :
  match um_export erased_ops ex_ours with
  | Some (f, n) =>
      n = 2%nat /\
      dump erased_ops (fst (um_import erased_ops ex_ver ex_u1 dict_name f ex_theirs)) =
        [(ex_k1, 3%Z, 4%N); (ex_k2, 1%Z, 0%N); (ex_k3, (-1)%Z, 2%N)] /\
      snd (um_import erased_ops ex_ver ex_u1 dict_name f ex_theirs) = Some 2%nat
  | None => False
  end.
Proof. vm_compute. repeat split; reflexivity. Qed.

(** the example world meets the hypotheses of the convergence theorem *)
Definition ex_round1 : list (nat * list nat) := [(0, ex_all); (1, ex_all); (2, ex_all)]%nat.
Definition ex_round2 : list (nat * list nat) := [(2, ex_all); (0, ex_all); (1, ex_all)]%nat.

Lemma erased_print_clean : forall d : D erased_ops,
  Forall (fun b => is_space b = false) (d_print erased_ops d) /\ d_parse erased_ops (d_print erased_ops d) <> None.
Proof. intro d. split; [repeat constructor | discriminate]. Qed.

Lemma ex_world_good : forall i, (i < 3)%nat -> good i (get_db ex_world i).
Proof.
  intros i Hi. assert (C : (i = 0 \/ i = 1 \/ i = 2)%nat) by lia.
  destruct C as [E|[E|E]]; subst i; (split; [split; [|split; reflexivity] | reflexivity]);
    repeat split; try reflexivity; repeat constructor; cbn; intuition discriminate.
Qed.

Lemma ex_rounds_ok : orders_ok 3 ex_round1 /\ orders_ok 3 ex_round2 /\ covers 3 ex_round1 /\ covers 3 ex_round2.
Proof.
  assert (A : forall j, (j < 3)%nat <-> In j ex_all) by (intro j; cbn; lia).
  assert (Oo : forall r, (forall io, In io r -> (fst io < 3)%nat /\ snd io = ex_all) -> orders_ok 3 r).
  { intros r H io Hin. destruct (H io Hin) as [H1 H2]. rewrite H2. split; [exact H1|]. split; intros j Hj; now apply A. }
  split; [apply Oo; intros io [<-|[<-|[<-|[]]]]; cbn; split; (lia || reflexivity)|].
  split; [apply Oo; intros io [<-|[<-|[<-|[]]]]; cbn; split; (lia || reflexivity)|].
  split; intros i Hi; exists ex_all; assert (C : (i = 0 \/ i = 1 \/ i = 2)%nat) by lia;
    destruct C as [E|[E|E]]; subst i; cbn; tauto.
Qed.
