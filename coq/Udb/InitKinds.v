(** C17 – vocabulary of the facts gen/udb_inits.py extracts from
    src/rime/dict/user_db.h/.cc (which data members are initialised before
    any method can read them).  Model file: definitions only. *)
From Coq Require Import List String Bool.
Import ListNotations.

Inductive init_kind :=
| InClass          (* default member initialiser:  int x_ = 0; *)
| CtorInitList     (* constructor's member initialiser list *)
| CtorBody         (* unconditional top-level assignment in the constructor body, before any read of it *)
| NotInitialised   (* none of the above: the member holds an indeterminate value after construction *)
| Unrecognised.    (* the translator did not understand the source *)

Definition is_init (k : init_kind) : bool :=
  match k with InClass | CtorInitList | CtorBody => true | _ => false end.

Definition field_initialised (fs : list (string * init_kind)) (n : string) : bool :=
  existsb (fun p => String.eqb (fst p) n && is_init (snd p)) fs.
