(** C17 – the TSV snapshot codec (src/rime/dict/tsv.cc) with the userdb and
    table formatters/parsers (user_db.cc:64-97, table_db.cc:18-55).

    A file is its byte content.  [TsvWriter] writes "# <description>", one
    "#@key<TAB>value" line per metadata record and one line per data record the
    formatter accepts.  [TsvReader] reads with getline (LF-terminated; a last
    unterminated line counts), trims trailing isspace bytes, skips empty lines,
    treats lines starting with '#' as comments (while comments are enabled):
    "#@" lines are metadata, "# no comment" switches comment handling off.

    Model file: definitions only. *)
From Coq Require Import List NArith ZArith Bool.
From Coq.Strings Require Import Byte.
From RimeV Require Import Base.Bytes Udb.Value Udb.Merge.
Import ListNotations.

Definition TAB : byte := x09.
Definition LF : byte := x0a.
Definition HASH : byte := x23.
Definition is_tab (b : byte) : bool := Byte.eqb b TAB.
Definition is_lf (b : byte) : bool := Byte.eqb b LF.

(** * string helpers *)

(** [boost::trim_right]: drop the trailing isspace bytes *)
Fixpoint trim_right (s : bytes) : bytes :=
  match s with
  | [] => []
  | b :: r =>
      match trim_right r with
      | [] => if is_space b then [] else [b]
      | r' => b :: r'
      end
  end.

Definition trim (s : bytes) : bytes := trim_right (drop_ws s).

Fixpoint join_tab (row : list bytes) : bytes :=
  match row with
  | [] => []
  | [x] => x
  | x :: r => x ++ TAB :: join_tab r
  end.

Fixpoint last_byte (s : bytes) : option byte :=
  match s with
  | [] => None
  | [b] => Some b
  | _ :: r => last_byte r
  end.

(** getline loop: the LF-terminated lines; a last unterminated non-empty piece counts too *)
Fixpoint lines_of (file : bytes) : list bytes :=
  match file with
  | [] => []
  | b :: r =>
      if is_lf b then [] :: lines_of r
      else match lines_of r with
           | h :: t => (b :: h) :: t
           | [] => [[b]]
           end
  end.

(** * formats *)

Definition is_empty (s : bytes) : bool := match s with [] => true | _ => false end.

(** [userdb_entry_formatter]: key ::= code <TAB> phrase *)
Definition userdb_formatter (k v : bytes) : option (list bytes) :=
  match split_on is_tab k with
  | [code; text] => if is_empty code || is_empty text then None else Some [code; text; v]
  | _ => None
  end.

(** [userdb_entry_parser]: a code without trailing blank gets one ("fix invalid keys") *)
Definition userdb_parser (row : list bytes) : option (bytes * bytes) :=
  match row with
  | code :: text :: rest =>
      if is_empty code || is_empty text then None
      else
        let code' := match last_byte code with Some x20 => code | _ => code ++ [x20] end in
        Some (code' ++ TAB :: text, match rest with v :: _ => v | [] => [] end)
  | _ => None
  end.

Section Table.
  Variable O : dee_ops.

  (** [rime_table_entry_formatter]: phrase <TAB> code <TAB> commits; deleted entries are skipped *)
  Definition table_formatter (k v : bytes) : option (list bytes) :=
    match split_on is_tab k with
    | [code; text] =>
        if is_empty code || is_empty text then None
        else
          let c := commits (unpack O v) in
          if (c <? 0)%Z then None else Some [text; trim code; print_Z c]
    | _ => None
    end.

  (** [rime_table_entry_parser]: the optional third column is the commit count (stoi;
      a throw leaves the default 0) *)
  Definition table_parser (row : list bytes) : option (bytes * bytes) :=
    match row with
    | text :: code :: rest =>
        if is_empty text || is_empty code then None
        else
          let v :=
            match rest with
            | w :: _ =>
                if is_empty w then value0 O
                else match stoi w with
                     | Some c => {| commits := c; dee := d_of_commits O c; tick := 0 |}
                     | None => value0 O
                     end
            | [] => value0 O
            end in
          Some (trim code ++ x20 :: TAB :: text, pack O v)
    | _ => None
    end.
End Table.

(** * writer *)

Definition description_line (descr : bytes) : bytes :=
  if is_empty descr then [] else HASH :: x20 :: descr ++ [LF].

Definition meta_line (kv : bytes * bytes) : bytes :=
  HASH :: x40 :: fst kv ++ TAB :: snd kv ++ [LF].

Definition data_line (fmt : bytes -> bytes -> option (list bytes)) (kv : bytes * bytes) : bytes :=
  match fmt (fst kv) (snd kv) with
  | Some (x :: r) => join_tab (x :: r) ++ [LF]
  | _ => []
  end.

Definition data_counts (fmt : bytes -> bytes -> option (list bytes)) (kv : bytes * bytes) : bool :=
  match fmt (fst kv) (snd kv) with
  | Some (_ :: _) => true
  | _ => false
  end.

(** [TsvWriter::operator()] applied to a Source: over the records the source yields *)
Definition tsv_write (descr : bytes) (fmt : bytes -> bytes -> option (list bytes))
           (metas datas : amap) : bytes :=
  description_line descr ++ concat (map meta_line metas) ++ concat (map (data_line fmt) datas).

Definition tsv_write_count (fmt : bytes -> bytes -> option (list bytes)) (datas : amap) : nat :=
  length (filter (data_counts fmt) datas).

(** * reader, generic in the sink *)

Section Reader.
  Variable S : Type.
  Variable parser : list bytes -> option (bytes * bytes).
  Variable s_meta_put : S -> bytes -> bytes -> S * bool.
  Variable s_put : S -> bytes -> bytes -> S * bool.

  Definition s_no_comment : bytes :=
    [x23; x20; x6e; x6f; x20; x63; x6f; x6d; x6d; x65; x6e; x74].   (* "# no comment" *)

  Record rstate := { r_sink : S; r_comment : bool; r_count : nat }.

  Definition read_line (st : rstate) (raw : bytes) : rstate :=
    let line := trim_right raw in
    match line with
    | [] => st
    | c :: rest =>
        if r_comment st && Byte.eqb c HASH then
          match rest with
          | x40 :: body =>                                   (* "#@" metadata *)
              match split_on is_tab body with
              | [k; v] => {| r_sink := fst (s_meta_put (r_sink st) k v); r_comment := r_comment st; r_count := r_count st |}
              | _ => st
              end
          | _ =>
              if bytes_eqb line s_no_comment
              then {| r_sink := r_sink st; r_comment := false; r_count := r_count st |}
              else st
          end
        else
          match parser (split_on is_tab line) with
          | Some (k, v) =>
              let (s', ok) := s_put (r_sink st) k v in
              {| r_sink := s'; r_comment := r_comment st; r_count := if ok then Datatypes.S (r_count st) else r_count st |}
          | None => st
          end
    end.

  Definition tsv_read (file : bytes) (s0 : S) : rstate :=
    fold_left read_line (lines_of file) {| r_sink := s0; r_comment := true; r_count := 0 |}.
End Reader.

Arguments r_sink {S} _.
Arguments r_comment {S} _.
Arguments r_count {S} _.
