(** C19 – key names and key sequences round-trip through their textual form.
    Property theorems only; each closed by [exact] of a lemma of Key/KeyProofs.v
    or by evaluation over the generated finite tables (Gen/KeyTable.v,
    regenerated from src/rime/key_table.cc on every run). *)
From Coq Require Import List ZArith NArith Bool.
From Coq.Strings Require Import Byte.
From RimeV Require Import Base.Bytes Gen.KeyTable Key.KeyModel Key.KeyProofs.
Import ListNotations.
Local Open Scope Z_scope.

(** (1) The generated tables are well formed: every offset of both entry tables
    lies in the blob and starts a NUL-terminated name; every name is non-empty
    and free of NUL '+' '{' '}'; a one-character name is the ASCII character of
    its own key value; looking up the name of every entry of keys_by_name gives
    its key value back (VoidSymbol aside); every key value of keys_by_keyval
    has a name; keys_by_keyval ends with the sentinel; the 32 modifier slots
    are pairwise distinguishable by name (slot i <-> bit i), none at bit 31,
    and kModifierMask keeps every named bit.  Finite sweep over the generated
    data (2 x 1306 entries + 32 slots today). *)
Theorem C19_tables_wellformed : table_wellformed = true.
Proof. vm_compute. reflexivity. Qed.
Print Assumptions C19_tables_wellformed.

(** (2) Modifiers: for EVERY combination of named modifier bits (all 2^17
    subsets – by induction over the slots, not by enumeration) the text repr()
    writes for it is read back by Parse() as exactly that mask, whatever text
    follows. *)
Theorem C19_mods_roundtrip :
  forall m, named_mask m = true ->
  forall rest m0, parse_from (repr_mods m ++ rest) [] m0 = parse_from rest [] (Z.lor m0 m).
Proof. exact (mods_roundtrip C19_tables_wellformed). Qed.
Print Assumptions C19_mods_roundtrip.

(** non-vacuity: 17 slots carry a name, and Shift+Control+Release is a named
    mask with the expected text *)
Theorem C19_mods_example :
  length (filter (fun o => match o with Some _ => true | None => false end) modifier_name) = 17%nat /\
  named_mask 1073741829 = true /\
  repr_mods 1073741829 =
    [x53;x68;x69;x66;x74;x2b; x43;x6f;x6e;x74;x72;x6f;x6c;x2b; x52;x65;x6c;x65;x61;x73;x65;x2b].
Proof. vm_compute. repeat split; reflexivity. Qed.
Print Assumptions C19_mods_example.

(** (3) Key events: every named key other than VoidSymbol under every
    combination of named modifiers parses back from its repr(). *)
Theorem C19_key_roundtrip :
  forall k m, key_named k = true -> k <> XK_VoidSymbol -> named_mask m = true ->
  parse_key (repr_key (k, m)) = (true, k, m).
Proof. exact (key_roundtrip C19_tables_wellformed). Qed.
Print Assumptions C19_key_roundtrip.

(** non-vacuity: Return (0xff0d) is named, is not VoidSymbol, and
    Control+Alt+Return round-trips; more than a thousand key codes are named *)
Theorem C19_key_example :
  key_named 65293 = true /\ 65293 <> XK_VoidSymbol /\ named_mask 12 = true /\
  parse_key (repr_key (65293, 12)) = (true, 65293, 12) /\
  (1000 <? Z.of_nat (length (filter (fun e => negb (fst e =? XK_VoidSymbol)) resolved_by_name))) = true.
Proof. vm_compute. repeat split; try reflexivity. discriminate. Qed.
Print Assumptions C19_key_example.

(** (4) Key sequences of any length: a sequence of representable events
    (named key <> VoidSymbol under named modifiers; or an unmodified printable
    ASCII character other than the braces) parses back from its notation. *)
Theorem C19_seq_roundtrip :
  forall ks, Forall (fun e => seq_representable e = true) ks ->
  parse_seq (repr_seq ks) = (true, ks).
Proof. exact (seq_roundtrip C19_tables_wellformed). Qed.
Print Assumptions C19_seq_roundtrip.

(** non-vacuity: a, '{', Return, Control+a, space, Shift+Release+braceright –
    all three ways a piece is written occur: a{braceleft}{Return}{Control+a} {Shift+Release+braceright} *)
Theorem C19_seq_example :
  let ks := [(97, 0); (123, 0); (65293, 0); (97, 4); (32, 0); (125, 1073741825)] in
  forallb seq_representable ks = true /\
  repr_seq ks = [x61; x7b;x62;x72;x61;x63;x65;x6c;x65;x66;x74;x7d; x7b;x52;x65;x74;x75;x72;x6e;x7d;
                 x7b;x43;x6f;x6e;x74;x72;x6f;x6c;x2b;x61;x7d; x20;
                 x7b;x53;x68;x69;x66;x74;x2b;x52;x65;x6c;x65;x61;x73;x65;x2b;x62;x72;x61;x63;x65;x72;x69;x67;x68;x74;x7d] /\
  parse_seq (repr_seq ks) = (true, ks).
Proof. vm_compute. repeat split; reflexivity. Qed.
Print Assumptions C19_seq_example.

(** (5a) Parser soundness: when KeyEvent::Parse succeeds the text is either a
    single character, or every '+'-terminated token is the name of a modifier
    slot (its bit is what is or-ed into the mask) and the last token is the
    name, in the blob, of an entry of keys_by_keyval other than VoidSymbol.
    (C code compares C strings: a token is read up to its first NUL.) *)
Theorem C19_parse_key_sound :
  forall s k m, parse_key s = (true, k, m) ->
  (exists c, s = [c] /\ k = schar c /\ m = 0) \/
  ((2 <= length s)%nat /\
   let (ts, l) := split_plus s [] in
   Forall (fun t => is_modifier_text t (RimeGetModifierByName t)) ts /\ m = mask_of ts 0 /\ is_key_text l k).
Proof. exact parse_key_sound. Qed.
Print Assumptions C19_parse_key_sound.

(** (5b) ... hence text that names an unknown modifier or an unknown key fails. *)
Theorem C19_parse_key_unknown_fails :
  forall s, (2 <= length s)%nat ->
  (let (ts, l) := split_plus s [] in
   (exists t, In t ts /\ forall j n, nth_error modifier_name j = Some (Some n) -> cstr t <> cstr n) \/
   (forall k off, In (k, off) keys_by_keyval -> k <> XK_VoidSymbol -> cstr_at key_names off <> cstr l)) ->
  fst (fst (parse_key s)) = false.
Proof. exact parse_key_unknown_fails. Qed.
Print Assumptions C19_parse_key_unknown_fails.

(** non-vacuity: "Shft+a", "Shift+nosuchkey", "Shift+", "+a", "VoidSymbol" and ""
    fail; "Shift+a" succeeds *)
Theorem C19_parse_key_example :
  fst (fst (parse_key [x53;x68;x66;x74;x2b;x61])) = false /\
  fst (fst (parse_key [x53;x68;x69;x66;x74;x2b;x6e;x6f;x73;x75;x63;x68;x6b;x65;x79])) = false /\
  fst (fst (parse_key [x53;x68;x69;x66;x74;x2b])) = false /\
  fst (fst (parse_key [x2b;x61])) = false /\
  fst (fst (parse_key [x56;x6f;x69;x64;x53;x79;x6d;x62;x6f;x6c])) = false /\
  fst (fst (parse_key [])) = false /\
  parse_key [x53;x68;x69;x66;x74;x2b;x61] = (true, 97, 1).
Proof. vm_compute. repeat split; reflexivity. Qed.
Print Assumptions C19_parse_key_example.

(** (5c) When KeySequence::Parse succeeds the text is a concatenation of
    single characters and brace groups {body} (body up to the first '}'), and
    KeyEvent::Parse accepted every one of them – so (5a) applies to each. *)
Theorem C19_parse_seq_sound :
  forall s ks, parse_seq s = (true, ks) ->
  exists pieces, s = concat pieces /\ Forall2 piece_parses pieces ks.
Proof. exact parse_seq_sound. Qed.
Print Assumptions C19_parse_seq_sound.

(** non-vacuity / the edges of the notation: "a{" is a, '{' (a brace that ends
    the text is an ordinary character); "{}", "{a", "{nosuchkey}" fail *)
Theorem C19_parse_seq_example :
  parse_seq [x61; x7b] = (true, [(97, 0); (123, 0)]) /\
  fst (parse_seq [x7b; x7d]) = false /\
  fst (parse_seq [x7b; x61]) = false /\
  fst (parse_seq [x7b;x6e;x6f;x73;x75;x63;x68;x6b;x65;x79;x7d]) = false.
Proof. vm_compute. repeat split; reflexivity. Qed.
Print Assumptions C19_parse_seq_example.

(** The limits of the domain are real (each witness is replayed on the real
    code by checks/c19.py):  VoidSymbol has a name but does not parse back;
    a mask with an unnamed bit (1 << 24, kHandledMask) loses it;
    a key code without a name is written in hex, which Parse() does not read. *)
Theorem C19_outside_domain_refuted :
  (key_named XK_VoidSymbol = true /\ fst (fst (parse_key (repr_key (XK_VoidSymbol, 0)))) = false) /\
  (named_mask 16777216 = false /\ key_named 97 = true /\ parse_key (repr_key (97, 16777216)) = (true, 97, 0)) /\
  (key_named 4660 = false /\ repr_key (4660, 0) = [x30;x78;x31;x32;x33;x34] /\
   fst (fst (parse_key (repr_key (4660, 0)))) = false).
Proof. vm_compute. repeat split; reflexivity. Qed.
Print Assumptions C19_outside_domain_refuted.
