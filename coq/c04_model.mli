
val negb : bool -> bool

type nat =
| O
| S of nat

val option_map : ('a1 -> 'a2) -> 'a1 option -> 'a2 option

val fst : ('a1 * 'a2) -> 'a1

val snd : ('a1 * 'a2) -> 'a2

val length : 'a1 list -> nat

val app : 'a1 list -> 'a1 list -> 'a1 list

type comparison =
| Eq
| Lt
| Gt

val compOpp : comparison -> comparison

val add : nat -> nat -> nat

val mul : nat -> nat -> nat

val sub : nat -> nat -> nat

module Nat :
 sig
  val pred : nat -> nat

  val sub : nat -> nat -> nat

  val eqb : nat -> nat -> bool

  val leb : nat -> nat -> bool

  val ltb : nat -> nat -> bool

  val max : nat -> nat -> nat

  val min : nat -> nat -> nat

  val divmod : nat -> nat -> nat -> nat -> nat * nat

  val div : nat -> nat -> nat

  val modulo : nat -> nat -> nat
 end

val hd_error : 'a1 list -> 'a1 option

val nth_error : 'a1 list -> nat -> 'a1 option

val map : ('a1 -> 'a2) -> 'a1 list -> 'a2 list

val fold_left : ('a1 -> 'a2 -> 'a1) -> 'a2 list -> 'a1 -> 'a1

val existsb : ('a1 -> bool) -> 'a1 list -> bool

val firstn : nat -> 'a1 list -> 'a1 list

val skipn : nat -> 'a1 list -> 'a1 list

type positive =
| XI of positive
| XO of positive
| XH

type n =
| N0
| Npos of positive

type z =
| Z0
| Zpos of positive
| Zneg of positive

module Pos :
 sig
  val succ : positive -> positive

  val add : positive -> positive -> positive

  val add_carry : positive -> positive -> positive

  val pred_double : positive -> positive

  val compare_cont : comparison -> positive -> positive -> comparison

  val compare : positive -> positive -> comparison

  val eqb : positive -> positive -> bool

  val of_succ_nat : nat -> positive
 end

module N :
 sig
  val compare : n -> n -> comparison

  val eqb : n -> n -> bool

  val leb : n -> n -> bool
 end

module Z :
 sig
  val double : z -> z

  val succ_double : z -> z

  val pred_double : z -> z

  val pos_sub : positive -> positive -> z

  val add : z -> z -> z

  val opp : z -> z

  val sub : z -> z -> z

  val compare : z -> z -> comparison

  val leb : z -> z -> bool

  val ltb : z -> z -> bool

  val eqb : z -> z -> bool

  val max : z -> z -> z

  val of_nat : nat -> z
 end

type text = n list

val text_eqb : text -> text -> bool

type cand = { c_text : text; c_comment : n; c_type : nat; c_start : nat;
              c_end : nat; c_quality : z; c_uniq : nat }

type cache = cand list

val cand_compare : cand -> cand -> z

val in_range : n -> n -> n -> bool

val is_extended_cjk : n -> bool

val charset_ok : cand -> bool

val is_table_phrase : cand -> bool

val is_single_char : cand -> bool

type tr =
| TUnique of cand * bool
| TEcho of cand * bool
| TFifo of cand list
| TUnion of tr list
| TMerged of tr list * nat * bool
| TCache of tr * bool
| TDistinct of tr * bool * text list
| TPrefetch of tr * cand list * bool
| TCharset of tr * bool
| TUniquified of tr * bool * text list
| TSimplified of (cand -> (cand * cand list) option) * tr * cand list * bool

val exhausted : tr -> bool

val peek : tr -> cand option

val rem : tr -> nat

val height : tr -> nat

val compare_default : tr -> tr option -> z

val is_nil : 'a1 list -> bool

val compare0 : tr -> tr option -> cache -> z * tr

type scan_result =
| SFound of nat * tr list
| SErase of tr list
| SNone of tr list

val scan : tr list -> tr list -> cache -> scan_result

val elect_loop : nat -> nat -> tr list -> cache -> tr list * nat

val elect : tr list -> nat -> cache -> tr

val remove_at : nat -> 'a1 list -> 'a1 list

val replace_at : nat -> 'a1 -> 'a1 list -> 'a1 list

val find_text : text -> cache -> nat option

val absorb : cand -> cand -> cand

val rewrite_at : nat -> cand -> cache -> cache

val has_text : text list -> text -> bool

val max_forms : nat

val forms_of : (cand -> (cand * cand list) option) -> cand -> cand list

val distinct_loop :
  (tr -> cache -> (bool * tr) * cache) -> nat -> tr -> text list -> cache ->
  (tr * bool) * cache

val locate :
  (tr -> cache -> (bool * tr) * cache) -> nat -> tr -> cache ->
  (bool * tr) * cache

val uniquify :
  (tr -> cache -> (bool * tr) * cache) -> nat -> text list -> tr -> bool ->
  cache -> ((bool * tr) * bool) * cache

val rearrange :
  (tr -> cache -> (bool * tr) * cache) -> nat -> tr -> cand list -> cand list
  -> cache -> (tr * cand list) * cache

val settle :
  (tr -> cache -> (bool * tr) * cache) -> (cand -> (cand * cand list) option)
  -> tr -> cache -> tr * cache

val dead : tr

val next_d : nat -> tr -> cache -> (bool * tr) * cache

val mk_unique : cand option -> tr

val mk_echo : cand -> tr

val mk_fifo : cand list -> tr

val union_add : tr list -> tr -> tr list

val mk_union : tr list -> tr

val mk_cache : tr -> tr

val mk_distinct : tr -> tr

val mk_prefetch : tr -> tr

val mk_single_char : nat -> tr -> cache -> tr * cache

val mk_charset : nat -> tr -> cache -> tr * cache

val mk_simplified :
  nat -> (cand -> (cand * cand list) option) -> tr -> cache -> tr * cache

val mk_uniquified : nat -> tr -> cache -> tr * cache

val merged_add : tr -> tr -> cache -> tr

val mk_merged : tr

val next : tr -> cache -> (bool * tr) * cache

type menu = { m_res : tr; m_cache : cache }

val menu_new : menu

val add_translation : menu -> tr -> menu

type filt =
| FUniquifier
| FSingleChar
| FCharset
| FSimplifier of (cand -> (cand * cand list) option)

val add_filter : menu -> filt -> menu

val build_menu : tr list -> filt list -> menu

val prepare_loop : nat -> nat -> tr -> cache -> tr * cache

val prepare : nat -> menu -> menu

val candidate_count : menu -> nat

val menu_empty : menu -> bool

val drain : nat -> tr -> cache -> tr * cache

val full_list : menu -> cand list

type page = { pg_size : nat; pg_no : nat; pg_last : bool; pg_cands : cand list }

val create_page : nat -> nat -> menu -> page option * menu

val get_candidate_at : nat -> menu -> cand option * menu

type sess = { s_menu : menu; s_sel : nat; s_ps : nat }

type ctx_menu = { cm_page_no : nat; cm_last : bool; cm_hl : nat;
                  cm_cands : cand list }

val get_context : sess -> ctx_menu option * sess

val highlight : nat -> sess -> bool * sess

val change_page : bool -> sess -> bool * sess

val highlight_on_page : nat -> sess -> bool * sess

val sel_next_page : sess -> sess

val sel_prev_page : sess -> sess

val sel_next_cand : sess -> sess

val sel_prev_cand : sess -> sess

val sel_home : sess -> sess

val iterate : nat -> nat -> menu -> cand list * menu

type op =
| OPrepare of nat
| OCreatePage of nat * nat
| OGetAt of nat
| OGetContext
| OHighlight of nat
| OHighlightOnPage of nat
| OChangePage of bool
| OIterate of nat * nat
| ONextPage
| OPrevPage
| ONextCand
| OPrevCand
| OHome

type obs = { o_ret : nat; o_flag : bool; o_hl : nat;
             o_items : (nat * cand) list }

val number_from : nat -> 'a1 list -> (nat * 'a1) list

val step : sess -> op -> obs * sess

val run : sess -> op list -> obs list * sess

type spec =
| SpUnique of cand option
| SpEcho of cand
| SpFifo of cand list
| SpUnion of spec list
| SpCache of spec
| SpDistinct of spec
| SpPrefetch of spec
| SpSingle of spec
| SpCharset of spec

val build : spec -> tr

type sdict = (n * n list) list

val dict_find : sdict -> n -> n list option

val dedupN : n list -> n list -> n list

val with_text : cand -> text -> cand

val default_of : sdict -> n -> n

val dict_conv : sdict -> cand -> (cand * cand list) option

val dict_a : sdict

val dict_b : sdict

val menu_of : spec list -> filt list -> menu

val run_case : nat -> spec list -> filt list -> op list -> obs list

val nodup_texts : text list -> bool
