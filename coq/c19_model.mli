
val negb : bool -> bool

type nat =
| O
| S of nat

val option_map : ('a1 -> 'a2) -> 'a1 option -> 'a2 option

val fst : ('a1 * 'a2) -> 'a1

val snd : ('a1 * 'a2) -> 'a2

val length : 'a1 list -> nat

val app : 'a1 list -> 'a1 list -> 'a1 list

type comparison =
| Eq
| Lt
| Gt

val compOpp : comparison -> comparison

val add : nat -> nat -> nat

type byte =
| X00
| X01
| X02
| X03
| X04
| X05
| X06
| X07
| X08
| X09
| X0a
| X0b
| X0c
| X0d
| X0e
| X0f
| X10
| X11
| X12
| X13
| X14
| X15
| X16
| X17
| X18
| X19
| X1a
| X1b
| X1c
| X1d
| X1e
| X1f
| X20
| X21
| X22
| X23
| X24
| X25
| X26
| X27
| X28
| X29
| X2a
| X2b
| X2c
| X2d
| X2e
| X2f
| X30
| X31
| X32
| X33
| X34
| X35
| X36
| X37
| X38
| X39
| X3a
| X3b
| X3c
| X3d
| X3e
| X3f
| X40
| X41
| X42
| X43
| X44
| X45
| X46
| X47
| X48
| X49
| X4a
| X4b
| X4c
| X4d
| X4e
| X4f
| X50
| X51
| X52
| X53
| X54
| X55
| X56
| X57
| X58
| X59
| X5a
| X5b
| X5c
| X5d
| X5e
| X5f
| X60
| X61
| X62
| X63
| X64
| X65
| X66
| X67
| X68
| X69
| X6a
| X6b
| X6c
| X6d
| X6e
| X6f
| X70
| X71
| X72
| X73
| X74
| X75
| X76
| X77
| X78
| X79
| X7a
| X7b
| X7c
| X7d
| X7e
| X7f
| X80
| X81
| X82
| X83
| X84
| X85
| X86
| X87
| X88
| X89
| X8a
| X8b
| X8c
| X8d
| X8e
| X8f
| X90
| X91
| X92
| X93
| X94
| X95
| X96
| X97
| X98
| X99
| X9a
| X9b
| X9c
| X9d
| X9e
| X9f
| Xa0
| Xa1
| Xa2
| Xa3
| Xa4
| Xa5
| Xa6
| Xa7
| Xa8
| Xa9
| Xaa
| Xab
| Xac
| Xad
| Xae
| Xaf
| Xb0
| Xb1
| Xb2
| Xb3
| Xb4
| Xb5
| Xb6
| Xb7
| Xb8
| Xb9
| Xba
| Xbb
| Xbc
| Xbd
| Xbe
| Xbf
| Xc0
| Xc1
| Xc2
| Xc3
| Xc4
| Xc5
| Xc6
| Xc7
| Xc8
| Xc9
| Xca
| Xcb
| Xcc
| Xcd
| Xce
| Xcf
| Xd0
| Xd1
| Xd2
| Xd3
| Xd4
| Xd5
| Xd6
| Xd7
| Xd8
| Xd9
| Xda
| Xdb
| Xdc
| Xdd
| Xde
| Xdf
| Xe0
| Xe1
| Xe2
| Xe3
| Xe4
| Xe5
| Xe6
| Xe7
| Xe8
| Xe9
| Xea
| Xeb
| Xec
| Xed
| Xee
| Xef
| Xf0
| Xf1
| Xf2
| Xf3
| Xf4
| Xf5
| Xf6
| Xf7
| Xf8
| Xf9
| Xfa
| Xfb
| Xfc
| Xfd
| Xfe
| Xff

val to_bits :
  byte -> bool * (bool * (bool * (bool * (bool * (bool * (bool * bool))))))

val eqb : bool -> bool -> bool

module Nat :
 sig
  val eqb : nat -> nat -> bool
 end

val rev : 'a1 list -> 'a1 list

val map : ('a1 -> 'a2) -> 'a1 list -> 'a2 list

val flat_map : ('a1 -> 'a2 list) -> 'a1 list -> 'a2 list

val skipn : nat -> 'a1 list -> 'a1 list

type positive =
| XI of positive
| XO of positive
| XH

type n =
| N0
| Npos of positive

type z =
| Z0
| Zpos of positive
| Zneg of positive

module Pos :
 sig
  val succ : positive -> positive

  val add : positive -> positive -> positive

  val add_carry : positive -> positive -> positive

  val pred_double : positive -> positive

  val pred_N : positive -> n

  val mul : positive -> positive -> positive

  val iter : ('a1 -> 'a1) -> 'a1 -> positive -> 'a1

  val div2 : positive -> positive

  val div2_up : positive -> positive

  val compare_cont : comparison -> positive -> positive -> comparison

  val compare : positive -> positive -> comparison

  val eqb : positive -> positive -> bool

  val coq_Nsucc_double : n -> n

  val coq_Ndouble : n -> n

  val coq_lor : positive -> positive -> positive

  val coq_land : positive -> positive -> n

  val ldiff : positive -> positive -> n

  val iter_op : ('a1 -> 'a1 -> 'a1) -> positive -> 'a1 -> 'a1

  val to_nat : positive -> nat

  val of_succ_nat : nat -> positive
 end

module N :
 sig
  val succ_pos : n -> positive

  val coq_lor : n -> n -> n

  val coq_land : n -> n -> n

  val ldiff : n -> n -> n

  val to_nat : n -> nat
 end

val eqb0 : byte -> byte -> bool

val to_N : byte -> n

val of_N : n -> byte option

module Z :
 sig
  val double : z -> z

  val succ_double : z -> z

  val pred_double : z -> z

  val pos_sub : positive -> positive -> z

  val add : z -> z -> z

  val opp : z -> z

  val sub : z -> z -> z

  val mul : z -> z -> z

  val compare : z -> z -> comparison

  val leb : z -> z -> bool

  val ltb : z -> z -> bool

  val eqb : z -> z -> bool

  val to_N : z -> n

  val of_nat : nat -> z

  val of_N : n -> z

  val odd : z -> bool

  val div2 : z -> z

  val shiftl : z -> z -> z

  val shiftr : z -> z -> z

  val coq_lor : z -> z -> z

  val coq_land : z -> z -> z
 end

type bytes = byte list

val byte_of_N : n -> byte

val n_of_byte : byte -> n

val translation_ok : bool

val modifier_name : byte list option list

val key_names : byte list

val keys_by_keyval : (z * n) list

val keys_by_name : (z * n) list

val kModifierMask : z

val xK_VoidSymbol : z

val bytes_eqb : bytes -> bytes -> bool

val cstr : bytes -> bytes

val cstr_at : bytes -> n -> bytes

val modifier_by_name_loop : bytes option list -> nat -> bytes -> z

val rimeGetModifierByName : bytes -> z

val modifier_name_loop : bytes option list -> z -> bytes option

val rimeGetModifierName : z -> bytes option

val resolve : (z * n) list -> (z * bytes) list

val resolved_by_keyval : (z * bytes) list

val resolved_by_name : (z * bytes) list

val keycode_by_name_in : (z * bytes) list -> bytes -> z

val rimeGetKeycodeByName : bytes -> z

val key_name_in : (z * bytes) list -> z -> bytes option

val rimeGetKeyName : z -> bytes option

val ch_plus : byte

val ch_lbrace : byte

val ch_rbrace : byte

type event = z * z

val repr_mods_loop : nat -> nat -> z -> bytes

val repr_mods : z -> bytes

val hex_digit : z -> byte

val hex_digits : nat -> z -> bytes

val repr_keyname : z -> bytes option

val unknown_text : bytes

val repr_key : event -> bytes

val schar : byte -> z

val parse_from : bytes -> bytes -> z -> (bool * z) * z

val parse_key : bytes -> (bool * z) * z

val is_unescaped_character : event -> bool

val repr_piece : event -> bytes

val repr_seq : event list -> bytes

val parse_seq_from : bytes -> bytes option -> event list -> bool * event list

val parse_seq : bytes -> bool * event list

val key_named : z -> bool

val named_bits_of : bytes option list -> z

val named_bits : z

val named_mask : z -> bool

val representable : event -> bool

val seq_representable : event -> bool
